"""C05 — defaults fill omitted values and never override supplied ones.

Correspondence: results of object construction for all subsets of supplied properties vs the
Lean model.  Oracle: direct inspection of the returned object against each declared
property's default (converted by calling the property's element on it, raw when invalid), at
every nesting level of the data.

The property is a statement about (schema, data) pairs, so an answer may depend neither on what
the element was used for before nor on which kind of dict the data arrives in.  Two families make
that explicit:
 * operation histories: every (schema, values) case is a *sequence* on one element (the failing
   case carries the whole sequence and its position, so a replay reproduces the history), and
   `history_case` resolves each default several times, by every route (the class called with no
   value, a property's element called with no value, an outer object built from data omitting
   the property), over valid and invalid class-level defaults of every kind;
 * pre-converted data: the data (or its members) is first passed through a generic untyped
   element - what a caller does who reads an envelope first and hands the payload to the
   specific schema afterwards - and must then be filled with defaults exactly like plain dicts.

"Never an error" is a statement about every way a default can go wrong, not only about the two exception classes the
library expects from a validator.  Two oracle clauses and one family make that explicit:
 * a call without a value never raises, whatever the exception (the expected answer is not computed by asking the
   same element to convert the same default and forgiving whatever that raises);
 * a build from data that omits defaulted properties is compared with the *default-free twin* - the same schema in
   which exactly the properties the data omits (at every nesting level of the data) declare no default: where the twin
   accepts the data, nothing but the defaults can be the cause of an error, so the schema itself must accept it too
   (`default_error_oracle`; schema form, DSL form and inherited classes);
 * numeric defaults over a ladder of magnitudes (10^-12 .. 10^40, ints and floats, both signs, random digits) under
   random numeric keywords, alone, as a member of a model class and of an untyped object, renamed or not
   (`magnitude_case`): arithmetic on a default must not depend on the default being of an everyday size.

"Under the property's Python name" is a statement about each model, and "exactly as if it had been supplied" about every time a
default is delivered - whatever else the declaration is used for and whatever earlier recipients did with what they got:
 * one declaration, several models (`shared_case`): a Property object written once (or its element under a Property of the
   model's own) declared by 2-4 model classes / untyped objects under the same or different Python names, first used in any
   order; every model exposes defaults - and supplied values (`check_supplied_kept`) - under ITS OWN names;
 * caller histories (`caller_history_case`, the "mutate" / "np-mutate" steps of `run_history`): members whose defaults are
   structures (lists of lists, lists of models, objects of containers, composition wrappers around a model, class-level
   defaults), and a caller who writes into the value it received - 0 to 3 levels below the top, in an object built or in the
   answer to a call without a value; every later delivery of the default is compared with what supplying it yields, model
   instances attribute by attribute (`deep`).  The containers of the declared defaults themselves (an invalid default is
   handed out as it is) are never written into."""
import copy
import itertools
import random
import re

from statham.schema.constants import NotPassed
from statham.schema.elements import Element, Object
from statham.schema.elements.base import _AnonymousObject
from statham.schema.exceptions import ValidationError

from harness import core
from harness.callcheck import observe
from harness.framework import Outcome
from harness.gen import SchemaGen, ValueGen, PROP_NAMES, PATTERNS

ID = "C05"
TIE_MODULES = ["StathamModel.Tie"]
ASSUMPTIONS = ["declared properties and their defaults are read from the real element's `properties` mapping"]
N_SCHEMAS = {"quick": 500, "thorough": 15000}
DEFAULTS = [0, False, "", [], {}, None, 1, 1.5, "x", [1, "a"], {"k": 1}, True, "2020-01-01", -3, {"a": {"b": 0}}]


def expected_default(elem):
    d = getattr(elem, "default", NotPassed())
    if isinstance(d, NotPassed):
        return {"np": 1}
    try:
        return core.canon_rval(elem(d))
    except (TypeError, ValidationError):
        return core.canon_rval(d)
    except Exception as exc:  # noqa: BLE001
        return {"exc": type(exc).__name__}


def bump(stats, key, n=1):
    stats[key] = stats.get(key, 0) + n


def _mapping(res):
    m = res._dict if isinstance(res, Object) else res  # pylint: disable=protected-access
    return m if isinstance(m, dict) else None


def check_object(el, v, res, case, out, stats, model_agrees, twin=None, path=""):
    """res = el(v') succeeded, where v' is the dict v, or v pre-converted by a generic element (then `twin` is the result
    for the plain dict v).  Every declared property that v omits must hold its default; declared properties that v
    supplies with an object are checked in the same way against their own element (the nested object is itself "built
    from data that omits a property").  A listed region explains a failure only where the Lean model agrees with the
    result for the plain data and - when the data was pre-converted - the plain-data result shows the very same value."""
    props = getattr(el, "properties", NotPassed())
    if isinstance(props, NotPassed) or not props:
        return
    mapping = _mapping(res)
    if mapping is None:
        return
    twin_mapping = _mapping(twin) if twin is not None else None
    pats = getattr(el, "patternProperties", NotPassed())
    pats = {} if isinstance(pats, NotPassed) else pats
    for name, prop in props.items():
        src = prop.source or name
        region = None
        try:
            if any(re.search(p, src) for p in pats):
                region = "C05-pattern-overlap"
        except re.error:
            continue
        if any(k != src and k == name for k in v):
            region = region or "C05-key-collision"
        if [p.source or n for n, p in props.items()].count(src) > 1:
            region = region or "C05-key-collision"
        if src in v:
            # supplied: the value itself is C04's business; a supplied *object* is data for the property's own schema
            sub_v = v[src]
            if region is None and isinstance(sub_v, dict) and name in mapping and _mapping(mapping[name]) is not None \
                    and isinstance(getattr(prop.element, "properties", None), dict) and len(path) < 40:
                bump(stats, "nested-object-checked")
                sub_twin = twin_mapping.get(name) if twin_mapping is not None else None
                check_object(prop.element, sub_v, mapping[name], case, out, stats, model_agrees, sub_twin, path + name + ".")
            continue
        exp = expected_default(prop.element)
        got = core.canon_rval(mapping[name]) if name in mapping else {"missing": 1}
        kind = "omitted-with-default" if exp != {"np": 1} else "omitted-no-default"
        bump(stats, ("nested-" if path else "") + kind)
        if twin is not None:
            bump(stats, "preconverted-" + ("nested-" if path else "") + kind)
        same_as_plain = True
        if twin is not None:
            same_as_plain = twin_mapping is not None and name in twin_mapping and core.canon_rval(twin_mapping[name]) == got
        if got != exp:
            fid = region if model_agrees and same_as_plain else None
            out.failures.append({"case": case, "what": f"omitted property {src!r} (attribute {path}{name}): expected {exp}, result holds {got}", "finding": fid,
                                 "region": region})
            bump(stats, "default-fail-" + str(fid))
        elif isinstance(res, Object):
            try:
                attr = core.canon_rval(getattr(res, name))
            except AttributeError:
                attr = {"missing-attr": 1}
            if attr != exp:
                out.failures.append({"case": case, "what": f"attribute {path}{name} is {attr}, expected default {exp}", "finding": region if model_agrees and same_as_plain else None,
                                     "region": region})


# ----------------------------------------------------------------------------- pre-converted data

PRE_MODES = ["whole", "envelope", "members"]


def preconvert(v, mode):
    """The dict v as it reaches a caller who has already read it with a generic untyped element (every JSON object inside
    has become the library's attribute-access dict): the whole value, the payload of an envelope, or only the members."""
    generic = Element()
    v = copy.deepcopy(v)        # the values of one sequence share members: whatever the generic element does to its input stays here
    if mode == "whole":
        return generic(v)
    if mode == "envelope":
        return generic({"kind": "payload", "payload": v})["payload"]
    if mode == "members":
        return {k: generic(x) for k, x in v.items()}
    raise ValueError(mode)


def _omits_default(el, v):
    props = getattr(el, "properties", None)
    if not isinstance(props, dict):
        return False
    return any((p.source or n) not in v and not isinstance(getattr(p.element, "default", NotPassed()), NotPassed) for n, p in props.items())


def check_preconverted(el, v, plain_res, mode, case, out, stats, model_agrees):
    """el(v) succeeded on the plain dict v; the same data, pre-converted, must get its defaults on the same terms."""
    try:
        v2 = preconvert(v, mode)
    except Exception:  # noqa: BLE001 - the generic element itself failed: not this property's business
        bump(stats, "preconvert-failed")
        return
    bump(stats, "preconverted-" + mode)
    try:
        res2 = el(v2)
    except Exception as exc:  # noqa: BLE001
        bump(stats, "preconverted-raised")
        if _omits_default(el, v):
            out.failures.append({"case": case, "what": f"data that is accepted as plain dicts raises {type(exc).__name__} when it was read by a generic element "
                                 "before: the defaults of the omitted properties are not delivered", "finding": None})
        return
    check_object(el, v, res2, case, out, stats, model_agrees, twin=plain_res)


def omission_oracle(el, v, case, out, stats, model_agrees=True):
    """`v` was rejected.  If the same data with the (valid) defaults of the omitted properties written out is accepted,
    the rejection is on account of an omitted property that has a default — which must never be an error."""
    props = getattr(el, "properties", None)
    if not isinstance(props, dict) or not isinstance(v, dict):
        return
    for guard in ("minProperties", "maxProperties", "dependencies", "propertyNames", "const", "enum"):
        if not isinstance(getattr(el, guard, NotPassed()), NotPassed):
            return
    fill = {}
    for name, prop in props.items():
        src = prop.source or name
        if src in v:
            continue
        d = getattr(prop.element, "default", NotPassed())
        if isinstance(d, NotPassed):
            continue
        try:
            prop.element(d)
        except Exception:  # noqa: BLE001 - an invalid default among the omitted ones: a different clause
            return
        fill[src] = d
    if not fill:
        return
    try:
        el({**v, **fill})
    except Exception:  # noqa: BLE001 - rejected for some other reason
        return
    # known region: the name is in an explicit `required` keyword list of an untyped element (class-based models and
    # required *property flags* let the default fill; the explicit list does not)
    explicit = getattr(el, "required", NotPassed())
    explicit = list(explicit) if isinstance(explicit, (list, tuple)) else []
    blamed = [k for k in fill if k in explicit]
    finding = "C05-explicit-required-list" if blamed and model_agrees else None
    stats["omission-oracle-fired-" + str(finding)] = stats.get("omission-oracle-fired-" + str(finding), 0) + 1
    out.failures.append({"case": case, "what": f"rejected although the same data with the defaults of the omitted properties {sorted(fill)} written out "
                         "is accepted: omitting a property that has a default became an error", "finding": finding,
                         "region": "C05-explicit-required-list" if blamed else None})


NPJ = {"np": 1}


def plain_arg(v):
    return dict(NPJ) if isinstance(v, NotPassed) else v


def arg_of(j):
    return core.NP if isinstance(j, dict) and j == NPJ and type(j["np"]) is int else j


def check_no_value(e, real, case, out, stats, what="called without a value", crash_ok=True):
    """`real` is the outcome of calling e with no value: its own default (converted when valid, raw when not), or the marker.
    Never an error - of any class.  `crash_ok`: an OverflowError / ZeroDivisionError is left to C10-float-overflow where the
    model predicts the very same crash (the caller knows; replays and model-free callers that stay far away from the float
    range pass False)."""
    exp = expected_default(e)
    if real["r"] == "ok":
        if real["v"] != exp and not (isinstance(exp, dict) and "exc" in exp):
            out.failures.append({"case": case, "what": f"{what}: expected {exp}, got {real['v']}", "finding": None})
    elif real["r"] == "reject":
        out.failures.append({"case": case, "what": f"{what}: raised the validation error", "finding": None})
    elif real["r"] == "crash" and crash_ok:
        bump(stats, "no-value-call-crash-left-to-C10-float-overflow")
    else:
        bump(stats, "no-value-call-" + real["r"])
        out.failures.append({"case": case, "what": f"{what}: raised {real.get('exc', real['r'])} ({real.get('msg', '')}); a default is never an error "
                             f"(expected {exp})", "finding": None, "crash": real["r"] == "crash"})


# ----------------------------------------------------------------------------- the default-free twin

def _strip_omitted(s, v):
    if not isinstance(s, dict) or not isinstance(v, dict) or not isinstance(s.get("properties"), dict):
        return 0
    n = 0
    for name, sub in s["properties"].items():
        if not isinstance(sub, dict):
            continue
        if name not in v:
            if "default" in sub:
                del sub["default"]
                n += 1
        else:
            n += _strip_omitted(sub, v[name])
    return n


def schema_twin(schema, v):
    """The element of the same schema in which every property the data omits (at every nesting level of the data) declares
    no default; None when the data omits no defaulted property."""
    twin = copy.deepcopy(schema)
    if not _strip_omitted(twin, v):
        return None
    status, el = core.real_parse(twin)
    return el if status == "ok" else None


def dsl_twin(dump, v):
    from harness import dsl
    twin, n = copy.deepcopy(dump), 0
    for key, sub in twin.get("props", []):
        if (key.get("source") or key["name"]) not in v and "default" in sub.get("kw", {}):
            del sub["kw"]["default"]
            n += 1
    return dsl.build(twin) if n else None


def chain_twin(spec, ci, v):
    n, twin = 0, copy.deepcopy(spec)
    for layer in twin[:ci + 1]:
        for entry in layer:
            if (entry[1] or entry[0]) not in v and entry[3] is not None:
                entry[3] = None
                n += 1
    return build_chain(twin)[ci] if n else None


def default_error_oracle(real, twin, v, case, out, stats, crash_ok=True):
    """`real` (not ok) is the outcome of building from the dict `v`; `twin()` builds the default-free twin of the element.
    The twin differs from the element only in the defaults of properties that `v` omits, and an omitted property without a
    default contributes nothing to a build but the marker: if the twin accepts `v`, the error can only come from resolving
    a default - which is never an error."""
    if real["r"] == "ok" or not isinstance(v, dict):
        return
    try:
        tw = twin()
        twin_real = None if tw is None else core.real_call(tw, v)
    except Exception:  # noqa: BLE001 - no twin to compare with (or data that an earlier call has turned into something that cannot be copied)
        bump(stats, "twin-not-built")
        return
    if tw is None:
        return
    bump(stats, "twin-compared")
    if twin_real["r"] != "ok":
        bump(stats, "twin-also-fails")
        return
    if real["r"] == "crash" and crash_ok:
        bump(stats, "twin-crash-left-to-C10-float-overflow")
        return
    bump(stats, "twin-accepts-" + real["r"])
    how = "is rejected" if real["r"] == "reject" else f"raises {real.get('exc', real['r'])} ({real.get('msg', '')})"
    out.failures.append({"case": case, "what": f"the build {how}, although the same data is accepted when the properties it omits declare no default: "
                         "resolving the default of an omitted property became an error", "finding": None, "crash": real["r"] == "crash"})


def check_sequence(el, schema, values, reals, agrees, pre, out, stats, note=None, upto=None, crash_ok=True):
    """One element, a sequence of calls.  `reals[i]` is the outcome of the first call with values[i] (all of them made, in
    order, before this runs); every value is then looked at in turn.  A failing case names the whole sequence and the
    position, so that a replay goes through the same history on a fresh element."""
    seq = {"schema": schema, "values": [plain_arg(x) for x in values], "pre": list(pre)}
    for i, v in enumerate(values):
        if upto is not None and i > upto:
            break
        real = reals[i]
        case = {**seq, "index": i, "value": plain_arg(v)}
        if isinstance(v, NotPassed):
            if note:
                note(i, "default" in schema if isinstance(schema, dict) else False)
            check_no_value(el, real, case, out, stats, crash_ok=crash_ok and agrees[i])
            # and again: the answer to a call without a value does not wear off
            bump(stats, "no-value-call-repeated")
            check_no_value(el, core.real_call(el, core.NP), case, out, stats, "called without a value a second time", crash_ok and agrees[i])
            continue
        if real["r"] == "reject" and isinstance(v, dict):
            bump(stats, "rejected-objects")
            omission_oracle(el, v, case, out, stats, agrees[i])
        default_error_oracle(real, lambda: schema_twin(schema, v), v, case, out, stats, crash_ok and agrees[i])  # pylint: disable=cell-var-from-loop
        if real["r"] != "ok" or not isinstance(v, dict):
            continue
        try:
            res = el(v)
        except Exception:  # noqa: BLE001
            continue
        if note:
            note(i, True)
        check_object(el, v, res, case, out, stats, agrees[i])
        if pre[i]:
            check_preconverted(el, v, res, pre[i], case, out, stats, agrees[i])


def check_case(drv, schema, values, out, stats, rng=None):
    values = list(values) + [core.NP]
    obs = observe(drv, schema, values, out, stats)
    if obs is None:
        return
    el = obs["el"]
    agrees = [obs["tree_ok"] and (obs["models"][i] == obs["reals"][i] or obs["models"][i]["r"] == "crash") for i in range(len(values))]
    pre = [rng.choice(PRE_MODES) if rng is not None and isinstance(v, dict) and rng.random() < 0.6 else None for v in values]
    check_sequence(el, schema, values, obs["reals"], agrees, pre, out, stats,
                   note=lambda i, nontrivial: out.note_case({"schema": schema, "value": obs["enc_args"][i]}, nontrivial))


def object_schema(rng, sg, depth=2, cls=None):
    names = rng.sample(PROP_NAMES, rng.choice([1, 2, 3, 4]))
    props = {}
    for n in names:
        sub = sg.leaf() if depth <= 1 or rng.random() < 0.7 else object_schema(rng, sg, depth - 1)
        if isinstance(sub, dict):
            if rng.random() < 0.75:
                sub = dict(sub)
                sub["default"] = rng.choice(DEFAULTS)
            else:
                sub.pop("default", None)
        props[n] = sub
    s = {"properties": props}
    if cls if cls is not None else rng.random() < 0.6:
        s["type"] = "object"
        s["title"] = rng.choice(["Model", "Thing", "Cfg"])
    if rng.random() < 0.4:
        s["required"] = rng.sample(names + ["zz"], rng.choice([1, 2]))
    if rng.random() < 0.3:
        s["additionalProperties"] = rng.choice([False, True, {"type": "integer"}])
    if rng.random() < 0.2:
        s["patternProperties"] = {rng.choice(PATTERNS): rng.choice([{}, {"type": "integer"}, True])}
    if rng.random() < 0.2:
        s["default"] = rng.choice([{}, {names[0]: 1}, 1, None])
    return s


def dsl_case(drv, rng, out, stats):
    """Model classes / untyped elements written in the DSL with arbitrary renames (including chains where one
    property's JSON name is another property's Python name), defaults, and all subsets of supplied names."""
    from harness import dsl
    chain = rng.random() < 0.5
    pool = [("kind", "class"), ("type_", "kind"), ("a", "b"), ("b", "c"), ("n", "n"), ("a_b", "a b"), ("x", "x")] if chain \
        else [("a", "a"), ("b", "b"), ("a_b", "a b"), ("class_", "class"), ("n", "n")]
    picks = rng.sample(pool, rng.choice([2, 3, 4]))
    plist = []
    for name, src in picks:
        kw = {}
        cls = rng.choice(["Integer", "String", "Number", "Element", "Array"])
        if rng.random() < 0.8:
            kw["default"] = core.enc_val(rng.choice(DEFAULTS))
        sub = {"cls": cls, "kw": kw}
        if cls == "Array":
            kw["itemsKind"] = "single"
            sub["items"] = [{"cls": "Number", "kw": {}}]
        key = {"name": name, "source": src}
        if rng.random() < 0.3:
            key["required"] = True
        plist.append([key, sub])
    is_cls = rng.random() < 0.5
    dump = {"cls": "Object" if is_cls else "Element", "kw": {"hasProps": True}, "props": plist}
    if is_cls:
        dump["name"] = "Model"
    if rng.random() < 0.3:
        dump["kw"]["addPropsB"] = False
    el = dsl.build(dump)
    srcs = [src for _, src in picks]
    vals_for = {src: rng.choice([1, "s", 2.5, [1], None, 0]) for src in srcs}
    subsets = [{k: vals_for[k] for k in combo} for r in range(len(srcs) + 1) for combo in itertools.combinations(srcs, r)]
    rng.shuffle(subsets)
    values = subsets[:12]
    enc_args = [core.enc_arg(v) for v in values]
    texts = set()
    core.all_strings(dump, texts)
    rep = drv.ask({"op": "elem_call", "elem": dump, "args": enc_args, "tables": core.make_tables(set(), set(), sorted(texts))})
    if "error" in rep:
        stats["driver-error"] = stats.get("driver-error", 0) + 1
        return
    out.traces_validated += 1
    for v, enc, model in zip(values, enc_args, rep["results"]):
        real = core.real_call(el, v)
        agrees = model == real or model["r"] == "crash"
        if not agrees and real["r"] in ("ok", "reject"):
            out.disagreements.append({"what": "call result (DSL model)", "impl": real, "model": model, "element": dump, "value": enc})
        if real["r"] == "reject":
            stats["dsl-rejected"] = stats.get("dsl-rejected", 0) + 1
            omission_oracle(el, v, {"element": dump, "value": enc}, out, stats, agrees)
        default_error_oracle(real, lambda: dsl_twin(dump, v), v, {"element": dump, "value": v}, out, stats, agrees)  # pylint: disable=cell-var-from-loop
        if real["r"] != "ok":
            continue
        out.note_case({"element": dump, "value": enc}, True)
        stats["dsl-accepted"] = stats.get("dsl-accepted", 0) + 1
        res = el(v)
        check_object(el, v, res, {"element": dump, "value": v}, out, stats, agrees)
        mode = rng.choice(PRE_MODES)
        check_preconverted(el, v, res, mode, {"element": dump, "value": v, "pre": mode}, out, stats, agrees)


def build_chain(spec):
    """spec: per layer a list of [attribute, source or None, element class name, encoded default or None]"""
    from harness import dsl
    from statham.schema.elements import Integer, Number, String
    from statham.schema.elements.meta import ObjectClassDict, ObjectMeta
    from statham.schema.property import Property
    classes, base = [], Object
    for li, layer in enumerate(spec):
        cd = ObjectClassDict()
        for name, src, kind, d in layer:
            elem = {"Integer": Integer, "String": String, "Number": Number}[kind](**({"default": dsl.dec_val(d)} if d is not None else {}))
            cd[name] = Property(elem, source=src)
        cls = ObjectMeta(f"Layer{li}", (base,), cd)
        classes.append(cls)
        base = cls
    return classes


def inherit_case(rng, out, stats):
    """Model classes that inherit from one another (class statements, as a user writes them): each class of the chain fills the
    defaults of *all* its properties, inherited and own, whichever class of the chain was used first."""
    pool = [("a", None), ("b", None), ("label", None), ("class_", "class"), ("n", None), ("size", None)]
    picks = rng.sample(pool, rng.choice([3, 4, 5]))
    depth = rng.choice([2, 2, 3])
    cut = sorted(rng.sample(range(1, len(picks)), min(depth - 1, len(picks) - 1)))
    layers = [picks[i:j] for i, j in zip([0] + cut, cut + [len(picks)])]
    spec = []
    for layer in layers:
        own = []
        for name, src in layer:
            has_default = rng.random() < 0.75
            own.append([name, src, rng.choice(["Integer", "String", "Number"]), core.enc_val(rng.choice([1, "s", 2, 0, "", 2.5])) if has_default else None])
        spec.append(own)
    classes = build_chain(spec)
    order = list(range(len(classes)))
    rng.shuffle(order)
    case_base = {"inherit": spec, "first_use_order": order}
    # use the classes in a random order first (an instance from {} and a validation), then look at every class
    for i in order:
        core.real_call(classes[i], {})
    for ci, cls in enumerate(classes):
        srcs = [p.source or n for n, p in cls.properties.items()]
        vals_for = {k: rng.choice([1, "s", 2.5, 0]) for k in srcs}
        subsets = [{k: vals_for[k] for k in combo} for r in range(len(srcs) + 1) for combo in itertools.combinations(srcs, r)]
        rng.shuffle(subsets)
        for v in subsets[:6]:
            real = core.real_call(cls, v)
            case = {**case_base, "class": ci, "value": core.enc_arg(v)}
            out.note_case(case, True)
            if real["r"] != "ok":
                omission_oracle(cls, v, case, out, stats)
                default_error_oracle(real, lambda: chain_twin(spec, ci, v), v, case, out, stats)  # pylint: disable=cell-var-from-loop
                continue
            stats["inherit-accepted"] = stats.get("inherit-accepted", 0) + 1
            check_object(cls, v, cls(v), case, out, stats, True)


# ----------------------------------------------------------------------------- operation histories

HIST_NAMES = ["a", "b", "a b", "class", "x-y", "é", "n$", "id"]      # no two of them share a Python name
NOT_OBJECTS = [1, None, "x", [], True, 2.5]


def class_with_default(rng, title):
    """A model class (schema form) with a class-level default, and what kind of default that is."""
    props = {"k": {"type": "integer"}, "m": {"type": "string", "default": rng.choice(["s", "", 3])}}
    s = {"type": "object", "title": title, "properties": props}
    kind = rng.choice(["valid-empty", "valid-filled", "wrong-member-type", "missing-required", "extra-member-closed", "nested-invalid",
                       "nested-valid", "not-an-object"])
    if kind == "valid-empty":
        s["default"] = {}
    elif kind == "valid-filled":
        s["default"] = {"k": rng.choice([0, 3, -1]), **({"m": "t"} if rng.random() < 0.5 else {})}
    elif kind == "wrong-member-type":
        s["default"] = {"k": rng.choice(["three", None, 1.5, [1]])}
    elif kind == "missing-required":
        s["required"] = ["k"]
        s["default"] = rng.choice([{}, {"m": "t"}])
    elif kind == "extra-member-closed":
        s["additionalProperties"] = False
        s["default"] = {"k": 1, "zz": 1}
    elif kind in ("nested-invalid", "nested-valid"):
        props["sub"] = {"type": "object", "title": title + "Sub", "properties": {"q": {"type": "integer", "default": 5}, "r": {"type": "string"}}}
        s["default"] = {"sub": {"q": "x"} if kind == "nested-invalid" else rng.choice([{}, {"q": 2}, {"r": "t"}])}
    else:
        s["default"] = rng.choice(NOT_OBJECTS)
    return s, kind


def history_schema(rng, sg, stats):
    names = rng.sample(HIST_NAMES, rng.choice([2, 3, 4]))
    props, kinds = {}, []
    for i, n in enumerate(names):
        k = rng.random()
        if i == 0 or k < 0.35:
            props[n], kind = class_with_default(rng, f"Inner{i}")
            kinds.append(kind)
        elif k < 0.5:
            # an untyped object with its own default and defaulted members
            props[n] = {"properties": {"p": {"default": rng.choice(DEFAULTS)}, "q": {"type": "integer", "default": rng.choice([1, "x"])}},
                        "default": rng.choice([{}, {"p": 1}, {"q": "bad"}, 1])}
        else:
            sub = dict(sg.leaf())
            sub.pop("title", None)
            if rng.random() < 0.8:
                sub["default"] = rng.choice(DEFAULTS)
            if sub.get("type") == "object":
                sub.pop("type")
            props[n] = sub
    s = {"properties": props}
    if rng.random() < 0.6:
        s["type"] = "object"
        s["title"] = rng.choice(["Model", "Thing", "Cfg"])
    if rng.random() < 0.3:
        s["default"] = rng.choice([{}, {names[0]: 1}, {names[0]: {"k": 2}}, 1])
    for kind in kinds:
        bump(stats, "history-class-default-" + kind)
    return s


def run_history(el, schema, ops, out, stats, upto=None):
    """ops: ["np"] - the element called with no value; ["np-prop", attribute] - a property's own element called with no
    value; ["build", data] - the element called with data; ["mutate", attribute, walk, action] - the caller modifies, in
    place, the value it received under that attribute in the last object built (`walk` says how far below the top level);
    ["np-mutate", attribute or None, walk, action] - the same with the value a call without a value returned.  Each step
    is checked where it stands in the history.  A history with a modifying step is a *caller history*: there every default
    is also compared with what supplying it yields, model instances attribute by attribute (`deep`)."""
    caller = any(op[0] in ("mutate", "np-mutate") for op in ops)
    protected = declared_default_ids(el) if caller else set()
    last = None
    for step, op in enumerate(ops):
        if upto is not None and step > upto:
            break
        case = {"schema": schema, "ops": ops, "step": step}
        if op[0] == "np":
            check_no_value(el, core.real_call(el, core.NP), case, out, stats, f"step {step}: called without a value")
            if caller:
                check_no_value_deep(el, case, out, stats, f"step {step}: called without a value")
        elif op[0] == "np-prop":
            props = getattr(el, "properties", None)
            if not isinstance(props, dict) or op[1] not in props:
                continue
            e = props[op[1]].element
            check_no_value(e, core.real_call(e, core.NP), case, out, stats, f"step {step}: element of property {op[1]} called without a value")
            if caller:
                check_no_value_deep(e, case, out, stats, f"step {step}: element of property {op[1]} called without a value")
        elif op[0] == "mutate":
            if last is None:
                bump(stats, "caller-mutation-nothing-built-yet")
                continue
            try:
                target = getattr(last, op[1]) if isinstance(last, Object) else last[op[1]]
            except (AttributeError, KeyError):
                bump(stats, "caller-mutation-no-such-member")
                continue
            note_mutation(stats, "built", mutate(target, op[2], op[3], protected))
        elif op[0] == "np-mutate":
            props = getattr(el, "properties", None)
            if op[1] is not None and (not isinstance(props, dict) or op[1] not in props):
                continue
            e = el if op[1] is None else props[op[1]].element
            try:
                target = e(core.NP)
            except Exception:  # noqa: BLE001 - the no-value steps report it
                bump(stats, "caller-mutation-no-value-call-raised")
                continue
            note_mutation(stats, "no-value", mutate(target, op[2], op[3], protected))
        else:
            v = op[1]
            real = core.real_call(el, v)
            if real["r"] == "reject":
                omission_oracle(el, v, case, out, stats)
            default_error_oracle(real, lambda: schema_twin(schema, v), v, case, out, stats)  # pylint: disable=cell-var-from-loop
            if real["r"] != "ok":
                continue
            try:
                res = el(copy.deepcopy(v)) if caller else el(v)     # a caller history modifies what it receives: never the case's own data
            except Exception:  # noqa: BLE001
                continue
            bump(stats, "history-builds-checked")
            check_object(el, v, res, case, out, stats, True)
            if caller:
                last = res
                check_object_deep(el, v, res, case, out, stats)


def history_case(rng, sg, vg, out, stats):
    """The same defaults resolved again and again on one element, by every route, in a random order."""
    schema = history_schema(rng, sg, stats)
    status, el = core.real_parse(schema)
    if status != "ok":
        bump(stats, "history-parse-" + status)
        return
    names = list(schema["properties"])
    attrs = list(getattr(el, "properties", None) or {})
    ops = []
    for _ in range(rng.randint(5, 9)):
        k = rng.random()
        if k < 0.15:
            ops.append(["np"])
        elif k < 0.4 and attrs:
            ops.append(["np-prop", rng.choice(attrs)])
        else:
            supplied = [n for n in names if rng.random() < 0.35]
            ops.append(["build", {n: vg.aimed(schema["properties"][n], 2) for n in supplied}])
    bump(stats, "history-cases")
    bump(stats, "history-ops", len(ops))
    before = len(out.failures)
    run_history(el, schema, ops, out, stats)
    for step, op in enumerate(ops):
        out.note_case({"schema": schema, "ops": ops[:step + 1]}, True)
    if len(out.failures) > before:
        bump(stats, "history-failing-cases")


# ----------------------------------------------------------------------------- caller histories: what a caller does with a value it received

def deep(x):
    """`core.canon_rval` that also shows the attributes of model instances (a caller's `obj.attr = ...` lives there, not in
    `_dict`) - "converted exactly as if it had been supplied" is a statement about everything a caller can see."""
    if isinstance(x, Object):
        attrs = []
        for n in type(x).properties:
            try:
                attrs.append([n, deep(getattr(x, n))])
            except AttributeError:
                attrs.append([n, {"missing-attr": 1}])
        return {"inst": type(x).__name__, "d": [[k, deep(v)] for k, v in x._dict.items()], "attrs": attrs}  # pylint: disable=protected-access
    if isinstance(x, dict):
        return {"anon" if isinstance(x, _AnonymousObject) else "dict": [[k, deep(v)] for k, v in x.items()]}
    if isinstance(x, (list, tuple)):
        return [deep(v) for v in x]
    return core.canon_rval(x)


def fresh_default(elem):
    """What supplying (a private copy of) the declared default yields right now; the raw default when it is not valid."""
    d = getattr(elem, "default", NotPassed())
    if isinstance(d, NotPassed):
        return dict(NPJ)
    try:
        return deep(elem(copy.deepcopy(d)))
    except (TypeError, ValidationError):
        return deep(d)
    except Exception as exc:  # noqa: BLE001
        return {"exc": type(exc).__name__}


def check_no_value_deep(e, case, out, stats, what):
    exp = fresh_default(e)
    if isinstance(exp, dict) and "exc" in exp:
        return
    try:
        got = deep(e(core.NP))
    except Exception:  # noqa: BLE001 - check_no_value reports it
        return
    bump(stats, "caller-no-value-compared")
    if got != exp:
        bump(stats, "caller-no-value-differs")
        out.failures.append({"case": case, "what": f"{what}: supplying the default yields {exp}, the call without a value yields {got} "
                             "(after the caller modified a value it had received earlier)", "finding": None})


def check_object_deep(el, v, res, case, out, stats, path=""):
    """res = el(v).  Every declared property that v omits holds what supplying its default yields (attribute by attribute for
    model instances), at every nesting level of the data.  Shapes that lie in a listed region are check_object's business."""
    props = getattr(el, "properties", None)
    mapping = _mapping(res)
    if not isinstance(props, dict) or not props or mapping is None:
        return
    if not isinstance(getattr(el, "patternProperties", NotPassed()), NotPassed):
        return
    sources = [p.source or n for n, p in props.items()]
    for name, prop in props.items():
        src = prop.source or name
        if sources.count(src) > 1 or any(k != src and k == name for k in v):
            continue
        if src in v:
            if isinstance(v[src], dict) and name in mapping and _mapping(mapping[name]) is not None and len(path) < 40:
                check_object_deep(prop.element, v[src], mapping[name], case, out, stats, path + name + ".")
            continue
        exp = fresh_default(prop.element)
        if exp == NPJ or (isinstance(exp, dict) and "exc" in exp):
            continue
        bump(stats, "caller-omitted-compared")
        got = deep(mapping[name]) if name in mapping else {"missing": 1}
        if got == exp and isinstance(res, Object):
            try:
                got = deep(getattr(res, name))
            except AttributeError:
                got = {"missing-attr": 1}
        if got != exp:
            bump(stats, "caller-omitted-differs")
            out.failures.append({"case": case, "what": f"omitted property {src!r} (attribute {path}{name}): supplying the default yields {exp}, the object holds {got} "
                                 "(after the caller modified a value it had received earlier)", "finding": None})


SUB_ELEMENT_ATTRS = ["items", "additionalItems", "additionalProperties", "patternProperties", "propertyNames", "contains", "dependencies",
                     "elements", "element", "if_", "then", "else_"]


def _container_ids(x, ids):
    if isinstance(x, (list, dict, Object)) and id(x) not in ids:
        ids.add(id(x))
        for c in (x.values() if isinstance(x, dict) else x if isinstance(x, list) else x._dict.values()):  # pylint: disable=protected-access
            _container_ids(c, ids)


def declared_default_ids(e, ids=None, seen=None):
    """The containers that make up the declared defaults of an element tree: an invalid default is handed out as it is, and a
    caller who writes into *that* rewrites the schema - not a history this property speaks about."""
    from statham.schema.elements.meta import ObjectMeta
    from statham.schema.property import _Property
    ids = set() if ids is None else ids
    seen = set() if seen is None else seen

    def visit(x, depth=0):
        if isinstance(x, _Property):
            x = x.element
        if isinstance(x, (Element, ObjectMeta)):
            declared_default_ids(x, ids, seen)
        elif isinstance(x, dict) and depth < 3:
            for c in x.values():
                visit(c, depth + 1)
        elif isinstance(x, (list, tuple)) and depth < 3:
            for c in x:
                visit(c, depth + 1)

    if id(e) in seen:
        return ids
    seen.add(id(e))
    _container_ids(getattr(e, "default", None), ids)
    props = getattr(e, "properties", None)
    if isinstance(props, dict):
        visit(props)
    for attr in SUB_ELEMENT_ATTRS:
        visit(getattr(e, attr, None))
    return ids


def _container_children(x):
    if isinstance(x, Object):
        kids = [getattr(x, n, None) for n in type(x).properties]
    elif isinstance(x, dict):
        kids = list(x.values())
    elif isinstance(x, list):
        kids = list(x)
    else:
        kids = []
    return [c for c in kids if isinstance(c, (list, dict, Object))]


MUTATION_MARK = -99


def mutate(target, walk, action, protected):
    """Modify, in place, a container inside `target`: go down one level per entry of `walk` for as long as there is a
    container below, then append to / shorten / overwrite a list, set / overwrite / delete a member of an attribute-access
    dict, or assign an attribute of a model instance.  Returns (depth reached, what was done) or a reason for doing nothing."""
    if not isinstance(target, (list, dict, Object)):
        return "not-a-container"
    depth = 0
    for step in walk:
        kids = _container_children(target)
        if not kids:
            break
        target = kids[step % len(kids)]
        depth += 1
    if id(target) in protected:
        return "declared-default-itself"
    if isinstance(target, list):
        todo = ["append"] + (["pop", "overwrite"] if target else [])
        act = todo[action % len(todo)]
        if act == "append":
            target.append(MUTATION_MARK)
        elif act == "pop":
            target.pop()
        else:
            target[action % len(target)] = MUTATION_MARK
        return depth, "list-" + act
    if isinstance(target, dict):
        keys = list(target)
        todo = ["set"] + (["overwrite", "delete"] if keys else [])
        act = todo[action % len(todo)]
        if act == "set":
            target["mut" + str(action % 3)] = MUTATION_MARK
        elif act == "overwrite":
            target[keys[action % len(keys)]] = MUTATION_MARK
        else:
            del target[keys[action % len(keys)]]
        return depth, "dict-" + act
    names = list(type(target).properties)
    if not names:
        return "instance-without-properties"
    setattr(target, names[action % len(names)], MUTATION_MARK)
    return depth, "instance-setattr"


def note_mutation(stats, route, done):
    if isinstance(done, str):
        bump(stats, "caller-mutation-skipped-" + done)
    else:
        bump(stats, f"caller-mutation-{route}-value-depth-{min(done[0], 3)}")
        bump(stats, "caller-mutation-" + done[1])


def nested_json(rng, depth):
    """A JSON object / array with containers inside containers."""
    def scalar():
        return rng.choice([0, 1, 3, "a", "b", True, None, 2.5])

    def value(d):
        k = rng.random()
        if d <= 0 or k < 0.3:
            return scalar()
        if k < 0.65:
            return [value(d - 1) for _ in range(rng.randint(0, 3))]
        return {n: value(d - 1) for n in rng.sample(["retry", "hosts", "count", "opts", "k"], rng.randint(1, 3))}

    if rng.random() < 0.5:
        return {n: value(depth - 1) if rng.random() < 0.3 else rng.choice([[value(depth - 2)], {"count": value(depth - 2)}, [[1, 2], [3]], {"k": {"count": 3}}])
                for n in rng.sample(["retry", "hosts", "opts", "k"], rng.randint(1, 3))}
    return [rng.choice([[value(depth - 2), 1], {"count": value(depth - 2)}, [1, 2], {"k": [1]}]) for _ in range(rng.randint(1, 3))]


def structured_prop(rng, i):
    """A property schema whose default is a structure (mostly a valid one, mostly with containers inside containers)."""
    kind = rng.choice(["grid", "untyped-nested", "untyped-nested", "array-of-models", "object-of-containers", "composition-model",
                       "model-class-default", "flat"])
    if kind == "grid":
        rows = [[rng.randint(0, 9) for _ in range(rng.randint(0, 3))] for _ in range(rng.randint(1, 3))]
        if rng.random() < 0.15:
            rows[0].append("x")          # not valid: returned as it is
        s = {"type": "array", "items": {"type": "array", "items": {"type": "integer"}}, "default": rows}
    elif kind == "untyped-nested":
        d = nested_json(rng, 3)
        s = {"default": d}
        if isinstance(d, dict) and rng.random() < 0.5:
            s["properties"] = {next(iter(d)): {}}
        if isinstance(d, list) and rng.random() < 0.3:
            s["items"] = {}
    elif kind == "array-of-models":
        row = {"type": "object", "title": f"Row{i}", "properties": {"q": {"type": "integer", "default": 5},
                                                                     "tags": {"type": "array", "items": {"type": "string"}, "default": ["t"]}}}
        s = {"type": "array", "items": row, "default": [rng.choice([{}, {"q": 1}, {"tags": ["u", "v"]}, {"q": 2, "tags": []}]) for _ in range(rng.randint(1, 3))]}
    elif kind == "object-of-containers":
        s = {"properties": {"hosts": {"type": "array", "items": {"type": "string"}},
                            "retry": {"type": "object", "title": f"Retry{i}", "properties": {"count": {"type": "integer", "default": 3}}}},
             "default": rng.choice([{"hosts": ["a"], "retry": {}}, {"retry": {"count": 1}}, {"hosts": ["a", "b"]}, {"hosts": [1]}])}
    elif kind == "composition-model":
        model = {"type": "object", "title": f"Limits{i}", "properties": {"low": {"type": "integer", "default": 0}, "high": {"type": "integer"},
                                                                          "marks": {"type": "array", "items": {"type": "integer"}, "default": [1]}}}
        if rng.random() < 0.5:
            model["required"] = ["high"]
        kw = rng.choice(["allOf", "anyOf", "oneOf"])
        other = {"minProperties": 1} if kw != "oneOf" else {"type": "integer"}
        s = {kw: [model, other] if rng.random() < 0.7 else [model], "default": rng.choice([{"high": 10}, {"high": 1, "low": 2}, {"high": 3, "marks": [4, 5]}, {}])}
    elif kind == "model-class-default":
        s, sub = class_with_default(rng, f"Inner{i}")
        kind += "-" + sub
    else:
        s = rng.choice([{"type": "array", "items": {"type": "integer"}, "default": [1, 2]}, {"default": {"k": 1}}, {"default": [1, "a"]},
                        {"type": "string", "default": "s"}, {"type": "integer", "default": "bad"}])
    return s, kind


def caller_history_case(rng, vg, out, stats):
    """Objects are built from data omitting members whose defaults are structures, the caller works with what it received
    (writes into it at some depth), and later objects / calls without a value must still deliver every default exactly as if
    it had been supplied."""
    names = rng.sample(HIST_NAMES, rng.choice([1, 2, 3]))
    props = {}
    for i, n in enumerate(names):
        props[n], kind = structured_prop(rng, i)
        bump(stats, "caller-history-default-" + kind)
    schema = {"properties": props}
    if rng.random() < 0.6:
        schema.update({"type": "object", "title": rng.choice(["Job", "Cfg"])})
    status, el = core.real_parse(schema)
    if status != "ok":
        bump(stats, "caller-history-parse-" + status)
        return
    attrs = list(getattr(el, "properties", None) or {})
    if not attrs:
        return

    def build():
        data = {}
        for n in names:
            if rng.random() < 0.25:
                data[n] = copy.deepcopy(props[n]["default"]) if rng.random() < 0.5 else vg.aimed(props[n], 2)
        return ["build", data]

    def walk():
        return [rng.randint(0, 99) for _ in range(rng.choice([0, 1, 1, 2, 2, 3]))]

    ops = [build()]
    for _ in range(rng.randint(4, 9)):
        k = rng.random()
        if k < 0.3:
            ops.append(build())
        elif k < 0.6:
            ops.append(["mutate", rng.choice(attrs), walk(), rng.randint(0, 99)])
        elif k < 0.75:
            ops.append(["np-mutate", rng.choice(attrs + [None]) if rng.random() < 0.9 else None, walk(), rng.randint(0, 99)])
        elif k < 0.9:
            ops.append(["np-prop", rng.choice(attrs)])
        else:
            ops.append(["np"])
    ops.append(build())
    bump(stats, "caller-history-cases")
    bump(stats, "caller-history-ops", len(ops))
    before = len(out.failures)
    run_history(el, schema, ops, out, stats)
    for step in range(len(ops)):
        out.note_case({"schema": schema, "ops": ops[:step + 1]}, True)
    if len(out.failures) > before:
        bump(stats, "caller-history-failing-cases")


# ----------------------------------------------------------------------------- one declaration, several models

SHARED_ATTRS = ["a", "b", "ident", "label", "n", "size", "first", "second", "ref", "key_"]
SHARED_SOURCES = ["$id", "a b", "x-y", "class", "é", "n$", "1st", "@ref"]        # never a Python name: no key collisions by construction
SHARED_KINDS = ["Integer", "String", "Number", "Element", "Array"]
SHARED_DEFAULTS = [0, 1, "s", "", 2.5, [1], [], {"k": 1}, None, True, "anonymous", [1, "a"]]


def _shared_element(kind, default):
    from statham.schema.elements import Array, Integer, Number, String
    kw = {"default": copy.deepcopy(default[0])} if default else {}
    if kind == "Array":
        return Array(Number(), **kw)
    return {"Integer": Integer, "String": String, "Number": Number, "Element": Element}[kind](**kw)


def build_shared(spec):
    """spec["pool"]: declarations written once - [source or None, element kind, [] or [default], required];
    spec["models"]: {"untyped": bool, "members": [[attribute, "shared", pool index] - the pooled Property object itself |
    [attribute, "elem", pool index, source or None] - a Property of its own around the pooled element |
    [attribute, "own", source or None, kind, [] or [default]]]}.  Models are defined in the order given."""
    from statham.schema.elements.meta import ObjectClassDict, ObjectMeta
    from statham.schema.property import Property
    pool = [Property(_shared_element(kind, d), source=src, required=bool(req)) for src, kind, d, req in spec["pool"]]
    models = []
    for mi, m in enumerate(spec["models"]):
        members = {}
        for entry in m["members"]:
            if entry[1] == "shared":
                members[entry[0]] = pool[entry[2]]
            elif entry[1] == "elem":
                members[entry[0]] = Property(pool[entry[2]].element, source=entry[3])
            else:
                members[entry[0]] = Property(_shared_element(entry[3], entry[4]), source=entry[2])
        if m["untyped"]:
            models.append(Element(properties=members))
        else:
            cd = ObjectClassDict()
            for name, prop in members.items():
                cd[name] = prop
            models.append(ObjectMeta(f"Model{mi}", (Object,), cd))
    return models


def shared_twin(spec, mi, v, sources):
    """The same declarations, where those the data omits in model `mi` declare no default."""
    twin, n = copy.deepcopy(spec), 0
    for entry, src in zip(twin["models"][mi]["members"], sources):
        if src in v:
            continue
        holder = twin["pool"][entry[2]] if entry[1] in ("shared", "elem") else entry
        slot = 2 if entry[1] in ("shared", "elem") else 4
        if holder[slot]:
            holder[slot] = []
            n += 1
    return build_shared(twin)[mi] if n else None


def check_supplied_kept(model, v, res, case, out, stats):
    """A supplied value is never replaced by a default: it is exposed, under the property's Python name, as the property's own
    element converts it."""
    mapping = _mapping(res)
    for name, prop in model.properties.items():
        src = prop.source or name
        if src not in v or mapping is None:
            continue
        try:
            exp = deep(prop.element(copy.deepcopy(v[src])))
        except Exception:  # noqa: BLE001 - what the value itself is worth is C04's business
            continue
        bump(stats, "shared-supplied-compared")
        got = deep(mapping[name]) if name in mapping else {"missing": 1}
        if got == exp and isinstance(res, Object):
            try:
                got = deep(getattr(res, name))
            except AttributeError:
                got = {"missing-attr": 1}
        if got != exp:
            out.failures.append({"case": case, "what": f"supplied property {src!r} (attribute {name}): its element converts the value to {exp}, the object holds {got}",
                                 "finding": None})


def run_shared(spec, order, mi, v, case, out, stats):
    models = build_shared(spec)
    for i in order:
        core.real_call(models[i], {})
    model = models[mi]
    sources = [p.source or n for n, p in model.properties.items()]
    real = core.real_call(model, v)
    if real["r"] != "ok":
        bump(stats, "shared-not-accepted")
        omission_oracle(model, v, case, out, stats)
        default_error_oracle(real, lambda: shared_twin(spec, mi, v, sources), v, case, out, stats)
        return
    bump(stats, "shared-accepted")
    res = model(copy.deepcopy(v))
    check_object(model, v, res, case, out, stats, True)
    check_supplied_kept(model, v, res, case, out, stats)


def shared_case(rng, out, stats):
    """A declaration written once and used by several models - the Property object itself, or its element under a Property of
    the model's own - under the same or different Python names, in model classes and untyped objects, used in any order: each
    model exposes defaults and supplied values under ITS OWN names."""
    pool = []
    for _ in range(rng.choice([1, 1, 2, 3])):
        src = rng.choice(SHARED_SOURCES) if rng.random() < 0.8 else None
        while src is not None and any(p[0] == src for p in pool):
            src = rng.choice(SHARED_SOURCES)
        pool.append([src, rng.choice(SHARED_KINDS), [rng.choice(SHARED_DEFAULTS)] if rng.random() < 0.85 else [], rng.random() < 0.2])
    canon = [f"s{i}" for i in range(len(pool))]
    models = []
    for _ in range(rng.choice([2, 2, 3, 4])):
        free_attrs = rng.sample(SHARED_ATTRS, len(SHARED_ATTRS))
        free_srcs = [s for s in rng.sample(SHARED_SOURCES, len(SHARED_SOURCES)) if all(p[0] != s for p in pool)]
        members = []
        for pi, p in enumerate(pool):
            if rng.random() < 0.15:
                continue
            # a declaration without a JSON name of its own takes it from the attribute: there the attribute is the same everywhere
            attr = canon[pi] if p[0] is None or rng.random() < 0.25 else free_attrs.pop()
            if p[0] is None or rng.random() < 0.75:
                members.append([attr, "shared", pi])
            else:
                members.append([attr, "elem", pi, free_srcs.pop() if rng.random() < 0.5 else None])
        for _ in range(rng.choice([0, 1, 1, 2])):
            members.append([free_attrs.pop(), "own", free_srcs.pop() if rng.random() < 0.4 else None, rng.choice(SHARED_KINDS),
                            [rng.choice(SHARED_DEFAULTS)] if rng.random() < 0.7 else []])
        if not members:
            members.append([canon[0], "shared", 0])
        rng.shuffle(members)
        models.append({"untyped": rng.random() < 0.4, "members": members})
    spec = {"pool": pool, "models": models}
    order = [rng.randrange(len(models)) for _ in range(rng.choice([0, 1, len(models), len(models) + 1]))]
    built = build_shared(spec)
    bump(stats, "shared-cases")
    names_of = {}
    for m in models:
        for entry in m["members"]:
            if entry[1] == "shared":
                names_of.setdefault(entry[2], set()).add(entry[0])
    bump(stats, "shared-property-objects-under-different-names", sum(1 for s in names_of.values() if len(s) > 1))
    bump(stats, "shared-property-objects-under-one-name", sum(1 for s in names_of.values() if len(s) == 1))
    before = len(out.failures)
    for mi, model in enumerate(built):
        sources = [p.source or n for n, p in model.properties.items()]
        good = {"Integer": [1, 0, 7], "String": ["s", "x1", ""], "Number": [2.5, 1, 0], "Array": [[1], [], [2.5, 3]]}
        vals_for = {}
        for n, p in model.properties.items():
            fits = good.get(type(p.element).__name__)
            vals_for[p.source or n] = rng.choice(fits) if fits and rng.random() < 0.85 else rng.choice([1, "s", 2.5, 0, [1], "x1", None, {"k": 1}])
        subsets = [{k: vals_for[k] for k in combo} for r in range(len(sources) + 1) for combo in itertools.combinations(sources, r)]
        rng.shuffle(subsets)
        bump(stats, "shared-model-" + ("untyped" if models[mi]["untyped"] else "class") + ("-last-defined" if mi == len(built) - 1 else "-defined-earlier"))
        for v in subsets[:5]:
            case = {"shared": spec, "first_use_order": order, "model": mi, "value": v}
            out.note_case(case, True)
            run_shared(spec, order, mi, v, case, out, stats)
    if len(out.failures) > before:
        bump(stats, "shared-failing-cases")


# ----------------------------------------------------------------------------- numeric defaults of every magnitude

MAG_MULTIPLES = [0.01, 0.1, 0.25, 0.5, 1.5, 2.5, 0.001, 1e-06, 0.3, 1, 2, 3, 7, 10, 1000, 2 ** 31]
MAG_BOUNDS = ["minimum", "maximum", "exclusiveMinimum", "exclusiveMaximum"]


def magnitude_number(rng, lo=-12, hi=40):
    """+-(1..4 random digits) * 10^k, as an int or as a float: from far below 1 to far beyond 2^53 and beyond 28 digits, but
    nowhere near the float range (so that C10-float-overflow explains nothing here)."""
    k = rng.randint(lo, hi)
    digits = rng.choice([1, 1, rng.randint(1, 9), rng.randint(1, 9999)])
    x = digits * 10 ** k if k >= 0 else digits / 10 ** -k
    if rng.random() < 0.25:
        x += rng.choice([1, -1, 0.5])
    if rng.random() < 0.5:
        x = float(x)
    elif isinstance(x, float) and x == int(x) and rng.random() < 0.5:
        x = int(x)
    return -x if rng.random() < 0.25 else x


def _span(x):
    a = abs(x)
    return "zero" if a == 0 else "<1" if a < 1 else "<2^53" if a < 2 ** 53 else "<10^28" if a < 10 ** 28 else ">=10^28"


def real_sequence(schema, values, out, stats, crash_ok=True):
    """A (schema, values) sequence on the real code alone (no model at hand: every listed region is taken to apply)."""
    status, el = core.real_parse(schema)
    if status != "ok":
        bump(stats, "real-sequence-parse-" + status)
        return None
    reals = [core.real_call(el, v) for v in values]
    check_sequence(el, schema, values, reals, [True] * len(values), [None] * len(values), out, stats, crash_ok=crash_ok,
                   note=lambda i, nontrivial: out.note_case({"schema": schema, "value": plain_arg(values[i])}, nontrivial))
    return reals


def magnitude_case(rng, out, stats):
    """A numeric leaf with random numeric keywords and a default anywhere on the magnitude ladder: called without a value,
    and omitted from / supplied to a model class and an untyped object that declare it (under a plain or a renamed name)."""
    leaf = {}
    typ = rng.choice(["number", "number", "integer", None])
    if typ:
        leaf["type"] = typ
    if rng.random() < 0.7:
        leaf["multipleOf"] = rng.choice(MAG_MULTIPLES)
    for kw in rng.sample(MAG_BOUNDS, rng.choice([0, 0, 1, 2])):
        leaf[kw] = magnitude_number(rng)
    d = magnitude_number(rng)
    if "multipleOf" in leaf and rng.random() < 0.6:
        # a default meant to be valid: a whole multiple (as far as binary floats allow)
        d = leaf["multipleOf"] * (int(d) if abs(d) >= 1 else rng.randint(1, 9))
    leaf["default"] = d
    bump(stats, "magnitude-cases")
    bump(stats, "magnitude-default-" + type(d).__name__ + "-" + _span(d))
    if "multipleOf" in leaf:
        bump(stats, "magnitude-quotient-" + type(leaf["multipleOf"]).__name__ + "-" + _span(d / leaf["multipleOf"]))
    try:
        status, el = core.real_parse({k: x for k, x in leaf.items() if k != "default"})
        bump(stats, "magnitude-default-" + ("valid" if status == "ok" and core.real_call(el, d)["r"] == "ok" else "invalid-or-error"))
    except Exception:  # noqa: BLE001 - statistics only
        pass
    before = len(out.failures)
    real_sequence(leaf, [core.NP], out, stats, crash_ok=False)
    name, other = rng.sample(HIST_NAMES, 2)
    supplied = rng.choice([1, 2.5, 0, magnitude_number(rng)])
    values = [{}, {other: "s"}, {name: supplied}, {name: supplied, other: "s"}, core.NP]
    for titled in (True, False):
        schema = {"properties": {name: leaf, other: {"type": "string", **({"default": "dflt"} if rng.random() < 0.5 else {})}}}
        if titled:
            schema.update({"type": "object", "title": "Num"})
        if rng.random() < 0.3:
            schema["default"] = {}
        real_sequence(schema, values, out, stats, crash_ok=False)
    if len(out.failures) > before:
        bump(stats, "magnitude-failing-cases")


def run(ctx, scale=1.0):
    rng = random.Random(ctx["seed"] + 5)
    out = Outcome()
    out.rule = ("object schemas (class-based and untyped, plain and renamed property names, valid and invalid defaults of every JSON kind, "
                "nested object defaults, required/additionalProperties/patternProperties variations) x all subsets of supplied properties "
                "(<= 16 per schema) plus the call without a value (twice); every accepted object also with its data pre-converted by a generic "
                "untyped element (whole / as an envelope's payload / member by member), defaults checked at every nesting level of the data; "
                "operation histories (no-value calls of the element and of its properties' elements and builds from data, 5-9 steps, over valid and "
                "invalid class-level defaults of 8 kinds); numeric leaves with random numeric keywords and defaults of every magnitude "
                "(10^-12 .. 10^40, ints and floats) called without a value and omitted from / supplied to a model class and an untyped object; every "
                "build that fails is compared with the default-free twin of its schema (the omitted properties declare no default); declarations written once and used by "
                "2-4 models (the Property object itself or its element, under the same or different Python names, model classes and untyped objects, any order "
                "of first use) x <= 5 supplied subsets per model, supplied values compared too; caller histories (5-11 steps: builds omitting members whose "
                "defaults are structures of 7 kinds, in-place modification of received values 0-3 levels below the top, calls without a value), defaults "
                "compared with what supplying them yields, model instances attribute by attribute; "
                "a case is a (schema, supplied-subset) pair or a history prefix; distinct by SHA-256")
    stats = {}
    drv = core.Driver()
    try:
        sg, vg = SchemaGen(rng), ValueGen(rng)
        n = int(N_SCHEMAS[ctx["tier"]] * scale)
        for i in range(n):
            schema = object_schema(rng, sg)
            names = list(schema["properties"])
            full = {k: vg.aimed(schema["properties"][k], 2) for k in names}
            subsets = []
            for r in range(len(names) + 1):
                for combo in itertools.combinations(names, r):
                    subsets.append({k: full[k] for k in combo})
            rng.shuffle(subsets)
            values = subsets[:16]
            if rng.random() < 0.3:
                values.append({**full, "extra": 1})
            check_case(drv, schema, values, out, stats, rng)
        # defaults on every element kind, called without a value
        for d in DEFAULTS:
            for s in ({"type": "string"}, {"type": "integer"}, {"type": "number"}, {"type": "array", "items": {"type": "number"}},
                      {"type": "object", "title": "D", "properties": {"k": {"type": "number"}}}, {}, {"anyOf": [{"type": "string"}, {"type": "null"}]},
                      {"not": {"type": "string"}}, {"type": ["integer", "string"]}, {"enum": [1, "x"]}, False):
                if isinstance(s, dict):
                    check_case(drv, {**s, "default": d}, [], out, stats)
        check_case(drv, False, [], out, stats)
        # numeric defaults far from 1 under a float multipleOf (valid and invalid ones): still a default, never an error
        for m in (0.01, 0.5, 0.1, 2.5, 3):
            for d in (1e26, 10 ** 30, 1e22, 0.07, 7, 2 ** 60 + 1, -1e25, 12345678901234567890123456789012):
                for typ in ("number", None):
                    leaf = {"multipleOf": m, "default": d, **({"type": typ} if typ else {})}
                    check_case(drv, leaf, [], out, stats)
                    check_case(drv, {"type": "object", "title": "Num", "properties": {"n": leaf, "other": {"type": "string"}}}, [{}, {"other": "s"}], out, stats)
                    check_case(drv, {"properties": {"n": leaf}}, [{}], out, stats)
        for _ in range(int(n / 2)):
            dsl_case(drv, rng, out, stats)
        for _ in range(int(n / 4)):
            inherit_case(rng, out, stats)
        for _ in range(int(n * 0.4)):
            history_case(rng, sg, vg, out, stats)
        for _ in range(int(n * 0.6)):
            magnitude_case(rng, out, stats)
        for _ in range(int(n * 0.2)):
            shared_case(rng, out, stats)
        for _ in range(int(n * 0.2)):
            caller_history_case(rng, vg, out, stats)
    finally:
        drv.close()
    # report first what lies outside every listed region (a failure inside one is unexplained only because the model or the
    # plain-data twin differs there, and a replay - which has no model at hand - cannot tell it from the listed finding)
    out.failures.sort(key=lambda f: 0 if f.get("finding") is None and not f.get("region") else 1)
    out.stats = stats
    return out


def aimed(reason):
    """The inputs on which model and implementation disagreed, judged by the statement's own oracles on the real code
    (each one also with its data emptied and with no value at all: a default that became an error shows there)."""
    from harness import dsl
    out, stats = Outcome(), {}
    for dis in (reason or {}).get("disagreements", []):
        if "value" not in dis:
            continue
        try:
            v = arg_of(dis["value"]) if dis["value"] == NPJ else dsl.dec_val(dis["value"])
            values = [v] + ([{}] if isinstance(v, dict) and v else []) + [core.NP]
            if "schema" in dis:
                real_sequence(dis["schema"], values, out, stats)
            elif "element" in dis:
                el = dsl.build(dis["element"])
                for x in values:
                    case = {"element": dis["element"], "value": plain_arg(x)}
                    if isinstance(x, NotPassed):
                        check_no_value(el, core.real_call(el, x), case, out, stats)
                    elif isinstance(x, dict):
                        real = core.real_call(el, x)
                        default_error_oracle(real, lambda: dsl_twin(dis["element"], x), x, case, out, stats)  # pylint: disable=cell-var-from-loop
                        if real["r"] == "ok":
                            check_object(el, x, el(x), case, out, stats, True)
        except Exception:  # noqa: BLE001 - an input the real-code oracles cannot take: the broad search follows
            continue
    return [f for f in out.failures if f.get("finding") is None and not f.get("region")]


def search(ctx, reason):
    fresh = aimed(reason)
    if fresh:
        return fresh[0]
    sub = dict(ctx)
    sub["seed"] = ctx["seed"] + 67867967
    found = run(sub, scale=3.0 if ctx["tier"] == "quick" else 1.0)
    fresh = [f for f in found.failures if f.get("finding") is None]
    return fresh[0] if fresh else None


def _fails(schema, value, element=None, pre=None, original=None):
    out, stats = Outcome(), {}
    if element is not None:
        from harness import dsl
        status, el = "ok", dsl.build(element)
    else:
        status, el = core.real_parse(schema)
    if status != "ok":
        return False
    if value == {"np": 1}:
        check_no_value(el, core.real_call(el, core.NP), {}, out, stats, crash_ok=not (original or {}).get("crash"))
        return bool(out.failures)
    real = core.real_call(el, value)
    if real["r"] != "ok":
        omission_oracle(el, value, {}, out, stats)
        default_error_oracle(real, (lambda: dsl_twin(element, value)) if element is not None else (lambda: schema_twin(schema, value)), value, {}, out, stats,
                             not (original or {}).get("crash"))
        return bool(out.failures)
    res = el(value)
    if pre:
        check_preconverted(el, value, res, pre, {}, out, stats, True)
    else:
        check_object(el, value, res, {}, out, stats, True)
    return _recurs(out.failures, original) if original is not None else bool(out.failures)


def _recurs(failures, original):
    """Replays have no model at hand (every listed region is taken to apply): the failure is still there if something
    unexplained is observed at the same place, or - when the original failure lay inside a listed region - the very
    observation of the original failure."""
    original = original or {}
    if any(f.get("finding") is None for f in failures):
        return True
    if original.get("region") or original.get("finding"):
        return any(f.get("what") == original.get("what") for f in failures)
    return False


def _sequence_fails(case, original=None):
    """A (schema, values) sequence: go through the same history on a fresh element, up to the failing position."""
    out, stats = Outcome(), {}
    status, el = core.real_parse(case["schema"])
    if status != "ok":
        return False
    core.dump_elem(el)
    values = [arg_of(j) for j in case["values"]]
    reals = [core.real_call(el, v) for v in values]
    pre = case.get("pre") or [None] * len(values)
    check_sequence(el, case["schema"], values, reals, [True] * len(values), pre, out, stats, upto=case["index"], crash_ok=not (original or {}).get("crash"))
    return _recurs([f for f in out.failures if f["case"].get("index") == case["index"]], original)


def _history_fails(case, original=None):
    out, stats = Outcome(), {}
    status, el = core.real_parse(case["schema"])
    if status != "ok":
        return False
    run_history(el, case["schema"], case["ops"], out, stats, upto=case["step"])
    return _recurs([f for f in out.failures if f["case"].get("step") == case["step"]], original)


def replay_finding(finding):
    return _fails(finding["witness"]["schema"], finding["witness"]["value"])


def _inherit_fails(case):
    from harness import dsl
    out, stats = Outcome(), {}
    classes = build_chain(case["inherit"])
    for i in case["first_use_order"]:
        core.real_call(classes[i], {})
    cls = classes[case["class"]]
    v = dsl.dec_val(case["value"])
    real = core.real_call(cls, v)
    if real["r"] != "ok":
        omission_oracle(cls, v, case, out, stats)
        default_error_oracle(real, lambda: chain_twin(case["inherit"], case["class"], v), v, case, out, stats)
    else:
        check_object(cls, v, cls(v), case, out, stats, True)
    return bool(out.failures)


def _shared_fails(case):
    out, stats = Outcome(), {}
    run_shared(case["shared"], case["first_use_order"], case["model"], case["value"], case, out, stats)
    return any(f.get("finding") is None for f in out.failures)


def replay(payload):
    case = payload.get("failure", {}).get("case")
    if case and "inherit" in case:
        return not _inherit_fails(case)
    if case and "shared" in case:
        return not _shared_fails(case)
    if case and "schema" in case and "ops" in case:
        return not _history_fails(case, payload.get("failure"))
    if case and "schema" in case and "values" in case:
        return not _sequence_fails(case, payload.get("failure"))
    if not case or ("schema" not in case and "element" not in case):
        return True
    v = case["value"]
    return not _fails(case.get("schema"), v, case.get("element"), case.get("pre"), payload.get("failure"))
