"""C05 — defaults fill omitted values and never override supplied ones.

Correspondence: results of object construction for all subsets of supplied properties vs the
Lean model.  Oracle: direct inspection of the returned object against each declared
property's default (converted by calling the property's element on it, raw when invalid)."""
import itertools
import random
import re

from statham.schema.constants import NotPassed
from statham.schema.elements import Object
from statham.schema.exceptions import ValidationError

from harness import core
from harness.callcheck import observe
from harness.framework import Outcome
from harness.gen import SchemaGen, ValueGen, PROP_NAMES, PATTERNS

ID = "C05"
TIE_MODULES = ["StathamModel.Tie"]
ASSUMPTIONS = ["declared properties and their defaults are read from the real element's `properties` mapping"]
N_SCHEMAS = {"quick": 500, "thorough": 15000}
DEFAULTS = [0, False, "", [], {}, None, 1, 1.5, "x", [1, "a"], {"k": 1}, True, "2020-01-01", -3, {"a": {"b": 0}}]


def expected_default(elem):
    d = getattr(elem, "default", NotPassed())
    if isinstance(d, NotPassed):
        return {"np": 1}
    try:
        return core.canon_rval(elem(d))
    except (TypeError, ValidationError):
        return core.canon_rval(d)
    except Exception as exc:  # noqa: BLE001
        return {"exc": type(exc).__name__}


def check_object(el, v, res, case, out, stats, model_agrees):
    """res = el(v) succeeded, v is a dict."""
    props = getattr(el, "properties", NotPassed())
    if isinstance(props, NotPassed) or not props:
        return
    mapping = res._dict if isinstance(res, Object) else res  # pylint: disable=protected-access
    if not isinstance(mapping, dict):
        return
    pats = getattr(el, "patternProperties", NotPassed())
    pats = {} if isinstance(pats, NotPassed) else pats
    names = {n for n in props}
    for name, prop in props.items():
        src = prop.source or name
        region = None
        try:
            if any(re.search(p, src) for p in pats):
                region = "C05-pattern-overlap"
        except re.error:
            continue
        if any(k != src and k == name for k in v):
            region = region or "C05-key-collision"
        if [p.source or n for n, p in props.items()].count(src) > 1:
            region = region or "C05-key-collision"
        if src in v:
            continue  # supplied: covered by C04's oracle (the value itself must be there)
        exp = expected_default(prop.element)
        got = core.canon_rval(mapping.get(name, "<missing>")) if name in mapping else {"missing": 1}
        stats["omitted-with-default" if exp != {"np": 1} else "omitted-no-default"] = stats.get("omitted-with-default" if exp != {"np": 1} else "omitted-no-default", 0) + 1
        if got != exp:
            fid = region if model_agrees else None
            out.failures.append({"case": case, "what": f"omitted property {src!r} (attribute {name}): expected {exp}, result holds {got}", "finding": fid})
            stats["default-fail-" + str(fid)] = stats.get("default-fail-" + str(fid), 0) + 1
        elif isinstance(res, Object):
            try:
                attr = core.canon_rval(getattr(res, name))
            except AttributeError:
                attr = {"missing-attr": 1}
            if attr != exp:
                out.failures.append({"case": case, "what": f"attribute {name} is {attr}, expected default {exp}", "finding": region if model_agrees else None})


def omission_oracle(el, v, case, out, stats, model_agrees=True):
    """`v` was rejected.  If the same data with the (valid) defaults of the omitted properties written out is accepted,
    the rejection is on account of an omitted property that has a default — which must never be an error."""
    props = getattr(el, "properties", None)
    if not isinstance(props, dict) or not isinstance(v, dict):
        return
    for guard in ("minProperties", "maxProperties", "dependencies", "propertyNames", "const", "enum"):
        if not isinstance(getattr(el, guard, NotPassed()), NotPassed):
            return
    fill = {}
    for name, prop in props.items():
        src = prop.source or name
        if src in v:
            continue
        d = getattr(prop.element, "default", NotPassed())
        if isinstance(d, NotPassed):
            continue
        try:
            prop.element(d)
        except Exception:  # noqa: BLE001 - an invalid default among the omitted ones: a different clause
            return
        fill[src] = d
    if not fill:
        return
    try:
        el({**v, **fill})
    except Exception:  # noqa: BLE001 - rejected for some other reason
        return
    # known region: the name is in an explicit `required` keyword list of an untyped element (class-based models and
    # required *property flags* let the default fill; the explicit list does not)
    explicit = getattr(el, "required", NotPassed())
    explicit = list(explicit) if isinstance(explicit, (list, tuple)) else []
    blamed = [k for k in fill if k in explicit]
    finding = "C05-explicit-required-list" if blamed and model_agrees else None
    stats["omission-oracle-fired-" + str(finding)] = stats.get("omission-oracle-fired-" + str(finding), 0) + 1
    out.failures.append({"case": case, "what": f"rejected although the same data with the defaults of the omitted properties {sorted(fill)} written out "
                         "is accepted: omitting a property that has a default became an error", "finding": finding})


def check_case(drv, schema, values, out, stats):
    values = list(values) + [core.NP]
    obs = observe(drv, schema, values, out, stats)
    if obs is None:
        return
    el = obs["el"]
    for i, v in enumerate(values):
        real = obs["reals"][i]
        agrees = obs["tree_ok"] and (obs["models"][i] == real or obs["models"][i]["r"] == "crash")
        case = {"schema": schema, "value": obs["enc_args"][i]}
        if isinstance(v, NotPassed):
            out.note_case(case, "default" in schema if isinstance(schema, dict) else False)
            exp = expected_default(el)
            if real["r"] == "ok":
                if real["v"] != exp and "exc" not in exp:
                    out.failures.append({"case": case, "what": f"called without a value: expected {exp}, got {real['v']}", "finding": None})
            elif real["r"] == "reject":
                out.failures.append({"case": case, "what": "calling without a value raised the validation error", "finding": None})
            continue
        if real["r"] == "reject" and isinstance(v, dict):
            stats["rejected-objects"] = stats.get("rejected-objects", 0) + 1
            omission_oracle(el, v, case, out, stats, agrees)
        if real["r"] != "ok" or not isinstance(v, dict):
            continue
        try:
            res = el(v)
        except Exception:  # noqa: BLE001
            continue
        out.note_case(case, True)
        check_object(el, v, res, {"schema": schema, "value": v}, out, stats, agrees)


def object_schema(rng, sg, depth=2, cls=None):
    names = rng.sample(PROP_NAMES, rng.choice([1, 2, 3, 4]))
    props = {}
    for n in names:
        sub = sg.leaf() if depth <= 1 or rng.random() < 0.7 else object_schema(rng, sg, depth - 1)
        if isinstance(sub, dict):
            if rng.random() < 0.75:
                sub = dict(sub)
                sub["default"] = rng.choice(DEFAULTS)
            else:
                sub.pop("default", None)
        props[n] = sub
    s = {"properties": props}
    if cls if cls is not None else rng.random() < 0.6:
        s["type"] = "object"
        s["title"] = rng.choice(["Model", "Thing", "Cfg"])
    if rng.random() < 0.4:
        s["required"] = rng.sample(names + ["zz"], rng.choice([1, 2]))
    if rng.random() < 0.3:
        s["additionalProperties"] = rng.choice([False, True, {"type": "integer"}])
    if rng.random() < 0.2:
        s["patternProperties"] = {rng.choice(PATTERNS): rng.choice([{}, {"type": "integer"}, True])}
    if rng.random() < 0.2:
        s["default"] = rng.choice([{}, {names[0]: 1}, 1, None])
    return s


def dsl_case(drv, rng, out, stats):
    """Model classes / untyped elements written in the DSL with arbitrary renames (including chains where one
    property's JSON name is another property's Python name), defaults, and all subsets of supplied names."""
    from harness import dsl
    chain = rng.random() < 0.5
    pool = [("kind", "class"), ("type_", "kind"), ("a", "b"), ("b", "c"), ("n", "n"), ("a_b", "a b"), ("x", "x")] if chain \
        else [("a", "a"), ("b", "b"), ("a_b", "a b"), ("class_", "class"), ("n", "n")]
    picks = rng.sample(pool, rng.choice([2, 3, 4]))
    plist = []
    for name, src in picks:
        kw = {}
        cls = rng.choice(["Integer", "String", "Number", "Element", "Array"])
        if rng.random() < 0.8:
            kw["default"] = core.enc_val(rng.choice(DEFAULTS))
        sub = {"cls": cls, "kw": kw}
        if cls == "Array":
            kw["itemsKind"] = "single"
            sub["items"] = [{"cls": "Number", "kw": {}}]
        key = {"name": name, "source": src}
        if rng.random() < 0.3:
            key["required"] = True
        plist.append([key, sub])
    is_cls = rng.random() < 0.5
    dump = {"cls": "Object" if is_cls else "Element", "kw": {"hasProps": True}, "props": plist}
    if is_cls:
        dump["name"] = "Model"
    if rng.random() < 0.3:
        dump["kw"]["addPropsB"] = False
    el = dsl.build(dump)
    srcs = [src for _, src in picks]
    vals_for = {src: rng.choice([1, "s", 2.5, [1], None, 0]) for src in srcs}
    subsets = [{k: vals_for[k] for k in combo} for r in range(len(srcs) + 1) for combo in itertools.combinations(srcs, r)]
    rng.shuffle(subsets)
    values = subsets[:12]
    enc_args = [core.enc_arg(v) for v in values]
    texts = set()
    core.all_strings(dump, texts)
    rep = drv.ask({"op": "elem_call", "elem": dump, "args": enc_args, "tables": core.make_tables(set(), set(), sorted(texts))})
    if "error" in rep:
        stats["driver-error"] = stats.get("driver-error", 0) + 1
        return
    out.traces_validated += 1
    for v, enc, model in zip(values, enc_args, rep["results"]):
        real = core.real_call(el, v)
        agrees = model == real or model["r"] == "crash"
        if not agrees and real["r"] in ("ok", "reject"):
            out.disagreements.append({"what": "call result (DSL model)", "impl": real, "model": model, "element": dump, "value": enc})
        if real["r"] == "reject":
            stats["dsl-rejected"] = stats.get("dsl-rejected", 0) + 1
            omission_oracle(el, v, {"element": dump, "value": enc}, out, stats, agrees)
        if real["r"] != "ok":
            continue
        out.note_case({"element": dump, "value": enc}, True)
        stats["dsl-accepted"] = stats.get("dsl-accepted", 0) + 1
        check_object(el, v, el(v), {"element": dump, "value": v}, out, stats, agrees)


def build_chain(spec):
    """spec: per layer a list of [attribute, source or None, element class name, encoded default or None]"""
    from harness import dsl
    from statham.schema.elements import Integer, Number, String
    from statham.schema.elements.meta import ObjectClassDict, ObjectMeta
    from statham.schema.property import Property
    classes, base = [], Object
    for li, layer in enumerate(spec):
        cd = ObjectClassDict()
        for name, src, kind, d in layer:
            elem = {"Integer": Integer, "String": String, "Number": Number}[kind](**({"default": dsl.dec_val(d)} if d is not None else {}))
            cd[name] = Property(elem, source=src)
        cls = ObjectMeta(f"Layer{li}", (base,), cd)
        classes.append(cls)
        base = cls
    return classes


def inherit_case(rng, out, stats):
    """Model classes that inherit from one another (class statements, as a user writes them): each class of the chain fills the
    defaults of *all* its properties, inherited and own, whichever class of the chain was used first."""
    pool = [("a", None), ("b", None), ("label", None), ("class_", "class"), ("n", None), ("size", None)]
    picks = rng.sample(pool, rng.choice([3, 4, 5]))
    depth = rng.choice([2, 2, 3])
    cut = sorted(rng.sample(range(1, len(picks)), min(depth - 1, len(picks) - 1)))
    layers = [picks[i:j] for i, j in zip([0] + cut, cut + [len(picks)])]
    spec = []
    for layer in layers:
        own = []
        for name, src in layer:
            has_default = rng.random() < 0.75
            own.append([name, src, rng.choice(["Integer", "String", "Number"]), core.enc_val(rng.choice([1, "s", 2, 0, "", 2.5])) if has_default else None])
        spec.append(own)
    classes = build_chain(spec)
    order = list(range(len(classes)))
    rng.shuffle(order)
    case_base = {"inherit": spec, "first_use_order": order}
    # use the classes in a random order first (an instance from {} and a validation), then look at every class
    for i in order:
        core.real_call(classes[i], {})
    for ci, cls in enumerate(classes):
        srcs = [p.source or n for n, p in cls.properties.items()]
        vals_for = {k: rng.choice([1, "s", 2.5, 0]) for k in srcs}
        subsets = [{k: vals_for[k] for k in combo} for r in range(len(srcs) + 1) for combo in itertools.combinations(srcs, r)]
        rng.shuffle(subsets)
        for v in subsets[:6]:
            real = core.real_call(cls, v)
            case = {**case_base, "class": ci, "value": core.enc_arg(v)}
            out.note_case(case, True)
            if real["r"] != "ok":
                omission_oracle(cls, v, case, out, stats)
                continue
            stats["inherit-accepted"] = stats.get("inherit-accepted", 0) + 1
            check_object(cls, v, cls(v), case, out, stats, True)


def run(ctx, scale=1.0):
    rng = random.Random(ctx["seed"] + 5)
    out = Outcome()
    out.rule = ("object schemas (class-based and untyped, plain and renamed property names, valid and invalid defaults of every JSON kind, "
                "nested object defaults, required/additionalProperties/patternProperties variations) x all subsets of supplied properties "
                "(<= 16 per schema) plus the call without a value; a case is a (schema, supplied-subset) pair; distinct by SHA-256")
    stats = {}
    drv = core.Driver()
    try:
        sg, vg = SchemaGen(rng), ValueGen(rng)
        n = int(N_SCHEMAS[ctx["tier"]] * scale)
        for i in range(n):
            schema = object_schema(rng, sg)
            names = list(schema["properties"])
            full = {k: vg.aimed(schema["properties"][k], 2) for k in names}
            subsets = []
            for r in range(len(names) + 1):
                for combo in itertools.combinations(names, r):
                    subsets.append({k: full[k] for k in combo})
            rng.shuffle(subsets)
            values = subsets[:16]
            if rng.random() < 0.3:
                values.append({**full, "extra": 1})
            check_case(drv, schema, values, out, stats)
        # defaults on every element kind, called without a value
        for d in DEFAULTS:
            for s in ({"type": "string"}, {"type": "integer"}, {"type": "number"}, {"type": "array", "items": {"type": "number"}},
                      {"type": "object", "title": "D", "properties": {"k": {"type": "number"}}}, {}, {"anyOf": [{"type": "string"}, {"type": "null"}]},
                      {"not": {"type": "string"}}, {"type": ["integer", "string"]}, {"enum": [1, "x"]}, False):
                if isinstance(s, dict):
                    check_case(drv, {**s, "default": d}, [], out, stats)
        check_case(drv, False, [], out, stats)
        # numeric defaults far from 1 under a float multipleOf (valid and invalid ones): still a default, never an error
        for m in (0.01, 0.5, 0.1, 2.5, 3):
            for d in (1e26, 10 ** 30, 1e22, 0.07, 7, 2 ** 60 + 1, -1e25, 12345678901234567890123456789012):
                for typ in ("number", None):
                    leaf = {"multipleOf": m, "default": d, **({"type": typ} if typ else {})}
                    check_case(drv, leaf, [], out, stats)
                    check_case(drv, {"type": "object", "title": "Num", "properties": {"n": leaf, "other": {"type": "string"}}}, [{}, {"other": "s"}], out, stats)
                    check_case(drv, {"properties": {"n": leaf}}, [{}], out, stats)
        for _ in range(int(n / 2)):
            dsl_case(drv, rng, out, stats)
        for _ in range(int(n / 4)):
            inherit_case(rng, out, stats)
    finally:
        drv.close()
    out.stats = stats
    return out


def search(ctx, reason):
    sub = dict(ctx)
    sub["seed"] = ctx["seed"] + 67867967
    found = run(sub, scale=3.0 if ctx["tier"] == "quick" else 1.0)
    fresh = [f for f in found.failures if f.get("finding") is None]
    return fresh[0] if fresh else None


def _fails(schema, value, element=None):
    out, stats = Outcome(), {}
    if element is not None:
        from harness import dsl
        status, el = "ok", dsl.build(element)
    else:
        status, el = core.real_parse(schema)
    if status != "ok":
        return False
    if value == {"np": 1}:
        real = core.real_call(el, core.NP)
        return real["r"] != "ok" or real["v"] != expected_default(el)
    try:
        res = el(value)
    except Exception:  # noqa: BLE001
        omission_oracle(el, value, {}, out, stats)
        return bool(out.failures)
    check_object(el, value, res, {}, out, stats, True)
    return bool(out.failures)


def replay_finding(finding):
    return _fails(finding["witness"]["schema"], finding["witness"]["value"])


def _inherit_fails(case):
    from harness import dsl
    out, stats = Outcome(), {}
    classes = build_chain(case["inherit"])
    for i in case["first_use_order"]:
        core.real_call(classes[i], {})
    cls = classes[case["class"]]
    v = dsl.dec_val(case["value"])
    real = core.real_call(cls, v)
    if real["r"] != "ok":
        omission_oracle(cls, v, case, out, stats)
    else:
        check_object(cls, v, cls(v), case, out, stats, True)
    return bool(out.failures)


def replay(payload):
    case = payload.get("failure", {}).get("case")
    if case and "inherit" in case:
        return not _inherit_fails(case)
    if not case or ("schema" not in case and "element" not in case):
        return True
    v = case["value"]
    return not _fails(case.get("schema"), v, case.get("element"))
