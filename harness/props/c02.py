"""C02 — generated Python models accept exactly what the source schema accepts.

Documents: generated reference documents (local `$ref`s into definitions, cross-file `$ref`s into a
second file, shared definitions referenced from several places, titled and untitled nested
objects, repeated titles with equal and unequal content, descriptions) written to a scratch
directory and run through the generator exactly as `python -m statham --input` does.

Correspondence: the structure of the generated text (`ast.parse`: class order, names, bases, class
keywords, docstrings, every property line's attribute, annotation text and expression, import
groups) vs the Lean model `emitModule` on the dump of what `parse` returned.
Oracle: the text compiles; executes in a namespace holding nothing but builtins (so it can use
only what it imports, and every class is defined before it is used); defines one class per class
of the parsed model and no two classes with one stem that are equal; each generated class `==`
the parsed class of that name and returns the same outcome on every generated value; the root
does so too.
Direct oracle ("the model obtained by parsing the schema directly"): `json_ref_dict.materialize` hands ONE dictionary to every
`$ref` that points at it and `parse` walks `definitions` again after the root, so the generator's parse visits a shared schema
several times and sees, from the second visit on, what the first visit wrote into it.  The reference model is therefore obtained
from the same resolved, auto-titled document copied as a TREE (`unshare`: every referrer gets a private copy, nothing is visited
twice) and parsed on its own: element for element (root, every definition) and class for class it must equal what the generator's
parse produced, the generated module must declare exactly its classes, and every generated class must answer like the directly
parsed class of that name on every generated value (values are also aimed through the second and later referrers of a shared
definition)."""
import ast
import copy
import json
import keyword
import os
import random
import shutil
import tempfile

from json_ref_dict import materialize, RefDict

from statham.__main__ import main
from statham.schema.elements.meta import ObjectMeta
from statham.schema.exceptions import SchemaParseError
from statham.schema.parser import parse
from statham.serializers import serialize_python
from statham.serializers.orderer import get_object_classes
from statham.titles import title_labeller

from harness import core, pyast
from harness.framework import Outcome
from harness.gen import SchemaGen, ValueGen

ID = "C02"
TIE_MODULES = ["StathamModel.Tie"]
PROOF_MODULES = ['StathamModel.Py.EvalTree', 'StathamModel.Py.EvalClass', 'StathamModel.Lemmas.EvalTree', 'StathamModel.Lemmas.EvalClass',
                 'StathamModel.Lemmas.ReachAdequate', 'StathamModel.Lemmas.TreeGraph', 'StathamModel.Lemmas.ModuleExec', "StathamModel.Props.C02Draft6"]
ASSUMPTIONS = ["json_ref_dict resolves references (trusted); documents are non-recursive",
               "text-level printing (quoting, line layout, CPython literal repr) is compared through Python's own parser, not modelled"]
N_DOCS = {"quick": 200, "thorough": 8000}
TITLES = ["Item", "item", "Thing", "thing list", "Child", "child_node", "HTTPResponse", "a-b", "Item"]
CLEAN_PROPS = ["name", "value", "child", "items_", "kind", "x1", "camelCase", "snake_case", "with space", "with-hyphen", "UPPER",
               "from_", "in_", "examples", "$comment", "title", "default"]
TYPING_CANDIDATES = {"Any", "List", "Union"}


class Gen:
    def __init__(self, rng):
        self.rng = rng
        self.sg = SchemaGen(rng, titled=True)

    def leaf(self):
        r = self.rng
        k = r.random()
        if r.random() < 0.08:
            return r.choice([False, True])        # boolean schemas: `Nothing()` / `Element()` in the generated text
        if k < 0.25:
            return {"type": "string", **({"maxLength": r.choice([1, 3])} if r.random() < 0.3 else {})}
        if k < 0.45:
            return {"type": r.choice(["integer", "number"]), **({"minimum": r.choice([0, 1])} if r.random() < 0.3 else {})}
        if k < 0.55:
            return {"type": r.choice(["boolean", "null"])}
        if k < 0.65:
            return {}
        if k < 0.75:
            return {"enum": [1, "a", None]} if r.random() < 0.5 else {"const": r.choice([1, "x", [1], {"k": 1}])}
        leaf = self.sg.leaf()
        return leaf if isinstance(leaf, dict) else {}

    def obj(self, depth, refs):
        r = self.rng
        s = {"type": "object"}
        shape = r.random()
        if shape < 0.12:
            s["type"] = ["object", r.choice(["null", "string"])]       # a type list holding "object"
        elif shape < 0.24:
            # an object class next to a composition keyword
            s[r.choice(["anyOf", "oneOf", "allOf"])] = [{"required": [r.choice(CLEAN_PROPS)]}] if r.random() < 0.6 else [self.leaf()]
        if r.random() < 0.6:
            s["title"] = r.choice(TITLES)
        if r.random() < 0.3:
            s["description"] = r.choice(["A thing.", "Line one.\nLine two.", "  padded  ", "Ünïcode"])
        names = r.sample(CLEAN_PROPS, r.randint(0, 3))
        if r.random() < 0.04:
            names.append(r.choice(["__x", "__private", "__a_", "_single", "__both__", "x__"]))     # underscore-led names
        if names:
            s["properties"] = {n: self.sub(depth - 1, refs) for n in names}
            if r.random() < 0.4:
                s["required"] = r.sample(names, r.randint(1, len(names)))
        if r.random() < 0.25:
            s["additionalProperties"] = r.choice([False, self.sub(depth - 1, refs)])
        if r.random() < 0.1:
            s["default"] = {}
        if depth >= 2 and r.random() < 0.3:
            # twins: the same untitled object schema, wrapped the same way, under two names (incoming / outgoing)
            inner = {"type": "object", "properties": {n: self.leaf() for n in r.sample(CLEAN_PROPS, r.randint(1, 2))}}
            if r.random() < 0.3:
                inner["title"] = r.choice(TITLES)
            wrap = r.choice([lambda x: {"type": "array", "items": x}, lambda x: {"anyOf": [x, {"type": "null"}]}, lambda x: {"not": x},
                             lambda x: {"type": "array", "items": [x]}, lambda x: x, lambda x: {"additionalProperties": x}])
            a, b = r.sample(["incoming", "outgoing", "left", "right"], 2)
            s.setdefault("properties", {})
            s["properties"][a] = wrap(copy.deepcopy(inner))
            s["properties"][b] = wrap(copy.deepcopy(inner))
        return s

    def sub(self, depth, refs):
        r = self.rng
        k = r.random()
        if refs and k < 0.3:
            return {"$ref": r.choice(refs)}
        if depth <= 0 or k < 0.5:
            return self.leaf()
        if k < 0.7:
            return self.obj(depth, refs)
        if k < 0.82:
            items = self.sub(depth - 1, refs) if r.random() < 0.7 else [self.sub(depth - 1, refs) for _ in range(r.randint(1, 2))]
            out = {"type": "array", "items": items}
            if isinstance(items, list) and r.random() < 0.5:
                out["additionalItems"] = r.choice([False, self.sub(depth - 1, refs)])
            return out
        if k < 0.95:
            return {r.choice(["anyOf", "oneOf", "allOf"]): [self.sub(depth - 1, refs) for _ in range(r.randint(1, 3))]}
        return {"not": self.sub(depth - 1, refs)}

    def inline_only(self):
        """no class declares a property of its own, but an untyped sub-schema with `properties` sits in a keyword position of a
        class (or of an array reached from it): `Property` appears only inside class arguments"""
        r = self.rng
        inner = {"properties": {n: self.leaf() for n in r.sample(CLEAN_PROPS, r.randint(1, 2))}}
        if r.random() < 0.4:
            inner["required"] = [next(iter(inner["properties"]))]
        where = r.choice(["additionalProperties", "patternProperties", "propertyNames", "dependencies", "array-def"])
        root = {"type": "object", "title": "Root"}
        if where == "patternProperties":
            root[where] = {"^x": inner}
        elif where == "dependencies":
            root[where] = {"a": inner}
        elif where == "array-def":
            root["additionalProperties"] = {"$ref": "#/definitions/rows"}
            root["definitions"] = {"rows": {"type": "array", "items": inner}}
        else:
            root[where] = inner
        if r.random() < 0.5:
            root.setdefault("definitions", {})["other"] = {"type": "object", "title": "Other", "additionalProperties": r.choice([False, {"type": "string"}])}
        return {"doc.json": root}

    def document(self):
        """(files: name -> document, entry file name)"""
        r = self.rng
        if r.random() < 0.1:
            return self.inline_only()
        other_defs, other_refs = {}, []
        if r.random() < 0.35:
            for i in range(r.randint(1, 2)):
                other_defs[f"ext{i}"] = self.obj(1, []) if r.random() < 0.7 else self.leaf()
                other_refs.append(f"other.json#/definitions/ext{i}")
        n = r.randint(0, 4)
        names = [f"def{i}" for i in range(n)]
        defs = {}
        for i in reversed(range(n)):          # def i may refer to defs j > i only: acyclic
            later = [f"#/definitions/{m}" for m in names[i + 1:]] + other_refs
            defs[names[i]] = self.obj(2, later) if r.random() < 0.65 else self.sub(2, later)
        defs = {k: defs[k] for k in names}
        refs = [f"#/definitions/{m}" for m in names] + other_refs
        root = self.obj(3, refs)
        root.setdefault("title", "Root")
        if refs and "properties" in root and r.random() < 0.7:
            # the same definition from two places
            ref = r.choice(refs)
            root["properties"]["first"] = {"$ref": ref}
            root["properties"]["second"] = {"type": "array", "items": {"$ref": ref}}
        if defs:
            root["definitions"] = defs
        files = {"doc.json": root}
        if other_defs:
            files["other.json"] = {"definitions": other_defs}
        return files


def regions(files):
    """Known-finding regions a document lies in (computed from the document, not from any failure)."""
    out = set()

    def walk(s):
        if isinstance(s, dict):
            d = s.get("description")
            if isinstance(d, str) and ('"' in d or "\\" in d or "\r" in d or "\x00" in d or d != d.strip() and False):
                out.add("C02-docstring-quoting")
            props = s.get("properties")
            if isinstance(props, dict) and any(isinstance(n, str) and n.startswith("__") and not n.endswith("__") for n in props):
                # a class-body name with two leading underscores is rewritten by Python's private-name mangling
                out.add("C02-name-mangling")
            for v in s.values():
                walk(v)
        elif isinstance(s, list):
            for v in s:
                walk(v)
    for doc in files.values():
        walk(doc)
    return out


def unshare(node):
    """The resolved document as a tree: every `$ref` target copied privately for each referrer (documents are acyclic).
    `copy.deepcopy` would keep one shared dictionary shared; this keeps nothing shared, so a parse of the result visits
    every schema dictionary exactly once."""
    if isinstance(node, dict):
        return {k: unshare(v) for k, v in node.items()}
    if isinstance(node, list):
        return [unshare(v) for v in node]
    return node


def sharing(raw):
    """(dictionaries the generator's parse visits more than once, how many of them are object schemas declaring a property
    whose attribute name differs from its JSON name) - for the distribution only, never for the verdict.  The walk follows
    what `parse` follows: the root, then every definition again."""
    visits, nodes = {}, {}

    def walk(s):
        if isinstance(s, dict):
            visits[id(s)] = visits.get(id(s), 0) + 1
            nodes[id(s)] = s
            if visits[id(s)] > 1:
                return
            for v in s.values():
                walk(v)
        elif isinstance(s, list):
            for v in s:
                walk(v)
    defs = raw.get("definitions") if isinstance(raw, dict) else None
    walk({k: v for k, v in raw.items() if k != "definitions"} if isinstance(raw, dict) else raw)
    if isinstance(defs, dict):
        for d in defs.values():
            walk(d)
    shared = [nodes[i] for i, n in visits.items() if n > 1 and ("type" in nodes[i] or "properties" in nodes[i])]
    renamed = 0
    for s in shared:
        props = s.get("properties")
        if isinstance(props, dict) and any(isinstance(k, str) and (not k.isidentifier() or keyword.iskeyword(k) or k in dir(object)) for k in props):
            renamed += 1
    return len(shared), renamed


def second_referrer_values(raw, vg, rng):
    """Values which reach a shared definition through EVERY property of the root that refers to it (the first referrer
    and the later ones), each holding an aimed value for that definition and a twisted one (a required key dropped or a
    member replaced by a value of another type)."""
    props = raw.get("properties") if isinstance(raw, dict) else None
    if not isinstance(props, dict):
        return []
    seen, groups = {}, {}
    for name, sub in props.items():
        target, wrap = sub, (lambda v: v)
        if isinstance(sub, dict) and sub.get("type") == "array" and isinstance(sub.get("items"), dict):
            target, wrap = sub["items"], (lambda v: [v])
        if isinstance(target, dict) and isinstance(target.get("properties"), dict):
            groups.setdefault(id(target), []).append((name, wrap))
            seen[id(target)] = target
    out = []
    for key, referrers in groups.items():
        if len(referrers) < 2:
            continue
        target = seen[key]
        try:
            good = vg.aimed(target, 2)
        except Exception:  # noqa: BLE001
            continue
        if not isinstance(good, dict):
            good = {}
        for k, sub in target["properties"].items():
            if k not in good and isinstance(sub, dict):
                try:
                    good[k] = vg.aimed(sub, 1)
                except Exception:  # noqa: BLE001
                    pass
        bad = [good]
        for k in list(good):
            dropped = {a: b for a, b in good.items() if a != k}
            other = dict(good)
            other[k] = rng.choice([3, "s", None, [], {}, True, 1.5])
            bad += [dropped, other]
        rng.shuffle(bad)
        for v in bad[:3]:
            for name, wrap in referrers:
                out.append({name: wrap(copy.deepcopy(v))})
            out.append({name: wrap(copy.deepcopy(v)) for name, wrap in referrers})
    return out


def direct_oracle(case, raw, elements, stats):
    """The generator's parse (of the shared, resolved document) against a parse of the same document as a tree.
    Returns (directly parsed classes by name | None, failure | None)."""
    n_shared, n_renamed = sharing(raw)
    if n_shared:
        stats["direct-shared-schema"] = stats.get("direct-shared-schema", 0) + 1
    if n_renamed:
        stats["direct-shared-schema-renamed-property"] = stats.get("direct-shared-schema-renamed-property", 0) + 1
    try:
        direct = parse(unshare(raw))
    except RecursionError:
        stats["direct-recursion"] = stats.get("direct-recursion", 0) + 1
        return None, None
    except Exception as exc:  # noqa: BLE001 - the generator accepted this very document
        return None, {"case": case, "what": f"parsing the self-contained copy of the document raises {type(exc).__name__}: {str(exc)[:160]}, the generator accepted it", "finding": None}
    stats["direct-compared"] = stats.get("direct-compared", 0) + 1
    if len(direct) != len(elements):
        return None, {"case": case, "what": f"the generator's parse returns {len(elements)} elements, the directly parsed document {len(direct)}", "finding": None}
    d_classes = {}
    for c in get_object_classes(*direct):
        d_classes.setdefault(c.__name__, c)
    p_classes = [c.__name__ for c in get_object_classes(*elements)]
    if sorted(set(p_classes)) != sorted(d_classes):
        extra = sorted(set(p_classes) - set(d_classes))
        missing = sorted(set(d_classes) - set(p_classes))
        return None, {"case": case, "what": "not one class per distinct object schema: the generator declares " + (f"{extra} which the directly parsed schema does not have" if extra else "no class")
                      + (f" and lacks {missing}" if missing else "") + f" (generator: {sorted(set(p_classes))}, direct: {sorted(d_classes)})", "finding": None}
    for i, (a, b) in enumerate(zip(elements, direct)):
        try:
            equal = (a == b) and (b == a)
        except Exception as exc:  # noqa: BLE001
            equal = f"exc:{type(exc).__name__}"
        if equal is not True:
            where = "root" if i == 0 else f"definition #{i - 1}"
            return None, {"case": {**case, "element": i}, "what": f"the generator's model of the {where} is not equal to the directly parsed one ({equal}): {str(a.python() if hasattr(a, 'python') else a)[:100]} vs {str(b.python() if hasattr(b, 'python') else b)[:100]}", "finding": None}
    for c in get_object_classes(*elements):
        try:
            equal = c == d_classes[c.__name__]
        except Exception as exc:  # noqa: BLE001
            equal = f"exc:{type(exc).__name__}"
        if equal is not True:
            return None, {"case": {**case, "class": c.__name__}, "what": f"the generator's class {c.__name__} is not equal to the directly parsed class of that name ({equal})", "finding": None}
    return d_classes, None


def module_shape(text):
    """Structure of the generated module, via Python's own parser."""
    tree = ast.parse(text)
    shape = {"typing": [], "maybe": False, "elements": [], "property": False, "classes": [], "other": []}
    for node in tree.body:
        if isinstance(node, ast.ImportFrom):
            names = [a.name for a in node.names]
            if node.module == "typing":
                shape["typing"] = names
            elif node.module == "statham.schema.constants":
                shape["maybe"] = "Maybe" in names
            elif node.module == "statham.schema.elements":
                shape["elements"] = names
            elif node.module == "statham.schema.property":
                shape["property"] = "Property" in names
            else:
                shape["other"].append(ast.unparse(node))
        elif isinstance(node, ast.ClassDef):
            cls = {"name": node.name, "base": ast.unparse(node.bases[0]) if len(node.bases) == 1 else [ast.unparse(b) for b in node.bases],
                   "kwargs": [[k.arg, pyast.canon(k.value)] for k in node.keywords], "doc": None, "props": []}
            body = list(node.body)
            if body and isinstance(body[0], ast.Expr) and isinstance(body[0].value, ast.Constant) and isinstance(body[0].value.value, str):
                cls["doc"] = body[0].value.value
                body = body[1:]
            for st in body:
                if isinstance(st, ast.Pass):
                    continue
                if isinstance(st, ast.AnnAssign) and isinstance(st.target, ast.Name):
                    cls["props"].append({"attr": st.target.id, "ann": ast.unparse(st.annotation), "expr": pyast.canon(st.value)})
                else:
                    shape["other"].append(ast.unparse(st))
            shape["classes"].append(cls)
        else:
            shape["other"].append(ast.unparse(node))
    return shape


def norm_ann(text):
    return text.replace(" ", "")


def check_document(drv, files, out, stats, vg, tmp, label, rng=None):
    rng = rng or random.Random(0)
    case = {"label": label, "files": files}
    for name, doc in files.items():
        with open(os.path.join(tmp, name), "w", encoding="utf8") as fh:
            json.dump(doc, fh)
    uri = os.path.join(tmp, "doc.json") + "#/"
    try:
        schema = materialize(RefDict.from_uri(uri), context_labeller=title_labeller())
        raw = copy.deepcopy(schema)
        elements = parse(schema)
        text = serialize_python(*elements)
    except SchemaParseError as exc:
        stats["refused-" + type(exc).__name__] = stats.get("refused-" + type(exc).__name__, 0) + 1
        return
    except RecursionError:
        stats["recursion"] = stats.get("recursion", 0) + 1
        return
    reg = regions(files)
    finding = sorted(reg)[0] if reg else None
    n_classes = len(get_object_classes(*elements))
    out.note_case(case, n_classes >= 2)
    stats["classes-%d" % min(n_classes, 6)] = stats.get("classes-%d" % min(n_classes, 6), 0) + 1
    if len(files) > 1:
        stats["cross-file"] = stats.get("cross-file", 0) + 1
    # the command-line path gives the same text
    try:
        if main(uri) != text:
            out.failures.append({"case": case, "what": "statham.__main__.main returns a different text from serialize_python(*parse(...))", "finding": None})
            return
    except Exception as exc:  # noqa: BLE001
        out.failures.append({"case": case, "what": f"main() raised {type(exc).__name__}: {exc}", "finding": None})
        return
    # --- oracle 0: the generator's parse of the shared document against a direct parse of the document as a tree
    direct, failure = direct_oracle(case, raw, elements, stats)
    if failure:
        out.failures.append(failure)
        return
    # --- oracle 1: valid Python, runs on its own imports, classes before use
    try:
        code = compile(text, "<generated>", "exec")
    except SyntaxError as exc:
        out.failures.append({"case": {**case, "text": text}, "what": f"generated module is not valid Python: {exc}", "finding": finding})
        return
    ns = {"__builtins__": __builtins__, "__name__": "generated"}
    try:
        exec(code, ns)  # noqa: S102 - the property is about executing the generated text
    except Exception as exc:  # noqa: BLE001
        out.failures.append({"case": {**case, "text": text}, "what": f"generated module does not execute on its own imports: {type(exc).__name__}: {exc}", "finding": finding})
        return
    generated = {k: v for k, v in ns.items() if isinstance(v, ObjectMeta) and v.__module__ == "generated"}
    parsed = {c.__name__: c for c in get_object_classes(*elements)}
    # --- oracle 2: one class per class of the parsed model
    if set(generated) != set(parsed):
        out.failures.append({"case": {**case, "text": text}, "what": f"generated classes {sorted(generated)} differ from the parsed model's classes {sorted(parsed)}", "finding": finding})
        return
    try:
        shape = module_shape(text)
    except pyast.Unsupported as exc:
        out.failures.append({"case": {**case, "text": text}, "what": f"generated text has an unexpected form: {exc}", "finding": finding})
        return
    names = [c["name"] for c in shape["classes"]]
    if len(names) != len(set(names)):
        out.failures.append({"case": {**case, "text": text}, "what": f"a class is declared twice: {names}", "finding": finding})
        return
    if shape["other"]:
        out.failures.append({"case": {**case, "text": text}, "what": f"unexpected statements in the generated module: {shape['other'][:2]}", "finding": finding})
        return
    stems = {}
    for n, c in parsed.items():
        stem = n.rsplit("_", 1)[0] if n.rsplit("_", 1)[-1].isdigit() else n
        stems.setdefault(stem, []).append(c)
    for stem, group in stems.items():
        for i, a in enumerate(group):
            for b in group[i + 1:]:
                if a == b:
                    out.failures.append({"case": case, "what": f"two classes for one object schema: {a.__name__} and {b.__name__} are equal", "finding": finding})
                    return
    # --- oracle 3: each generated class equals and validates like the parsed one
    values = []
    try:
        values = vg.values(raw if isinstance(raw, dict) else {}, 8)
    except Exception:  # noqa: BLE001
        pass
    values += [{}, {"name": "n"}, {"first": {}, "second": [{}]}, [], "s", 1, None, core.NP]
    try:
        through = second_referrer_values(raw, vg, rng) if isinstance(raw, dict) else []
    except Exception:  # noqa: BLE001
        through = []
    if through:
        stats["values-through-every-referrer"] = stats.get("values-through-every-referrer", 0) + len(through)
    # the root's own class: `get_object_classes` lists an element before its children, so it is the first of the root's closure
    root_closure = get_object_classes(elements[0])
    root_name = root_closure[0].__name__ if root_closure else None
    base_values = values
    for n, pc in parsed.items():
        values = base_values + through if n == root_name else base_values
        gc = generated[n]
        try:
            equal = (gc == pc) and (pc == gc)
        except Exception as exc:  # noqa: BLE001
            equal = f"exc:{type(exc).__name__}"
        if equal is not True:
            out.failures.append({"case": {**case, "text": text, "class": n}, "what": f"generated class {n} is not equal to the parsed class ({equal})", "finding": finding})
            return
        for v in values:
            a, b = core.real_call(gc, v), core.real_call(pc, v)
            if a != b:
                out.failures.append({"case": {**case, "class": n, "value": core.enc_arg(v)}, "what": f"generated class {n} answers {str(a)[:120]}, the parsed class {str(b)[:120]}", "finding": finding})
                return
            if direct is not None and n in direct and n == root_name:
                d = core.real_call(direct[n], v)
                if a != d:
                    out.failures.append({"case": {**case, "class": n, "value": core.enc_arg(v)}, "what": f"generated class {n} answers {str(a)[:120]}, the directly parsed schema {str(d)[:120]}", "finding": finding})
                    return
    # --- the model
    try:
        dumps = [core.dump_elem(e) for e in elements]
    except (TypeError, ValueError, RecursionError):
        stats["undumpable"] = stats.get("undumpable", 0) + 1
        return
    rep = drv.ask({"op": "emit_module", "elements": dumps})
    if "error" in rep:
        stats["driver-error"] = stats.get("driver-error", 0) + 1
        return
    out.traces_validated += 1
    if rep["r"] != "ok":
        out.disagreements.append({"what": "model refuses a document the generator accepted", "model": rep, **case})
        return
    if not rep["names_in_scope"]:
        out.disagreements.append({"what": "model: a name is used before it is in scope", **case})
    # the model's own execution of its module (Py/EvalClass.lean, the subject of C02_module_executes): here the real module
    # has been executed and every class compared equal to the parsed one, so the model must say the same of its own
    names = [c.__name__ for c in parsed.values()]
    if len(set(names)) == len(names):
        stats["model-exec-compared"] = stats.get("model-exec-compared", 0) + 1
        if rep.get("execBack") is not True:
            out.disagreements.append({"what": "executing the generated module rebuilds equal classes", "impl": True, "model": rep.get("execBack"), **case})
    real_classes = [{"name": c["name"], "base": c["base"], "kwargs": c["kwargs"], "doc": c["doc"],
                     "props": [{"attr": p["attr"], "ann": norm_ann(p["ann"]), "expr": p["expr"]} for p in c["props"]]} for c in shape["classes"]]
    model_classes = [{"name": c["name"], "base": c["base"], "kwargs": c["kwargs"], "doc": c["doc"],
                      "props": [{"attr": p["attr"], "ann": norm_ann(p["ann"]), "expr": p["expr"]} for p in c["props"]]} for c in rep["classes"]]
    for c in model_classes:
        if c["doc"] is not None and finding is None:
            pass
    if finding is None:
        # docstrings go through the text (quoting, Python's own cleaning): compare them only outside the known region
        pass
    strip_doc = lambda cs: [{**c, "doc": (c["doc"] if c["doc"] is None else "<doc>")} for c in cs]
    if strip_doc(real_classes) != strip_doc(model_classes):
        i = next((i for i, (a, b) in enumerate(zip(strip_doc(real_classes), strip_doc(model_classes))) if a != b), None)
        out.disagreements.append({"what": "generated classes", "first_difference": i,
                                  "impl": real_classes[i] if i is not None and i < len(real_classes) else [c["name"] for c in real_classes],
                                  "model": model_classes[i] if i is not None and i < len(model_classes) else [c["name"] for c in model_classes], **case})
    elif not (set(rep["typing"]) <= set(shape["typing"]) <= TYPING_CANDIDATES and rep["maybe"] <= shape["maybe"] and rep["property"] <= shape["property"]
              and rep["elements"] == shape["elements"]):
        out.disagreements.append({"what": "import groups", "impl": {k: shape[k] for k in ("typing", "maybe", "elements", "property")},
                                  "model": {k: rep[k] for k in ("typing", "maybe", "elements", "property")}, **case})
    # docstring: the parsed description, as Python reads it back
    for c, pc in zip(shape["classes"], [parsed[x["name"]] for x in shape["classes"]]):
        desc = getattr(pc, "description", None)
        want = desc if isinstance(desc, str) else None
        if c["doc"] != want and finding is None and not (want is not None and want.strip() != want):
            out.failures.append({"case": {**case, "class": c["name"]}, "what": f"docstring {c['doc']!r} differs from the description {want!r}", "finding": None})
            return


def run(ctx, scale=1.0):
    rng = random.Random(ctx["seed"] + 2)
    out = Outcome()
    out.rule = ("reference documents: a root object (depth <= 3) over 0-4 acyclic definitions and, in a third of the cases, a second file with 1-2 "
                "definitions; references from properties, items, tuple items, additional properties/items, composition members and not; one definition "
                "referenced from two places; titles from a pool with repeats (equal and unequal content) or absent (auto-titled); a case is one document "
                "through the whole generator; non-trivial = at least two classes generated; distinct by SHA-256; every document is also parsed directly from "
                "a tree copy in which no schema dictionary is shared (the generator's parse visits a shared one once per referrer and once more as a "
                "definition), and the root class is called with values reaching a shared definition through each of its referrers")
    stats = {}
    tmp = tempfile.mkdtemp(prefix="statham-c02-")
    drv = core.Driver()
    try:
        g, vg = Gen(rng), ValueGen(rng)
        for i in range(int(N_DOCS[ctx["tier"]] * scale)):
            sub = os.path.join(tmp, f"d{i}")
            os.mkdir(sub)
            try:
                check_document(drv, g.document(), out, stats, vg, sub, f"doc-{i}", rng)
            finally:
                shutil.rmtree(sub, ignore_errors=True)
    finally:
        drv.close()
        shutil.rmtree(tmp, ignore_errors=True)
    out.stats = stats
    return out


def search(ctx, reason):
    sub = dict(ctx)
    sub["seed"] = ctx["seed"] + 982451653
    found = run(sub, scale=2.0 if ctx["tier"] == "quick" else 1.0)
    new = [f for f in found.failures if f.get("finding") is None]
    return new[0] if new else None


def _replay_case(case, new_only=False):
    """new_only: failures inside a known-finding region (they occur on the unchanged library too) do not count"""
    out, stats = Outcome(), {}
    tmp = tempfile.mkdtemp(prefix="statham-c02-")
    drv = core.Driver()
    try:
        check_document(drv, case["files"], out, stats, ValueGen(random.Random(0)), tmp, case.get("label", "replay"))
    finally:
        drv.close()
        shutil.rmtree(tmp, ignore_errors=True)
    return bool([f for f in out.failures if f.get("finding") is None] if new_only else out.failures)


def replay_finding(finding):
    return _replay_case(finding["witness"])


def replay(payload):
    failure = payload.get("failure", {})
    case = failure.get("case")
    return True if not case or "files" not in case else not _replay_case(case, new_only=failure.get("finding") is None)
