"""C03 — JSON Schema serialization preserves the meaning of any element tree.

Correspondence: `serialize_json` output (structure and key order) vs the Lean model of the
serializer, on parsed and DSL-built trees with and without caller definitions.
Oracle: the emitted document must be JSON-serializable, metaschema-valid (Lean `wf` flag), have
only resolvable references, and — dereferenced — accept (per the Draft-6 specification written
in Lean) exactly the values the element accepts."""
import json
import random

from statham.serializers import serialize_json

from harness import core, dsl, jsonref
from harness.framework import Outcome
from harness.gen import SchemaGen, ValueGen
from harness.props.c08 import dump_to_schema

ID = "C03"
TIE_MODULES = ["StathamModel.Tie"]
PROOF_MODULES = ["StathamModel.Lemmas.SerOk", "StathamModel.Lemmas.ParseNF", "StathamModel.Lemmas.AccNames", "StathamModel.Lemmas.SerSem"]
ASSUMPTIONS = ["element trees are acyclic", "the specification oracle is the Lean Draft-6 definition (spec op), with the three documented deviations"]
N_TREES = {"quick": 700, "thorough": 20000}


def plain(x):
    if isinstance(x, dict):
        return {k: plain(v) for k, v in x.items()}
    if isinstance(x, (list, tuple)):
        return [plain(v) for v in x]
    return x


def class_names(dump, out=None):
    out = [] if out is None else out
    if isinstance(dump, dict):
        if dump.get("cls") == "Object":
            out.append((dump["name"], json.dumps({k: v for k, v in dump.items() if k != "name"}, sort_keys=True)))
        for v in dump.values():
            class_names(v, out)
    elif isinstance(dump, list):
        for v in dump:
            class_names(v, out)
    return out


def has_empty_tuple(d):
    if isinstance(d, dict):
        if d.get("kw", {}).get("itemsKind") == "tuple" and not d.get("items"):
            return True
        return any(has_empty_tuple(v) for v in d.values())
    if isinstance(d, list):
        return any(has_empty_tuple(v) for v in d)
    return False


def regions_of(dump, defs, extra=()):
    """Known-finding regions a tree falls in (decided on the dump, not on the output)."""
    regs = set()
    if has_empty_tuple(dump) or any(has_empty_tuple(d) for _, d in (defs or [])) or any(has_empty_tuple(d) for d in extra):
        regs.add("C03-empty-tuple-items")
    names = {}
    for n, body in class_names([dump] + list(extra)):
        names.setdefault(n, set()).add(body)
    if any(len(b) > 1 for b in names.values()):
        regs.add("C03-duplicate-class-names")
    if any(("/" in n or "~" in n or n == "") for n in names):
        regs.add("C03-duplicate-class-names")
    if dump.get("cls") == "Nothing":
        regs.add("C03-nothing-root")
    if defs:
        for key, d in defs:
            # only classes the elements do not reach themselves (same name and body) are in the listed region
            if any(body not in names.get(n, ()) for n, body in class_names(d)):
                regs.add("C03-classes-only-in-definitions")
            if key in names:
                regs.add("C03-duplicate-class-names")
    return regs


def duplicate_sources(d):
    """does some node of the dump declare two properties with one JSON name (the later overwrites the earlier in the emitted dict)"""
    if isinstance(d, dict):
        if "props" in d:
            srcs = [k.get("source") or k["name"] for k, _ in d["props"]]
            if len(set(srcs)) != len(srcs):
                return True
        return any(duplicate_sources(v) for v in d.values())
    if isinstance(d, list):
        return any(duplicate_sources(v) for v in d)
    return False


def check_tree(drv, el, dump, defs, values, out, stats, history=(), extra=(), note=None):
    """defs: list of (key, real element, dump); history: the definitions of earlier serializations of this same tree object;
    extra: further (element, dump) pairs passed after the primary (`serialize_json(el, *extra)`)."""
    kwargs = {"definitions": {k: e for k, e, _ in defs}} if defs else {}
    try:
        doc = plain(serialize_json(el, *[e for e, _ in extra], **kwargs))
        real = {"r": "ok", "json": core.enc_val(doc)}
    except TypeError:
        doc, real = None, {"r": "err", "kind": "primaryIsFalse"}
    except Exception as exc:  # noqa: BLE001
        doc, real = None, {"r": "exc:" + type(exc).__name__}
    req = {"op": "serialize_json", "elements": [dump] + [d for _, d in extra]}
    if defs:
        req["definitions"] = [[k, d] for k, _, d in defs]
    rep = drv.ask(req)
    case = {"element": dump, "definitions": [[k, d] for k, _, d in defs]}
    if note:
        case.update(note)
    if extra:
        case["extra"] = [d for _, d in extra]
        stats["several-elements"] = stats.get("several-elements", 0) + 1
    if history:
        case["earlier_serializations"] = [[[k, d] for k, _, d in h] for h in history]
        stats["re-serialized"] = stats.get("re-serialized", 0) + 1
    out.note_case(case, len(json.dumps(dump)) > 120)
    stats["serialize-" + real["r"]] = stats.get("serialize-" + real["r"], 0) + 1
    agree = rep == real
    if "error" in rep:
        stats["driver-error"] = stats.get("driver-error", 0) + 1
        return
    out.traces_validated += 1
    if not agree:
        out.disagreements.append({"what": "serialize_json output", "impl": real, "model": rep, **case})
    regs = regions_of(dump, [(k, d) for k, _, d in defs], [d for _, d in extra])

    def fail(what, region=None):
        fid = region if (agree and region in regs) else None
        out.failures.append({"case": case, "what": what, "finding": fid})
        stats["oracle-fail-" + str(fid)] = stats.get("oracle-fail-" + str(fid), 0) + 1

    if doc is None:
        fail("serialize_json raised " + real.get("kind", real["r"]), "C03-nothing-root")
        return
    try:
        json.dumps(doc)
    except (TypeError, ValueError) as exc:
        fail(f"document is not JSON-serializable: {exc}")
        return
    for ref in jsonref.all_refs(doc):
        try:
            jsonref.resolve_pointer(doc, ref)
        except jsonref.Unresolvable:
            fail(f"reference {ref} does not resolve inside the document",
                 "C03-classes-only-in-definitions" if "C03-classes-only-in-definitions" in regs else "C03-duplicate-class-names")
            return
    try:
        flat = jsonref.deref(doc)
    except jsonref.Unresolvable as exc:
        fail(f"cannot dereference: {exc}")
        return
    if not values:
        return
    try:
        enc_args = [core.enc_arg(v) for v in values]
        spec = drv.ask({"op": "spec", "schema": core.enc_val(flat), "args": enc_args, "tables": core.schema_tables(flat, values)})
    except (TypeError, ValueError):
        return
    if "error" in spec:
        fail("the serialized document is not a schema the Draft-6 reader understands: " + spec["error"][:120])
        return
    if not spec["flags"]["wf"]:
        fail("the serialized document is not metaschema-valid",
             "C03-empty-tuple-items" if "C03-empty-tuple-items" in regs else "C03-duplicate-class-names")
        return
    # the schema-level model of the serializer (`toSchema`, the object of C03_partial_meaning / C06_partial_round_trip) against
    # the real document, and the theorem's statement evaluated on the real code wherever its hypotheses hold
    ts = None
    if not defs and not extra:
        ts = drv.ask({"op": "to_schema", "elem": dump, "doc": core.enc_val(flat), "args": enc_args, "tables": core.schema_tables(flat, values)})
        if "error" in ts:
            stats["to_schema-driver-error"] = stats.get("to_schema-driver-error", 0) + 1
            ts = None
        else:
            # outside the tie: two properties of one JSON name (the dict keeps the later), two classes of one name (one
            # `definitions` entry serves both: the recorded finding) -- there `serElem` is the model, not `toSchema`
            in_tie = not duplicate_sources(dump) and "C03-duplicate-class-names" not in regs
            label = "to_schema-" + ("same" if ts["same"] else ("differs-outside-tie" if not in_tie else "DIFFERS"))
            stats[label] = stats.get(label, 0) + 1
            if not ts["same"] and in_tie:
                out.disagreements.append({"what": "toSchema (schema-level serializer model) vs dereferenced serialize_json output", "impl": flat, **case})
            # NF: hypothesis of C03_partial_meaning; NFn (normal form up to attribute names): of C03_partial_meaning_renamed
            label = ("hold-NF" if ts["nf"] else "hold-NFn-only") if (ts["nf"] or ts.get("nfn")) and ts["good"] else \
                ("notNFn" if not (ts["nf"] or ts.get("nfn")) else "notGood")
            stats["theorem-hypotheses-" + label] = stats.get("theorem-hypotheses-" + label, 0) + 1
            if ts["nf"] and not ts.get("nfn"):
                out.disagreements.append({"what": "model: NF tree that is not NFn (NF implies NFn)", **case})
            if ts["nf"] and not ts["round_trip_identity"]:
                out.disagreements.append({"what": "model: NF tree whose model round trip is not the identity (contradicts C06_partial_round_trip)", **case})
    for i, v in enumerate(values):
        real_v = core.real_call(el, v)
        if real_v["r"] not in ("ok", "reject") or not spec["distinct_keys"][i]:
            continue
        if ts is not None and ts["same"] and (ts["nf"] or ts.get("nfn")) and ts["good"] and ts["calls"][i]["r"] != "crash":
            # C03_partial_meaning / C03_partial_meaning_renamed, on the real code: accepts iff Draft 6 (library's reading of the waiver) says valid
            stats["theorem-instances-on-real-code"] = stats.get("theorem-instances-on-real-code", 0) + 1
            if (real_v["r"] == "ok") != ts["valid"][i]:
                out.failures.append({"case": {**case, "value": core.enc_arg(v)}, "finding": None,
                                     "what": f"inside the hypotheses of C03_partial_meaning the real element {'accepts' if real_v['r'] == 'ok' else 'rejects'} "
                                             f"{json.dumps(v)[:80]} while its serialization, read by Draft 6, says {'valid' if ts['valid'][i] else 'invalid'}"})
                return
        got = real_v["r"] == "ok"
        allowed = {spec["impl_leniency"][i], spec["strict"][i], spec["lenient"][i]}
        stats["values-compared"] = stats.get("values-compared", 0) + 1
        if got not in allowed:
            region = None
            for flag, fid in (("intMultipleOf", "C01-float-multipleOf"), ("noSynthetic", "C01-synthetic-required"), ("noCollapse", "C01-name-collapse")):
                if not spec["flags"].get(flag, True):
                    region = "C03-inherits-C01"
            if "C03-duplicate-class-names" in regs:
                region = "C03-duplicate-class-names"
            regs.add("C03-inherits-C01")
            fail(f"element {'accepts' if got else 'rejects'} {json.dumps(v)[:80]} but its serialization says {'valid' if spec['strict'][i] else 'invalid'}", region)
            return


def inherited_case(drv, spec, out, stats, only=None):
    """spec: {"layers": [[ [name, "Integer"|"String", required] ...] per class], "closed": [bool per class], "parent_first": bool}"""
    from statham.schema.elements import Integer, Object, String
    from statham.schema.elements.meta import ObjectClassDict, ObjectMeta
    from statham.schema.property import Property
    base, chain = Object, []
    for li, layer in enumerate(spec["layers"]):
        cd = ObjectClassDict()
        for nme, kind, req in layer:
            cd[nme] = Property({"Integer": Integer, "String": String}[kind](), required=bool(req))
        kwargs = {"additionalProperties": False} if spec["closed"][li] else {}
        base = ObjectMeta(f"Inh{li}", (base,), cd, **kwargs)
        chain.append(base)
    names = [x[0] for layer in spec["layers"] for x in layer]
    cut = len(spec["layers"][0])
    vals = [{}, {n: 1 for n in names}, {n: "s" for n in names}, {names[0]: 1}, {names[-1]: "s"}, {n: 1 for n in names[:cut]}, {"zz": 1}]
    for c in (chain if spec["parent_first"] else list(reversed(chain))):
        for v in vals[:3]:
            core.real_call(c, v)
    for k, c in enumerate(chain):
        if only is not None and k != only:
            continue
        try:
            check_tree(drv, c, core.dump_elem(c), [], vals, out, stats, note={"inherited": spec, "class_index": k})
            stats["inherited-class"] = stats.get("inherited-class", 0) + 1
        except (TypeError, ValueError):
            pass


def run(ctx, scale=1.0):
    rng = random.Random(ctx["seed"] + 3)
    out = Outcome()
    out.rule = ("element trees: parsed from generated schemas and DSL-built (renamed properties, explicit required lists, nested and repeated "
                "classes), one third with caller-supplied definitions taken from the tree or fresh, and then serialized again (same tree object) "
                "without them and with the same keys bound to other elements; 6 values each; a case is one serialization of one tree; "
                "non-trivial = dump longer than 120 characters; distinct by SHA-256")
    stats = {}
    drv = core.Driver()
    try:
        sg, vg, dg = SchemaGen(rng), ValueGen(rng), dsl.DumpGen(rng)
        n = int(N_TREES[ctx["tier"]] * scale)
        for i in range(n):
            if i % 2 == 0:
                schema = sg.schema()
                status, el = core.real_parse(schema)
                if status != "ok":
                    continue
                dump = core.dump_elem(el)
                values = vg.values(schema, 6)
            else:
                dump = dg.dump(3)
                el = dsl.build(dump)
                values = vg.values(dump_to_schema(dump), 6)
            defs = []
            if i % 3 == 0:
                for j in range(rng.choice([1, 2])):
                    dd = dg.leaf() if rng.random() < 0.6 else dg.dump(1)
                    defs.append((f"def{j}", dsl.build(dd), dd))
                # a definition equal to a sub-element of the tree, so that `_from_definitions` fires
                subs = dump.get("items") or dump.get("elements") or [x[1] for x in dump.get("props", [])]
                if subs and rng.random() < 0.7:
                    sd = subs[0]
                    if sd.get("cls") != "Object":
                        defs.append(("shared", dsl.build(sd), sd))
            check_tree(drv, el, dump, defs, values, out, stats)
            if i % 5 == 1:
                # several elements in one call: the later ones refer to the primary (when it is a class), to its classes, or are unrelated
                extra = []
                for j in range(rng.choice([1, 2])):
                    roll = rng.random()
                    if roll < 0.5:
                        xd = {"cls": rng.choice(["Array", "Element"]), "kw": {}}
                        if xd["cls"] == "Array":
                            xd["kw"]["itemsKind"] = "single"
                            xd["items"] = [dump]
                        else:
                            xd["kw"]["hasProps"] = True
                            xd["props"] = [[{"name": "ref", "required": rng.random() < 0.5, "source": "ref"}, dump]]
                    elif roll < 0.75:
                        xd = {"cls": "Object", "name": f"Later{j}", "kw": {"hasProps": True},
                              "props": [[{"name": "back", "required": False, "source": "back"}, dump]]}
                    else:
                        xd = dg.dump(1)
                    extra.append((dsl.build(xd, {id(dump): el}), xd))
                check_tree(drv, el, dump, [], values, out, stats, extra=extra)
                if dump.get("cls") == "Object" and rng.random() < 0.5:
                    dd = {"cls": "Array", "kw": {"itemsKind": "single"}, "items": [dump]}
                    check_tree(drv, el, dump, [("list_of_root", dsl.build(dd, {id(dump): el}), dd)], values, out, stats)
            if defs:
                # the same tree object again: without the definitions, then with the same keys bound to other elements
                check_tree(drv, el, dump, [], values, out, stats, history=[defs])
                rebound = []
                for k, _, _ in defs:
                    dd = dg.leaf()
                    rebound.append((k, dsl.build(dd), dd))
                check_tree(drv, el, dump, rebound, values, out, stats, history=[defs, []])
        # model classes that inherit from one another, the parent used first: the subclass still accepts what its document says
        for i in range(int(30 * scale)):
            names = rng.sample(["a", "b", "c", "kind", "n"], rng.choice([2, 3, 4]))
            cut = rng.randint(1, len(names) - 1)
            spec = {"layers": [[[nme, rng.choice(["Integer", "String"]), rng.random() < 0.6] for nme in layer] for layer in (names[:cut], names[cut:])],
                    "closed": [rng.random() < 0.3, rng.random() < 0.3], "parent_first": bool(i % 3)}
            inherited_case(drv, spec, out, stats)
    finally:
        drv.close()
    out.stats = stats
    return out


def search(ctx, reason):
    sub = dict(ctx)
    sub["seed"] = ctx["seed"] + 86028121
    found = run(sub, scale=3.0 if ctx["tier"] == "quick" else 1.0)
    fresh = [f for f in found.failures if f.get("finding") is None]
    return fresh[0] if fresh else None


def _replay_case(case):
    out, stats = Outcome(), {}
    drv = core.Driver()
    try:
        if "inherited" in case:
            inherited_case(drv, case["inherited"], out, stats, only=case.get("class_index"))
            return out
        el = dsl.build(case["element"])
        defs = [(k, dsl.build(d), d) for k, d in case.get("definitions", [])]
        vals = [dsl.dec_val(v) for v in case.get("values", [])]
        for earlier in case.get("earlier_serializations", []):
            try:
                serialize_json(el, **({"definitions": {k: dsl.build(d) for k, d in earlier}} if earlier else {}))
            except Exception:  # noqa: BLE001
                pass
        def shared_build(d):
            # a sub-dump equal to the primary's dump stands for the primary itself (same class object)
            def link(x, reuse):
                if isinstance(x, dict):
                    if x == case["element"]:
                        reuse[id(x)] = el
                        return
                    for v in x.values():
                        link(v, reuse)
                elif isinstance(x, list):
                    for v in x:
                        link(v, reuse)
            reuse = {}
            link(d, reuse)
            return dsl.build(d, reuse)
        defs = [(k, shared_build(d), d) for k, d in case.get("definitions", [])]
        extra = [(shared_build(d), d) for d in case.get("extra", [])]
        check_tree(drv, el, case["element"], defs, vals, out, stats, extra=extra)
    finally:
        drv.close()
    return out


def replay_finding(finding):
    return bool(_replay_case(finding["witness"]).failures)


def replay(payload):
    case = payload.get("failure", {}).get("case")
    if not case:
        return True
    return not _replay_case(case).failures
