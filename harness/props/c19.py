"""C19 — generated type annotations are sound for every value a model can hold.

Correspondence: annotation text of every element and property (`.annotation`) vs the Lean model
(`annot` / `propAnnot`) on DSL-built trees placed under a property of a model class.
Oracle (independent of the model): the annotation text is parsed (`ast`) and read as a type checker
reads it — `Any`, `None`, `str`, `bool`, `int` (bool allowed), `float` (int allowed), `List`,
`List[T]`, `Union[...]`, `Maybe[T]` (the only place the not-passed marker may appear), class names
resolved to the classes of the tree — and every attribute of every model built from accepted data
must belong to it; a property annotated without `Maybe` must be required or defaulted and is
never the not-passed marker.  Families: random trees, tuple items of structurally equal distinct
classes, compositions of classes, parent/child classes used in both orders, valid defaults."""
import ast
import random

from statham.schema.constants import NotPassed
from statham.schema.elements import Element, Object
from statham.schema.elements.meta import ObjectClassDict, ObjectMeta
from statham.schema.property import Property
from statham.serializers.orderer import get_object_classes

from harness import core, dsl
from harness.framework import Outcome
from harness.gen import ValueGen
from harness.props.c08 import dump_to_schema

ID = "C19"
TIE_MODULES = ["StathamModel.Tie"]
ASSUMPTIONS = ["defaults are valid for their schema (the property's own restriction): cases with an invalid default are skipped and counted",
               "bool is read as a subtype of int (as type checkers do); int is accepted where float is announced (stated in the property)"]
N_TREES = {"quick": 500, "thorough": 20000}


class Bad(Exception):
    pass


def conforms(value, node, classes):
    """Does the runtime value belong to the type the annotation AST node denotes?"""
    if isinstance(node, ast.Expression):
        return conforms(value, node.body, classes)
    if isinstance(node, ast.Constant) and node.value is None:
        return value is None
    if isinstance(node, ast.Name):
        n = node.id
        if n == "Any":
            return not isinstance(value, NotPassed)
        if n == "None":
            return value is None
        if n == "str":
            return isinstance(value, str)
        if n == "bool":
            return isinstance(value, bool)
        if n == "int":
            return isinstance(value, int)
        if n == "float":
            return isinstance(value, (int, float))
        if n == "List":
            return isinstance(value, list)
        if n in classes:
            # the harness may have built one dump twice: every class object of that name counts
            return isinstance(value, tuple(classes[n]))
        raise Bad(f"unknown name {n} in annotation")
    if isinstance(node, ast.Subscript) and isinstance(node.value, ast.Name):
        head = node.value.id
        inner = node.slice
        args = list(inner.elts) if isinstance(inner, ast.Tuple) else [inner]
        if head == "List":
            return isinstance(value, list) and all(conforms(x, args[0], classes) for x in value)
        if head == "Union":
            return any(conforms(value, a, classes) for a in args)
        if head == "Maybe":
            return isinstance(value, NotPassed) or conforms(value, args[0], classes)
        raise Bad(f"unknown generic {head}")
    raise Bad("unexpected annotation form " + ast.dump(node))


def default_valid(el):
    d = getattr(el, "default", NotPassed())
    if isinstance(d, NotPassed):
        return True
    try:
        el(d)           # an explicit value is validated without consulting the default
        return True
    except Exception:  # noqa: BLE001
        return False


def all_defaults_valid(el, depth=0):
    if depth > 40:
        return True
    try:
        if not default_valid(el):
            return False
    except Exception:  # noqa: BLE001
        return False
    subs = []
    for name in ("items", "additionalItems", "contains", "additionalProperties", "propertyNames", "element"):
        v = getattr(el, name, None)
        if isinstance(v, Element):
            subs.append(v)
        elif isinstance(v, list):
            subs += [x for x in v if isinstance(x, Element)]
    props = getattr(el, "properties", None)
    if isinstance(props, dict):
        subs += [p.element for p in props.values()]
    for name in ("patternProperties", "dependencies"):
        v = getattr(el, name, None)
        if isinstance(v, dict):
            subs += [x for x in v.values() if isinstance(x, Element)]
    v = getattr(el, "elements", None)
    if isinstance(v, list):
        subs += v
    return all(all_defaults_valid(s, depth + 1) for s in subs)


def allof_region(dump):
    """Known-finding region: an AllOf whose annotation is not its first member's (nor Any)."""
    found = []

    def walk(d, real):
        pass
    return found


def has_allof_nonhead(el, depth=0):
    if depth > 40:
        return False
    from statham.schema.elements import AllOf
    if isinstance(el, AllOf) and el.elements:
        try:
            if el.annotation not in ("Any", el.elements[0].annotation):
                return True
        except Exception:  # noqa: BLE001
            return False
    subs = []
    for name in ("items", "additionalItems", "element"):
        v = getattr(el, name, None)
        if isinstance(v, Element):
            subs.append(v)
        elif isinstance(v, list):
            subs += [x for x in v if isinstance(x, Element)]
    v = getattr(el, "elements", None)
    if isinstance(v, list):
        subs += v
    return any(has_allof_nonhead(s, depth + 1) for s in subs)


def rename_classes(d, suffix):
    if isinstance(d, dict):
        out = {k: rename_classes(v, suffix) for k, v in d.items()}
        if d.get("cls") == "Object" and isinstance(d.get("name"), str):
            out["name"] = d["name"] + suffix
        return out
    if isinstance(d, list):
        return [rename_classes(x, suffix) for x in d]
    return d


def norm(text):
    return text.replace(" ", "")


def check_class(drv, cls, class_dump, values, out, stats, label, history=None):
    """cls: a model class; every property's annotation vs the attribute values of built instances."""
    classes = {}
    for c in get_object_classes(cls):
        classes.setdefault(c.__name__, []).append(c)
    # --- the model: annotation text of every property
    model_ann = {}
    if class_dump is not None:
        rep = drv.ask({"op": "emit_module", "elements": [class_dump]})
        if "error" not in rep and rep.get("r") == "ok":
            out.traces_validated += 1
            model = {c["name"]: {p["attr"]: norm(p["ann"]) for p in c["props"]} for c in rep["classes"]}
            model_ann = model.get(cls.__name__, {}) if len(classes.get(cls.__name__, [])) == 1 else {}
            for c in get_object_classes(cls):
                if len(classes[c.__name__]) != 1:
                    continue      # a name the tree uses for several class objects: the model keys classes by name
                real = {n: norm(p.annotation) for n, p in c.properties.items()}
                if c.__name__ in model and model[c.__name__] != real:
                    out.disagreements.append({"what": f"property annotations of {c.__name__}", "impl": real, "model": model[c.__name__], "class": class_dump, "label": label})
                    break
    for v in values:
        try:
            inst = cls(v)
        except Exception:  # noqa: BLE001
            stats["rejected"] = stats.get("rejected", 0) + 1
            continue
        if not isinstance(inst, cls):
            continue
        stats["accepted"] = stats.get("accepted", 0) + 1
        for name, prop in cls.properties.items():
            text = prop.annotation
            attr = getattr(inst, name, NotPassed())
            case = {"label": label, "class": class_dump, "history": history, "value": core.enc_arg(v), "property": name, "annotation": text}
            out.note_case({"class": class_dump, "value": core.enc_arg(v), "property": name}, text not in ("Any", "Maybe[Any]"))
            stats["ann-" + ("Maybe" if text.startswith("Maybe[") else "bare")] = stats.get("ann-" + ("Maybe" if text.startswith("Maybe[") else "bare"), 0) + 1
            # a listed finding only where the model predicts the very annotation the library printed
            finding = "C19-allof-annotation" if has_allof_nonhead(prop.element) and model_ann.get(name) == norm(text) else None
            try:
                ok = conforms(attr, ast.parse(text, mode="eval"), classes)
            except (Bad, SyntaxError) as exc:
                out.failures.append({"case": case, "what": f"annotation {text!r} cannot be read: {exc}", "finding": None})
                return
            if not ok:
                if finding is not None and class_dump is not None:
                    # ... and only where the model also accepts this very value: a value the unchanged code refuses is a different failure
                    texts = set()
                    core.all_strings(class_dump, texts)
                    core.all_strings(v, texts)
                    try:
                        rep = drv.ask({"op": "elem_call", "elem": class_dump, "args": [core.enc_arg(v)], "tables": core.make_tables(set(), set(), sorted(texts))})
                    except (TypeError, ValueError):
                        rep = {"error": "unencodable"}
                    if "error" in rep or rep["results"][0].get("r") != "ok":
                        finding = None
                out.failures.append({"case": case, "what": f"{cls.__name__}.{name} is annotated {text} but holds {attr!r}", "finding": finding})
                return
            if not text.startswith("Maybe["):
                has_default = not isinstance(getattr(prop.element, "default", NotPassed()), NotPassed)
                if not (prop.required or has_default):
                    out.failures.append({"case": case, "what": f"{cls.__name__}.{name} is annotated as always present ({text}) but is neither required nor defaulted", "finding": None})
                    return
                if isinstance(attr, NotPassed):
                    out.failures.append({"case": case, "what": f"{cls.__name__}.{name} is annotated as always present ({text}) but is not passed", "finding": None})
                    return


def element_annotations(drv, el, dump, out, stats):
    rep = drv.ask({"op": "annotation", "elem": dump})
    if "error" in rep:
        stats["driver-error"] = stats.get("driver-error", 0) + 1
        return
    out.traces_validated += 1
    try:
        real = el.annotation
    except Exception as exc:  # noqa: BLE001
        stats["annotation-raised-" + type(exc).__name__] = stats.get("annotation-raised-" + type(exc).__name__, 0) + 1
        return
    if norm(real) != norm(rep["annotation"]):
        out.disagreements.append({"what": "element annotation", "impl": real, "model": rep["annotation"], "element": dump})


def twin_tuple(rng):
    """tuple items of structurally equal, distinct classes (and containers of them)"""
    props = [[{"name": "street", "source": "street", "required": True}, {"cls": "String", "kw": {}}]]
    a = {"cls": "Object", "name": "BillingAddress", "kw": {"hasProps": True}, "props": props}
    b = {"cls": "Object", "name": "ShippingAddress", "kw": {"hasProps": True}, "props": props}
    wrap = rng.choice([lambda x: x, lambda x: {"cls": "Array", "kw": {"itemsKind": "single"}, "items": [x]}])
    kw = {"itemsKind": "tuple"}
    out = {"cls": "Array", "kw": kw, "items": [wrap(a), wrap(b)]}
    k = rng.random()
    if k < 0.5:
        kw["addItemsB"] = False
    elif k < 0.8:
        out["addItems"] = rng.choice([{"cls": "String", "kw": {}}, wrap(a)])
    ok = {"street": "s"}
    wv = (lambda x: x) if out["items"][0]["cls"] == "Object" else (lambda x: [x])
    return out, [[wv(ok), wv(ok)], [wv(ok)], [wv(ok), wv(ok), "extra"], []]


def comp_of_classes(rng):
    a = {"cls": "Object", "name": "Cat", "kw": {"hasProps": True}, "props": [[{"name": "lives", "source": "lives", "required": True}, {"cls": "Integer", "kw": {}}]]}
    b = {"cls": "Object", "name": "Dog", "kw": {"hasProps": True}, "props": [[{"name": "bark", "source": "bark", "required": True}, {"cls": "String", "kw": {}}]]}
    mode = rng.choice(["AnyOf", "OneOf", "AllOf"])
    members = rng.sample([a, b, {"cls": "String", "kw": {}}, {"cls": "Null", "kw": {}}, {"cls": "Element", "kw": {"required": ["lives"]}},
                          {"cls": "Array", "kw": {"itemsKind": "single"}, "items": [a]}], rng.randint(1, 3))
    return {"cls": mode, "kw": {}, "elements": members}, [{"lives": 9}, {"bark": "w"}, "s", None, [{"lives": 1}], {"lives": 1, "bark": "x"}, 3]


ALLOF_WITNESS = {"cls": "Object", "name": "Holder", "kw": {"hasProps": True}, "props": [[{"name": "p", "source": "p"},
    {"cls": "AllOf", "kw": {}, "elements": [{"cls": "Element", "kw": {"required": ["a"]}},
                                            {"cls": "Object", "name": "Q", "kw": {"hasProps": True}, "props": [[{"name": "a", "source": "a", "required": True}, {"cls": "Integer", "kw": {}}]]}]}]]}


def allof_family(rng):
    q = {"cls": "Object", "name": "Q", "kw": {"hasProps": True}, "props": [[{"name": "a", "source": "a", "required": True}, {"cls": "Integer", "kw": {}}]]}
    first = rng.choice([{"cls": "Element", "kw": {"required": ["a"]}}, {"cls": "Element", "kw": {}}, {"cls": "Element", "kw": {"minItems": {"i": "1"}}},
                        {"cls": "Number", "kw": {}}, {"cls": "Integer", "kw": {}}, {"cls": "Number", "kw": {"minimum": {"i": "0"}}}])
    second = rng.choice([q, {"cls": "String", "kw": {}}, {"cls": "Array", "kw": {"itemsKind": "single"}, "items": [q]}, {"cls": "Integer", "kw": {}},
                         {"cls": "Number", "kw": {}}, {"cls": "Integer", "kw": {"multipleOf": {"i": "1"}}}])
    members = [first, second] if rng.random() < 0.8 else [second, first]
    inner = {"cls": "AllOf", "kw": {}, "elements": members}
    if rng.random() < 0.3:
        return {"cls": "Array", "kw": {"itemsKind": "single"}, "items": [inner]}, [[1, 2], [3], [], [{"a": 1}], ["s"], 3, [4.0], [2.0, 1], [True]]
    return inner, [{"a": 1}, "s", [{"a": 2}], 3, [], {}, 4, 2.5, 2.0, 4.0, -0.0, True]


def allof_unions_family(rng):
    """an AllOf made only of unions that share one member annotation and have other members accepting a common value"""
    def cls(name, prop, kind):
        return {"cls": "Object", "name": name, "kw": {"hasProps": True}, "props": [[{"name": prop, "source": prop, "required": True}, {"cls": kind, "kw": {}}]]}
    if rng.random() < 0.5:
        circle, disc, square = cls("Circle", "radius", "Number"), cls("Disc", "radius", "Number"), cls("Square", "side", "Number")
        u1 = {"cls": rng.choice(["AnyOf", "OneOf"]), "kw": {}, "elements": [circle, square]}
        u2 = {"cls": rng.choice(["AnyOf", "OneOf"]), "kw": {}, "elements": [disc, square]}
        vals = [{"radius": 1}, {"side": 2}, {"radius": 1.5}, {}, 3, {"side": "x"}]
    else:
        u1 = {"cls": "AnyOf", "kw": {}, "elements": [{"cls": "Number", "kw": {}}, {"cls": "String", "kw": {}}]}
        u2 = {"cls": rng.choice(["AnyOf", "OneOf"]), "kw": {}, "elements": [{"cls": "Integer", "kw": {}}, {"cls": "String", "kw": {}}]}
        vals = [3, "s", 2.5, None, 0, True]
    members = [u1, u2] if rng.random() < 0.7 else [u2, u1]
    return {"cls": "AllOf", "kw": {}, "elements": members}, vals


def tuple_defaults_family(rng):
    """tuple items where a position with a default follows positions without one; values shorter than the tuple"""
    leaf = lambda cls, **kw: {"cls": cls, "kw": {k: core.enc_val(v) for k, v in kw.items()}}
    items = [leaf("String"), leaf("Integer"), leaf("String", default="kg")]
    if rng.random() < 0.5:
        items = [leaf("Integer", default=0), leaf("String"), leaf("Number", default=1.5), leaf("Null")]
    kw = {"itemsKind": "tuple"}
    if rng.random() < 0.4:
        kw["addItemsB"] = False
    return {"cls": rng.choice(["Array", "Element"]), "kw": kw, "items": items}, [["flour"], ["flour", 2], [], ["flour", 2, "g"], [1], [1, "x"], [1, "x", 2.5, None]]


def member_default_family(rng):
    """a composition without a default of its own whose member declares one: the member's default is never applied"""
    size = {"cls": "Object", "name": "Size", "kw": {"hasProps": True}, "props": [[{"name": "w", "source": "w"}, {"cls": "Integer", "kw": {}}]]}
    first = rng.choice([{"cls": "Integer", "kw": {}}, size, {"cls": "String", "kw": {}}])
    member = {"cls": "Element", "kw": {"default": core.enc_val(rng.choice([1, "x", {"w": 1}, None]))}}
    mode = rng.choice(["AllOf", "AllOf", "AnyOf", "OneOf"])
    members = [first, member] if rng.random() < 0.7 else [member, first]
    return {"cls": mode, "kw": {}, "elements": members}, [1, "s", {"w": 2}, None, 2.5]


def class_default_family(rng):
    """a property whose element is a model class with a class-level default (the empty object included)"""
    d = rng.choice([{}, {}, {"a": 1}, {"b": "x"}])
    inner = {"cls": "Object", "name": "Inner", "kw": {"hasProps": True, "default": core.enc_val(d)},
             "props": [[{"name": "a", "source": "a"}, {"cls": "Integer", "kw": {}}], [{"name": "b", "source": "b"}, {"cls": "String", "kw": {}}]]}
    return inner, [{"a": 2}, {}, {"b": "y"}, 3]


def run(ctx, scale=1.0):
    rng = random.Random(ctx["seed"] + 19)
    out = Outcome()
    out.rule = ("a model class with 1-3 properties (required / optional / defaulted) whose elements are DSL trees of depth <= 3 (typed leaves, arrays, tuple "
                "items, classes, anyOf/oneOf/allOf/not), built from 8+ generated values each; families: random, tuple items of structurally equal distinct "
                "classes, compositions of classes, parent-then-child and child-then-parent use of subclasses; a case is one attribute of one built model; "
                "non-trivial = the annotation is not Any / Maybe[Any]; distinct by SHA-256")
    stats = {}
    drv = core.Driver()
    try:
        dg, vg = dsl.DumpGen(rng), ValueGen(rng)
        n = int(N_TREES[ctx["tier"]] * scale)
        for i in range(n):
            fam = ["random", "random", "class-default", "twin-tuple", "composition", "random", "subclass", "allof", "random", "allof-unions", "tuple-defaults", "member-default"][i % 12]
            stats["family-" + fam] = stats.get("family-" + fam, 0) + 1
            if fam == "subclass":
                check_subclass(drv, rng, dg, out, stats, i)
                continue
            props, val_lists = [], {}
            names = rng.sample(["a", "b", "c", "items_", "kind"], rng.randint(1, 3))
            for pn in names:
                if fam == "twin-tuple":
                    sub, vals = twin_tuple(rng)
                elif fam == "composition":
                    sub, vals = comp_of_classes(rng)
                elif fam == "allof":
                    sub, vals = allof_family(rng)
                elif fam == "class-default":
                    sub, vals = class_default_family(rng)
                elif fam == "allof-unions":
                    sub, vals = allof_unions_family(rng)
                elif fam == "tuple-defaults":
                    sub, vals = tuple_defaults_family(rng)
                elif fam == "member-default":
                    sub, vals = member_default_family(rng)
                else:
                    sub = dg.dump(3)
                    try:
                        vals = vg.values(dump_to_schema(sub), 6)
                    except Exception:  # noqa: BLE001
                        vals = [1, "a", None, [], {}]
                key = {"name": pn, "source": pn}
                if rng.random() < 0.4:
                    key["required"] = True
                sub = rename_classes(sub, "_" + pn)      # one class object per name within the tree
                props.append([key, sub])
                val_lists[pn] = vals
            class_dump = {"cls": "Object", "name": "Holder", "kw": {"hasProps": True}, "props": props}
            try:
                cls = dsl.build(class_dump)
            except Exception:  # noqa: BLE001
                stats["unbuildable"] = stats.get("unbuildable", 0) + 1
                continue
            if not all(all_defaults_valid(p.element) for p in cls.properties.values()):
                stats["skipped-invalid-default"] = stats.get("skipped-invalid-default", 0) + 1
                continue
            for key, sub in props:
                element_annotations(drv, cls.properties[key["name"]].element, sub, out, stats)
            values = [{}]
            for _ in range(8):
                v = {}
                for pn in names:
                    if rng.random() < 0.8:
                        v[pn] = rng.choice(val_lists[pn])
                values.append(v)
            check_class(drv, cls, class_dump, values, out, stats, f"{fam}-{i}")
    finally:
        drv.close()
    out.stats = stats
    return out


def check_subclass(drv, rng, dg, out, stats, i):
    """parent / child classes, used in either order; the child tightens `required` or adds properties"""
    from statham.schema.elements import Array, String, Integer
    base_props = {"name": Property(String(), required=True), "note": Property(String())}

    def mk():
        pd = ObjectClassDict()
        for k, p in base_props.items():
            pd[k] = Property(p.element, required=p.required)
        parent = ObjectMeta("Account", (Object,), pd)
        cd = ObjectClassDict()
        cd["verified_by"] = Property(String(), required=True)
        if rng.random() < 0.5:
            cd["note"] = Property(String(), required=True)
        child = ObjectMeta("VerifiedAccount", (parent,), cd, **({"required": ["name", "extra"]} if rng.random() < 0.3 else {}))
        hd = ObjectClassDict()
        hd["members"] = Property(Array(parent))
        hd["owner"] = Property(child)
        holder = ObjectMeta("Team", (Object,), hd)
        return parent, child, holder
    parent, child, holder = mk()
    order = rng.choice(["parent-first", "child-first", "holder-only"])
    docs = [{"name": "n"}, {"name": "n", "verified_by": "v"}, {"name": "n", "note": "x", "verified_by": "v", "extra": 1}, {"name": "n", "note": "x"}, {}]
    hist = [order]
    if order == "parent-first":
        check_class(drv, parent, None, docs, out, stats, f"subclass-{i}", hist)
        check_class(drv, child, None, docs, out, stats, f"subclass-{i}", hist)
    elif order == "child-first":
        check_class(drv, child, None, docs, out, stats, f"subclass-{i}", hist)
        check_class(drv, parent, None, docs, out, stats, f"subclass-{i}", hist)
    team_docs = [{"members": [m], "owner": o} for m in docs[:4] for o in docs[:4]] + [{}]
    check_class(drv, holder, None, team_docs, out, stats, f"subclass-{i}", hist)
    # attributes of the nested owner too
    for d in team_docs:
        try:
            inst = holder(d)
        except Exception:  # noqa: BLE001
            continue
        owner = getattr(inst, "owner", NotPassed())
        if isinstance(owner, child):
            for name, prop in child.properties.items():
                attr = getattr(owner, name, NotPassed())
                text = prop.annotation
                out.note_case({"subclass": i, "doc": d, "property": name}, True)
                if not text.startswith("Maybe[") and isinstance(attr, NotPassed):
                    out.failures.append({"case": {"label": f"subclass-{i}", "history": hist, "value": core.enc_arg(d), "property": name, "annotation": text},
                                         "what": f"VerifiedAccount.{name} is annotated as always present ({text}) but is not passed", "finding": None})
                    return


def search(ctx, reason):
    sub = dict(ctx)
    sub["seed"] = ctx["seed"] + 141650939
    found = run(sub, scale=2.0 if ctx["tier"] == "quick" else 1.0)
    new = [f for f in found.failures if f.get("finding") is None]
    return new[0] if new else None


def _replay_case(case):
    if not case.get("class"):
        return False
    out, stats = Outcome(), {}
    drv = core.Driver()
    try:
        cls = dsl.build(case["class"])
        v = case["value"]
        value = core.NP if isinstance(v, dict) and "np" in v else dsl.dec_val(v)
        check_class(drv, cls, case["class"], [value], out, stats, "replay")
    finally:
        drv.close()
    return bool(out.failures)


def replay_finding(finding):
    return _replay_case(finding["witness"])


def replay(payload):
    case = payload.get("failure", {}).get("case")
    return True if not case else not _replay_case(case)
