"""C19 — generated type annotations are sound for every value a model can hold.

Correspondence: annotation text of every element and property (`.annotation`) vs the Lean model
(`annot` / `propAnnot`) on DSL-built trees placed under a property of a model class.
Oracle (independent of the model): the annotation text is parsed (`ast`) and read as a type checker
reads it — `Any`, `None`, `str`, `bool`, `int` (bool allowed), `float` (int allowed), `List`,
`List[T]`, `Union[...]`, `Maybe[T]` (the only place the not-passed marker may appear), class names
resolved to the classes of the tree — and every attribute of every model built from accepted data
must belong to it; a property annotated without `Maybe` must be required or defaulted and is
never the not-passed marker.  Families: random trees, tuple items of structurally equal distinct
classes, compositions of classes, parent/child classes used in both orders, valid defaults, classes whose
`patternProperties` also match declared property names (at the top and nested), data that already holds built model
instances (of the position's class, of a subclass, of an equally shaped class under another name or rebuilt under the
same name, of a class with one more property) at class-typed positions; a building schema (class, array / tuple / union of one,
anonymous object) under a chain of pass-through wrappers (negations - single, double, triple -, one- and two-member compositions,
arrays) with the accepted non-empty values carried through; elements restricted by value keywords (const / enum / bounds, un-typed
and typed) fed every literal in both JSON spellings of a number (2 and 2.0); for every family, variants of the values with numbers
respelled.  The oracle is applied to EVERY model instance
reachable from the built model (attributes, list items, additional / pattern members), not only to the outermost one."""
import ast
import copy
import random
import re

from statham.schema.constants import NotPassed
from statham.schema.elements import Element, Object
from statham.schema.elements.composition import CompositionElement
from statham.schema.elements.meta import ObjectClassDict, ObjectMeta
from statham.schema.property import Property
from statham.serializers.orderer import get_object_classes

from harness import core, dsl
from harness.framework import Outcome
from harness.gen import ValueGen
from harness.props.c08 import dump_to_schema

ID = "C19"
TIE_MODULES = ["StathamModel.Tie"]
ASSUMPTIONS = ["an optional declared property with a default whose JSON name is also matched by a patternProperties pattern of its class loses the default when "
               "omitted (open finding C05-pattern-overlap; it breaks C19's 'annotated as always present => present' too). Exactly there - and, where the model can "
               "be asked, only if the model predicts the very same hole - the not-passed attribute is counted (distribution key 'c05-pattern-overlap-default-lost', "
               "and a note) instead of reported; once known_findings.json lists C05-pattern-overlap for C19 it is reported under that finding's id",
               "defaults are valid for their schema (the property's own restriction): cases with an invalid default are skipped and counted",
               "bool is read as a subtype of int (as type checkers do); int is accepted where float is announced (stated in the property)"]
N_TREES = {"quick": 580, "thorough": 23200}
# the families added later run after those, on the same rng, so that a seed still explores what it explored before in the earlier ones
N_LATER = {"quick": 84, "thorough": 3360}
LATER = ["wrapped-core", "value-restricted"]


class Bad(Exception):
    pass


def conforms(value, node, classes):
    """Does the runtime value belong to the type the annotation AST node denotes?"""
    if isinstance(node, ast.Expression):
        return conforms(value, node.body, classes)
    if isinstance(node, ast.Constant) and node.value is None:
        return value is None
    if isinstance(node, ast.Name):
        n = node.id
        if n == "Any":
            return not isinstance(value, NotPassed)
        if n == "None":
            return value is None
        if n == "str":
            return isinstance(value, str)
        if n == "bool":
            return isinstance(value, bool)
        if n == "int":
            return isinstance(value, int)
        if n == "float":
            return isinstance(value, (int, float))
        if n == "List":
            return isinstance(value, list)
        if n in classes:
            # the harness may have built one dump twice: every class object of that name counts
            return isinstance(value, tuple(classes[n]))
        raise Bad(f"unknown name {n} in annotation")
    if isinstance(node, ast.Subscript) and isinstance(node.value, ast.Name):
        head = node.value.id
        inner = node.slice
        args = list(inner.elts) if isinstance(inner, ast.Tuple) else [inner]
        if head == "List":
            return isinstance(value, list) and all(conforms(x, args[0], classes) for x in value)
        if head == "Union":
            return any(conforms(value, a, classes) for a in args)
        if head == "Maybe":
            return isinstance(value, NotPassed) or conforms(value, args[0], classes)
        raise Bad(f"unknown generic {head}")
    raise Bad("unexpected annotation form " + ast.dump(node))


def default_valid(el):
    d = getattr(el, "default", NotPassed())
    if isinstance(d, NotPassed):
        return True
    try:
        el(d)           # an explicit value is validated without consulting the default
        return True
    except Exception:  # noqa: BLE001
        return False


def all_defaults_valid(el, depth=0):
    if depth > 40:
        return True
    try:
        if not default_valid(el):
            return False
    except Exception:  # noqa: BLE001
        return False
    subs = []
    for name in ("items", "additionalItems", "contains", "additionalProperties", "propertyNames", "element"):
        v = getattr(el, name, None)
        if isinstance(v, Element):
            subs.append(v)
        elif isinstance(v, list):
            subs += [x for x in v if isinstance(x, Element)]
    props = getattr(el, "properties", None)
    if isinstance(props, dict):
        subs += [p.element for p in props.values()]
    for name in ("patternProperties", "dependencies"):
        v = getattr(el, name, None)
        if isinstance(v, dict):
            subs += [x for x in v.values() if isinstance(x, Element)]
    v = getattr(el, "elements", None)
    if isinstance(v, list):
        subs += v
    return all(all_defaults_valid(s, depth + 1) for s in subs)


def allof_region(dump):
    """Known-finding region: an AllOf whose annotation is not its first member's (nor Any)."""
    found = []

    def walk(d, real):
        pass
    return found


def has_allof_nonhead(el, depth=0):
    if depth > 40:
        return False
    from statham.schema.elements import AllOf
    if isinstance(el, AllOf) and el.elements:
        try:
            if el.annotation not in ("Any", el.elements[0].annotation):
                return True
        except Exception:  # noqa: BLE001
            return False
    subs = []
    for name in ("items", "additionalItems", "element"):
        v = getattr(el, name, None)
        if isinstance(v, Element):
            subs.append(v)
        elif isinstance(v, list):
            subs += [x for x in v if isinstance(x, Element)]
    v = getattr(el, "elements", None)
    if isinstance(v, list):
        subs += v
    return any(has_allof_nonhead(s, depth + 1) for s in subs)


def rename_classes(d, suffix):
    if isinstance(d, dict):
        out = {k: rename_classes(v, suffix) for k, v in d.items()}
        if d.get("cls") == "Object" and isinstance(d.get("name"), str):
            out["name"] = d["name"] + suffix
        return out
    if isinstance(d, list):
        return [rename_classes(x, suffix) for x in d]
    return d


def norm(text):
    return text.replace(" ", "")


# ----------------------------------------------------------------------------- data that already holds built models

class ModelRef:
    """Symbolic input value: an already-built instance of a class related to the `idx`-th class of the tree (in the order of
    `tree_classes`), built from the JSON value `data`.  Kept symbolic so that a case can be written down and replayed."""
    RELS = ["same", "twin", "twin", "reparsed", "subclass", "wider"]

    def __init__(self, idx, name, rel, data):
        self.idx, self.name, self.rel, self.data = idx, name, rel, data

    def __repr__(self):
        return f"<{self.rel} of {self.name}#{self.idx}: {self.data!r}>"


def tree_classes(cls):
    seen, out = set(), []
    for c in get_object_classes(cls):
        if id(c) not in seen:
            seen.add(id(c))
            out.append(c)
    return out


def related_class(c, rel, cache):
    """same: the class itself; subclass: an empty subclass; twin: the same declaration under another name; reparsed: the same
    declaration built a second time under the same name; wider: another name and one more optional property"""
    key = (id(c), rel)
    if key in cache:
        return cache[key]
    if rel == "same":
        out = c
    elif rel == "subclass":
        out = ObjectMeta(c.__name__ + "Sub", (c,), ObjectClassDict())
    else:
        d = core.dump_elem(c)
        if rel == "twin":
            d["name"] = d["name"] + "Twin"
        elif rel == "wider":
            d["name"] = d["name"] + "Wider"
            d["kw"]["hasProps"] = True
            d["props"] = list(d.get("props", [])) + [[{"name": "zz_extra", "source": "zz_extra"}, {"cls": "String", "kw": {}}]]
        out = dsl.build(d)
    cache[key] = out
    return out


def has_refs(v):
    if isinstance(v, ModelRef):
        return True
    if isinstance(v, (list, tuple)):
        return any(has_refs(x) for x in v)
    if isinstance(v, dict):
        return any(has_refs(x) for x in v.values())
    return False


def ref_rels(v, out):
    if isinstance(v, ModelRef):
        out.append(v.rel)
    elif isinstance(v, (list, tuple)):
        for x in v:
            ref_rels(x, out)
    elif isinstance(v, dict):
        for x in v.values():
            ref_rels(x, out)
    return out


def realize(v, classes_list, cache):
    """the actual input: every ModelRef replaced by a freshly built instance (raises if one cannot be built)"""
    if isinstance(v, ModelRef):
        c = classes_list[v.idx]
        if c.__name__ != v.name:
            raise LookupError(f"class #{v.idx} is {c.__name__}, not {v.name}")
        return related_class(c, v.rel, cache)(copy.deepcopy(v.data))
    if isinstance(v, list):
        return [realize(x, classes_list, cache) for x in v]
    if isinstance(v, dict):
        return {k: realize(x, classes_list, cache) for k, x in v.items()}
    return v


def enc_sym(v):
    if isinstance(v, NotPassed):
        return {"np": 1}
    if isinstance(v, ModelRef):
        return {"m": {"idx": v.idx, "name": v.name, "rel": v.rel, "data": core.enc_val(v.data)}}
    if isinstance(v, (list, tuple)):
        return [enc_sym(x) for x in v]
    if isinstance(v, dict):
        return {"o": [[k, enc_sym(x)] for k, x in v.items()]}
    return core.enc_val(v)


def dec_sym(j):
    if isinstance(j, list):
        return [dec_sym(x) for x in j]
    if isinstance(j, dict):
        if "np" in j:
            return core.NP
        if "m" in j:
            m = j["m"]
            return ModelRef(int(m["idx"]), m["name"], m["rel"], dsl.dec_val(m["data"]))
        if "o" in j:
            return {k: dec_sym(x) for k, x in j["o"]}
    return dsl.dec_val(j)


def instancify(rng, el, value, index, p=0.5, depth=0):
    """Walk a JSON value along the element tree; a dict sitting where the schema is a model class becomes, with probability p,
    an already-built instance of a class related to that class.  (The walk only guesses which composition member applies:
    whatever it produces is just another input value.)"""
    if depth > 8:
        return value
    if isinstance(el, ObjectMeta):
        if not isinstance(value, dict):
            return value
        if id(el) in index and rng.random() < p:
            return ModelRef(index[id(el)], el.__name__, rng.choice(ModelRef.RELS), value)
        by_source = {pr.source: pr for pr in el.properties.values()}
        return {k: (instancify(rng, by_source[k].element, x, index, p, depth + 1) if k in by_source else x) for k, x in value.items()}
    if isinstance(el, CompositionElement):
        return instancify(rng, rng.choice(el.elements), value, index, p, depth + 1)
    if isinstance(value, list):
        items = getattr(el, "items", NotPassed())
        if isinstance(items, list):
            extra = getattr(el, "additionalItems", True)
            return [instancify(rng, items[i], x, index, p, depth + 1) if i < len(items)
                    else (instancify(rng, extra, x, index, p, depth + 1) if isinstance(extra, Element) else x) for i, x in enumerate(value)]
        if isinstance(items, Element):
            return [instancify(rng, items, x, index, p, depth + 1) for x in value]
        return value
    if isinstance(value, dict):
        props = getattr(el, "properties", None)
        if isinstance(props, dict):
            by_source = {(pr.source or n): pr for n, pr in props.items()}
            return {k: (instancify(rng, by_source[k].element, x, index, p, depth + 1) if k in by_source else x) for k, x in value.items()}
    return value


# ----------------------------------------------------------------------------- the oracle, on every reachable model instance

def walk_models(value, steps, depth=0):
    """every model instance reachable from a constructed value without passing through another one, with the steps leading to it"""
    if depth > 12:
        return
    if isinstance(value, Object):
        yield steps, value
    elif isinstance(value, (list, tuple)):
        for i, x in enumerate(value):
            yield from walk_models(x, steps + [i], depth + 1)
    elif isinstance(value, dict):
        for k, x in value.items():
            yield from walk_models(x, steps + [k], depth + 1)


def show_steps(steps):
    return "".join(f"[{s}]" if isinstance(s, int) else f".{s}" for s in steps).lstrip(".")


def model_at(rv, steps):
    """the model's constructed value (canonical result shape) at the end of `steps`; KeyError if there is nothing"""
    for s in steps:
        if isinstance(rv, list):
            rv = rv[s]
        elif isinstance(rv, dict) and any(k in rv for k in ("d", "anon", "dict")):
            pairs = rv.get("d", rv.get("anon", rv.get("dict")))
            hit = [x for k, x in pairs if k == s]
            if not hit:
                raise KeyError(s)
            rv = hit[-1]
        else:
            raise KeyError(s)
    return rv


def pattern_overlap_default(owner, prop):
    """the region of the open finding C05-pattern-overlap: an optional declared property with a default whose JSON name is also
    matched by a pattern of the owning class (the declared+pattern composite has no default)"""
    if prop.required or isinstance(getattr(prop.element, "default", NotPassed()), NotPassed):
        return False
    pats = getattr(owner, "patternProperties", NotPassed())
    if not isinstance(pats, dict):
        return False
    for pat in pats:
        try:
            if re.search(pat, prop.source or prop.name):
                return True
        except (re.error, TypeError):
            continue
    return False


class Run:
    """what stays the same while one class is checked on a list of values"""

    def __init__(self, drv, cls, class_dump, out, stats, label, history):
        self.drv, self.cls, self.class_dump, self.out, self.stats, self.label, self.history = drv, cls, class_dump, out, stats, label, history
        self.model = {}            # class name -> {attribute -> annotation text}, from the Lean model
        self.names = {}            # name -> class objects of the tree
        self.own = {}              # id(class) -> name -> class objects, for classes that are not part of the tree
        self.listed = None

    def classes_of(self, c):
        if any(c is x for x in self.names.get(c.__name__, [])):
            return self.names
        if id(c) not in self.own:
            m = {}
            for x in get_object_classes(c):
                m.setdefault(x.__name__, []).append(x)
            self.own[id(c)] = m
        return self.own[id(c)]

    def model_accepts(self, v):
        """the model's outcome of building the outermost class from this very value (None: not expressible / model error)"""
        if self.class_dump is None or has_refs(v):
            return None
        texts = set()
        core.all_strings(self.class_dump, texts)
        core.all_strings(v, texts)
        pats = set()
        try:
            pats, _ = core.elem_patterns_formats(self.cls)
        except Exception:  # noqa: BLE001
            pats = set()
        try:
            rep = self.drv.ask({"op": "elem_call", "elem": self.class_dump, "args": [core.enc_arg(v)], "tables": core.make_tables(pats, set(), sorted(texts))})
        except (TypeError, ValueError):
            return None
        if "error" in rep:
            return None
        return rep["results"][0]

    def c05_listed(self):
        if self.listed is None:
            from harness.framework import load_findings
            self.listed = any(f.get("id") == "C19-pattern-overlap-default" and f.get("status") == "open" for f in load_findings(ID))
        return self.listed


def has_key_deep(v, key):
    """does some object inside the (symbolic) value have a member spelled `key`"""
    if isinstance(v, dict):
        return key in v or any(has_key_deep(x, key) for x in v.values())
    if isinstance(v, (list, tuple)):
        return any(has_key_deep(x, key) for x in v)
    return False


def check_instance(run, inst, steps, v, seen, depth=0):
    """one model instance: every property's annotation vs the attribute; then every model instance below it.  True = failure recorded."""
    out, stats = run.out, run.stats
    if id(inst) in seen or depth > 12:
        return False
    seen.add(id(inst))
    owner = type(inst)
    classes = run.classes_of(owner)
    unique = len(run.names.get(owner.__name__, [])) == 1 and run.names[owner.__name__][0] is owner
    model_ann = run.model.get(owner.__name__, {}) if unique else {}
    where = show_steps(steps)
    if steps:
        stats["nested-instances-checked"] = stats.get("nested-instances-checked", 0) + 1
    for name, prop in owner.properties.items():
        full = (where + "." if where else "") + name
        case = {"label": run.label, "class": run.class_dump, "history": run.history, "value": enc_sym(v), "property": full, "annotation": None}
        try:
            text = prop.annotation
        except Exception as exc:  # noqa: BLE001 - the library failing to annotate a property of a built model is a failure
            out.failures.append({"case": case, "what": f"{owner.__name__}.{name}: annotation raised {type(exc).__name__}: {exc}", "finding": None})
            return True
        case["annotation"] = text
        attr = getattr(inst, name, NotPassed())
        out.note_case({"class": run.class_dump, "value": case["value"], "property": full}, text not in ("Any", "Maybe[Any]"))
        key = "ann-" + ("Maybe" if text.startswith("Maybe[") else "bare") + ("-nested" if steps else "")
        stats[key] = stats.get(key, 0) + 1
        # a listed finding only where the model predicts the very annotation the library printed
        finding = "C19-allof-annotation" if has_allof_nonhead(prop.element) and model_ann.get(name) == norm(text) else None
        try:
            ok = conforms(attr, ast.parse(text, mode="eval"), classes)
        except (Bad, SyntaxError) as exc:
            out.failures.append({"case": case, "what": f"annotation {text!r} cannot be read: {exc}", "finding": None})
            return True
        bare = not text.startswith("Maybe[")
        if not ok and not (bare and isinstance(attr, NotPassed)):
            if finding is None and (getattr(prop, "source", None) or name) != name and has_key_deep(v, name):
                # the C19 face of C04-/C05-key-collision: an input member spelled like the Python attribute name of a declared
                # property whose JSON name is different overwrites that attribute -- only where the model accepts the value too
                res = run.model_accepts(v)
                if res is not None and res.get("r") == "ok":
                    finding = "C19-key-collision"
                    stats["key-collision-overwrites-annotated-attribute"] = stats.get("key-collision-overwrites-annotated-attribute", 0) + 1
            if finding is not None and finding != "C19-key-collision" and run.class_dump is not None:
                # ... and only where the model also accepts this very value: a value the unchanged code refuses is a different failure
                res = run.model_accepts(v)
                if res is None or res.get("r") != "ok":
                    finding = None
            out.failures.append({"case": case, "what": f"{owner.__name__}.{name} is annotated {text} but holds {attr!r}" + (f" (at {where})" if where else ""), "finding": finding})
            return True
        if bare:
            has_default = not isinstance(getattr(prop.element, "default", NotPassed()), NotPassed)
            if not (prop.required or has_default):
                out.failures.append({"case": case, "what": f"{owner.__name__}.{name} is annotated as always present ({text}) but is neither required nor defaulted", "finding": None})
                return True
            if isinstance(attr, NotPassed):
                finding = None
                if pattern_overlap_default(owner, prop):
                    # the region of C05-pattern-overlap - and, where the model can be asked, only if it predicts the very same hole
                    res = run.model_accepts(v)
                    predicted = True
                    if res is not None:
                        try:
                            predicted = res.get("r") == "ok" and model_at(res.get("v"), steps + [name]) == {"np": 1}
                        except (KeyError, IndexError, TypeError):
                            predicted = False
                    if predicted:
                        stats["c05-pattern-overlap-default-lost"] = stats.get("c05-pattern-overlap-default-lost", 0) + 1
                        if not run.c05_listed():
                            continue       # see ASSUMPTIONS: counted, and said in the notes
                        finding = "C19-pattern-overlap-default"
                out.failures.append({"case": case, "what": f"{owner.__name__}.{name} is annotated as always present ({text}) but is not passed" + (f" (at {where})" if where else ""), "finding": finding})
                return True
    # every model below this one: attribute values, and members kept only in the mapping (additional / pattern properties)
    below = [(steps + [name], getattr(inst, name, NotPassed())) for name in owner.properties]
    held = getattr(inst, "_dict", None)
    if isinstance(held, dict):
        below += [(steps + [k], x) for k, x in held.items() if k not in owner.properties]
    for st, val in below:
        for st2, sub in walk_models(val, st):
            if check_instance(run, sub, st2, v, seen, depth + 1):
                return True
    return False


def check_class(drv, cls, class_dump, values, out, stats, label, history=None):
    """cls: a model class; every property's annotation vs the attribute values of built instances (values may hold ModelRefs)."""
    run = Run(drv, cls, class_dump, out, stats, label, history)
    classes = run.names
    for c in get_object_classes(cls):
        classes.setdefault(c.__name__, []).append(c)
    order = tree_classes(cls)
    # --- the model: annotation text of every property
    if class_dump is not None:
        rep = drv.ask({"op": "emit_module", "elements": [class_dump]})
        if "error" not in rep and rep.get("r") == "ok":
            out.traces_validated += 1
            model = {c["name"]: {p["attr"]: norm(p["ann"]) for p in c["props"]} for c in rep["classes"]}
            run.model = model
            for c in get_object_classes(cls):
                if len(classes[c.__name__]) != 1:
                    continue      # a name the tree uses for several class objects: the model keys classes by name
                real = {n: norm(p.annotation) for n, p in c.properties.items()}
                if c.__name__ in model and model[c.__name__] != real:
                    out.disagreements.append({"what": f"property annotations of {c.__name__}", "impl": real, "model": model[c.__name__], "class": class_dump, "label": label})
                    break
    cache = {}
    for v in values:
        rels = ref_rels(v, [])
        try:
            given = realize(v, order, cache) if rels else v
        except Exception:  # noqa: BLE001 - the instance to hand in could not be built from its data: not an input
            stats["instance-unbuildable"] = stats.get("instance-unbuildable", 0) + 1
            continue
        try:
            inst = cls(given)
        except Exception:  # noqa: BLE001
            stats["rejected"] = stats.get("rejected", 0) + 1
            for r in set(rels):
                stats[f"holds-{r}-instance-rejected"] = stats.get(f"holds-{r}-instance-rejected", 0) + 1
            continue
        if not isinstance(inst, cls):
            continue
        stats["accepted"] = stats.get("accepted", 0) + 1
        for r in set(rels):
            stats[f"holds-{r}-instance-accepted"] = stats.get(f"holds-{r}-instance-accepted", 0) + 1
        if check_instance(run, inst, [], v, set()):
            return


def element_annotations(drv, el, dump, out, stats):
    rep = drv.ask({"op": "annotation", "elem": dump})
    if "error" in rep:
        stats["driver-error"] = stats.get("driver-error", 0) + 1
        return
    out.traces_validated += 1
    try:
        real = el.annotation
    except Exception as exc:  # noqa: BLE001
        stats["annotation-raised-" + type(exc).__name__] = stats.get("annotation-raised-" + type(exc).__name__, 0) + 1
        return
    if norm(real) != norm(rep["annotation"]):
        out.disagreements.append({"what": "element annotation", "impl": real, "model": rep["annotation"], "element": dump})


def twin_tuple(rng):
    """tuple items of structurally equal, distinct classes (and containers of them)"""
    props = [[{"name": "street", "source": "street", "required": True}, {"cls": "String", "kw": {}}]]
    a = {"cls": "Object", "name": "BillingAddress", "kw": {"hasProps": True}, "props": props}
    b = {"cls": "Object", "name": "ShippingAddress", "kw": {"hasProps": True}, "props": props}
    wrap = rng.choice([lambda x: x, lambda x: {"cls": "Array", "kw": {"itemsKind": "single"}, "items": [x]}])
    kw = {"itemsKind": "tuple"}
    out = {"cls": "Array", "kw": kw, "items": [wrap(a), wrap(b)]}
    k = rng.random()
    if k < 0.5:
        kw["addItemsB"] = False
    elif k < 0.8:
        out["addItems"] = rng.choice([{"cls": "String", "kw": {}}, wrap(a)])
    ok = {"street": "s"}
    wv = (lambda x: x) if out["items"][0]["cls"] == "Object" else (lambda x: [x])
    return out, [[wv(ok), wv(ok)], [wv(ok)], [wv(ok), wv(ok), "extra"], []]


def comp_of_classes(rng):
    a = {"cls": "Object", "name": "Cat", "kw": {"hasProps": True}, "props": [[{"name": "lives", "source": "lives", "required": True}, {"cls": "Integer", "kw": {}}]]}
    b = {"cls": "Object", "name": "Dog", "kw": {"hasProps": True}, "props": [[{"name": "bark", "source": "bark", "required": True}, {"cls": "String", "kw": {}}]]}
    mode = rng.choice(["AnyOf", "OneOf", "AllOf"])
    members = rng.sample([a, b, {"cls": "String", "kw": {}}, {"cls": "Null", "kw": {}}, {"cls": "Element", "kw": {"required": ["lives"]}},
                          {"cls": "Array", "kw": {"itemsKind": "single"}, "items": [a]}], rng.randint(1, 3))
    return {"cls": mode, "kw": {}, "elements": members}, [{"lives": 9}, {"bark": "w"}, "s", None, [{"lives": 1}], {"lives": 1, "bark": "x"}, 3]


ALLOF_WITNESS = {"cls": "Object", "name": "Holder", "kw": {"hasProps": True}, "props": [[{"name": "p", "source": "p"},
    {"cls": "AllOf", "kw": {}, "elements": [{"cls": "Element", "kw": {"required": ["a"]}},
                                            {"cls": "Object", "name": "Q", "kw": {"hasProps": True}, "props": [[{"name": "a", "source": "a", "required": True}, {"cls": "Integer", "kw": {}}]]}]}]]}


def allof_family(rng):
    q = {"cls": "Object", "name": "Q", "kw": {"hasProps": True}, "props": [[{"name": "a", "source": "a", "required": True}, {"cls": "Integer", "kw": {}}]]}
    first = rng.choice([{"cls": "Element", "kw": {"required": ["a"]}}, {"cls": "Element", "kw": {}}, {"cls": "Element", "kw": {"minItems": {"i": "1"}}},
                        {"cls": "Number", "kw": {}}, {"cls": "Integer", "kw": {}}, {"cls": "Number", "kw": {"minimum": {"i": "0"}}}])
    second = rng.choice([q, {"cls": "String", "kw": {}}, {"cls": "Array", "kw": {"itemsKind": "single"}, "items": [q]}, {"cls": "Integer", "kw": {}},
                         {"cls": "Number", "kw": {}}, {"cls": "Integer", "kw": {"multipleOf": {"i": "1"}}}])
    members = [first, second] if rng.random() < 0.8 else [second, first]
    inner = {"cls": "AllOf", "kw": {}, "elements": members}
    if rng.random() < 0.3:
        return {"cls": "Array", "kw": {"itemsKind": "single"}, "items": [inner]}, [[1, 2], [3], [], [{"a": 1}], ["s"], 3, [4.0], [2.0, 1], [True]]
    return inner, [{"a": 1}, "s", [{"a": 2}], 3, [], {}, 4, 2.5, 2.0, 4.0, -0.0, True]


def allof_unions_family(rng):
    """an AllOf made only of unions that share one member annotation and have other members accepting a common value"""
    def cls(name, prop, kind):
        return {"cls": "Object", "name": name, "kw": {"hasProps": True}, "props": [[{"name": prop, "source": prop, "required": True}, {"cls": kind, "kw": {}}]]}
    if rng.random() < 0.5:
        circle, disc, square = cls("Circle", "radius", "Number"), cls("Disc", "radius", "Number"), cls("Square", "side", "Number")
        u1 = {"cls": rng.choice(["AnyOf", "OneOf"]), "kw": {}, "elements": [circle, square]}
        u2 = {"cls": rng.choice(["AnyOf", "OneOf"]), "kw": {}, "elements": [disc, square]}
        vals = [{"radius": 1}, {"side": 2}, {"radius": 1.5}, {}, 3, {"side": "x"}]
    else:
        u1 = {"cls": "AnyOf", "kw": {}, "elements": [{"cls": "Number", "kw": {}}, {"cls": "String", "kw": {}}]}
        u2 = {"cls": rng.choice(["AnyOf", "OneOf"]), "kw": {}, "elements": [{"cls": "Integer", "kw": {}}, {"cls": "String", "kw": {}}]}
        vals = [3, "s", 2.5, None, 0, True]
    members = [u1, u2] if rng.random() < 0.7 else [u2, u1]
    return {"cls": "AllOf", "kw": {}, "elements": members}, vals


def tuple_defaults_family(rng):
    """tuple items where a position with a default follows positions without one; values shorter than the tuple"""
    leaf = lambda cls, **kw: {"cls": cls, "kw": {k: core.enc_val(v) for k, v in kw.items()}}
    items = [leaf("String"), leaf("Integer"), leaf("String", default="kg")]
    if rng.random() < 0.5:
        items = [leaf("Integer", default=0), leaf("String"), leaf("Number", default=1.5), leaf("Null")]
    kw = {"itemsKind": "tuple"}
    if rng.random() < 0.4:
        kw["addItemsB"] = False
    return {"cls": rng.choice(["Array", "Element"]), "kw": kw, "items": items}, [["flour"], ["flour", 2], [], ["flour", 2, "g"], [1], [1, "x"], [1, "x", 2.5, None]]


def member_default_family(rng):
    """a composition without a default of its own whose member declares one: the member's default is never applied"""
    size = {"cls": "Object", "name": "Size", "kw": {"hasProps": True}, "props": [[{"name": "w", "source": "w"}, {"cls": "Integer", "kw": {}}]]}
    first = rng.choice([{"cls": "Integer", "kw": {}}, size, {"cls": "String", "kw": {}}])
    member = {"cls": "Element", "kw": {"default": core.enc_val(rng.choice([1, "x", {"w": 1}, None]))}}
    mode = rng.choice(["AllOf", "AllOf", "AnyOf", "OneOf"])
    members = [first, member] if rng.random() < 0.7 else [member, first]
    return {"cls": mode, "kw": {}, "elements": members}, [1, "s", {"w": 2}, None, 2.5]


def class_default_family(rng):
    """a property whose element is a model class with a class-level default (the empty object included)"""
    d = rng.choice([{}, {}, {"a": 1}, {"b": "x"}])
    inner = {"cls": "Object", "name": "Inner", "kw": {"hasProps": True, "default": core.enc_val(d)},
             "props": [[{"name": "a", "source": "a"}, {"cls": "Integer", "kw": {}}], [{"name": "b", "source": "b"}, {"cls": "String", "kw": {}}]]}
    return inner, [{"a": 2}, {}, {"b": "y"}, 3]


def _cls(name, props, **kw):
    return {"cls": "Object", "name": name, "kw": {"hasProps": True, **kw},
            "props": [[{"name": n, "source": n, **({"required": True} if req else {})}, sub] for n, req, sub in props]}


def pattern_overlap_family(rng):
    """A class whose `patternProperties` also match the JSON names of declared properties: for such a key the declared schema and
    every matching pattern schema apply together, while the annotation is the declared schema's alone.  Declared schemas that
    build something (classes, arrays / tuples / unions of classes) and ones that do not; pattern schemas untyped, typed, or
    classes themselves; used as the outermost class or below a property / array of it.  No defaults here (see ASSUMPTIONS)."""
    leaf = lambda c, **kw: {"cls": c, "kw": {k: core.enc_val(x) for k, x in kw.items()}}
    names = rng.sample(["shipping_address", "shipping_history", "billing", "name", "a", "ab", "kind_1", "x1"], rng.randint(2, 4))
    props, vals = [], {}
    for n in names:
        addr = _cls("Address_" + n, [("street", True, leaf("String")), ("floor", False, leaf("Number"))])
        good = [{"street": "s", "floor": 2}, {"street": "t"}, {"street": "u", "floor": 1.5}]
        k = rng.randrange(8)
        if k == 0:
            sub, vs = addr, good + [{}, "x"]
        elif k == 1:
            sub, vs = {"cls": "Array", "kw": {"itemsKind": "single"}, "items": [addr]}, [[good[0]], [good[1], good[2]], [], [3]]
        elif k == 2:
            sub, vs = {"cls": "Array", "kw": {"itemsKind": "tuple"}, "items": [addr, leaf("String")]}, [[good[0], "x"], [good[1]], [], [good[2], "y", 1]]
        elif k == 3:
            sub = {"cls": rng.choice(["AnyOf", "OneOf"]), "kw": {}, "elements": rng.sample([addr, leaf("Null"), leaf("String")], rng.randint(1, 3))}
            vs = good + [None, "x"]
        elif k == 4:
            sub, vs = {"cls": "AllOf", "kw": {}, "elements": [addr, {"cls": "Element", "kw": {"required": ["street"]}}]}, good + [{}]
        elif k == 5:
            sub, vs = leaf(rng.choice(["String", "Number", "Integer"])), ["s", "", 3, 2.5]
        elif k == 6:
            sub, vs = {"cls": "Array", "kw": {"itemsKind": "single"}, "items": [leaf("String")]}, [["a"], [], ["a", "b"], [1]]
        else:
            sub, vs = {"cls": "Element", "kw": {"hasProps": True}, "props": [[{"name": "street", "source": "street"}, addr]]}, [{"street": good[0]}, {}, 3]
        props.append((n, rng.random() < 0.4, sub))
        vals[n] = vs
    target = rng.choice(names)
    pats = rng.sample(["^" + target[: rng.randint(1, len(target))], target[-2:] + "$", re.escape(target), "_", ".*", "^[a-z_0-9]+$", "[0-9]$", "^$"], rng.randint(1, 2))
    pat_schemas = [leaf("Element"), leaf("Element", minProperties=1, minItems=1), {"cls": "Element", "kw": {"required": ["street"]}},
                   {"cls": "Element", "kw": {"hasProps": True}, "props": [[{"name": "street", "source": "street"}, leaf("String")]]},
                   {"cls": "Element", "kw": {"itemsKind": "single"}, "items": [leaf("Element")]}, leaf("Element", minLength=1),
                   {"cls": "Object", "name": "Anything", "kw": {"hasProps": True}}, leaf("String"),
                   {"cls": "AnyOf", "kw": {}, "elements": [leaf("Element", minProperties=1), leaf("Null")]}]
    pat_props = [[{"name": p}, copy.deepcopy(rng.choice(pat_schemas))] for p in pats]
    for i, (_, ps) in enumerate(pat_props):
        if ps["cls"] == "Object":
            ps["name"] = f"Anything{i}"
    kw = {"hasPatProps": True}
    k = rng.random()
    if k < 0.2:
        kw["addPropsB"] = False
    inner = _cls("Customer", props, **kw)
    inner["patProps"] = pat_props
    if 0.2 <= k < 0.35:
        inner["addProps"] = leaf("String")
    docs = [{}]
    for _ in range(9):
        d = {}
        for n in names:
            if rng.random() < 0.85:
                d[n] = rng.choice(vals[n])
        if rng.random() < 0.25:
            d[rng.choice([target + "_x", "zzz", "other_1"])] = rng.choice([{"k": 1}, "s", [1], {"street": "s"}])
        docs.append(d)
    shape = rng.choice(["top", "top", "property", "array"])
    if shape == "top":
        return inner, docs, shape
    if shape == "property":
        return _cls("Holder", [("customer", rng.random() < 0.5, inner)]), [{"customer": d} for d in docs] + [{}], shape
    holder = _cls("Holder", [("customers", False, {"cls": "Array", "kw": {"itemsKind": "single"}, "items": [inner]})])
    return holder, [{"customers": rng.sample(docs, rng.randint(0, 3))} for _ in range(9)] + [{}], shape


def model_positions_family(rng):
    """Class-typed positions of every kind (property, array items, tuple items, union member, allOf head, additional properties)
    whose classes have the same shape under different names, beside one of a different shape; the data is valid JSON for them -
    `instancify` then hands in already-built models instead of some of the dicts."""
    leaf = lambda c: {"cls": c, "kw": {}}
    second = rng.choice([("city", "String"), ("floor", "Number"), ("tags", None)])

    def addr(name):
        extra = leaf(second[1]) if second[1] else {"cls": "Array", "kw": {"itemsKind": "single"}, "items": [leaf("String")]}
        return _cls(name, [("street", True, leaf("String")), (second[0], False, extra)])
    contact = _cls("Contact", [("street", True, leaf("String")), ("phone", False, leaf("String"))])
    home = [{"street": "1 Main St"}, {"street": "2 Side St", second[0]: {"city": "Leeds", "floor": 2, "tags": ["a"]}[second[0]]}]
    pool = {
        "billing": (addr("BillingAddress"), lambda: rng.choice(home)),
        "shipping": (addr("ShippingAddress"), lambda: rng.choice(home)),
        "previous": ({"cls": "Array", "kw": {"itemsKind": "single"}, "items": [addr("PreviousAddress")]}, lambda: [rng.choice(home) for _ in range(rng.randint(0, 2))]),
        "pair": ({"cls": "Array", "kw": {"itemsKind": "tuple"}, "items": [addr("FromAddress"), addr("ToAddress")]}, lambda: [rng.choice(home) for _ in range(rng.randint(0, 3))]),
        "either": ({"cls": rng.choice(["AnyOf", "OneOf"]), "kw": {}, "elements": [addr("EitherAddress"), leaf("Null")]}, lambda: rng.choice(home + [None])),
        "both": ({"cls": "AllOf", "kw": {}, "elements": [addr("BothAddress"), {"cls": "Element", "kw": {"required": ["street"]}}]}, lambda: rng.choice(home)),
        "contact": (contact, lambda: rng.choice([{"street": "s"}, {"street": "s", "phone": "1"}])),
    }
    names = rng.sample(sorted(pool), rng.randint(2, 5))
    holder = _cls("Order", [(n, rng.random() < 0.3, pool[n][0]) for n in names])
    if rng.random() < 0.3:
        holder["addProps"] = addr("OtherAddress")
    docs = [{}]
    for _ in range(9):
        d = {n: pool[n][1]() for n in names if rng.random() < 0.85}
        if "addProps" in holder and rng.random() < 0.5:
            d["other"] = rng.choice(home)
        docs.append(d)
    return holder, docs, "order"


def wrapped_core_family(rng):
    """Pass-through wrappers around a schema that BUILDS something.  The core is a schema whose construction changes the runtime
    type of the value (a model class, arrays / tuples / unions of one, an anonymous object) or a scalar control; it sits under a
    chain of 1-3 wrappers that hand a value on to it - negation (which only tests its operand and keeps the raw value; an even
    number of negations accepts what the core accepts), one- and two-member anyOf / oneOf / allOf, an array.  The values are the
    core's accepted, NON-EMPTY values carried through the wrappers, beside values the core refuses (what an odd number of negations
    accepts).  Whatever the wrappers announce, the attribute must belong to it."""
    leaf = lambda c, **kw: {"cls": c, "kw": {k: core.enc_val(x) for k, x in kw.items()}}
    inner = _cls("Inner", [("n", True, leaf("Integer")), ("tag", False, leaf("String"))])
    goods_inner = [{"n": 1}, {"n": 2, "tag": "t"}]
    k = rng.randrange(9)
    if k <= 1:
        sub, goods, kind = inner, goods_inner, "class"
    elif k == 2:
        sub, goods, kind = {"cls": "Array", "kw": {"itemsKind": "single"}, "items": [inner]}, [[goods_inner[0]], list(goods_inner)], "array-of-class"
    elif k == 3:
        sub, goods, kind = {"cls": "Array", "kw": {"itemsKind": "tuple"}, "items": [inner, leaf("String")]}, [[goods_inner[0], "x"], [goods_inner[1]]], "tuple-of-class"
    elif k == 4:
        sub = {"cls": rng.choice(["AnyOf", "OneOf"]), "kw": {}, "elements": [inner, leaf("Null")]}
        goods, kind = goods_inner + [None], "union-of-class"
    elif k == 5:
        sub = {"cls": "Array", "kw": {"itemsKind": "single"}, "items": [{"cls": "Array", "kw": {"itemsKind": "single"}, "items": [inner]}]}
        goods, kind = [[[goods_inner[0]]], [[goods_inner[1]], [goods_inner[0], goods_inner[1]]]], "array-of-array-of-class"
    elif k == 6:
        sub = {"cls": "Element", "kw": {"hasProps": True}, "props": [[{"name": "n", "source": "n", "required": True}, leaf("Integer")]]}
        goods, kind = [{"n": 1}, {"n": 2, "z": 1}], "anonymous-object"
    elif k == 7:
        sub = {"cls": "Element", "kw": {"hasProps": True}, "props": [[{"name": "inner", "source": "inner"}, inner]]}
        goods, kind = [{"inner": goods_inner[0]}, {"inner": goods_inner[1], "z": 1}], "class-under-anonymous-object"
    else:
        c = rng.choice(["String", "Integer", "Number", "Boolean"])
        sub, goods, kind = leaf(c), {"String": ["s", "tt"], "Integer": [3, 0], "Number": [2.5, 3], "Boolean": [True, False]}[c], "scalar"
    junk = [3, "s", None, {}, [], {"n": "x"}, [3]]
    chain = []
    for _ in range(rng.choice([1, 2, 2, 2, 3, 3])):
        w = rng.choice(["Not", "Not", "Not", "Not", "AnyOf1", "OneOf1", "AllOf1", "AnyOf-or-null", "AllOf-then-untyped", "Array"])
        chain.append(w)
        if w == "Not":
            sub = {"cls": "Not", "kw": {}, "elements": [sub]}
        elif w in ("AnyOf1", "OneOf1", "AllOf1"):
            sub = {"cls": w[:-1], "kw": {}, "elements": [sub]}
        elif w == "AnyOf-or-null":
            sub = {"cls": "AnyOf", "kw": {}, "elements": [sub, leaf("Null")]}
        elif w == "AllOf-then-untyped":
            sub = {"cls": "AllOf", "kw": {}, "elements": [sub, leaf("Element")]}
        else:
            sub = {"cls": "Array", "kw": {"itemsKind": "single"}, "items": [sub]}
            goods = [[g] for g in goods] + [list(goods)]
            junk = [[j] for j in junk[:4]] + [[], 3, "s"]
    negs, run_len, longest = chain.count("Not"), 0, 0
    for w in chain:
        run_len = run_len + 1 if w == "Not" else 0
        longest = max(longest, run_len)
    return sub, goods + goods + rng.sample(junk, min(len(junk), 4)), {"core": kind, "negations": negs, "adjacent-negations": longest, "wrappers": len(chain)}


def value_restricted_family(rng):
    """Elements whose admitted values are pinned down by VALUE keywords rather than by a type: un-typed (and, as controls, typed)
    elements with `const`, `enum`, numeric bounds / `multipleOf`, alone, as array items or as a union member.  The validators
    compare by JSON equality, where 2 and 2.0 are the same number (and true is not 1): the values are the literals themselves and
    every literal in its other spelling (an integer as a real, an integral real as an integer, 0/1 for false/true and back)."""
    ints, reals, strs = [0, 1, 2, 3, -1, 10], [2.5, 0.5, 1.0, 2.0, -0.0], ["a", "b", "low", ""]

    def lit():
        k = rng.random()
        if k < 0.5:
            return rng.choice(ints)
        if k < 0.65:
            return rng.choice(reals)
        if k < 0.85:
            return rng.choice(strs)
        return rng.choice([None, True, False])
    shape = rng.choice(["ints", "ints", "ints", "mixed", "mixed", "strings"])
    n = rng.randint(1, 3)
    lits = {"ints": lambda: rng.sample(ints, n), "strings": lambda: rng.sample(strs, n), "mixed": lambda: [lit() for _ in range(n)]}[shape]()
    kw = {}
    how = rng.choice(["const", "enum", "enum", "enum", "bounds"])
    if how == "const":
        kw["const"] = core.enc_val(lits[0])
        lits = lits[:1]
    elif how == "enum":
        kw["enum"] = [core.enc_val(x) for x in lits]
    else:
        lo = rng.choice([0, 1])
        kw["minimum"], kw["maximum"] = core.enc_num(lo), core.enc_num(lo + rng.choice([1, 2, 3]))
        if rng.random() < 0.6:
            kw["multipleOf"] = core.enc_val(1)
        lits = [lo, lo + 1, lo + 0.5]
    typed = rng.choice(["Element", "Element", "Element", "Element", "Integer", "Number", "String"])
    sub = {"cls": typed, "kw": {k: v for k, v in kw.items() if typed != "String" or k in ("const", "enum")}}

    def other(x):
        if isinstance(x, bool):
            return int(x)
        if isinstance(x, int):
            return float(x)
        if isinstance(x, float) and x.is_integer():
            return int(x)
        return x
    vals = list(lits) + [other(x) for x in lits] + [rng.choice([True, 7, 7.0, "zz", None, 1.5])]
    where = rng.choice(["plain", "plain", "items", "union", "tuple"])
    if where == "items":
        sub = {"cls": "Array", "kw": {"itemsKind": "single"}, "items": [sub]}
        vals = [[x] for x in vals] + [vals[:2] + vals[len(lits):len(lits) + 1], []]
    elif where == "tuple":
        sub = {"cls": "Array", "kw": {"itemsKind": "tuple"}, "items": [sub, {"cls": "String", "kw": {}}]}
        vals = [[x, "s"] for x in vals] + [[]]
    elif where == "union":
        sub = {"cls": rng.choice(["AnyOf", "OneOf"]), "kw": {}, "elements": [sub, {"cls": rng.choice(["String", "Null", "Boolean"]), "kw": {}}]}
        vals = vals + ["s", None]
    return sub, vals, {"typed": typed != "Element", "how": how, "literals": shape, "where": where}


def respell(rng, v, p=0.6):
    """the same JSON value with some of its numbers (rng None: all of them) in the other spelling JSON allows (2 <-> 2.0);
    (value, number of changes)"""
    if isinstance(v, bool) or v is None or isinstance(v, str):
        return v, 0
    if isinstance(v, int):
        if abs(v) < 2 ** 53 and (rng is None or rng.random() < p):
            return float(v), 1
        return v, 0
    if isinstance(v, float):
        if v.is_integer() and (rng is None or rng.random() < p):
            return int(v), 1
        return v, 0
    if isinstance(v, list):
        got = [respell(rng, x, p) for x in v]
        return [g[0] for g in got], sum(g[1] for g in got)
    if isinstance(v, dict):
        got = {k: respell(rng, x, p) for k, x in v.items()}
        return {k: g[0] for k, g in got.items()}, sum(g[1] for g in got.values())
    return v, 0


def with_respelled(rng, values, stats, limit):
    """variants of up to `limit` of the (plain JSON) values in which numbers are written the other way JSON allows; rng None: the
    first values that hold a number, every number respelled (draws nothing, for the families whose random stream is to stay as it was)"""
    out = []
    plain = [v for v in values if not has_refs(v)]
    for v in (plain if rng is None else rng.sample(plain, min(len(plain), 2 * limit))):
        w, n = respell(rng, v)
        if n and w not in out:
            out.append(w)
        if len(out) >= limit:
            break
    stats["values-with-numbers-respelled"] = stats.get("values-with-numbers-respelled", 0) + len(out)
    return out


WHOLE_CLASS = {"pattern-overlap": pattern_overlap_family, "model-positions": model_positions_family}


def with_models(rng, cls, values, stats, p, limit):
    """variants of up to `limit` of the values in which dicts at class-typed positions are already-built model instances"""
    index = {id(c): i for i, c in enumerate(tree_classes(cls))}
    out = []
    for v in rng.sample(values, min(limit, len(values))):
        try:
            w = instancify(rng, cls, v, index, p)
        except Exception:  # noqa: BLE001
            stats["instancify-raised"] = stats.get("instancify-raised", 0) + 1
            continue
        if has_refs(w):
            out.append(w)
    stats["values-holding-built-models"] = stats.get("values-holding-built-models", 0) + len(out)
    return out


def run(ctx, scale=1.0):
    rng = random.Random(ctx["seed"] + 19)
    out = Outcome()
    out.rule = ("a model class with 1-3 properties (required / optional / defaulted) whose elements are DSL trees of depth <= 3 (typed leaves, arrays, tuple "
                "items, classes, anyOf/oneOf/allOf/not), built from 8+ generated values each; families: random, tuple items of structurally equal distinct "
                "classes, compositions of classes, parent-then-child and child-then-parent use of subclasses, classes whose patternProperties match declared "
                "property names (outermost / under a property / under array items), same-shaped classes at every kind of class-typed position, a building "
                "schema under 1-3 pass-through wrappers (negation chains, small compositions, arrays), const/enum/bounds-restricted un-typed and typed elements "
                "fed their literals in both number spellings; for every family, variants of the values with numbers respelled (2 <-> 2.0); for every "
                "family, variants of the values in which dicts at class-typed positions are already-built instances (of that class, an empty subclass, the "
                "same declaration under another name or rebuilt, a wider class); a case is one attribute of one model instance reachable from a built model; "
                "non-trivial = the annotation is not Any / Maybe[Any]; distinct by SHA-256")
    stats = {}
    drv = core.Driver()
    try:
        dg, vg = dsl.DumpGen(rng), ValueGen(rng)
        n = int(N_TREES[ctx["tier"]] * scale)
        later = int(N_LATER[ctx["tier"]] * scale)
        for i in range(n + later):
            fam = LATER[(i - n) % len(LATER)] if i >= n else ["random", "random", "class-default", "twin-tuple", "composition", "random", "subclass", "allof", "random", "allof-unions", "tuple-defaults", "member-default",
                   "pattern-overlap", "model-positions"][i % 14]
            stats["family-" + fam] = stats.get("family-" + fam, 0) + 1
            if fam == "subclass":
                check_subclass(drv, rng, dg, out, stats, i)
                continue
            if fam in WHOLE_CLASS:
                class_dump, values, shape = WHOLE_CLASS[fam](rng)
                stats[f"{fam}-{shape}"] = stats.get(f"{fam}-{shape}", 0) + 1
                try:
                    cls = dsl.build(class_dump)
                except Exception:  # noqa: BLE001
                    stats["unbuildable"] = stats.get("unbuildable", 0) + 1
                    continue
                for c in tree_classes(cls):
                    for pn, pr in c.properties.items():
                        if isinstance(getattr(c, "patternProperties", None), dict) and any(re.search(pt, pr.source or pn) for pt in c.patternProperties):
                            stats["declared-property-under-pattern"] = stats.get("declared-property-under-pattern", 0) + 1
                values = values + with_models(rng, cls, values, stats, 0.6 if fam == "model-positions" else 0.3, 8 if fam == "model-positions" else 3)
                values = values + with_respelled(None, values, stats, 2)
                check_class(drv, cls, class_dump, values, out, stats, f"{fam}-{i}")
                continue
            props, val_lists = [], {}
            names = rng.sample(["a", "b", "c", "items_", "kind"], rng.randint(1, 3))
            for pn in names:
                if fam == "twin-tuple":
                    sub, vals = twin_tuple(rng)
                elif fam == "composition":
                    sub, vals = comp_of_classes(rng)
                elif fam == "allof":
                    sub, vals = allof_family(rng)
                elif fam == "class-default":
                    sub, vals = class_default_family(rng)
                elif fam == "allof-unions":
                    sub, vals = allof_unions_family(rng)
                elif fam == "tuple-defaults":
                    sub, vals = tuple_defaults_family(rng)
                elif fam == "member-default":
                    sub, vals = member_default_family(rng)
                elif fam in ("wrapped-core", "value-restricted"):
                    sub, vals, info = (wrapped_core_family if fam == "wrapped-core" else value_restricted_family)(rng)
                    for ik, iv in info.items():
                        stats[f"{fam}-{ik}-{iv}"] = stats.get(f"{fam}-{ik}-{iv}", 0) + 1
                else:
                    sub = dg.dump(3)
                    try:
                        vals = vg.values(dump_to_schema(sub), 6)
                    except Exception:  # noqa: BLE001
                        vals = [1, "a", None, [], {}]
                key = {"name": pn, "source": pn}
                if rng.random() < 0.4:
                    key["required"] = True
                sub = rename_classes(sub, "_" + pn)      # one class object per name within the tree
                props.append([key, sub])
                val_lists[pn] = vals
            class_dump = {"cls": "Object", "name": "Holder", "kw": {"hasProps": True}, "props": props}
            try:
                cls = dsl.build(class_dump)
            except Exception:  # noqa: BLE001
                stats["unbuildable"] = stats.get("unbuildable", 0) + 1
                continue
            if not all(all_defaults_valid(p.element) for p in cls.properties.values()):
                stats["skipped-invalid-default"] = stats.get("skipped-invalid-default", 0) + 1
                continue
            for key, sub in props:
                element_annotations(drv, cls.properties[key["name"]].element, sub, out, stats)
            values = [{}]
            for _ in range(8):
                v = {}
                for pn in names:
                    if rng.random() < 0.8:
                        v[pn] = rng.choice(val_lists[pn])
                values.append(v)
            values += with_models(rng, cls, values, stats, 0.5, 3)
            values += with_respelled(rng if fam in LATER else None, values, stats, 4 if fam in LATER else 2)
            before = stats.get("accepted", 0)
            check_class(drv, cls, class_dump, values, out, stats, f"{fam}-{i}")
            if fam in LATER:
                stats[fam + "-values-accepted"] = stats.get(fam + "-values-accepted", 0) + stats.get("accepted", 0) - before
    finally:
        drv.close()
    if stats.get("c05-pattern-overlap-default-lost"):
        out.notes.append(f"{stats['c05-pattern-overlap-default-lost']} attribute(s) annotated as always present were left not-passed because a pattern also matches the "
                         "defaulted property's name: the open finding C05-pattern-overlap, which breaks C19 as well (see ASSUMPTIONS)")
    out.stats = stats
    return out


def check_subclass(drv, rng, dg, out, stats, i):
    """parent / child classes, used in either order; the child tightens `required` or adds properties"""
    from statham.schema.elements import Array, String, Integer
    base_props = {"name": Property(String(), required=True), "note": Property(String())}

    def mk():
        pd = ObjectClassDict()
        for k, p in base_props.items():
            pd[k] = Property(p.element, required=p.required)
        parent = ObjectMeta("Account", (Object,), pd)
        cd = ObjectClassDict()
        cd["verified_by"] = Property(String(), required=True)
        if rng.random() < 0.5:
            cd["note"] = Property(String(), required=True)
        child = ObjectMeta("VerifiedAccount", (parent,), cd, **({"required": ["name", "extra"]} if rng.random() < 0.3 else {}))
        hd = ObjectClassDict()
        hd["members"] = Property(Array(parent))
        hd["owner"] = Property(child)
        holder = ObjectMeta("Team", (Object,), hd)
        return parent, child, holder
    parent, child, holder = mk()
    order = rng.choice(["parent-first", "child-first", "holder-only"])
    docs = [{"name": "n"}, {"name": "n", "verified_by": "v"}, {"name": "n", "note": "x", "verified_by": "v", "extra": 1}, {"name": "n", "note": "x"}, {}]
    hist = [order]
    if order == "parent-first":
        check_class(drv, parent, None, docs, out, stats, f"subclass-{i}", hist)
        check_class(drv, child, None, docs, out, stats, f"subclass-{i}", hist)
    elif order == "child-first":
        check_class(drv, child, None, docs, out, stats, f"subclass-{i}", hist)
        check_class(drv, parent, None, docs, out, stats, f"subclass-{i}", hist)
    team_docs = [{"members": [m], "owner": o} for m in docs[:4] for o in docs[:4]] + [{}]
    check_class(drv, holder, None, team_docs, out, stats, f"subclass-{i}", hist)
    # attributes of the nested owner too
    for d in team_docs:
        try:
            inst = holder(d)
        except Exception:  # noqa: BLE001
            continue
        owner = getattr(inst, "owner", NotPassed())
        if isinstance(owner, child):
            for name, prop in child.properties.items():
                attr = getattr(owner, name, NotPassed())
                text = prop.annotation
                out.note_case({"subclass": i, "doc": d, "property": name}, True)
                if not text.startswith("Maybe[") and isinstance(attr, NotPassed):
                    out.failures.append({"case": {"label": f"subclass-{i}", "history": hist, "value": core.enc_arg(d), "property": name, "annotation": text},
                                         "what": f"VerifiedAccount.{name} is annotated as always present ({text}) but is not passed", "finding": None})
                    return


def search(ctx, reason):
    sub = dict(ctx)
    sub["seed"] = ctx["seed"] + 141650939
    found = run(sub, scale=2.0 if ctx["tier"] == "quick" else 1.0)
    new = [f for f in found.failures if f.get("finding") is None]
    return new[0] if new else None


def _replay_case(case):
    if not case.get("class"):
        return False
    out, stats = Outcome(), {}
    drv = core.Driver()
    try:
        cls = dsl.build(case["class"])
        v = case["value"]
        value = dec_sym(v)
        check_class(drv, cls, case["class"], [value], out, stats, "replay")
    finally:
        drv.close()
    return bool(out.failures)


def replay_finding(finding):
    return _replay_case(finding["witness"])


def replay(payload):
    case = payload.get("failure", {}).get("case")
    return True if not case else not _replay_case(case)
