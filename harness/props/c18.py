"""C18 — an element's repr is the expression that rebuilds it.

Correspondence: `ast.parse(repr(element))` (canonical form) vs the Lean model `reprExpr` on
DSL-built trees and property wrappers.  Oracle: `eval(repr(x))` in a namespace holding the public
element classes (and the model classes the tree refers to) equals `x`; keywords at their
constructor default are omitted, every other keyword appears."""
import random

from statham.schema import elements as _elements
from statham.schema.constants import NotPassed
from statham.schema.property import Property

from harness import core, dsl, pyast
from harness.framework import Outcome

ID = "C18"
TIE_MODULES = ["StathamModel.Tie"]
PROOF_MODULES = ['StathamModel.Py.EvalTree', 'StathamModel.Lemmas.EvalTree']
ASSUMPTIONS = ["literal printing is CPython's repr of None/bool/int/finite float/str/list/dict (trusted)"]
N_TREES = {"quick": 1200, "thorough": 40000}
# strings that stress the printing of string literals: backslashes with both quote kinds, trailing backslash,
# control characters, quotes only, non-ASCII, line separators
HOSTILE = ["^[\"'](\\w+)[\"']$", "tail\\", "a\nb", "tab\there", "'", '"', "'\"", "\\d+\\.\\d*", "nul\x00", "é\u2028x", "r'raw'", "\\N{BULLET}", "%s {0} {name}"]
USE_VALUES = [None, True, 0, 1, 2.5, "", "a", "abc", [], [1, "a"], {}, {"a": 1}, {"a": "x", "b": [1]}]


def make_hostile(rng, dump):
    """put a hostile string into one string-valued keyword somewhere in the tree"""
    nodes = []

    def walk(d):
        if isinstance(d, dict):
            if "cls" in d and isinstance(d.get("kw"), dict):
                nodes.append(d)
            for v in d.values():
                walk(v)
        elif isinstance(d, list):
            for v in d:
                walk(v)
    walk(dump)
    rng.shuffle(nodes)
    for node in nodes:
        kw = node["kw"]
        if node["cls"] in ("String", "Element"):
            kw[rng.choice(["pattern", "description", "format"] if node["cls"] == "String" else ["pattern", "description", "format"])] = rng.choice(HOSTILE)
            return True
        if node["cls"] in ("Integer", "Number", "Boolean", "Null", "Array"):
            kw["description"] = rng.choice(HOSTILE)
            return True
    return False



def namespace_for(el):
    from statham.serializers.orderer import get_object_classes
    ns = {name: getattr(_elements, name) for name in _elements.__all__} if hasattr(_elements, "__all__") else {}
    for name in ("AllOf", "AnyOf", "Array", "Boolean", "Element", "Integer", "Not", "Nothing", "Null", "Number", "Object", "OneOf", "String"):
        ns[name] = getattr(_elements, name)
    ns["Property"] = Property
    ns["NotPassed"] = NotPassed
    try:
        for cls in get_object_classes(el):
            ns.setdefault(cls.__name__, cls)
    except Exception:  # noqa: BLE001
        pass
    return ns


def expected_kwargs(el):
    """Which keywords must appear: exactly those whose value differs from the constructor default."""
    import inspect
    out = set()
    for p in list(inspect.signature(type(el).__init__).parameters.values())[1:]:
        if p.kind != p.KEYWORD_ONLY:
            continue
        v = getattr(el, p.name, None)
        if not (v == p.default):
            out.add(p.name)
    return out


def check_element(drv, el, dump, out, stats, what="element", used=False, unique=True):
    text = repr(el)
    case = {"element": dump, "repr": text, "used_before": used}
    out.note_case({"element": dump}, len(text) > 20)
    try:
        real = pyast.canon_expr_text(text)
    except (SyntaxError, pyast.Unsupported) as exc:
        out.failures.append({"case": case, "what": f"repr is not an expression of the expected form: {exc}", "finding": None})
        return
    rep = drv.ask({"op": "repr", "elem": dump})
    model_back = None
    if "error" not in rep:
        out.traces_validated += 1
        if rep["expr"] != real:
            out.disagreements.append({"what": "repr expression", "impl": real, "model": rep["expr"], **case})
        elif unique and not isinstance(el, type):
            # the model's own evaluator (Py/EvalTree.lean, the subject of C18_round_trip_tree) run on the model's repr
            model_back = rep.get("evalBack")
    else:
        stats["driver-error"] = stats.get("driver-error", 0) + 1
    try:
        back = eval(text, namespace_for(el))  # noqa: S307 - repr produced by the library under test
    except Exception as exc:  # noqa: BLE001
        out.failures.append({"case": case, "what": f"eval(repr) raised {type(exc).__name__}: {exc}", "finding": None})
        return
    real_back = bool(back == el and el == back)
    if model_back is not None:
        stats["model-eval-compared"] = stats.get("model-eval-compared", 0) + 1
        if model_back != real_back:
            out.disagreements.append({"what": "eval(repr(x)) == x", "impl": real_back, "model": model_back, **case})
    if not real_back:
        out.failures.append({"case": case, "what": f"eval(repr(x)) != x: rebuilt {back!r}", "finding": None})
        return
    if isinstance(real, dict) and "call" in real and not isinstance(el, type):
        shown = {k for k, _ in real["kwargs"]}
        want = expected_kwargs(el)
        if shown != want:
            out.failures.append({"case": case, "what": f"keywords shown {sorted(shown)} differ from the non-default ones {sorted(want)}", "finding": None})
    stats[what + "-ok"] = stats.get(what + "-ok", 0) + 1


def check_property(drv, rng, dg, out, stats):
    sub = unique_class_names(dg.dump(2))
    el = dsl.build(sub)
    required = rng.random() < 0.5
    name = rng.choice(["a", "class_", "a_b", "x"])
    source = rng.choice([None, name, "other", "a b"])
    prop = Property(el, required=required, source=source)
    reused = False
    if source is None and rng.random() < 0.5:
        # one wrapper object reused under a second attribute name: the first binding fixed its source
        first = name + "_first"
        _elements.Element(properties={first: prop})
        source = first
        reused = True
    holder = _elements.Element(properties={name: prop})
    text = repr(prop)
    case = {"property": {"name": name, "required": required, "source": source, "reused": reused}, "element": sub, "repr": text}
    out.note_case({"property": case["property"], "element": sub}, True)
    try:
        real = pyast.canon_expr_text(text)
    except (SyntaxError, pyast.Unsupported) as exc:
        out.failures.append({"case": case, "what": f"property repr is not an expression: {exc}", "finding": None})
        return
    key = {"name": name, "required": required}
    if prop.source is not None:
        key["source"] = prop.source
    rep = drv.ask({"op": "repr_property", "key": key, "elem": sub})
    if "error" not in rep:
        out.traces_validated += 1
        if rep["expr"] != real:
            out.disagreements.append({"what": "property repr", "impl": real, "model": rep["expr"], **case})
    try:
        back = eval(text, namespace_for(el))  # noqa: S307
    except Exception as exc:  # noqa: BLE001
        out.failures.append({"case": case, "what": f"eval(repr(property)) raised {type(exc).__name__}: {exc}", "finding": None})
        return
    # after binding under the same name the rebuilt wrapper must equal the original
    rebuilt_holder = _elements.Element(properties={name: back})
    if not (rebuilt_holder.properties[name] == prop and holder == rebuilt_holder):
        out.failures.append({"case": case, "what": f"rebuilt property {back!r} differs (source {back.source!r} vs {prop.source!r})", "finding": None})
        return
    stats["property-ok"] = stats.get("property-ok", 0) + 1


def unique_class_names(dump, counter=None):
    """model classes print as their bare name: give every class of a tree its own name"""
    counter = counter if counter is not None else [0]
    if isinstance(dump, dict):
        if dump.get("cls") == "Object":
            counter[0] += 1
            dump["name"] = f"M{counter[0]}"
        for v in dump.values():
            unique_class_names(v, counter)
    elif isinstance(dump, list):
        for v in dump:
            unique_class_names(v, counter)
    return dump


def run(ctx, scale=1.0):
    rng = random.Random(ctx["seed"] + 18)
    out = Outcome()
    out.rule = ("element trees built through the DSL from generated dumps (every element class, keyword subsets, JSON literals incl. falsy ones, "
                "nested elements, tuple/single items, renamed and required properties, dependencies of both forms) and property wrappers "
                "bound under a name; a third of the trees carry a hostile string (backslashes with both quote kinds, trailing backslash, control "
                "characters) in a pattern / description / format; half of the trees are used for validation before their repr is taken; "
                "a case is one tree or wrapper; non-trivial = repr longer than 20 characters; distinct by SHA-256")
    stats = {}
    drv = core.Driver()
    try:
        dg = dsl.DumpGen(rng)
        for i in range(int(N_TREES[ctx["tier"]] * scale)):
            dump = dg.dump(3)
            if dump["cls"] == "Object":
                dump = dg.element(3)
            unique_class_names(dump)
            if i % 3 == 1 and make_hostile(rng, dump):
                stats["hostile-string"] = stats.get("hostile-string", 0) + 1
            el = dsl.build(dump)
            if i % 2 == 1:
                # a used element: validation must leave nothing behind that the rebuilt element lacks
                for v in rng.sample(USE_VALUES, 5) + [core.NP]:
                    core.real_call(el, v)
                stats["used-before-repr"] = stats.get("used-before-repr", 0) + 1
            check_element(drv, el, core.dump_elem(el), out, stats, used=(i % 2 == 1))
            if i % 4 == 0:
                check_property(drv, rng, dg, out, stats)
        # numeric keywords holding floats that have no exact binary form, and integers beyond 2**53, at the top and nested
        for x in (0.1, 0.01, 1.1, 0.5, 2.5, 1e-7, 3.0, 2 ** 60 + 1, -0.0):
            for cls in ("Number", "Integer", "Element"):
                for kwname in ("multipleOf", "minimum", "exclusiveMaximum", "default", "const"):
                    leaf = {"cls": cls, "kw": {kwname: core.enc_val(x)}}
                    for dump in (leaf, {"cls": "Array", "kw": {"itemsKind": "single"}, "items": [leaf]},
                                 {"cls": "Element", "kw": {"hasProps": True}, "props": [[{"name": "n", "source": "n"}, leaf]]}):
                        try:
                            el = dsl.build(dump)
                        except Exception:  # noqa: BLE001
                            continue
                        check_element(drv, el, core.dump_elem(el), out, stats, what="numeric-literal")
        # one element per class with each single keyword at a falsy non-default value
        for dump in (
            {"cls": "Element", "kw": {"default": None}}, {"cls": "Element", "kw": {"default": False}}, {"cls": "Element", "kw": {"const": {"i": "0"}}},
            {"cls": "Element", "kw": {"enum": []}}, {"cls": "Element", "kw": {"required": []}}, {"cls": "Element", "kw": {"hasProps": True}},
            {"cls": "Element", "kw": {"itemsKind": "tuple"}}, {"cls": "Element", "kw": {"addItemsB": False}}, {"cls": "Element", "kw": {"addPropsB": False}},
            {"cls": "Element", "kw": {"minItems": {"i": "0"}}}, {"cls": "Element", "kw": {"description": ""}}, {"cls": "Element", "kw": {"pattern": ""}},
            {"cls": "Array", "kw": {"itemsKind": "single", "addItemsB": False}, "items": [{"cls": "String", "kw": {}}]},
            {"cls": "Array", "kw": {"itemsKind": "single"}, "items": [{"cls": "String", "kw": {}}], "addItems": {"cls": "Integer", "kw": {}}},
            {"cls": "Array", "kw": {"itemsKind": "tuple"}}, {"cls": "Not", "kw": {"default": {"i": "0"}}, "elements": [{"cls": "Nothing", "kw": {}}]},
            {"cls": "AnyOf", "kw": {"default": ""}, "elements": [{"cls": "Null", "kw": {}}]},
        ):
            el = dsl.build(dump)
            check_element(drv, el, core.dump_elem(el), out, stats)
    finally:
        drv.close()
    out.stats = stats
    return out


def search(ctx, reason):
    sub = dict(ctx)
    sub["seed"] = ctx["seed"] + 198491317
    found = run(sub, scale=2.0 if ctx["tier"] == "quick" else 1.0)
    return found.failures[0] if found.failures else None


def _replay_case(case):
    out, stats = Outcome(), {}
    drv = core.Driver()
    try:
        el = dsl.build(case["element"])
        if "property" in case:
            p = case["property"]
            if p.get("reused"):
                prop = Property(el, required=p["required"])
                _elements.Element(properties={p["source"]: prop})
            else:
                prop = Property(el, required=p["required"], source=p["source"])
            holder = _elements.Element(properties={p["name"]: prop})
            back = eval(repr(prop), namespace_for(el))  # noqa: S307
            rebuilt = _elements.Element(properties={p["name"]: back})
            if not (rebuilt.properties[p["name"]] == prop and holder == rebuilt):
                out.failures.append({"case": case, "what": "rebuilt property differs", "finding": None})
        else:
            if case.get("used_before"):
                for v in USE_VALUES + [core.NP]:
                    core.real_call(el, v)
            check_element(drv, el, case["element"], out, stats, used=bool(case.get("used_before")))
    finally:
        drv.close()
    return out


def replay_finding(finding):
    return bool(_replay_case(finding["witness"]).failures)


def replay(payload):
    case = payload.get("failure", {}).get("case")
    return True if not case else not _replay_case(case).failures
