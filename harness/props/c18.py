"""C18 — an element's repr is the expression that rebuilds it.

Correspondence: `ast.parse(repr(element))` (canonical form) vs the Lean model `reprExpr` on
DSL-built trees and property wrappers.  Oracle: `eval(repr(x))` in a namespace holding the public
element classes (and the model classes the tree refers to) equals `x`; keywords at their
constructor default are omitted, every other keyword appears."""
import random
import sys

from statham.schema import elements as _elements
from statham.schema.constants import NotPassed
from statham.schema.property import Property

from harness import core, dsl, pyast
from harness.framework import Outcome

ID = "C18"
TIE_MODULES = ["StathamModel.Tie"]
PROOF_MODULES = ['StathamModel.Py.EvalTree', 'StathamModel.Lemmas.EvalTree']
ASSUMPTIONS = ["literal printing is CPython's repr of None/bool/int/finite float/str/list/dict (trusted)"]
N_TREES = {"quick": 1200, "thorough": 40000}
# strings that stress the printing of string literals: backslashes with both quote kinds, trailing backslash,
# control characters, quotes only, non-ASCII, line separators
HOSTILE = ["^[\"'](\\w+)[\"']$", "tail\\", "a\nb", "tab\there", "'", '"', "'\"", "\\d+\\.\\d*", "nul\x00", "é\u2028x", "r'raw'", "\\N{BULLET}", "%s {0} {name}"]
N_MAGNITUDE = {"quick": 160, "thorough": 4000}
# keywords that hold a JSON number, per element class (the literal keywords default / const / enum take any JSON value)
NUMERIC_KW = ("minimum", "maximum", "exclusiveMinimum", "exclusiveMaximum", "multipleOf")
COUNT_KW = {"String": ("minLength", "maxLength"), "Array": ("minItems", "maxItems"),
            "Element": ("minLength", "maxLength", "minItems", "maxItems", "minProperties", "maxProperties")}
# largest decimal exponent / bit length used: the literal must stay printable under CPython's default 4300-digit
# int<->str limit (beyond it neither json.loads nor eval can produce the literal in the first place)
MAX_DIGITS, MAX_BITS = 3999, 13000
FLOAT_MAX_INT = int(sys.float_info.max)          # 2**1024 - 2**971, the largest integer a float holds
FLOAT_ROUND_LIMIT = 2 ** 1024 - 2 ** 970         # integers from here on do not round to a finite float
N_SHARED = {"quick": 320, "thorough": 9000}
N_SHARED_SHAPES = {"quick": 120, "thorough": 3000}
USE_VALUES = [None, True, 0, 1, 2.5, "", "a", "abc", [], [1, "a"], {}, {"a": 1}, {"a": "x", "b": [1]}]


def make_hostile(rng, dump):
    """put a hostile string into one string-valued keyword somewhere in the tree"""
    nodes = []

    def walk(d):
        if isinstance(d, dict):
            if "cls" in d and isinstance(d.get("kw"), dict):
                nodes.append(d)
            for v in d.values():
                walk(v)
        elif isinstance(d, list):
            for v in d:
                walk(v)
    walk(dump)
    rng.shuffle(nodes)
    for node in nodes:
        kw = node["kw"]
        if node["cls"] in ("String", "Element"):
            kw[rng.choice(["pattern", "description", "format"] if node["cls"] == "String" else ["pattern", "description", "format"])] = rng.choice(HOSTILE)
            return True
        if node["cls"] in ("Integer", "Number", "Boolean", "Null", "Array"):
            kw["description"] = rng.choice(HOSTILE)
            return True
    return False


def magnitude_number(rng):
    """(class, number): a JSON number drawn from the magnitude ladder.  JSON integers are unbounded and JSON floats span
    the whole double range, so the ladder has one rung per representation boundary a printer could depend on: the machine
    word sizes, the 2**53 exact-float limit, the end of the float range (integers no float can hold), and for floats the
    ends of the double range and the switch points of repr's exponent notation."""
    k = rng.random()
    sign = rng.choice([1, 1, -1])
    jitter = rng.choice([-1, 0, 0, 1])
    if k < 0.12:
        return "int-word-boundary", sign * (2 ** rng.choice([31, 32, 53, 63, 64, 128]) + jitter)
    if k < 0.27:
        # beyond 2**64 but still inside the float range
        if rng.random() < 0.5:
            return "int-within-float-range", sign * (2 ** rng.randint(65, 1023) + jitter)
        return "int-within-float-range", sign * (10 ** rng.randint(20, 308) + jitter)
    if k < 0.42:
        base = rng.choice([FLOAT_MAX_INT, FLOAT_ROUND_LIMIT, 2 ** 1024, 2 ** 1023, 10 ** 308, 10 ** 309])
        return "int-at-float-range-end", sign * (base + jitter)
    if k < 0.67:
        kind = rng.random()
        if kind < 0.35:
            n = 2 ** rng.randint(1025, MAX_BITS) + jitter
        elif kind < 0.7:
            n = 10 ** rng.randint(310, MAX_DIGITS) + jitter
        else:
            n = rng.getrandbits(rng.randint(1026, MAX_BITS)) | (1 << 1025)
        return "int-beyond-float-range", sign * n
    if k < 0.8:
        x = rng.choice([sys.float_info.max, sys.float_info.min, 5e-324, sys.float_info.epsilon, 1.5e300, 1e308,
                        2.0 ** 1023, 2.0 ** -1074, 2.0 ** 53, 2.0 ** 53 + 2.0, 2.0 ** 63, 2.0 ** 64])
        return "float-at-range-end", sign * x
    # floats with a random mantissa over the whole exponent range, and repr's notation switch points (1e16, 1e-4)
    if rng.random() < 0.3:
        x = rng.choice([1e16, 1e15, 9999999999999998.0, 1e-4, 1e-5, 0.0001234, 1e22, 1e23, 123456789012345680.0])
    else:
        x = float(f"{rng.uniform(1, 10)!r}e{rng.randint(-323, 308)}")
    if x != x or x in (float("inf"), float("-inf")):
        x = sys.float_info.max
    return "float-any-exponent", sign * x


def wrap_literal(rng, x):
    """(placement, JSON value): the number itself, or the number at some depth inside a list / dict literal"""
    k = rng.random()
    if k < 0.4:
        return "direct", x
    if k < 0.6:
        return "in-list", rng.choice([[x], [1, x], [x, "a", None], [0.5, x, x]])
    if k < 0.8:
        return "in-dict", rng.choice([{"a": x}, {"a": 1, "big": x}, {"x": x, "y": "s"}])
    return "in-nested-literal", rng.choice([{"limits": [0.5, x]}, [{"a": x}], [[x]], {"a": {"b": x}}, [1, {"a": [x, None]}]])


def plant_in_node(rng, node, stats):
    """write one magnitude number into a keyword of this dump node; returns False if the class takes no such keyword"""
    cls, kw = node["cls"], node["kw"]
    if cls in ("Nothing", "Object"):
        return False
    label, x = magnitude_number(rng)
    choices = ["default"]
    if cls not in ("AnyOf", "OneOf", "AllOf", "Not"):
        choices += ["const", "enum"]
    if cls in ("Integer", "Number", "Element"):
        choices += list(NUMERIC_KW) * 2
    if isinstance(x, int):
        choices += list(COUNT_KW.get(cls, ()))
    name = rng.choice(choices)
    if name in ("default", "const", "enum"):
        place, value = wrap_literal(rng, x)
        if name == "enum":
            value = [value] if place == "direct" or rng.random() < 0.5 else [0, value]
            kw[name] = [core.enc_val(v) for v in value]
        else:
            kw[name] = core.enc_val(value)
        where = f"{name}:{place}"
    else:
        if name in NUMERIC_KW:
            kw[name] = core.enc_num(abs(x) if name == "multipleOf" else x)
        else:
            kw[name] = core.enc_num(abs(x))
        where = "numeric-keyword" if name in NUMERIC_KW else "count-keyword"
    stats["magnitude:" + label] = stats.get("magnitude:" + label, 0) + 1
    stats["magnitude-at:" + where] = stats.get("magnitude-at:" + where, 0) + 1
    return True


def plant_magnitude(rng, dump, stats):
    """put a number from the magnitude ladder into one keyword somewhere in the tree (any depth that the repr shows:
    the walk does not go below a model class, which prints as its bare name)"""
    nodes = []

    def walk(d, depth):
        if isinstance(d, dict):
            if "cls" in d and isinstance(d.get("kw"), dict):
                if d["cls"] == "Object":
                    return
                nodes.append((d, depth))
                depth += 1
            for v in d.values():
                walk(v, depth)
        elif isinstance(d, list):
            for v in d:
                walk(v, depth)
    walk(dump, 0)
    rng.shuffle(nodes)
    for node, depth in nodes:
        if plant_in_node(rng, node, stats):
            key = "magnitude-depth:" + ("top" if depth == 0 else "nested-1" if depth == 1 else "nested-2+")
            stats[key] = stats.get(key, 0) + 1
            return True
    return False


def magnitude_tree(rng, stats):
    """a small tree around one leaf that carries a magnitude number: the leaf alone, as array items, as a property of
    an element, inside a composition under Not, as additionalProperties"""
    leaf = {"cls": rng.choice(["Integer", "Number", "Element", "Element", "String", "Array", "Boolean", "AnyOf"]), "kw": {}}
    if leaf["cls"] == "AnyOf":
        leaf["elements"] = [{"cls": "Null", "kw": {}}]
    if leaf["cls"] == "Array":
        leaf["kw"]["itemsKind"] = "single"
        leaf["items"] = [{"cls": "String", "kw": {}}]
    plant_in_node(rng, leaf, stats)
    shape = rng.choice(["leaf", "array-items", "property", "not-in-anyof", "additional-properties", "tuple-items"])
    stats["magnitude-shape:" + shape] = stats.get("magnitude-shape:" + shape, 0) + 1
    if shape == "leaf":
        return leaf
    if shape == "array-items":
        return {"cls": "Array", "kw": {"itemsKind": "single", "minItems": {"i": "1"}}, "items": [leaf]}
    if shape == "tuple-items":
        return {"cls": "Element", "kw": {"itemsKind": "tuple"}, "items": [{"cls": "String", "kw": {}}, leaf]}
    if shape == "property":
        key = rng.choice([{"name": "n", "source": "n"}, {"name": "n", "source": "n", "required": True}, {"name": "class_", "source": "class"}])
        return {"cls": "Element", "kw": {"hasProps": True}, "props": [[key, leaf]]}
    if shape == "additional-properties":
        return {"cls": "Element", "kw": {}, "addProps": leaf}
    return {"cls": "AnyOf", "kw": {}, "elements": [{"cls": "Not", "kw": {}, "elements": [leaf]}, {"cls": "Number", "kw": {}}]}


def element_nodes(dump, below_classes=False):
    """(path, node) for the element sub-dumps of a dump, outermost first; by default only those the repr shows (the
    walk does not go below a model class, which prints as its bare name).  The placeholder that stands beside a
    name-list dependency is not an element.  A node that occurs at several positions is listed at each of them."""
    found = []

    def walk(d, path):
        if isinstance(d, dict):
            if "cls" in d and isinstance(d.get("kw"), dict):
                found.append((path, d))
                if d["cls"] == "Object" and not below_classes:
                    return
            for k, v in d.items():
                if k != "kw":
                    walk(v, path + [k])
        elif isinstance(d, list):
            if len(d) == 2 and isinstance(d[0], dict) and "names" in d[0]:
                return
            for i, v in enumerate(d):
                walk(v, path + [i])
    walk(dump, [])
    return found


def _node_at(dump, path):
    for k in path:
        dump = dump[k]
    return dump


def sharing_groups(dump):
    """the positions at which one sub-dump object occurs more than once (JSON-able: lists of paths), outermost
    occurrences only - what lies inside a shared node is shared with it"""
    paths, seen = {}, {}

    def walk(d, path):
        if isinstance(d, dict):
            if "cls" in d and isinstance(d.get("kw"), dict):
                paths.setdefault(id(d), []).append(path)
                if id(d) in seen:
                    return
                seen[id(d)] = d
            for k, v in d.items():
                if k != "kw":
                    walk(v, path + [k])
        elif isinstance(d, list):
            if len(d) == 2 and isinstance(d[0], dict) and "names" in d[0]:
                return
            for i, v in enumerate(d):
                walk(v, path + [i])
    walk(dump, [])
    return [ps for ps in paths.values() if len(ps) > 1]


def relink(dump, groups):
    """make the sub-dumps at the paths of each group one object again (a case read back from a replay file)"""
    for group in groups or []:
        node = _node_at(dump, group[0])
        for path in group[1:]:
            _node_at(dump, path[:-1])[path[-1]] = node
    return dump


def build_sharing(dump):
    """the real tree of a dump in which one sub-dump object may stand at several positions: such a sub-dump is built once
    and the one real element is used at each of its positions (a sub-schema bound to a variable and used twice)"""
    count, post = {}, []

    def walk(d):
        if isinstance(d, dict):
            is_node = "cls" in d and isinstance(d.get("kw"), dict)
            if is_node:
                count[id(d)] = count.get(id(d), 0) + 1
                if count[id(d)] > 1:
                    return
            for k, v in d.items():
                if k != "kw":
                    walk(v)
            if is_node:
                post.append(d)
        elif isinstance(d, list):
            for v in d:
                walk(v)
    walk(dump)
    cache = {}
    for node in post:                       # inner nodes first
        if count[id(node)] > 1:
            cache[id(node)] = dsl.build(node, cache)
    return dsl.build(dump, cache)


def _is_prefix(a, b):
    return len(a) <= len(b) and b[:len(a)] == a


def _bump(stats, key):
    stats[key] = stats.get(key, 0) + 1


def _parent(path):
    """the position of the element a position belongs to"""
    path = list(path)
    while path and not isinstance(path[-1], str):
        path.pop()
    return tuple(path[:-1])


def _slot(path):
    """the keyword a position hangs under: the last name on its path"""
    for k in reversed(path):
        if isinstance(k, str):
            return k
    return "top"


def share_subtree(rng, dump, stats):
    """Use one sub-element of the tree at one or two further positions of the same tree: the sub-dump object itself is
    put there (in place of what the generator drew), so that `build_sharing` uses one real element at all of them.  The
    positions are ones the repr shows; the further positions are neither above nor inside the shared sub-element, so
    the tree stays acyclic.  Returns the number of positions the shared element now has (0: the tree has no two
    independent positions)."""
    nodes = [(p, n) for p, n in element_nodes(dump) if p]
    rng.shuffle(nodes)
    if rng.random() < 0.5:
        # as often as not a sub-element that has sub-elements of its own; a model class (which prints as its name) last
        nodes.sort(key=lambda pn: (pn[1]["cls"] == "Object", len(element_nodes(pn[1])) == 1))
    for spath, shared in nodes:
        placed = [spath]
        for _ in range(rng.choice([1, 1, 2])):
            targets = [p for p, n in element_nodes(dump)
                       if p and n is not shared and not any(_is_prefix(p, q) or _is_prefix(q, p) for q in placed)]
            if not targets:
                break
            tpath = rng.choice(targets)
            _node_at(dump, tpath[:-1])[tpath[-1]] = shared
            placed.append(tpath)
        if len(placed) < 2:
            continue
        _bump(stats, f"shared-occurrences:{len(placed)}")
        _bump(stats, "shared-class:" + shared["cls"])
        _bump(stats, "shared-size:" + ("leaf" if len(element_nodes(shared)) == 1 else "subtree"))
        for p in placed:
            _bump(stats, "shared-under:" + _slot(p))
        _bump(stats, "shared-relation:" + ("same-parent" if len({_parent(p) for p in placed}) == 1 else "different-branches"))
        return len(placed)
    return 0


def sharing_shape(rng, dg, stats):
    """a small tree in which one sub-element - any tree the generator draws - stands at two or three positions, one
    shape per way a DSL user factors a common sub-schema out into a variable"""
    s = unique_class_names(dg.dump(rng.choice([1, 1, 2])))
    other = {"cls": rng.choice(["String", "Integer", "Null", "Boolean"]), "kw": {}}
    shape = rng.choice(["itself-or-list-of", "two-properties", "tuple-and-additional-items", "different-branches", "contains-and-items",
                        "pattern-and-additional-properties", "dependency-and-property", "composition-twice", "nested-not"])
    _bump(stats, "shared-shape:" + shape)
    _bump(stats, "shared-class:" + s["cls"])
    comp = rng.choice(["AnyOf", "OneOf", "AllOf"])
    if shape == "itself-or-list-of":
        return {"cls": comp, "kw": {}, "elements": [s, {"cls": "Array", "kw": {"itemsKind": "single"}, "items": [s]}]}
    if shape == "two-properties":
        return {"cls": "Element", "kw": {"hasProps": True},
                "props": [[{"name": "start", "source": "start", "required": True}, s], [{"name": "class_", "source": "class"}, s],
                          [{"name": "other", "source": "other"}, other]][:rng.choice([2, 3])]}
    if shape == "tuple-and-additional-items":
        return {"cls": rng.choice(["Array", "Element"]), "kw": {"itemsKind": "tuple"}, "items": [s, s], "addItems": s}
    if shape == "different-branches":
        return {"cls": "AllOf", "kw": {}, "elements": [
            {"cls": "Not", "kw": {}, "elements": [{"cls": "Array", "kw": {"itemsKind": "single"}, "items": [s]}]},
            {"cls": "Element", "kw": {}, "contains": s, "propNames": {"cls": "String", "kw": {}}}]}
    if shape == "contains-and-items":
        return {"cls": "Array", "kw": {"itemsKind": "single"}, "items": [s], "contains": s}
    if shape == "pattern-and-additional-properties":
        return {"cls": "Element", "kw": {"hasPatProps": True}, "patProps": [[{"name": "^x-"}, s], [{"name": "^y-"}, other]], "addProps": s}
    if shape == "dependency-and-property":
        return {"cls": "Element", "kw": {"hasProps": True, "hasDeps": True}, "props": [[{"name": "a", "source": "a"}, s]],
                "deps": [[{"name": "a"}, s], [{"name": "b", "names": ["a"]}, {"cls": "Element", "kw": {}}]]}
    if shape == "composition-twice":
        return {"cls": comp, "kw": {}, "elements": [s, other, s]}
    return {"cls": "Not", "kw": {}, "elements": [{"cls": comp, "kw": {}, "elements": [{"cls": "Not", "kw": {}, "elements": [s]}, s]}]}


def namespace_for(el):
    from statham.serializers.orderer import get_object_classes
    ns = {name: getattr(_elements, name) for name in _elements.__all__} if hasattr(_elements, "__all__") else {}
    for name in ("AllOf", "AnyOf", "Array", "Boolean", "Element", "Integer", "Not", "Nothing", "Null", "Number", "Object", "OneOf", "String"):
        ns[name] = getattr(_elements, name)
    ns["Property"] = Property
    ns["NotPassed"] = NotPassed
    try:
        for cls in get_object_classes(el):
            ns.setdefault(cls.__name__, cls)
    except Exception:  # noqa: BLE001
        pass
    return ns


def expected_kwargs(el):
    """Which keywords must appear: exactly those whose value differs from the constructor default."""
    import inspect
    out = set()
    for p in list(inspect.signature(type(el).__init__).parameters.values())[1:]:
        if p.kind != p.KEYWORD_ONLY:
            continue
        v = getattr(el, p.name, None)
        if not (v == p.default):
            out.add(p.name)
    return out


def check_element(drv, el, dump, out, stats, what="element", used=False, unique=True, shared=None):
    try:
        text = repr(el)
    except Exception as exc:  # noqa: BLE001 - an element without a repr has no expression that rebuilds it
        out.note_case({"element": dump}, True)
        case = {"element": dump, "used_before": used}
        if shared:
            case["shared"] = shared
        out.failures.append({"case": case, "what": f"repr(element) raised {type(exc).__name__}: {exc}", "finding": None})
        return
    case = {"element": dump, "repr": text, "used_before": used}
    if shared:
        # positions of the tree that hold one and the same element object (see build_sharing)
        case["shared"] = shared
    out.note_case({"element": dump}, len(text) > 20)
    try:
        real = pyast.canon_expr_text(text)
    except (SyntaxError, ValueError, TypeError, pyast.Unsupported) as exc:  # TypeError: a literal that is no JSON value
        out.failures.append({"case": case, "what": f"repr is not an expression of the expected form: {exc}", "finding": None})
        return
    rep = drv.ask({"op": "repr", "elem": dump})
    model_back = None
    if "error" not in rep:
        out.traces_validated += 1
        if rep["expr"] != real:
            out.disagreements.append({"what": "repr expression", "impl": real, "model": rep["expr"], **case})
        elif unique and not isinstance(el, type):
            # the model's own evaluator (Py/EvalTree.lean, the subject of C18_round_trip_tree) run on the model's repr
            model_back = rep.get("evalBack")
    else:
        stats["driver-error"] = stats.get("driver-error", 0) + 1
    try:
        back = eval(text, namespace_for(el))  # noqa: S307 - repr produced by the library under test
    except Exception as exc:  # noqa: BLE001
        out.failures.append({"case": case, "what": f"eval(repr) raised {type(exc).__name__}: {exc}", "finding": None})
        return
    real_back = bool(back == el and el == back)
    if model_back is not None:
        stats["model-eval-compared"] = stats.get("model-eval-compared", 0) + 1
        if model_back != real_back:
            out.disagreements.append({"what": "eval(repr(x)) == x", "impl": real_back, "model": model_back, **case})
    if not real_back:
        out.failures.append({"case": case, "what": f"eval(repr(x)) != x: rebuilt {back!r}", "finding": None})
        return
    if isinstance(real, dict) and "call" in real and not isinstance(el, type):
        shown = {k for k, _ in real["kwargs"]}
        want = expected_kwargs(el)
        if shown != want:
            out.failures.append({"case": case, "what": f"keywords shown {sorted(shown)} differ from the non-default ones {sorted(want)}", "finding": None})
    stats[what + "-ok"] = stats.get(what + "-ok", 0) + 1


def check_property(drv, rng, dg, out, stats, sub=None, shared=None):
    if sub is None:
        sub = unique_class_names(dg.dump(2))
        if rng.random() < 0.25 and plant_magnitude(rng, sub, stats):
            stats["magnitude-under-property-wrapper"] = stats.get("magnitude-under-property-wrapper", 0) + 1
    el = build_sharing(relink(sub, shared)) if shared else dsl.build(sub)
    required = rng.random() < 0.5
    name = rng.choice(["a", "class_", "a_b", "x"])
    source = rng.choice([None, name, "other", "a b"])
    prop = Property(el, required=required, source=source)
    reused = False
    if source is None and rng.random() < 0.5:
        # one wrapper object reused under a second attribute name: the first binding fixed its source
        first = name + "_first"
        _elements.Element(properties={first: prop})
        source = first
        reused = True
    holder = _elements.Element(properties={name: prop})
    case = {"property": {"name": name, "required": required, "source": source, "reused": reused}, "element": sub}
    if shared:
        case["shared"] = shared
    out.note_case({"property": case["property"], "element": sub}, True)
    try:
        text = repr(prop)
    except Exception as exc:  # noqa: BLE001
        out.failures.append({"case": case, "what": f"repr(property) raised {type(exc).__name__}: {exc}", "finding": None})
        return
    case["repr"] = text
    try:
        real = pyast.canon_expr_text(text)
    except (SyntaxError, ValueError, TypeError, pyast.Unsupported) as exc:  # TypeError: a literal that is no JSON value
        out.failures.append({"case": case, "what": f"property repr is not an expression: {exc}", "finding": None})
        return
    key = {"name": name, "required": required}
    if prop.source is not None:
        key["source"] = prop.source
    rep = drv.ask({"op": "repr_property", "key": key, "elem": sub})
    if "error" not in rep:
        out.traces_validated += 1
        if rep["expr"] != real:
            out.disagreements.append({"what": "property repr", "impl": real, "model": rep["expr"], **case})
    try:
        back = eval(text, namespace_for(el))  # noqa: S307
    except Exception as exc:  # noqa: BLE001
        out.failures.append({"case": case, "what": f"eval(repr(property)) raised {type(exc).__name__}: {exc}", "finding": None})
        return
    # after binding under the same name the rebuilt wrapper must equal the original
    rebuilt_holder = _elements.Element(properties={name: back})
    if not (rebuilt_holder.properties[name] == prop and holder == rebuilt_holder):
        out.failures.append({"case": case, "what": f"rebuilt property {back!r} differs (source {back.source!r} vs {prop.source!r})", "finding": None})
        return
    stats["property-ok"] = stats.get("property-ok", 0) + 1


def unique_class_names(dump, counter=None):
    """model classes print as their bare name: give every class of a tree its own name"""
    counter = counter if counter is not None else [0]
    if isinstance(dump, dict):
        if dump.get("cls") == "Object":
            counter[0] += 1
            dump["name"] = f"M{counter[0]}"
        for v in dump.values():
            unique_class_names(v, counter)
    elif isinstance(dump, list):
        for v in dump:
            unique_class_names(v, counter)
    return dump


def run(ctx, scale=1.0):
    rng = random.Random(ctx["seed"] + 18)
    out = Outcome()
    out.rule = ("element trees built through the DSL from generated dumps (every element class, keyword subsets, JSON literals incl. falsy ones, "
                "nested elements, tuple/single items, renamed and required properties, dependencies of both forms) and property wrappers "
                "bound under a name; a third of the trees carry a hostile string (backslashes with both quote kinds, trailing backslash, control "
                "characters) in a pattern / description / format; a third carry a number from the magnitude ladder (integers at the word "
                "sizes, at 2**53, at the end of the float range and beyond it up to 3999 digits; floats at both ends of the double range and "
                "over all exponents) in a numeric / count keyword or in default / const / enum, directly or inside a list / dict literal, at "
                "any depth of the tree the repr shows; small trees around one such leaf (alone, array items, property, Not inside AnyOf, "
                "additionalProperties) and property wrappers over them; half of the trees are used for validation before their repr is taken; "
                "trees in which one element object stands at two or three positions (a sub-element of a random tree put at further positions "
                "that are neither above nor inside it; small shapes: itself or a list of it, two properties, tuple items and additionalItems, "
                "different branches, contains and items, pattern / additional properties, dependency and property, twice in one composition, "
                "under nested Not), plain, used before, and under a property wrapper; "
                "a case is one tree or wrapper; non-trivial = repr longer than 20 characters; distinct by SHA-256")
    stats = {}
    drv = core.Driver()
    try:
        dg = dsl.DumpGen(rng)
        for i in range(int(N_TREES[ctx["tier"]] * scale)):
            dump = dg.dump(3)
            if dump["cls"] == "Object":
                dump = dg.element(3)
            unique_class_names(dump)
            if i % 3 == 1 and make_hostile(rng, dump):
                stats["hostile-string"] = stats.get("hostile-string", 0) + 1
            if i % 3 == 2 and plant_magnitude(rng, dump, stats):
                stats["magnitude-in-random-tree"] = stats.get("magnitude-in-random-tree", 0) + 1
            el = dsl.build(dump)
            if i % 2 == 1:
                # a used element: validation must leave nothing behind that the rebuilt element lacks
                for v in rng.sample(USE_VALUES, 5) + [core.NP]:
                    core.real_call(el, v)
                stats["used-before-repr"] = stats.get("used-before-repr", 0) + 1
            check_element(drv, el, core.dump_elem(el), out, stats, used=(i % 2 == 1))
            if i % 4 == 0:
                check_property(drv, rng, dg, out, stats)
        # numeric keywords holding floats that have no exact binary form, and integers beyond 2**53, at the top and nested
        for x in (0.1, 0.01, 1.1, 0.5, 2.5, 1e-7, 3.0, 2 ** 60 + 1, -0.0):
            for cls in ("Number", "Integer", "Element"):
                for kwname in ("multipleOf", "minimum", "exclusiveMaximum", "default", "const"):
                    leaf = {"cls": cls, "kw": {kwname: core.enc_val(x)}}
                    for dump in (leaf, {"cls": "Array", "kw": {"itemsKind": "single"}, "items": [leaf]},
                                 {"cls": "Element", "kw": {"hasProps": True}, "props": [[{"name": "n", "source": "n"}, leaf]]}):
                        try:
                            el = dsl.build(dump)
                        except Exception:  # noqa: BLE001
                            continue
                        check_element(drv, el, core.dump_elem(el), out, stats, what="numeric-literal")
        # JSON numbers of every magnitude (see magnitude_number) in every keyword that takes one, in small trees and under wrappers
        for i in range(int(N_MAGNITUDE[ctx["tier"]] * scale)):
            dump = magnitude_tree(rng, stats)
            if i % 4 == 3:
                check_property(drv, rng, dg, out, stats, sub=dump)
                stats["magnitude-under-property-wrapper"] = stats.get("magnitude-under-property-wrapper", 0) + 1
                continue
            el = dsl.build(dump)
            if i % 4 == 1:
                for v in rng.sample(USE_VALUES, 3) + [core.NP]:
                    core.real_call(el, v)
            check_element(drv, el, core.dump_elem(el), out, stats, what="magnitude-literal", used=(i % 4 == 1))
        # one element object at more than one position of one tree (a sub-schema bound to a variable and used twice):
        # in random trees, in the small shapes of sharing_shape, and under property wrappers
        for i in range(int((N_SHARED[ctx["tier"]] + N_SHARED_SHAPES[ctx["tier"]]) * scale)):
            if i % 4 == 3:
                linked = sharing_shape(rng, dg, stats)
            else:
                for _ in range(6):
                    linked = dg.dump(rng.choice([2, 3, 3]))
                    if linked["cls"] == "Object":
                        linked = dg.element(3)
                    unique_class_names(linked)
                    if share_subtree(rng, linked, stats):
                        break
                else:
                    _bump(stats, "shared-none:no-two-independent-positions")
                    continue
            try:
                el = build_sharing(linked)
            except Exception as exc:  # noqa: BLE001 - the constructors refuse nothing the generator draws
                out.failures.append({"case": {"element": linked, "shared": sharing_groups(linked)},
                                     "what": f"building the tree raised {type(exc).__name__}: {exc}", "finding": None})
                continue
            dump = core.dump_elem(el)
            groups = sharing_groups(linked)
            if dump != linked:
                # the paths of the groups are positions of the generator's dump: they must be positions of the canonical one too
                _bump(stats, "shared-none:dump-not-canonical")
                continue
            used = i % 3 == 1
            if used:
                for v in rng.sample(USE_VALUES, 4) + [core.NP]:
                    core.real_call(el, v)
            if i % 5 == 4:
                check_property(drv, rng, dg, out, stats, sub=dump, shared=groups)
                _bump(stats, "shared-under-property-wrapper")
            else:
                check_element(drv, el, dump, out, stats, what="shared-subelement", used=used, shared=groups)
            _bump(stats, "shared-trees")
        # one element per class with each single keyword at a falsy non-default value
        for dump in (
            {"cls": "Element", "kw": {"default": None}}, {"cls": "Element", "kw": {"default": False}}, {"cls": "Element", "kw": {"const": {"i": "0"}}},
            {"cls": "Element", "kw": {"enum": []}}, {"cls": "Element", "kw": {"required": []}}, {"cls": "Element", "kw": {"hasProps": True}},
            {"cls": "Element", "kw": {"itemsKind": "tuple"}}, {"cls": "Element", "kw": {"addItemsB": False}}, {"cls": "Element", "kw": {"addPropsB": False}},
            {"cls": "Element", "kw": {"minItems": {"i": "0"}}}, {"cls": "Element", "kw": {"description": ""}}, {"cls": "Element", "kw": {"pattern": ""}},
            {"cls": "Array", "kw": {"itemsKind": "single", "addItemsB": False}, "items": [{"cls": "String", "kw": {}}]},
            {"cls": "Array", "kw": {"itemsKind": "single"}, "items": [{"cls": "String", "kw": {}}], "addItems": {"cls": "Integer", "kw": {}}},
            {"cls": "Array", "kw": {"itemsKind": "tuple"}}, {"cls": "Not", "kw": {"default": {"i": "0"}}, "elements": [{"cls": "Nothing", "kw": {}}]},
            {"cls": "AnyOf", "kw": {"default": ""}, "elements": [{"cls": "Null", "kw": {}}]},
        ):
            el = dsl.build(dump)
            check_element(drv, el, core.dump_elem(el), out, stats)
    finally:
        drv.close()
    out.stats = stats
    return out


def search(ctx, reason):
    sub = dict(ctx)
    sub["seed"] = ctx["seed"] + 198491317
    found = run(sub, scale=2.0 if ctx["tier"] == "quick" else 1.0)
    return found.failures[0] if found.failures else None


def _replay_case(case):
    out, stats = Outcome(), {}
    drv = core.Driver()
    try:
        if case.get("shared"):
            try:
                el = build_sharing(relink(case["element"], case["shared"]))
            except Exception as exc:  # noqa: BLE001
                out.failures.append({"case": case, "what": f"building the tree raised {type(exc).__name__}: {exc}", "finding": None})
                return out
        else:
            el = dsl.build(case["element"])
        if "property" in case:
            p = case["property"]
            if p.get("reused"):
                prop = Property(el, required=p["required"])
                _elements.Element(properties={p["source"]: prop})
            else:
                prop = Property(el, required=p["required"], source=p["source"])
            holder = _elements.Element(properties={p["name"]: prop})
            try:
                back = eval(repr(prop), namespace_for(el))  # noqa: S307
            except Exception as exc:  # noqa: BLE001
                out.failures.append({"case": case, "what": f"repr(property) / its evaluation raised {type(exc).__name__}: {exc}", "finding": None})
                return out
            rebuilt = _elements.Element(properties={p["name"]: back})
            if not (rebuilt.properties[p["name"]] == prop and holder == rebuilt):
                out.failures.append({"case": case, "what": "rebuilt property differs", "finding": None})
        else:
            if case.get("used_before"):
                for v in USE_VALUES + [core.NP]:
                    core.real_call(el, v)
            check_element(drv, el, core.dump_elem(el) if case.get("shared") else case["element"], out, stats,
                          used=bool(case.get("used_before")), shared=case.get("shared"))
    finally:
        drv.close()
    return out


def replay_finding(finding):
    return bool(_replay_case(finding["witness"]).failures)


def replay(payload):
    case = payload.get("failure", {}).get("case")
    return True if not case else not _replay_case(case).failures
