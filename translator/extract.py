#!/usr/bin/env python3
"""Translator: /repo/statham/**/*.py  ->  /verif/lean/StathamModel/Gen/*.lean

Reads the library source with `ast` only (never imports it) and regenerates the Lean
tables and predicates the hand-written model is built on.  Fail-closed: any construct
outside the shapes recognised here raises TranslatorError, which the checks treat as a
broken proof obligation.

  Gen/Validators.lean  validator table (types, keywords) + the compare-and-raise
                       validators as Lean predicates
  Gen/Signatures.lean  constructor signatures (parameter order, kind, default)
  Gen/Constants.lean   keyword sets, type maps, dispatch order, orderer paths, literals
  Gen/Sites.lean       inventory of iterations over unordered collections and of writes
                       to objects that outlive a call
  fingerprints.json    normalised-AST hash per function (escalation only)
"""
import ast
import hashlib
import json
import os
import sys

REPO = os.environ.get("STATHAM_REPO", "/repo")
OUT = os.environ.get(
    "STATHAM_GEN_OUT",
    os.path.join(os.path.dirname(os.path.abspath(__file__)), "..", "lean", "StathamModel", "Gen"),
)


class TranslatorError(Exception):
    pass


def src(path):
    with open(os.path.join(REPO, path), encoding="utf8") as fh:
        return fh.read()


def parse(path):
    return ast.parse(src(path), filename=path)


def lean_str(s):
    out = ['"']
    for ch in s:
        if ch == '"':
            out.append('\\"')
        elif ch == "\\":
            out.append("\\\\")
        elif ch == "\n":
            out.append("\\n")
        elif ch == "\t":
            out.append("\\t")
        elif ch == "\r":
            out.append("\\r")
        elif ord(ch) < 32 or ord(ch) == 127:
            out.append("\\x%02x" % ord(ch))
        else:
            out.append(ch)
    out.append('"')
    return "".join(out)


def lean_list(items):
    return "[" + ", ".join(items) + "]"


def find_class(tree, name):
    for node in ast.walk(tree):
        if isinstance(node, ast.ClassDef) and node.name == name:
            return node
    raise TranslatorError(f"class {name} not found")


def find_func(node, name):
    for sub in node.body:
        if isinstance(sub, (ast.FunctionDef,)) and sub.name == name:
            return sub
    raise TranslatorError(f"function {name} not found in {getattr(node, 'name', '<module>')}")


def find_assign(node, name):
    for sub in node.body:
        if isinstance(sub, ast.Assign):
            for tgt in sub.targets:
                if isinstance(tgt, ast.Name) and tgt.id == name:
                    return sub.value
        if isinstance(sub, ast.AnnAssign) and isinstance(sub.target, ast.Name) and sub.target.id == name:
            if sub.value is not None:
                return sub.value
    return None


# ------------------------------------------------------------------ validators

PYTYPES = {"list": ".list", "dict": ".dict", "str": ".str", "int": ".int", "float": ".float", "bool": ".bool"}

CMP = {
    # value <op> param  -> Lean over (x p : Num)
    ast.Lt: "Num.lt x p",
    ast.Gt: "Num.lt p x",
    ast.LtE: "Num.le x p",
    ast.GtE: "Num.le p x",
}


def tuple_of_names(node):
    if not isinstance(node, ast.Tuple):
        raise TranslatorError("expected a tuple literal: " + ast.dump(node))
    out = []
    for elt in node.elts:
        if isinstance(elt, ast.Name):
            out.append(elt.id)
        elif isinstance(elt, ast.Call) and isinstance(elt.func, ast.Name) and elt.func.id == "type":
            out.append("NoneType")
        else:
            raise TranslatorError("unrecognised type in types tuple: " + ast.dump(elt))
    return out


def tuple_of_strs(node):
    if isinstance(node, ast.Call) and isinstance(node.func, ast.Name) and node.func.id == "tuple" and not node.args:
        return []
    if not isinstance(node, ast.Tuple):
        raise TranslatorError("expected a tuple of strings: " + ast.dump(node))
    out = []
    for elt in node.elts:
        if not (isinstance(elt, ast.Constant) and isinstance(elt.value, str)):
            raise TranslatorError("expected string constant: " + ast.dump(elt))
        out.append(elt.value)
    return out


def compare_shape(func, keyword):
    """Recognise   def _validate(self, value): if <len(value)|value> <op> self.params[kw]: raise ValidationError
    Returns (subject_is_len, lean_expr) or None."""
    body = [s for s in func.body if not (isinstance(s, ast.Expr) and isinstance(s.value, ast.Constant))]
    if len(body) != 1 or not isinstance(body[0], ast.If):
        return None
    stmt = body[0]
    if stmt.orelse or len(stmt.body) != 1 or not isinstance(stmt.body[0], ast.Raise):
        return None
    exc = stmt.body[0].exc
    if not (isinstance(exc, ast.Name) and exc.id == "ValidationError"):
        return None
    test = stmt.test
    if not (isinstance(test, ast.Compare) and len(test.ops) == 1 and len(test.comparators) == 1):
        return None
    left, right = test.left, test.comparators[0]
    argname = func.args.args[1].arg
    if isinstance(left, ast.Name) and left.id == argname:
        is_len = False
    elif (
        isinstance(left, ast.Call)
        and isinstance(left.func, ast.Name)
        and left.func.id == "len"
        and len(left.args) == 1
        and isinstance(left.args[0], ast.Name)
        and left.args[0].id == argname
    ):
        is_len = True
    else:
        return None
    if not (
        isinstance(right, ast.Subscript)
        and isinstance(right.value, ast.Attribute)
        and right.value.attr == "params"
        and isinstance(right.value.value, ast.Name)
        and right.value.value.id == "self"
        and isinstance(right.slice, ast.Constant)
        and right.slice.value == keyword
    ):
        return None
    op = type(test.ops[0])
    if op not in CMP:
        return None
    return is_len, CMP[op]


COMPARE_VALIDATORS = [
    "MinItems", "MaxItems", "Minimum", "Maximum", "ExclusiveMinimum", "ExclusiveMaximum",
    "MinProperties", "MaxProperties", "MinLength", "MaxLength",
]

VALIDATION_FILES = [
    "statham/schema/validation/base.py",
    "statham/schema/validation/array.py",
    "statham/schema/validation/numeric.py",
    "statham/schema/validation/object.py",
    "statham/schema/validation/string.py",
]


def gen_validators():
    infos = []
    preds = {}
    for path in VALIDATION_FILES:
        tree = parse(path)
        for node in tree.body:
            if not isinstance(node, ast.ClassDef):
                continue
            bases = [b.id for b in node.bases if isinstance(b, ast.Name)]
            if "Validator" not in bases:
                continue
            types = find_assign(node, "types")
            keywords = find_assign(node, "keywords")
            tnames = None if types is None or (isinstance(types, ast.Constant) and types.value is None) else tuple_of_names(types)
            kws = [] if keywords is None else tuple_of_strs(keywords)
            infos.append((node.name, tnames, kws))
            if node.name in COMPARE_VALIDATORS:
                func = find_func(node, "_validate")
                if len(kws) != 1:
                    raise TranslatorError(f"{node.name}: expected exactly one keyword")
                shape = compare_shape(func, kws[0])
                if shape is None:
                    raise TranslatorError(f"{node.name}._validate is no longer of the compare-and-raise shape")
                preds[node.name] = shape
    missing = [n for n in COMPARE_VALIDATORS if n not in preds]
    if missing:
        raise TranslatorError(f"validators not found: {missing}")
    lines = [
        "/- GENERATED by /verif/translator/extract.py from /repo/statham/schema/validation/*.py — do not edit. -/",
        "import StathamModel.Json",
        "namespace Statham.Gen",
        "",
        "inductive PyType where",
        "  | list | dict | str | int | float | bool | none",
        "deriving DecidableEq, Repr",
        "",
        "structure VInfo where",
        "  name : String",
        "  types : Option (List PyType)",
        "  keywords : List String",
        "deriving DecidableEq, Repr",
        "",
        "/-- `subject` is `len(value)` (`true`) or `value` (`false`); `fails subject param` is the raise condition. -/",
    ]
    for name in COMPARE_VALIDATORS:
        is_len, expr = preds[name]
        lines.append(f"def {name}.fails (x p : Num) : Bool := {expr}")
        lines.append(f"def {name}.subjectIsLen : Bool := {'true' if is_len else 'false'}")
    lines.append("")
    lines.append("def validatorTable : List VInfo := [")
    rows = []
    for name, tnames, kws in sorted(infos):
        if tnames is None:
            t = "none"
        else:
            for tn in tnames:
                if tn not in PYTYPES and tn != "NoneType":
                    raise TranslatorError(f"{name}: unknown type {tn}")
            t = "some " + lean_list([PYTYPES.get(tn, ".none") for tn in tnames])
        rows.append(f"  ⟨{lean_str(name)}, {t}, {lean_list([lean_str(k) for k in kws])}⟩")
    lines.append(",\n".join(rows))
    lines.append("]")
    lines.append("")
    lines.append("end Statham.Gen")
    return "\n".join(lines) + "\n"


# ------------------------------------------------------------------ signatures

def default_repr(node):
    if node is None:
        return ".required"
    if isinstance(node, ast.Call) and isinstance(node.func, ast.Name) and node.func.id == "NotPassed" and not node.args:
        return ".notPassed"
    if isinstance(node, ast.Constant):
        if node.value is True:
            return ".true_"
        if node.value is False:
            return ".false_"
        if node.value is None:
            return ".none_"
    raise TranslatorError("unrecognised parameter default: " + ast.dump(node))


def signature(func, skip):
    """Parameters of a function after the first `skip` positional ones."""
    a = func.args
    params = []
    pos = a.posonlyargs + a.args
    defaults = [None] * (len(pos) - len(a.defaults)) + list(a.defaults)
    for arg, dflt in list(zip(pos, defaults))[skip:]:
        params.append((arg.arg, ".positional", default_repr(dflt)))
    if a.vararg:
        params.append((a.vararg.arg, ".varPositional", ".required"))
    for arg, dflt in zip(a.kwonlyargs, a.kw_defaults):
        params.append((arg.arg, ".keywordOnly", default_repr(dflt)))
    if a.kwarg:
        raise TranslatorError(f"{func.name}: **kwargs not modelled")
    return params


SIGNATURES = [
    # lean name, file, class, function, positional params to skip
    ("sigElement", "statham/schema/elements/base.py", "Element", "__init__", 1),
    ("sigNothing", "statham/schema/elements/base.py", "Nothing", "__init__", 1),
    ("sigArray", "statham/schema/elements/array.py", "Array", "__init__", 1),
    ("sigBoolean", "statham/schema/elements/boolean.py", "Boolean", "__init__", 1),
    ("sigNull", "statham/schema/elements/null.py", "Null", "__init__", 1),
    ("sigNumeric", "statham/schema/elements/numeric.py", "NumericElement", "__init__", 1),
    ("sigString", "statham/schema/elements/string.py", "String", "__init__", 1),
    ("sigNot", "statham/schema/elements/composition.py", "Not", "__init__", 1),
    ("sigComposition", "statham/schema/elements/composition.py", "CompositionElement", "__init__", 1),
    ("sigObjectMeta", "statham/schema/elements/meta.py", "ObjectMeta", "__new__", 4),
    ("sigProperty", "statham/schema/property.py", "_Property", "__init__", 1),
]


def gen_signatures():
    lines = [
        "/- GENERATED by /verif/translator/extract.py from the constructors in /repo/statham/schema — do not edit. -/",
        "namespace Statham.Gen",
        "",
        "inductive ParamKind where",
        "  | positional | varPositional | keywordOnly",
        "deriving DecidableEq, Repr",
        "",
        "inductive PDefault where",
        "  | required | notPassed | true_ | false_ | none_",
        "deriving DecidableEq, Repr",
        "",
        "structure Param where",
        "  name : String",
        "  kind : ParamKind",
        "  default : PDefault",
        "deriving DecidableEq, Repr",
        "",
    ]
    for lean_name, path, cls, fn, skip in SIGNATURES:
        func = find_func(find_class(parse(path), cls), fn)
        params = signature(func, skip)
        rows = [f"  ⟨{lean_str(n)}, {k}, {d}⟩" for n, k, d in params]
        lines.append(f"def {lean_name} : List Param := [")
        lines.append(",\n".join(rows))
        lines.append("]")
        lines.append("")
    # which concrete classes inherit which signature (checked: no own __init__)
    for cls, path in (("Integer", "statham/schema/elements/numeric.py"), ("Number", "statham/schema/elements/numeric.py"),
                      ("AnyOf", "statham/schema/elements/composition.py"), ("OneOf", "statham/schema/elements/composition.py"),
                      ("AllOf", "statham/schema/elements/composition.py")):
        node = find_class(parse(path), cls)
        if any(isinstance(s, ast.FunctionDef) and s.name == "__init__" for s in node.body):
            raise TranslatorError(f"{cls} now defines its own __init__")
    lines.append("def Param.names (l : List Param) : List String := l.map (·.name)")
    lines.append("")
    lines.append("end Statham.Gen")
    return "\n".join(lines) + "\n"


# ------------------------------------------------------------------ constants

def const_strs(node, what):
    if isinstance(node, (ast.Tuple, ast.List, ast.Set)):
        out = []
        for elt in node.elts:
            if not (isinstance(elt, ast.Constant) and isinstance(elt.value, str)):
                raise TranslatorError(f"{what}: expected string constants")
            out.append(elt.value)
        return out
    raise TranslatorError(f"{what}: expected a literal collection, got {ast.dump(node)}")


def module_assign(path, name):
    tree = parse(path)
    val = find_assign(tree, name)
    if val is None:
        raise TranslatorError(f"{path}: {name} not found")
    return val


def find_module_func(path, name):
    tree = parse(path)
    for node in tree.body:
        if isinstance(node, ast.FunctionDef) and node.name == name:
            return node
    raise TranslatorError(f"{path}: def {name} not found")


def gen_constants():
    comp = module_assign("statham/schema/constants.py", "COMPOSITION_KEYWORDS")
    comp_ordered = isinstance(comp, (ast.Tuple, ast.List))
    comp_kw = const_strs(comp, "COMPOSITION_KEYWORDS")
    unsup = sorted(const_strs(module_assign("statham/schema/constants.py", "UNSUPPORTED_SCHEMA_KEYWORDS"), "UNSUPPORTED_SCHEMA_KEYWORDS"))

    tm = module_assign("statham/schema/parser.py", "_TYPE_MAPPING")
    if not isinstance(tm, ast.Dict):
        raise TranslatorError("parser._TYPE_MAPPING is not a dict literal")
    parser_types = []
    for k, v in zip(tm.keys, tm.values):
        if not (isinstance(k, ast.Constant) and isinstance(v, ast.Name)):
            raise TranslatorError("parser._TYPE_MAPPING: unexpected entry")
        parser_types.append((k.value, v.id))

    jm = module_assign("statham/serializers/json.py", "_TYPE_MAPPING")
    if not isinstance(jm, ast.Dict):
        raise TranslatorError("json._TYPE_MAPPING is not a dict literal")
    json_types = []
    for k, v in zip(jm.keys, jm.values):
        if not (isinstance(k, ast.Name) and isinstance(v, ast.Constant)):
            raise TranslatorError("json._TYPE_MAPPING: unexpected entry")
        json_types.append((k.id, v.value))

    # parse_element: literal keys and sub-parser dispatch
    pe = find_module_func("statham/schema/parser.py", "parse_element")
    literal_keys = None
    dispatch = None
    for node in ast.walk(pe):
        if isinstance(node, ast.For) and isinstance(node.iter, ast.Tuple):
            elts = node.iter.elts
            if elts and all(isinstance(e, ast.Constant) and isinstance(e.value, str) for e in elts):
                literal_keys = [e.value for e in elts]
            elif elts and all(isinstance(e, ast.Tuple) and len(e.elts) == 2 for e in elts):
                dispatch = []
                for e in elts:
                    k, f = e.elts
                    if not (isinstance(k, ast.Constant) and isinstance(f, ast.Name)):
                        raise TranslatorError("parse_element dispatch: unexpected entry")
                    dispatch.append((k.value, f.id))
    if literal_keys is None or dispatch is None:
        raise TranslatorError("parse_element: literal-key loop or dispatch loop not found")

    # _parse_object class-argument list
    po = find_module_func("statham/schema/parser.py", "_parse_object")
    class_args = None
    for node in ast.walk(po):
        if isinstance(node, ast.For) and isinstance(node.iter, ast.List):
            class_args = const_strs(node.iter, "_parse_object class args")
    if class_args is None:
        raise TranslatorError("_parse_object: class-argument loop not found")

    # _parse_composition: how the list-valued composition keywords are iterated
    pc = find_module_func("statham/schema/parser.py", "_parse_composition")
    comp_iter = None
    for node in pc.body:
        if isinstance(node, ast.For):
            comp_iter = ast.unparse(node.iter)
    if comp_iter is None:
        raise TranslatorError("_parse_composition: loop over composition keywords not found")

    # orderer paths
    gc = find_module_func("statham/serializers/orderer.py", "get_children")
    paths = None
    for node in gc.body:
        if isinstance(node, ast.Assign) and isinstance(node.targets[0], ast.Name) and node.targets[0].id == "paths":
            paths = const_strs(node.value, "orderer paths")
    if paths is None:
        raise TranslatorError("get_children: paths list not found")

    # python serializer import candidates
    gsi = find_module_func("statham/serializers/python.py", "_get_standard_imports")
    typing_candidates = None
    for node in ast.walk(gsi):
        if isinstance(node, ast.comprehension) and isinstance(node.iter, ast.Tuple):
            typing_candidates = const_strs(node.iter, "typing import candidates")
    if typing_candidates is None:
        raise TranslatorError("_get_standard_imports: candidates not found")

    # attribute-name literals
    pan = find_module_func("statham/schema/parser.py", "_parse_attribute_name")
    keep_chars = None
    for node in ast.walk(pan):
        if isinstance(node, ast.Compare) and isinstance(node.ops[0], ast.In) and isinstance(node.comparators[0], ast.Tuple):
            keep_chars = const_strs(node.comparators[0], "_char_map kept characters")
    if keep_chars is None:
        raise TranslatorError("_parse_attribute_name: kept-character tuple not found")

    # reserved names: a `+`-chain of `dir(object)`, `list(keyword.kwlist)` and lists of string literals, evaluated in
    # the target interpreter
    rp = module_assign("statham/schema/elements/meta.py", "RESERVED_PROPERTIES")
    import keyword as _kw

    def reserved_of(node):
        if isinstance(node, ast.BinOp) and isinstance(node.op, ast.Add):
            return reserved_of(node.left) + reserved_of(node.right)
        src = ast.unparse(node)
        if src == "dir(object)":
            return dir(object)
        if src == "list(keyword.kwlist)":
            return list(_kw.kwlist)
        if isinstance(node, ast.List) and all(isinstance(e, ast.Constant) and isinstance(e.value, str) for e in node.elts):
            return [e.value for e in node.elts]
        raise TranslatorError("RESERVED_PROPERTIES has an unrecognised definition: " + ast.unparse(rp))
    reserved = reserved_of(rp)

    def pairs(l):
        return lean_list([f"({lean_str(a)}, {lean_str(b)})" for a, b in l])

    def strs(l):
        return lean_list([lean_str(s) for s in l])

    lines = [
        "/- GENERATED by /verif/translator/extract.py — do not edit. -/",
        "namespace Statham.Gen",
        "",
        f"def compositionKeywords : List String := {strs(comp_kw)}",
        f"/-- is `COMPOSITION_KEYWORDS` an ordered literal (tuple/list) -/",
        f"def compositionKeywordsOrdered : Bool := {'true' if comp_ordered else 'false'}",
        f"/-- the iterable of the loop in `_parse_composition` that parses the list-valued keywords -/",
        f"def compositionLoopIter : String := {lean_str(comp_iter)}",
        f"def unsupportedKeywords : List String := {strs(unsup)}",
        f"def parserTypeMapping : List (String × String) := {pairs(parser_types)}",
        f"def jsonTypeMapping : List (String × String) := {pairs(json_types)}",
        f"def literalKeys : List String := {strs(literal_keys)}",
        f"def subParsers : List (String × String) := {pairs(dispatch)}",
        f"def objectClassArgs : List String := {strs(class_args)}",
        f"def ordererPaths : List String := {strs(paths)}",
        f"def typingImportCandidates : List String := {strs(typing_candidates)}",
        f"def attrNameKeptChars : List String := {strs(keep_chars)}",
        f"def reservedProperties : List String := {strs(reserved)}",
        "",
        "end Statham.Gen",
    ]
    return "\n".join(lines) + "\n"


# ------------------------------------------------------------------ sites

SET_CALLS = {"set", "frozenset", "_all_subclasses"}
SITE_FILES = [
    "statham/schema/parser.py",
    "statham/schema/constants.py",
    "statham/schema/helpers.py",
    "statham/schema/property.py",
    "statham/schema/elements/base.py",
    "statham/schema/elements/meta.py",
    "statham/schema/elements/object.py",
    "statham/schema/elements/properties.py",
    "statham/schema/elements/items.py",
    "statham/schema/elements/composition.py",
    "statham/schema/elements/array.py",
    "statham/schema/elements/numeric.py",
    "statham/schema/validation/__init__.py",
    "statham/schema/validation/base.py",
    "statham/schema/validation/array.py",
    "statham/schema/validation/numeric.py",
    "statham/schema/validation/object.py",
    "statham/schema/validation/string.py",
    "statham/schema/validation/format.py",
    "statham/serializers/python.py",
    "statham/serializers/json.py",
    "statham/serializers/orderer.py",
    "statham/titles.py",
    "statham/__main__.py",
]


def module_set_names(tree):
    """Module-level names bound to a set/frozenset literal or call."""
    names = set()
    for node in tree.body:
        if isinstance(node, ast.Assign) and len(node.targets) == 1 and isinstance(node.targets[0], ast.Name):
            if is_setlike(node.value, set()):
                names.add(node.targets[0].id)
    return names


def is_setlike(node, setnames):
    if isinstance(node, (ast.Set, ast.SetComp)):
        return True
    if isinstance(node, ast.Name) and node.id in setnames:
        return True
    if isinstance(node, ast.Call):
        f = node.func
        if isinstance(f, ast.Name) and f.id in SET_CALLS:
            return True
        if isinstance(f, ast.Attribute) and f.attr in ("union", "intersection", "difference", "symmetric_difference"):
            return is_setlike(f.value, setnames) or (isinstance(f.value, ast.Name) and f.value.id in ("set", "frozenset"))
        if isinstance(f, ast.Attribute) and f.attr in ("keys", "values", "items"):
            return False
    if isinstance(node, ast.BinOp) and isinstance(node.op, (ast.BitOr, ast.BitAnd, ast.Sub, ast.BitXor)):
        # set algebra on dict views (`a.keys() - b.keys()`) yields a set as well
        return any(is_setlike(x, setnames) or _is_dict_view(x) for x in (node.left, node.right))
    return False


def _is_dict_view(node):
    return (isinstance(node, ast.Call) and isinstance(node.func, ast.Attribute) and node.func.attr in ("keys", "items")
            and not node.args)


class SiteScanner(ast.NodeVisitor):
    def __init__(self, path, setnames):
        self.path = path
        self.setnames = setnames
        self.stack = []
        self.iter_sites = []
        self.write_sites = []
        self.origins = []

    def qual(self):
        return ".".join(self.stack) or "<module>"

    def visit_ClassDef(self, node):
        self.stack.append(node.name)
        self.generic_visit(node)
        self.stack.pop()

    def visit_FunctionDef(self, node):
        self.stack.append(node.name)
        self.origins.append({})
        # local names bound to an unordered collection anywhere in this function
        outer = self.setnames
        local = set(outer)
        for sub in ast.walk(node):
            if isinstance(sub, ast.Assign) and len(sub.targets) == 1 and isinstance(sub.targets[0], ast.Name) \
                    and is_setlike(sub.value, local):
                local.add(sub.targets[0].id)
        self.setnames = local
        self.generic_visit(node)
        self.setnames = outer
        self.origins.pop()
        self.stack.pop()

    visit_AsyncFunctionDef = visit_FunctionDef

    def _iter(self, it, consumer):
        if is_setlike(it, self.setnames):
            self.iter_sites.append((self.path, self.qual(), ast.unparse(it), consumer))

    def visit_For(self, node):
        self._iter(node.iter, "for")
        self.generic_visit(node)

    def _comp(self, node, kind):
        for gen in node.generators:
            self._iter(gen.iter, kind)
        self.generic_visit(node)

    def visit_ListComp(self, node):
        self._comp(node, "listcomp")

    def visit_GeneratorExp(self, node):
        self._comp(node, "genexp")

    def visit_DictComp(self, node):
        self._comp(node, "dictcomp")

    def visit_SetComp(self, node):
        self._comp(node, "setcomp")

    def visit_Call(self, node):
        f = node.func
        if isinstance(f, ast.Name) and f.id in ("list", "tuple", "map", "filter", "enumerate", "zip", "next", "iter"):
            for arg in node.args:
                self._iter(arg, f.id)
        if isinstance(f, ast.Attribute) and f.attr == "join":
            for arg in node.args:
                self._iter(arg, "join")
        for arg in node.args:
            if isinstance(arg, ast.Starred):
                self._iter(arg.value, "star")
        # mutator-method calls on attributes of self / cls / parameters
        if isinstance(f, ast.Attribute) and f.attr in (
            "append", "extend", "insert", "pop", "remove", "clear", "update", "setdefault", "sort", "reverse",
            "add", "discard", "__setitem__", "__delitem__", "popitem",
        ):
            self.write_sites.append((self.path, self.qual(), "call:" + f.attr, ast.unparse(f.value)))
        if isinstance(f, ast.Name) and f.id in ("setattr", "delattr"):
            self.write_sites.append((self.path, self.qual(), f.id, ast.unparse(node.args[0]) if node.args else ""))
        self.generic_visit(node)

    def _store(self, tgt, kind):
        if isinstance(tgt, (ast.Attribute, ast.Subscript)):
            self.write_sites.append((self.path, self.qual(), kind, ast.unparse(tgt)))
        elif isinstance(tgt, (ast.Tuple, ast.List)):
            for e in tgt.elts:
                self._store(e, kind)

    def visit_Assign(self, node):
        for tgt in node.targets:
            self._store(tgt, "assign")
            if isinstance(tgt, ast.Name) and self.origins:
                self.origins[-1][tgt.id] = ast.unparse(node.value)
        self.generic_visit(node)

    def visit_AnnAssign(self, node):
        if node.value is not None:
            self._store(node.target, "assign")
        self.generic_visit(node)

    def visit_AugAssign(self, node):
        if isinstance(node.target, ast.Name):
            # record where the local name came from: `x = list(...)` (fresh) vs `x = obj.attr` (alias)
            origin = self.origins[-1].get(node.target.id, "?") if self.origins else "?"
            self.write_sites.append((self.path, self.qual(), "augassign-name", f"{node.target.id} := {origin}"))
        else:
            self._store(node.target, "augassign")
        self.generic_visit(node)

    def visit_Delete(self, node):
        for tgt in node.targets:
            self._store(tgt, "delete")
        self.generic_visit(node)

    def visit_Global(self, node):
        self.write_sites.append((self.path, self.qual(), "global", ",".join(node.names)))

    def visit_Nonlocal(self, node):
        self.write_sites.append((self.path, self.qual(), "nonlocal", ",".join(node.names)))


def decorators_and_caches(tree, path):
    out = []
    for node in ast.walk(tree):
        if isinstance(node, (ast.FunctionDef, ast.ClassDef)):
            for dec in node.decorator_list:
                text = ast.unparse(dec)
                if any(tok in text for tok in ("cache", "lru", "memo", "singledispatch")):
                    out.append((path, node.name, "decorator", text))
    return out


def gen_sites():
    iter_sites, write_sites = [], []
    for path in SITE_FILES:
        tree = parse(path)
        sc = SiteScanner(path, module_set_names(tree))
        sc.visit(tree)
        iter_sites += sc.iter_sites
        write_sites += sc.write_sites
        write_sites += decorators_and_caches(tree, path)
    # new python files in the package that the scanner does not know about
    known = set(SITE_FILES) | {
        "statham/__init__.py", "statham/schema/__init__.py", "statham/schema/elements/__init__.py",
        "statham/schema/exceptions.py", "statham/serializers/__init__.py",
        "statham/schema/elements/string.py", "statham/schema/elements/null.py", "statham/schema/elements/boolean.py",
    }
    extra = []
    for root, _dirs, files in os.walk(os.path.join(REPO, "statham")):
        for fn in files:
            if fn.endswith(".py"):
                rel = os.path.relpath(os.path.join(root, fn), REPO)
                if rel not in known:
                    extra.append(rel)
    lines = [
        "/- GENERATED by /verif/translator/extract.py — do not edit. -/",
        "namespace Statham.Gen",
        "",
        "structure Site where",
        "  file : String",
        "  func : String",
        "  kind : String",
        "  expr : String",
        "deriving DecidableEq, Repr",
        "",
        "/-- every iteration whose iterable is syntactically an unordered collection -/",
        "def iterSites : List Site := [",
        ",\n".join(f"  ⟨{lean_str(a)}, {lean_str(b)}, {lean_str(d)}, {lean_str(c)}⟩" for a, b, c, d in sorted(iter_sites)),
        "]",
        "",
        "/-- write sites other than `self.x = …` inside `__init__` and `cls.x = …` inside `ObjectMeta.__new__`",
        "    (construction of the very object being created) -/",
        "def notableWriteSites : List Site := [",
        ",\n".join(f"  ⟨{lean_str(a)}, {lean_str(b)}, {lean_str(c)}, {lean_str(d)}⟩" for a, b, c, d in sorted(write_sites)
                    if not (c == "assign" and d.startswith("self.") and b.endswith(".__init__"))
                    and not (b == "ObjectMeta.__new__" and d.startswith("cls."))),
        "]",
        "",
        "/-- every store, augmented assignment, deletion, mutator call, setattr and cache decorator -/",
        "def writeSites : List Site := [",
        ",\n".join(f"  ⟨{lean_str(a)}, {lean_str(b)}, {lean_str(c)}, {lean_str(d)}⟩" for a, b, c, d in sorted(write_sites)),
        "]",
        "",
        f"def unscannedModules : List String := {lean_list([lean_str(e) for e in sorted(extra)])}",
        "",
        "end Statham.Gen",
    ]
    return "\n".join(lines) + "\n"


# ------------------------------------------------------------------ fingerprints

def fingerprints():
    out = {}
    for root, _dirs, files in os.walk(os.path.join(REPO, "statham")):
        for fn in sorted(files):
            if not fn.endswith(".py"):
                continue
            rel = os.path.relpath(os.path.join(root, fn), REPO)
            tree = parse(rel)
            for node in ast.walk(tree):
                if isinstance(node, (ast.FunctionDef, ast.AsyncFunctionDef)):
                    body = [s for s in node.body if not (isinstance(s, ast.Expr) and isinstance(s.value, ast.Constant) and isinstance(s.value.value, str))]
                    dump = ast.dump(ast.Module(body=body, type_ignores=[]), annotate_fields=False, include_attributes=False)
                    key = f"{rel}::{node.name}@{node.lineno}"
                    out[f"{rel}::{node.name}"] = hashlib.sha256(dump.encode()).hexdigest()[:16]
    return out


def write_if_changed(path, text):
    try:
        with open(path, encoding="utf8") as fh:
            if fh.read() == text:
                return False
    except FileNotFoundError:
        pass
    os.makedirs(os.path.dirname(path), exist_ok=True)
    tmp = path + ".tmp%d" % os.getpid()
    with open(tmp, "w", encoding="utf8") as fh:
        fh.write(text)
    os.replace(tmp, path)
    return True


def main():
    outputs = {}
    errors = {}
    for name, fn in (("Validators.lean", gen_validators), ("Signatures.lean", gen_signatures),
                     ("Constants.lean", gen_constants), ("Sites.lean", gen_sites)):
        try:
            outputs[name] = fn()
        except (TranslatorError, SyntaxError, OSError) as exc:
            errors[name] = f"{type(exc).__name__}: {exc}"
    changed = []
    for name, text in outputs.items():
        if write_if_changed(os.path.join(OUT, name), text):
            changed.append(name)
    try:
        fps = fingerprints()
    except (SyntaxError, OSError) as exc:
        fps = {}
        errors["fingerprints"] = f"{type(exc).__name__}: {exc}"
    report = {
        "generated": sorted(outputs),
        "changed": changed,
        "errors": errors,
        "hashes": {n: hashlib.sha256(t.encode()).hexdigest()[:16] for n, t in outputs.items()},
        "fingerprints": fps,
    }
    json.dump(report, sys.stdout, indent=1, sort_keys=True)
    sys.stdout.write("\n")
    return 1 if errors else 0


if __name__ == "__main__":
    sys.exit(main())
