-- Root of the `StathamModel` library.
import StathamModel.Json
import StathamModel.Float64
import StathamModel.Elem
import StathamModel.Gen.Validators
import StathamModel.Gen.Signatures
import StathamModel.Gen.Constants
import StathamModel.Gen.Sites
import StathamModel.Validate
import StathamModel.Names
import StathamModel.Eq
import StathamModel.Schema
import StathamModel.Parse
import StathamModel.Dedupe
