/-
  Line-protocol driver: one JSON request per line on stdin, one JSON reply per line on stdout.
  Runs the executable definitions of the model (the same ones the theorems are about).
-/
import StathamModel.Codec
import StathamModel.Parse
import StathamModel.Dedupe
import StathamModel.Validate
import StathamModel.Spec.Draft6
import StathamModel.Good
import StathamModel.SerJson
import StathamModel.ToSchema
import StathamModel.Lemmas.ParseNF
import StathamModel.Lemmas.SerSem
import StathamModel.Lemmas.AccNames
import StathamModel.Orderer
import StathamModel.Py.Repr
import StathamModel.Py.EvalTree
import StathamModel.Py.EvalClass
import StathamModel.Format
import StathamModel.Inherit
import StathamModel.Py.Module
open Lean (Json)
open Statham Statham.Codec

def perrName : PErr → String
  | .notImplemented => "notImplemented"
  | .missingTitle => "missingTitle"
  | .invalidType => "invalidType"
  | .other => "other"

partial def encLitExpr : JVal → Json
  | .arr xs => Json.mkObj [("list", Json.arr (xs.map encLitExpr).toArray)]
  | .obj kvs => Json.mkObj [("dict", Json.arr (kvs.map fun kv => Json.arr #[Json.str kv.1, encLitExpr kv.2]).toArray)]
  | v => Json.mkObj [("lit", encVal v)]

partial def encExpr : PyExpr → Json
  | .lit v => encLitExpr v
  | .name n => Json.mkObj [("name", Json.str n)]
  | .call f args kwargs => Json.mkObj [("call", Json.str f), ("args", Json.arr (args.map encExpr).toArray),
      ("kwargs", Json.arr (kwargs.map fun kv => Json.arr #[Json.str kv.1, encExpr kv.2]).toArray)]
  | .list xs => Json.mkObj [("list", Json.arr (xs.map encExpr).toArray)]
  | .dict kvs => Json.mkObj [("dict", Json.arr (kvs.map fun kv => Json.arr #[Json.str kv.1, encExpr kv.2]).toArray)]

def getTables (req : Json) : R Tables :=
  match getField req "tables" with
  | some t => decTables t
  | none => pure {}

def getArgs (req : Json) : R (List Arg) := do
  let a ← (← req.getObjVal? "args").getArr?
  a.toList.mapM decArg


/-- class keyword arguments: an `Object` dump carrying the values + the list of keywords that are passed -/
def decClassArgs (j : Json) : R ClassArgs := do
  let e ← decElem (← j.getObjVal? "elem")
  let passed ← (← (← j.getObjVal? "passed").getArr?).toList.mapM (·.getStr?)
  let has (n : String) : Bool := passed.contains n
  let kw := e.kw
  pure { default := if has "default" then kw.default else none
         const := if has "const" then kw.const else none
         enum := if has "enum" then kw.enum else none
         required := if has "required" then kw.required else none
         description := if has "description" then kw.description else none
         minProperties := if has "minProperties" then kw.minProperties else none
         maxProperties := if has "maxProperties" then kw.maxProperties else none
         patProps := if has "patternProperties" then some e.patProps else none
         addProps := if has "additionalProperties" then
             (match e.addProps with | some x => some (AddP.elem x) | none => some (AddP.flag kw.addPropsB)) else none
         propNames := if has "propertyNames" then e.propNames else none
         deps := if has "dependencies" then some e.deps else none }

def decCell (j : Json) : R Cell := do
  let required ← match getField j "required" with
    | some b => b.getBool?
    | none => pure false
  let source ← optField j "source" (·.getStr?)
  pure { required := required, source := source, elem := ← decElem (← j.getObjVal? "elem") }

def decInheritOp (j : Json) : R Op := do
  let kind ← (← j.getObjVal? "op").getStr?
  let cls : R Nat := do (← j.getObjVal? "cls").getNat?
  let name : R String := do (← j.getObjVal? "name").getStr?
  match kind with
  | "define" => do
    let props ← (← (← j.getObjVal? "props").getArr?).toList.mapM fun kv => do
      let p ← kv.getArr?
      if p.size != 2 then throw "bad property entry"
      pure (← p[0]!.getStr?, ← decCell p[1]!)
    pure (.define (← (← j.getObjVal? "parent").getNat?)
      { name := ← name, args := ← decClassArgs (← j.getObjVal? "args"), doc := ← optField j "doc" (·.getStr?), props := props })
  | "set_kw" => do pure (.setKw (← cls) (← decClassArgs (← j.getObjVal? "args")))
  | "set_prop" => do pure (.setProp (← cls) (← name) (← decCell (← j.getObjVal? "prop")))
  | "del_prop" => do pure (.delProp (← cls) (← name))
  | "set_required" => do pure (.setRequired (← cls) (← name) (← (← j.getObjVal? "value").getBool?))
  | "set_element" => do pure (.setElement (← cls) (← name) (← decElem (← j.getObjVal? "elem")))
  | "use" => do pure (.use (← cls))
  | other => throw s!"unknown inherit op {other}"

def allViews (w : World) : Json :=
  Json.arr ((List.range w.classes.length).filterMap fun c => (w.viewElem c).map encElem).toArray

def sameRepr {α} [Repr α] (a b : α) : Bool := toString (repr a) == toString (repr b)

/-- the executable reading of `NF` (node equation compared through the derived `Repr`; `Elem` has no decidable
    equality).  Used to classify trees (inside / outside the hypothesis of `C03_partial_meaning` and
    `C06_partial_round_trip`), never inside a proof. -/
partial def nfB (cx : PCtx) (e : Elem) : Bool :=
  let node := if e.cls == .nothing then sameRepr e Elem.nothing
    else sameRepr (assembleK cx (nodeSKw e.cls e.kw e.props) (nodeKids e)) e
  let nn (o : Option Elem) : Bool := match o with
    | some x => x.cls != .nothing
    | none => true
  let opt (o : Option Elem) : Bool := match o with
    | some x => nfB cx x
    | none => true
  node && nn e.addItems && nn e.addProps && e.items.all (nfB cx) && opt e.addItems && opt e.contains &&
    e.props.all (fun p => nfB cx p.2) && e.patProps.all (fun p => nfB cx p.2) && opt e.addProps && opt e.propNames &&
    e.deps.all (fun p => nfB cx p.2) && e.elements.all (nfB cx)

/-- the executable reading of `NFn` (normal form up to the attribute names of properties), for classification only -/
partial def nfnB (cx : PCtx) (e : Elem) : Bool :=
  let node := if e.cls == .nothing then sameRepr e Elem.nothing
    else sameRepr (forget (assembleK cx (nodeSKw e.cls e.kw e.props) (nodeKids e))) (forget e)
  let opt (o : Option Elem) : Bool := match o with
    | some x => nfnB cx x
    | none => true
  node && e.items.all (nfnB cx) && opt e.addItems && opt e.contains &&
    e.props.all (fun p => nfnB cx p.2) && e.patProps.all (fun p => nfnB cx p.2) && opt e.addProps && opt e.propNames &&
    e.deps.all (fun p => nfnB cx p.2) && e.elements.all (nfnB cx)

/-- first node (pre-order) where the node equation up to names fails: (rebuilt, node), for diagnostics -/
partial def nfnWhy (cx : PCtx) (e : Elem) : Option (String × String) :=
  let here : Option (String × String) :=
    if e.cls == .nothing then (if sameRepr e Elem.nothing then none else some ("Nothing()", toString (repr e)))
    else
      let r := forget (assembleK cx (nodeSKw e.cls e.kw e.props) (nodeKids e))
      if sameRepr r (forget e) then none else some (toString (repr r), toString (repr (forget e)))
  match here with
  | some x => some x
  | none =>
    let kids : List Elem := e.items ++ e.addItems.toList ++ e.contains.toList ++ e.props.map (·.2) ++ e.patProps.map (·.2) ++
      e.addProps.toList ++ e.propNames.toList ++ e.deps.map (·.2) ++ e.elements
    kids.findSome? (nfnWhy cx)

/-- array-form `dependencies` entries carry no schema: one placeholder on both sides of the comparison -/
partial def blankDeps : Schema → Schema
  | .bool b => .bool b
  | .mk k items addI cont props pats addP pn deps anyOf oneOf allOf not =>
    .mk k (items.map blankDeps) (addI.map blankDeps) (cont.map blankDeps) (props.map fun p => (p.1, blankDeps p.2))
      (pats.map fun p => (p.1, blankDeps p.2)) (addP.map blankDeps) (pn.map blankDeps)
      (deps.map fun d => (d.1, if d.1.names.isSome then Schema.bool true else blankDeps d.2))
      (anyOf.map blankDeps) (oneOf.map blankDeps) (allOf.map blankDeps) (not.map blankDeps)

def handle (req : Json) : R Json := do
  let op ← (← req.getObjVal? "op").getStr?
  match op with
  | "ping" => pure (Json.mkObj [("pong", true)])
  | "parse" | "parse_call" => do
    let tables ← getTables req
    let sv ← decVal (← req.getObjVal? "schema")
    let schema ← decSchema sv
    let cx : PCtx := { ci := tables.charInfo }
    match parseNamed1 cx schema with
    | .error e => pure (Json.mkObj [("parse", "err"), ("kind", perrName e)])
    | .ok el =>
      let base := [("parse", Json.str "ok"), ("elem", encElem el)]
      if op == "parse" then pure (Json.mkObj base) else do
        let args ← getArgs req
        let env := tables.env
        pure (Json.mkObj (base ++ [("results", Json.arr (args.map fun a => encRes (el.call env a)).toArray)]))
  | "spec" => do
    let tables ← getTables req
    let sv ← decVal (← req.getObjVal? "schema")
    let schema ← decSchema sv
    let args ← getArgs req
    let env := tables.env
    let run (len : SKw → Bool) : Json := Json.arr (args.map fun a => match a with
      | .val v => Json.bool (D6.valid env len schema v)
      | .notPassed => Json.null).toArray
    let cx : PCtx := { ci := tables.charInfo }
    let fl := flagsOf cx schema
    let flags := Json.mkObj [("wf", fl.wf), ("litClean", fl.litClean), ("intMultipleOf", fl.intMultipleOf),
      ("noCollapse", fl.noCollapse), ("noSynthetic", fl.noSynthetic), ("defaultFaithful", fl.defaultFaithful)]
    let dk := Json.arr (args.map fun a => match a with
      | .val v => Json.bool (distinctKeys v)
      | .notPassed => Json.null).toArray
    pure (Json.mkObj [("impl_leniency", run typeHasObject), ("strict", run fun _ => false),
      ("lenient", run fun _ => true), ("flags", flags), ("distinct_keys", dk)])
  | "parse_serialize" => do
    let tables ← getTables req
    let sv ← decVal (← req.getObjVal? "schema")
    let schema ← decSchema sv
    let cx : PCtx := { ci := tables.charInfo }
    match parseNamed1 cx schema with
    | .error e => pure (Json.mkObj [("parse", "err"), ("kind", perrName e)])
    | .ok el =>
      match serializeJson [el] [] with
      | .ok j => pure (Json.mkObj [("parse", "ok"), ("r", "ok"), ("json", encVal j), ("elem", encElem el),
          ("nf_good", nfGood cx schema), ("nf", nfBool cx (parseE cx schema)),
          ("good_src", (flagsOf cx schema).all), ("good_nf", (flagsOf cx (toSchema (parseE cx schema))).all)])
      | .error _ => pure (Json.mkObj [("parse", "ok"), ("r", "err"), ("elem", encElem el)])
  | "to_schema" => do
    -- the schema-level model of the serializer against the (dereferenced) output of the real `serialize_json`;
    -- plus everything the C03 / C06 theorems speak about, evaluated on this tree
    let tables ← getTables req
    let el ← decElem (← req.getObjVal? "elem")
    let cx : PCtx := { ci := tables.charInfo }
    let env := tables.env
    let s := toSchema el
    let same ← match getField req "doc" with
      | some d => do
        let doc ← decSchema (← decVal d)
        if sameRepr (blankDeps doc) (blankDeps s) then pure (Json.bool true)
        else if (getField req "explain").isSome then
          pure (Json.mkObj [("model", toString (repr (blankDeps s))), ("impl", toString (repr (blankDeps doc)))])
        else pure (Json.bool false)
      | none => pure Json.null
    let back := parseE cx s
    let args ← match getField req "args" with
      | some _ => getArgs req
      | none => pure []
    let fl := flagsOf cx s
    pure (Json.mkObj [("same", same), ("nf", nfBool cx el), ("nfn", nfnBool cx el), ("good", fl.all), ("perr", match parseErr s with
        | some e => Json.str (perrName e)
        | none => Json.null),
      ("round_trip_identity", sameRepr back el), ("back", encElem back),
      ("why", match (if (getField req "explain").isSome then nfnWhy cx el else none) with
        | some (a, b) => Json.mkObj [("rebuilt", a), ("node", b)]
        | none => Json.null),
      ("valid", Json.arr (args.map fun a => match a with
        | .val v => Json.bool (D6.valid env typeHasObject s v)
        | .notPassed => Json.null).toArray),
      ("calls", Json.arr (args.map fun a => encRes (el.call env a)).toArray),
      ("distinct_keys", Json.arr (args.map fun a => match a with
        | .val v => Json.bool (distinctKeys v)
        | .notPassed => Json.null).toArray)])
  | "order_tree" => do
    let els ← (← (← req.getObjVal? "elements").getArr?).toList.mapM decElem
    match ordererTree els with
    | .ok l => pure (Json.mkObj [("r", "ok"), ("order", Json.arr (l.map Json.str).toArray)])
    | .error _ => pure (Json.mkObj [("r", "unresolvable")])
  | "order_graph" => do
    let order ← (← (← req.getObjVal? "order").getArr?).toList.mapM (·.getStr?)
    let edges ← (← (← req.getObjVal? "edges").getArr?).toList.mapM fun e => do
      let p ← e.getArr?
      if p.size != 2 then throw "bad edge entry"
      pure (← p[0]!.getStr?, ← (← p[1]!.getArr?).toList.mapM (·.getStr?))
    let g : ClassGraph := { order := order, edges := fun n => (edges.lookup n).getD [] }
    match ordererGraph g with
    | .ok l => pure (Json.mkObj [("r", "ok"), ("order", Json.arr (l.map Json.str).toArray)])
    | .error _ => pure (Json.mkObj [("r", "unresolvable")])
  | "repr" => do
    let el ← decElem (← req.getObjVal? "elem")
    pure (Json.mkObj [("expr", encExpr (reprExpr el)), ("evalBack", Json.bool (Statham.PyEval.evalBack el))])
  | "repr_property" => do
    let key ← decKey (← req.getObjVal? "key")
    let el ← decElem (← req.getObjVal? "elem")
    pure (Json.mkObj [("expr", encExpr (propExpr key (reprExpr el)))])
  | "format_history" => do
    -- checkers: [[id, [[string, bool]…]]…]; ops: {"register": name, "checker": id} | {"check": name, "value": v}
    let cks ← (← (← req.getObjVal? "checkers").getArr?).toList.mapM fun c => do
      let p ← c.getArr?
      if p.size != 2 then throw "bad checker"
      let rows ← (← p[1]!.getArr?).toList.mapM fun r => do
        let q ← r.getArr?
        if q.size != 2 then throw "bad checker row"
        pure (← q[0]!.getStr?, ← q[1]!.getBool?)
      pure (← p[0]!.getStr?, rows)
    let mkChecker (id : String) : R Checker :=
      match cks.lookup id with
      | some rows => pure fun s => (rows.lookup s).getD true
      | none => throw s!"unknown checker {id}"
    let init ← (← (← req.getObjVal? "initial").getArr?).toList.mapM fun kv => do
      let p ← kv.getArr?
      if p.size != 2 then throw "bad initial entry"
      pure (← p[0]!.getStr?, ← mkChecker (← p[1]!.getStr?))
    let ops ← (← (← req.getObjVal? "ops").getArr?).toList.mapM fun o => do
      match getField o "register" with
      | some n => pure (RegOp.register (← n.getStr?) (← mkChecker (← (← o.getObjVal? "checker").getStr?)))
      | none => pure (RegOp.check (← (← o.getObjVal? "check").getStr?) (← decVal (← o.getObjVal? "value")))
    let (_, outs) := runReg init ops
    pure (Json.mkObj [("outs", Json.arr (outs.map fun o => Json.str (match o with
      | .accept => "accept" | .acceptWarn => "accept-warn" | .reject => "reject")).toArray)])
  | "parse_doc" => do
    -- `parse(document)`: the root, then each dict/bool entry of the root's "definitions"
    let tables ← getTables req
    let sv ← decVal (← req.getObjVal? "schema")
    let root ← decSchema sv
    let defs ← match sv with
      | .obj kvs => (match JVal.lookup "definitions" kvs with
        | some (.obj ds) => (ds.filter fun d => match d.2 with | .obj _ => true | .bool _ => true | _ => false).mapM fun d => do
            pure (d.1, ← decSchema d.2)
        | _ => pure [])
      | _ => pure []
    let cx : PCtx := { ci := tables.charInfo }
    match parseDoc cx root defs with
    | .error e => pure (Json.mkObj [("parse", "err"), ("kind", perrName e)])
    | .ok els => pure (Json.mkObj [("parse", "ok"), ("elems", Json.arr (els.map encElem).toArray)])
  | "inherit_history" => do
    let ops ← (← (← req.getObjVal? "ops").getArr?).toList.mapM decInheritOp
    let (_, views) := ops.foldl (fun (st : World × List Json) op =>
      let w := step st.1 op
      (w, st.2 ++ [allViews w])) (World.init, [])
    pure (Json.mkObj [("views", Json.arr views.toArray)])
  | "inherit_flat" => do
    -- a chain of class statements from Object, and the same as one statement
    let decls ← (← (← req.getObjVal? "decls").getArr?).toList.mapM fun d => do
      match ← decInheritOp d with
      | .define _ decl => pure decl
      | _ => throw "expected define"
    let chain := decls.foldl inherit Cfg.object
    let flat := match decls with
      | [] => Cfg.object
      | d :: ds => inherit Cfg.object (ds.foldl ClassDecl.andThen d)
    let name := (decls.getLast?.map (·.name)).getD "Object"
    pure (Json.mkObj [("chain", encElem (chain.toElem name)), ("flat", encElem (flat.toElem name))])
  | "annotation" => do
    let e ← decElem (← req.getObjVal? "elem")
    pure (Json.mkObj [("annotation", Json.str (annot e).show)])
  | "emit_module" => do
    let els ← (← (← req.getObjVal? "elements").getArr?).toList.mapM decElem
    match emitModule els with
    | .error _ => pure (Json.mkObj [("r", "unresolvable")])
    | .ok m =>
      let encClass (c : ClassDef) : Json := Json.mkObj [
        ("name", Json.str c.name), ("base", Json.str c.base),
        ("kwargs", Json.arr (c.kwargs.map fun kv => Json.arr #[Json.str kv.1, encExpr kv.2]).toArray),
        ("doc", match c.doc with | some d => Json.str d | none => Json.null),
        ("props", Json.arr (c.props.map fun p => Json.mkObj [("attr", Json.str p.attr), ("ann", Json.str p.ann.show), ("expr", encExpr p.expr)]).toArray)]
      let inScope := (List.range m.classes.length).all fun i =>
        match m.classes[i]? with
        | some c => c.names.all fun n => (m.scopeAt i).contains n
        | none => true
      pure (Json.mkObj [("r", "ok"), ("typing", Json.arr (m.typing.map Json.str).toArray), ("maybe", Json.bool m.maybe),
        ("elements", Json.arr (m.elements.map Json.str).toArray), ("property", Json.bool m.property),
        ("classes", Json.arr (m.classes.map encClass).toArray), ("names_in_scope", Json.bool inScope),
        ("execBack", Json.bool (Statham.PyEval.execBack els))])
  | "attr_names" => do
    let tables ← getTables req
    let names ← (← (← req.getObjVal? "names").getArr?).toList.mapM (·.getStr?)
    let ci := tables.charInfo
    pure (Json.mkObj [("attrs", Json.arr (names.map fun n => Json.str (attrName ci Gen.reservedProperties n)).toArray)])
  | "titles" => do
    let names ← (← (← req.getObjVal? "names").getArr?).toList.mapM (·.getStr?)
    pure (Json.mkObj [("titles", Json.arr (names.map fun n => Json.str (titleFormat n)).toArray)])
  | "serialize_json" => do
    let els ← (← (← req.getObjVal? "elements").getArr?).toList.mapM decElem
    let defs ← match getField req "definitions" with
      | some d => (← d.getArr?).toList.mapM fun kv => do
          let p ← kv.getArr?
          if p.size != 2 then throw "bad definition entry"
          pure (← p[0]!.getStr?, ← decElem p[1]!)
      | none => pure []
    match serializeJson els defs with
    | .ok j => pure (Json.mkObj [("r", "ok"), ("json", encVal j)])
    | .error .primaryIsFalse => pure (Json.mkObj [("r", "err"), ("kind", "primaryIsFalse")])
    | .error .noElements => pure (Json.mkObj [("r", "err"), ("kind", "noElements")])
  | "elem_eq" => do
    let a ← decElem (← req.getObjVal? "a")
    let b ← decElem (← req.getObjVal? "b")
    pure (Json.mkObj [("eq", elemEq a b), ("eq_rev", elemEq b a), ("anon_same", Elem.same (anonymize a) (anonymize b))])
  | "elem_call" => do
    let tables ← getTables req
    let el ← decElem (← req.getObjVal? "elem")
    let args ← getArgs req
    let env := tables.env
    pure (Json.mkObj [("results", Json.arr (args.map fun a => encRes (el.call env a)).toArray)])
  | other => throw s!"unknown op {other}"

partial def loop (hin hout : IO.FS.Stream) : IO Unit := do
  let line ← hin.getLine
  if line.isEmpty then return ()
  let reply := match Json.parse line with
    | .error e => Json.mkObj [("error", Json.str s!"json: {e}")]
    | .ok req => match handle req with
      | .ok r => r
      | .error e => Json.mkObj [("error", Json.str e)]
  hout.putStrLn reply.compress
  hout.flush
  loop hin hout

def main : IO Unit := do
  loop (← IO.getStdin) (← IO.getStdout)
