/-
  JSON values as the Python code sees them.

  * `Num.int i`      — a Python `int` (unbounded).
  * `Num.flt n d`    — a finite Python `float`, given exactly as the reduced ratio
                       `n / d` (`float.as_integer_ratio()`), `d > 0`.
  `inf`/`nan` are outside JSON and are not representable.

  Objects are insertion-ordered association lists; the harness only sends lists with
  distinct keys (that is what a Python `dict` is).
-/
namespace Statham

inductive Num where
  | int (i : Int)
  | flt (n : Int) (d : Nat)
deriving DecidableEq, Repr, Inhabited

namespace Num
def numer : Num → Int
  | int i => i
  | flt n _ => n
def denom : Num → Nat
  | int _ => 1
  | flt _ d => d
/-- exact comparison, as CPython compares int/float mixtures -/
def lt (a b : Num) : Bool := a.numer * b.denom < b.numer * a.denom
def le (a b : Num) : Bool := a.numer * b.denom ≤ b.numer * a.denom
def eqv (a b : Num) : Bool := a.numer * b.denom == b.numer * a.denom
def isInt : Num → Bool
  | int _ => true
  | flt _ _ => false
def ofNat (n : Nat) : Num := int n
end Num

inductive JVal where
  | null
  | bool (b : Bool)
  | num (n : Num)
  | str (s : String)
  | arr (xs : List JVal)
  | obj (kvs : List (String × JVal))
deriving Repr, Inhabited

namespace JVal

def lookup (k : String) : List (String × JVal) → Option JVal
  | [] => none
  | (k', v) :: r => if k = k' then some v else lookup k r

def keys (kvs : List (String × JVal)) : List String := kvs.map (·.1)

mutual
/-- Equality of JSON instances as Draft 6 defines it, which is also what the (repaired)
    `replace_bool`-aliased Python `==` computes: booleans are distinct from numbers,
    numbers compare by value (`1 == 1.0`), arrays pointwise, objects as key → value maps. -/
def jeq : JVal → JVal → Bool
  | .null, w => match w with | .null => true | _ => false
  | .bool a, w => match w with | .bool b => a == b | _ => false
  | .num a, w => match w with | .num b => a.eqv b | _ => false
  | .str a, w => match w with | .str b => a == b | _ => false
  | .arr xs, w => match w with | .arr ys => jeqList xs ys | _ => false
  | .obj xs, w => match w with | .obj ys => xs.length == ys.length && jeqObj xs ys | _ => false
def jeqList : List JVal → List JVal → Bool
  | [], ys => ys.isEmpty
  | x :: xs, ys => match ys with
    | [] => false
    | y :: ys' => jeq x y && jeqList xs ys'
def jeqObj : List (String × JVal) → List (String × JVal) → Bool
  | [], _ => true
  | (k, v) :: xs, ys => (match lookup k ys with
      | some w => jeq v w
      | none => false) && jeqObj xs ys
end

/-- Plain Python `==` on JSON data (no boolean aliasing): `True == 1 == 1.0`. Used by
    `Element.__eq__` on literal keywords. -/
def boolNum : Bool → Num
  | true => .int 1
  | false => .int 0

mutual
def pyEq : JVal → JVal → Bool
  | .null, w => match w with | .null => true | _ => false
  | .bool a, w => match w with
    | .bool b => a == b
    | .num n => (boolNum a).eqv n
    | _ => false
  | .num a, w => match w with
    | .num b => a.eqv b
    | .bool b => a.eqv (boolNum b)
    | _ => false
  | .str a, w => match w with | .str b => a == b | _ => false
  | .arr xs, w => match w with | .arr ys => pyEqList xs ys | _ => false
  | .obj xs, w => match w with | .obj ys => xs.length == ys.length && pyEqObj xs ys | _ => false
def pyEqList : List JVal → List JVal → Bool
  | [], ys => ys.isEmpty
  | x :: xs, ys => match ys with
    | [] => false
    | y :: ys' => pyEq x y && pyEqList xs ys'
def pyEqObj : List (String × JVal) → List (String × JVal) → Bool
  | [], _ => true
  | (k, v) :: xs, ys => (match lookup k ys with
      | some w => pyEq v w
      | none => false) && pyEqObj xs ys
end

/-- Python truthiness of a JSON value. -/
def truthy : JVal → Bool
  | .null => false
  | .bool b => b
  | .num n => n.numer != 0
  | .str s => s != ""
  | .arr xs => !xs.isEmpty
  | .obj kvs => !kvs.isEmpty

/-- number of Unicode code points: Python `len(str)` -/
def strLen (s : String) : Nat := s.length

end JVal

/-- Python dict insertion: overwrite keeps the original position. -/
def dictSet {α} (d : List (String × α)) (k : String) (v : α) : List (String × α) :=
  match d with
  | [] => [(k, v)]
  | (k', v') :: r => if k = k' then (k, v) :: r else (k', v') :: dictSet r k v

def dictGet? {α} (d : List (String × α)) (k : String) : Option α :=
  match d with
  | [] => none
  | (k', v') :: r => if k = k' then some v' else dictGet? r k

def dictOfList {α} (l : List (String × α)) : List (String × α) :=
  l.foldl (fun d kv => dictSet d kv.1 kv.2) []

def removeDups {α} [BEq α] : List α → List α
  | [] => []
  | x :: xs => x :: (removeDups xs).filter (fun y => !(y == x))

end Statham
