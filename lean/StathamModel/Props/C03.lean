/-
  C03 — JSON Schema serialization preserves the meaning of any element tree.
  Structure theorems (every reference resolves) on the JSON-level model `serElem`, and the meaning clause
  (`C03_partial_meaning`) on the schema-level model `toSchema` (StathamModel/ToSchema.lean: the same serializer with the
  encoding step removed and `$ref`s followed; tied to the real `serialize_json` by the driver op `to_schema`).
-/
import StathamModel.SerJson
import StathamModel.Lemmas.SerOk
import StathamModel.Lemmas.ParseNF
import StathamModel.Lemmas.SerSem
import StathamModel.Lemmas.CallVerdict
import StathamModel.Lemmas.EqRefl
import StathamModel.Tie
namespace Statham.C03
open Statham

/-- every element strictly below `e` (in any keyword position the serializer descends into) -/
theorem mem_objectClasses {root e : Elem} (h : e ∈ descendants root) (hc : isObjectClass e.cls = true) :
    e ∈ objectClasses [root] := by
  unfold objectClasses
  refine List.mem_filter.mpr ⟨?_, hc⟩
  simp only [List.map_cons, List.map_nil, List.flatten_cons, List.flatten_nil, List.append_nil]
  exact List.mem_append_right _ h

/-- a key that was ever inserted by the fold is a key of the resulting dictionary -/
theorem dictSet_mem_keys {α} (d : List (String × α)) (k : String) (v : α) : k ∈ (dictSet d k v).map (·.1) := by
  induction d with
  | nil => simp [dictSet]
  | cons p d ih =>
    obtain ⟨k', v'⟩ := p
    by_cases e : k = k'
    · simp [dictSet, e]
    · simp only [dictSet, e, if_false, List.map_cons, List.mem_cons]
      exact Or.inr ih

theorem dictSet_keeps_keys {α} (d : List (String × α)) (k k' : String) (v : α) (h : k' ∈ d.map (·.1)) :
    k' ∈ (dictSet d k v).map (·.1) := by
  induction d with
  | nil => cases h
  | cons p d ih =>
    obtain ⟨k2, v2⟩ := p
    by_cases e : k = k2
    · simp only [dictSet, e, if_true, List.map_cons] at h ⊢
      exact h
    · simp only [dictSet, e, if_false, List.map_cons, List.mem_cons] at h ⊢
      rcases h with h | h
      · exact Or.inl h
      · exact Or.inr (ih h)

/-- **References resolve.** Every object class below the serialized root that is not the primary gets an
    entry in `definitions` under the very name its `$ref`s use. -/
theorem definitions_complete (root : Elem) (defs : List (String × Elem)) (e : Elem)
    (h : e ∈ descendants root) (hc : isObjectClass e.cls = true) (hp : isPrimary root e = false) :
    objName e.cls ∈ ((objectClasses [root]).foldl (fun d oc =>
        if isPrimary root oc then d else dictSet d (objName oc.cls) (serElem (some root) defs oc)) ([] : List (String × JVal))).map (·.1) := by
  have hm := mem_objectClasses h hc
  generalize objectClasses [root] = l at hm
  suffices hs : ∀ (acc : List (String × JVal)),
      objName e.cls ∈ (l.foldl (fun d oc =>
        if isPrimary root oc then d else dictSet d (objName oc.cls) (serElem (some root) defs oc)) acc).map (·.1) from hs []
  induction l with
  | nil => cases hm
  | cons x xs ih =>
    intro acc
    simp only [List.foldl_cons]
    rcases List.mem_cons.mp hm with hx | hx
    · subst hx
      simp only [hp, Bool.false_eq_true, if_false]
      -- once inserted, later steps keep the key
      have keep : ∀ (ys : List Elem) (acc' : List (String × JVal)), objName e.cls ∈ acc'.map (·.1) →
          objName e.cls ∈ (ys.foldl (fun d oc =>
            if isPrimary root oc then d else dictSet d (objName oc.cls) (serElem (some root) defs oc)) acc').map (·.1) := by
        intro ys
        induction ys with
        | nil => intro acc' h'; exact h'
        | cons y ys ihy =>
          intro acc' h'
          simp only [List.foldl_cons]
          apply ihy
          split
          · exact h'
          · exact dictSet_keeps_keys _ _ _ _ h'
      exact keep xs _ (dictSet_mem_keys _ _ _)
    · exact ih hx _

/-- a child that is an object class is serialized as a reference to its own name -/
theorem class_child_is_ref (root : Option Elem) (defs : List (String × Elem)) (e : Elem) (body : JVal)
    (hc : isObjectClass e.cls = true) (hr : isRoot root e = false) :
    childRef root defs e body = refTo (objName e.cls) := by
  simp [childRef, hc, hr]

/-- a child that is the top-level class itself is serialized as `{"$ref": "#"}`, which always resolves -/
theorem root_child_is_hash (root : Option Elem) (defs : List (String × Elem)) (e : Elem) (body : JVal)
    (hc : isObjectClass e.cls = true) (hr : isRoot root e = true) :
    childRef root defs e body = refRoot := by
  simp [childRef, hc, hr]

/-- **Every class reference resolves** (no hypothesis on which class is the primary): a class below the serialized root is
    written either as `#` or as a reference to a name that is a key of `definitions` -/
theorem class_reference_resolves (root : Elem) (defs : List (String × Elem)) (e : Elem) (body : JVal)
    (h : e ∈ descendants root) (hc : isObjectClass e.cls = true) :
    childRef (some root) defs e body = refRoot ∨
    (childRef (some root) defs e body = refTo (objName e.cls) ∧
      objName e.cls ∈ ((objectClasses [root]).foldl (fun d oc =>
        if isPrimary root oc then d else dictSet d (objName oc.cls) (serElem (some root) defs oc)) ([] : List (String × JVal))).map (·.1)) := by
  cases hp : isPrimary root e with
  | true => exact Or.inl (root_child_is_hash (some root) defs e body hc hp)
  | false => exact Or.inr ⟨class_child_is_ref (some root) defs e body hc hp, definitions_complete root defs e h hc hp⟩

/-- a child that equals one of the caller's definitions (and is not a class) is serialized as a reference to that
    definition's name -/
theorem definition_child_is_ref (root : Option Elem) (defs : List (String × Elem)) (e : Elem) (body : JVal)
    (hc : isObjectClass e.cls = false)
    (d : String × Elem) (hf : defs.find? (fun d => elemEq d.2 e) = some d) : childRef root defs e body = refTo d.1 := by
  simp [childRef, hc, hf]

/-- **References to caller-supplied definitions resolve**: every name in the caller's `definitions` mapping is a key of
    the document's `definitions`, whatever classes were added before -/
theorem caller_definitions_present (root : Option Elem) (defs : List (String × Elem)) (classDefs : List (String × JVal)) (d : String × Elem)
    (hd : d ∈ defs) :
    d.1 ∈ (defs.foldl (fun acc kv => dictSet acc kv.1 (serElem root defs kv.2)) classDefs).map (·.1) := by
  suffices hs : ∀ (l : List (String × Elem)) (acc : List (String × JVal)), (d ∈ l ∨ d.1 ∈ acc.map (·.1)) →
      d.1 ∈ (l.foldl (fun acc kv => dictSet acc kv.1 (serElem root defs kv.2)) acc).map (·.1) from hs defs classDefs (Or.inl hd)
  intro l
  induction l with
  | nil =>
    intro acc h
    rcases h with h | h
    · cases h
    · exact h
  | cons x xs ih =>
    intro acc h
    simp only [List.foldl_cons]
    apply ih
    rcases h with h | h
    · rcases List.mem_cons.mp h with rfl | h
      · exact Or.inr (dictSet_mem_keys _ _ _)
      · exact Or.inl h
    · exact Or.inr (dictSet_keeps_keys _ _ _ _ h)

/-- **The property's meaning clause at full strength**: the serialized document accepts exactly the values the tree
    accepts, for every well-formed tree. -/
def MeaningStatement : Prop :=
  ∀ (env : Env) (cx : PCtx) (e : Elem) (v : JVal), wfElem e = true → distinctKeys v = true →
    ∃ ℓ : SKw → Bool, e.accepts env v = D6.valid env ℓ (toSchema e) v

/-- **Proved: the meaning clause for every tree in the parser's normal form** (`NF`: at every node, the parser given
    the node's own keywords and children builds that node — in particular every tree the parser returns and
    serializes back unchanged) whose serialization meets the `Good` conditions of C01 (so what is inherited from
    C01's findings is visible as a hypothesis, not hidden): for every value and every regex/format environment, if the
    call stays inside the arithmetic domain, the tree accepts the value exactly when Draft 6 says the serialized
    document does.  Not covered by the theorem (correspondence and oracle only): trees written in the DSL that are
    not parser images (attribute names chosen freely, `AllOf` of one member, `Array()` without `items`), `$ref`
    bookkeeping (the structure theorems above), caller-supplied definitions. -/
theorem C03_partial_meaning (env : Env) (cx : PCtx) (e : Elem) (v : JVal)
    (hn : NF cx e) (hg : Good cx (toSchema e) = true) (hv : distinctKeys v = true)
    (hnc : e.call env (.val v) ≠ .crash) :
    e.accepts env v = D6.valid env typeHasObject (toSchema e) v := by
  have hrel := (ser_ok env cx e hn hg).1 v hv
  rw [accepts_eq]
  unfold Elem.accV
  have hnc' : e.acc env (.val v) ≠ .crash := by
    rw [← call_verdict]
    intro h
    apply hnc
    cases hc : e.call env (.val v) <;> simp_all [Res.verdict]
  rw [hrel.eq_of_ne_crash hnc']
  cases D6.valid env typeHasObject (toSchema e) v <;> rfl

/-- **Every tree the parser returns** from a schema meeting the decidable source conditions `nfGood` (see Props/C06.lean) is in
    normal form (`parse_NF`), so for parsed trees the meaning clause needs no hypothesis on the tree. -/
theorem C03_meaning_parsed (env : Env) (cx : PCtx) (s : Schema) (v : JVal)
    (hn : nfGood cx s = true) (hg : Good cx (toSchema (parseE cx s)) = true) (hv : distinctKeys v = true)
    (hnc : (parseE cx s).call env (.val v) ≠ .crash) :
    (parseE cx s).accepts env v = D6.valid env typeHasObject (toSchema (parseE cx s)) v :=
  C03_partial_meaning env cx _ v (parse_NF cx s hn) hg hv hnc

/-- **Renamed properties.**  The same conclusion for every tree in normal form *up to the attribute names of properties*
    (`NFn`: at every node, the parser's rebuilt node and the node agree once property keys are reduced to JSON name and
    `required` flag) — the trees one writes in the DSL with attribute names of one's own choosing
    (`kind = Property(String(), source="class")`).  Proof: `acc_forget` (verdicts ignore attribute names: the element looks a
    member up by the property's JSON name, the attribute name only labels the result) turns the syntactic equation into the
    semantic node equation `NFS`, under which `ser_ok_sem` runs the same induction as `ser_ok`. -/
theorem C03_partial_meaning_renamed (env : Env) (cx : PCtx) (e : Elem) (v : JVal)
    (hn : NFn cx e) (hg : Good cx (toSchema e) = true) (hv : distinctKeys v = true)
    (hnc : e.call env (.val v) ≠ .crash) :
    e.accepts env v = D6.valid env typeHasObject (toSchema e) v := by
  have hrel := (ser_ok_names env cx e hn hg).1 v hv
  rw [accepts_eq]
  unfold Elem.accV
  have hnc' : e.acc env (.val v) ≠ .crash := by
    rw [← call_verdict]
    intro h
    apply hnc
    cases hc : e.call env (.val v) <;> simp_all [Res.verdict]
  rw [hrel.eq_of_ne_crash hnc']
  cases D6.valid env typeHasObject (toSchema e) v <;> rfl

/-- the form the driver evaluates: `nfnBool` is an executable test (structural comparison `Elem.same`, proved sound), so a tree
    the driver classifies as inside the region *is* inside the hypothesis -/
theorem C03_meaning_decidable (env : Env) (cx : PCtx) (e : Elem) (v : JVal)
    (hn : nfnBool cx e = true) (hg : Good cx (toSchema e) = true) (hv : distinctKeys v = true)
    (hnc : e.call env (.val v) ≠ .crash) :
    e.accepts env v = D6.valid env typeHasObject (toSchema e) v :=
  C03_partial_meaning_renamed env cx e v (nfnBool_sound cx e hn) hg hv hnc

/-- the most general form: the node equation on verdicts (`NFS`) is all that is used -/
theorem C03_partial_meaning_sem (env : Env) (cx : PCtx) (e : Elem) (v : JVal)
    (hn : NFS env cx e) (hg : Good cx (toSchema e) = true) (hv : distinctKeys v = true)
    (hnc : e.acc env (.val v) ≠ .crash) :
    e.accV env v = V.ofBool (D6.valid env typeHasObject (toSchema e) v) :=
  ((ser_ok_sem env cx e hn hg).1 v hv).eq_of_ne_crash hnc

/-! non-vacuity: a class with a required array-valued property is in normal form and its serialization is `Good` -/
def ci0 : CharInfo := { isalnum := isAsciiAlnum, uname := fun _ => "unknown" }
def cx0 : PCtx := { ci := ci0 }
def eInt : Elem := Elem.leaf .integer { minimum := some (.int 1) }
def eArr : Elem := .mk .array { itemsKind := .single, uniqueItems := true } [eInt] none none [] [] none none [] []
def eObj : Elem := .mk (.object "A") { hasProps := true, addPropsB := false } [] none none
  [({ name := "p", required := true, source := some "p" }, eArr)] [] none none [] []
theorem nf_int : NF cx0 eInt := by
  unfold eInt Elem.leaf
  rw [NF]
  exact ⟨⟨nofun, fun _ => rfl, trivial, trivial⟩, trivial, trivial, trivial, trivial, trivial, trivial, trivial, trivial, trivial⟩
theorem nf_arr : NF cx0 eArr := by
  unfold eArr
  rw [NF]
  exact ⟨⟨nofun, fun _ => rfl, trivial, trivial⟩, ⟨nf_int, trivial⟩, trivial, trivial, trivial, trivial, trivial, trivial, trivial, trivial⟩
theorem nf_obj : NF cx0 eObj := by
  unfold eObj
  rw [NF]
  exact ⟨⟨nofun, fun _ => rfl, trivial, trivial⟩, trivial, trivial, trivial, ⟨nf_arr, trivial⟩, trivial, trivial, trivial, trivial, trivial⟩
theorem good_obj : Good cx0 (toSchema eObj) = true := by decide +kernel

/-! non-vacuity for the renamed form: `kind = Property(String(), source="class")` is not a parser image (the parser would call
    the attribute `class_`), yet it is in normal form up to names -/
def eStr : Elem := Elem.leaf .string
def eRenamed : Elem := .mk (.object "A") { hasProps := true } [] none none
  [({ name := "kind", required := true, source := some "class" }, eStr)] [] none none [] []
theorem nfn_str : NFn cx0 eStr := by
  unfold eStr Elem.leaf
  rw [NFn]
  exact ⟨⟨nofun, fun _ => rfl⟩, trivial, trivial, trivial, trivial, trivial, trivial, trivial, trivial, trivial⟩
theorem nfn_renamed : NFn cx0 eRenamed := by
  unfold eRenamed
  rw [NFn]
  exact ⟨⟨nofun, fun _ => rfl⟩, trivial, trivial, trivial, ⟨nfn_str, trivial⟩, trivial, trivial, trivial, trivial, trivial⟩
theorem good_renamed : Good cx0 (toSchema eRenamed) = true := by decide +kernel
/-- and it is *not* in the parser's normal form: the parser would name the attribute `class_` -/
theorem not_nf_renamed : (assembleK cx0 (nodeSKw eRenamed.cls eRenamed.kw eRenamed.props) (nodeKids eRenamed)).props.map (·.1.name) = ["class_"] := by
  decide +kernel


/-- why `MeaningStatement` needs the normal-form hypothesis at all is *not* a defect of the serializer: it is what
    the proof technique covers.  Why it needs `Good`: the C01 counter-witnesses, e.g. a float `multipleOf` — the tree
    accepts 4, the document read by Draft 6 does not. -/
theorem counter_inherits_float_multipleOf :
    (Elem.leaf .element { multipleOf := some (.flt 3602879701896397 36028797018963968) }).accepts
        { re := fun _ _ => false, fmt := fun _ => none } (.num (.int 4)) = true ∧
    (∀ b : Bool, D6.valid { re := fun _ _ => false, fmt := fun _ => none } (fun _ => b)
        (toSchema (Elem.leaf .element { multipleOf := some (.flt 3602879701896397 36028797018963968) })) (.num (.int 4)) = false) := by
  refine ⟨by decide +kernel, fun b => by cases b <;> decide +kernel⟩

/-- `Nothing()` as the first element has no schema dictionary (finding C03-nothing-root) -/
theorem counter_nothing_root :
    (match serializeJson [Elem.nothing] [] with
     | .error .primaryIsFalse => true
     | _ => false) = true := by decide +kernel

end Statham.C03
