/-
  C16 — format checking consults exactly the registered checker.
-/
import StathamModel.Format
import StathamModel.Lemmas.Results
import StathamModel.Tie
namespace Statham.C16
open Statham

/-- the abstract specification: a map from names to the *last* registered checker -/
def lastRegistered (ops : List RegOp) (init : Registry) (name : String) : Option Checker :=
  ops.foldl (fun acc op => match op with
    | .register n c => if n = name then some c else acc
    | .check _ _ => acc) (init.lookup name)

theorem lookup_register_same (r : Registry) (n : String) (c : Checker) : (r.register n c).lookup n = some c :=
  dictSet_get r n c

theorem lookup_register_other (r : Registry) (n m : String) (c : Checker) (h : m ≠ n) :
    (r.register n c).lookup m = r.lookup m := dictSet_get_ne r n m c h

/-- **Registering a name again replaces the earlier checker; other names are untouched**: after any
    history the registry answers with the last checker registered under that name. -/
theorem C16_last_wins (ops : List RegOp) (init : Registry) (name : String) :
    ((runReg init ops).1).lookup name = lastRegistered ops init name := by
  unfold lastRegistered
  induction ops generalizing init with
  | nil => rfl
  | cons op rest ih =>
    cases op with
    | register n c =>
      simp only [runReg, stepReg, List.foldl_cons]
      rw [ih]
      by_cases h : n = name
      · subst h; simp [lookup_register_same]
      · simp [h, lookup_register_other _ _ _ _ (Ne.symm h)]
    | check n v =>
      simp only [runReg, stepReg, List.foldl_cons]
      exact ih init

/-- **A value is rejected on account of a format exactly when** it is a string, a checker is registered
    under that name, and the checker returns false. -/
theorem C16_reject_iff (r : Registry) (name : String) (v : JVal) :
    r.check name v = .reject ↔ ∃ s c, v = .str s ∧ r.lookup name = some c ∧ c s = false := by
  unfold Registry.check
  constructor
  · intro h
    cases v with
    | str s =>
      simp only at h
      cases hl : r.lookup name with
      | none => rw [hl] at h; cases h
      | some c =>
        rw [hl] at h
        simp only at h
        by_cases hc : c s = true
        · simp [hc] at h
        · exact ⟨s, c, rfl, rfl, by simpa using hc⟩
    | _ => cases h
  · rintro ⟨s, c, rfl, hl, hc⟩
    simp [hl, hc]

/-- an unregistered format never causes rejection, and produces the warning — for strings -/
theorem C16_unregistered (r : Registry) (name : String) (s : String) (h : r.lookup name = none) :
    r.check name (.str s) = .acceptWarn := by
  simp [Registry.check, h]

/-- values that are not strings are never rejected (nor warned about) on account of a format -/
theorem C16_non_string (r : Registry) (name : String) (v : JVal) (h : ∀ s, v ≠ .str s) :
    r.check name v = .accept := by
  cases v with
  | str s => exact absurd rfl (h s)
  | _ => rfl

/-- checking never changes the registry -/
theorem C16_check_pure (r : Registry) (name : String) (v : JVal) : (stepReg r (.check name v)).1 = r := rfl

/-- the `Format` validator's `types` guard is `(str,)` and its keyword `format` (regenerated table) -/
theorem format_types :
    (Gen.validatorTable.find? fun v => v.name == "Format") = some ⟨"Format", some [.str], ["format"]⟩ := by
  decide

end Statham.C16
