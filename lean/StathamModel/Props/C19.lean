/-
  C19 — generated type annotations are sound for every value a model can hold.

  `C19_element_sound`: for every element tree satisfying `Hyp`, every environment and every passed value, if
  the call returns a value then that value belongs to the element's annotation (`annot`), read as in
  Py/Typing.lean, and is never the not-passed marker.  `C19_property_sound` lifts it to the property wrapper.

  `Hyp` (decidable, checked per node) says: every `AllOf` is annotated with its first member's annotation or
  `Any` (its complement is the known finding C19-allof-annotation, `counter_allOf`); member annotations of one
  composition / tuple that print alike are alike (fails only when a model class is named like a typing word);
  an `Array` has `items`.
-/
import StathamModel.Py.Typing
import StathamModel.Lemmas.Results
import StathamModel.Lemmas.VAlg
import StathamModel.Props.C04
import StathamModel.Tie
namespace Statham.C19
open Statham

/-- on a passed value the call only returns values of type `t`, and never the not-passed marker -/
def P (f : Call) (t : PyType) : Prop := ∀ v r, f (.val v) = .ok r → r.hasType t = true ∧ r.isNP = false

/-- annotations that print alike are alike -/
def NoTwins (ts : List PyType) : Prop := ∀ a ∈ ts, ∀ b ∈ ts, a.show = b.show → a = b

/-! ### shape of successful results -/

theorem guard_ok {g : V} {x : Res} {r : RVal} (h : Res.guard g x = .ok r) : g = .pass ∧ x = .ok r := by
  cases g <;> cases x <;> simp [Res.guard] at h ⊢
  exact h

theorem validators_typeOk {env : Env} {c : Cls} {kw : Kw} {sub : Sub} {v : JVal}
    (h : validators Res.verdict env c kw sub v = .pass) : typeOk c v = true := by
  unfold validators at h
  exact V.ofBool_eq_pass.mp (V.and_eq_pass.mp h).1

theorem scalarConv_notNP (v : JVal) : (scalarConv v).isNP = false := by cases v <;> rfl

theorem trivialConv_notNP (v : JVal) : (trivialConv v).isNP = false := by cases v <;> rfl

theorem trivial_P : P trivialCall .any := by
  intro v r h
  simp only [trivialCall, Res.ok.injEq] at h
  subst h
  simp [RVal.hasType, trivialConv_notNP]

theorem nothing_never (v : JVal) (r : RVal) : nothingCall (.val v) ≠ .ok r := by simp [nothingCall]

theorem collect_arr {rs : List Res} {r : RVal} (h : collect rs = .ok r) : ∃ xs, r = .arr xs := by
  rcases collect_shape rs with hs | hs | ⟨ys, hs⟩
  · rw [hs] at h; cases h
  · rw [hs] at h; cases h
  · rw [hs] at h; exact ⟨ys, (Res.ok.inj h).symm⟩

theorem propsCall_anon {env : Env} {kw : Kw} {sub : Sub} {kvs : List (String × JVal)} {r : RVal}
    (h : propsCall env kw sub kvs = .ok r) : ∃ l, r = .anon l := by
  simp only [propsCall] at h
  rcases collectKV_shape (propsOuts resAlg env kw sub kvs) with hs | hs | ⟨ys, hs⟩
  · simp only [hs] at h; cases h
  · simp only [hs] at h; cases h
  · simp only [hs] at h; exact ⟨_, (Res.ok.inj h).symm⟩

/-! ### deduplication by printed form, under `NoTwins` -/

theorem mem_dedupe {t : PyType} {ts : List PyType} (hm : t ∈ ts) (hn : NoTwins ts) : t ∈ dedupeTypes ts := by
  induction ts with
  | nil => cases hm
  | cons u us ih =>
    rw [dedupeTypes]
    rcases List.mem_cons.mp hm with rfl | hm'
    · exact List.mem_cons_self ..
    · by_cases e : t.show = u.show
      · have : t = u := hn t hm u (List.mem_cons_self ..) e
        rw [this]; exact List.mem_cons_self ..
      · refine List.mem_cons_of_mem _ (List.mem_filter.mpr ⟨ih hm' ?_, by simpa using e⟩)
        intro a ha b hb
        exact hn a (List.mem_cons_of_mem _ ha) b (List.mem_cons_of_mem _ hb)

theorem dedupe_subset {t : PyType} {ts : List PyType} (h : t ∈ dedupeTypes ts) : t ∈ ts := by
  induction ts with
  | nil => simp [dedupeTypes] at h
  | cons u us ih =>
    rw [dedupeTypes] at h
    rcases List.mem_cons.mp h with rfl | h
    · exact List.mem_cons_self ..
    · exact List.mem_cons_of_mem _ (ih (List.mem_filter.mp h).1)

/-- a value of one member's type has the union annotation -/
theorem union_sound {r : RVal} {t : PyType} {ts : List PyType} (hm : t ∈ ts) (hn : NoTwins ts)
    (ht : r.hasType t = true) (hnp : r.isNP = false) : r.hasType (unionAnnot ts) = true := by
  unfold unionAnnot
  have hd := mem_dedupe hm hn
  match hdd : dedupeTypes ts with
  | [] => rw [hdd] at hd; cases hd
  | [u] =>
    rw [hdd] at hd
    have : t = u := by simpa using hd
    simp only
    rw [← this]; exact ht
  | u :: w :: rest =>
    simp only
    split
    · simp [RVal.hasType, hnp]
    · rw [← hdd]
      simp only [RVal.hasType, hnp, Bool.not_false, Bool.true_and]
      exact hasTypeAny_of_mem hd ht

/-- a list whose elements all have one of the item annotations has the list annotation -/
theorem list_sound {rs : List RVal} {anns : List PyType}
    (h : ∀ x ∈ rs, x.isNP = false ∧ (anns = [] ∨ anns = [.any] ∨ ∃ t ∈ anns, x.hasType t = true)) :
    (RVal.arr rs).hasType (listAnnot anns) = true := by
  unfold listAnnot
  match anns with
  | [] => simp only [RVal.hasType]
  | [t] =>
    simp only [RVal.hasType, List.all_eq_true]
    intro x hx
    rcases (h x hx).2 with he | he | ⟨u, hu, hxu⟩
    · cases he
    · have : t = .any := by simpa using he
      rw [this]; simp [RVal.hasType, (h x hx).1]
    · have : u = t := by simpa using hu
      rw [← this]; exact hxu
  | t :: u :: rest =>
    simp only [RVal.hasType, List.all_eq_true]
    intro x hx
    rcases (h x hx).2 with he | he | ⟨w, hw, hxw⟩
    · cases he
    · cases he
    · simp only [(h x hx).1, Bool.not_false, Bool.true_and]
      exact hasTypeAny_of_mem hw hxw

/-! ### the hypothesis, node by node -/

/-- what the theorem asks of one node, given the annotations of its children -/
def HypNode (c : Cls) (kw : Kw) (items : List PyType) (addItems : Option PyType) (elements : List PyType) : Prop :=
  (c = .array → kw.itemsKind ≠ .none ∧ NoTwins (items ++ addItems.toList)) ∧
  ((c = .anyOf ∨ c = .oneOf) → NoTwins elements) ∧
  (c = .allOf → allOfAnnot elements = elements.head?.getD .any ∨ allOfAnnot elements = .any)

mutual
def Hyp : Elem → Prop
  | .mk c kw items addI _ _ _ _ _ _ els =>
    HypNode c kw (annotList items) (annotOpt addI) (annotList els) ∧ HypL items ∧ HypO addI ∧ HypL els
def HypO : Option Elem → Prop
  | none => True
  | some e => Hyp e
def HypL : List Elem → Prop
  | [] => True
  | e :: es => Hyp e ∧ HypL es
end

/-! ### one node -/

/-- the additional-items call and its annotation agree -/
def AddP (a : Option (Bool × Call)) (t : Option PyType) : Prop :=
  match a, t with
  | some (_, f), some t => P f t
  | none, none => True
  | _, _ => False

theorem itemCall_typed {kw : Kw} {sub : Sub} {itemsT : List PyType} {addT : Option PyType}
    (hi : All2 P sub.items itemsT) (ha : AddP sub.addItems addT) (hk : kw.itemsKind ≠ .none)
    (hn : NoTwins (itemsT ++ addT.toList))
    (idx : Nat) (v : JVal) (r : RVal) (h : itemCall resAlg kw sub idx (.val v) = .ok r) :
    r.isNP = false ∧
      (itemAnnots kw.itemsKind kw.addItemsB itemsT addT = [] ∨
       itemAnnots kw.itemsKind kw.addItemsB itemsT addT = [.any] ∨
       ∃ t ∈ itemAnnots kw.itemsKind kw.addItemsB itemsT addT, r.hasType t = true) := by
  unfold itemCall at h
  generalize hsi : sub.items = its at hi h
  cases hkind : kw.itemsKind with
  | none => exact absurd hkind hk
  | single =>
    rw [hkind] at h
    simp only at h
    cases hi with
    | nil =>
      simp only [List.head?_nil, Option.getD_none] at h
      exact ⟨(trivial_P v r h).2, Or.inl (by simp [itemAnnots])⟩
    | @cons f t fs ts hft _ =>
      simp only [List.head?_cons, Option.getD_some] at h
      have := hft v r h
      exact ⟨this.2, Or.inr (Or.inr ⟨t, by simp [itemAnnots], this.1⟩)⟩
  | tuple =>
    rw [hkind] at h
    simp only at h
    -- which element answered: the positional one, or the additional-items element
    have key : r.isNP = false ∧ ((∃ t ∈ itemsT, r.hasType t = true) ∨ (∃ t, addT = some t ∧ r.hasType t = true) ∨
        (sub.addItems = none ∧ kw.addItemsB = true)) := by
      cases hget : its[idx]? with
      | some f =>
        rw [hget] at h
        simp only [Option.getD_some] at h
        obtain ⟨t, ht, hP⟩ := hi.exists_right (List.mem_of_getElem? hget)
        have := hP v r h
        exact ⟨this.2, Or.inl ⟨t, ht, this.1⟩⟩
      | none =>
        rw [hget] at h
        simp only [Option.getD_none] at h
        unfold additionalItemCall at h
        cases hadd : sub.addItems with
        | some p =>
          obtain ⟨b, f⟩ := p
          rw [hadd] at h ha
          simp only at h
          cases addT with
          | none => exact absurd ha (by simp [AddP])
          | some t =>
            have := (show P f t from ha) v r h
            exact ⟨this.2, Or.inr (Or.inl ⟨t, rfl, this.1⟩)⟩
        | none =>
          rw [hadd] at h
          simp only at h
          by_cases hb : kw.addItemsB = true
          · simp only [hb, if_true] at h
            exact ⟨(trivial_P v r h).2, Or.inr (Or.inr ⟨rfl, hb⟩)⟩
          · simp only [hb, Bool.false_eq_true, if_false] at h
            exact absurd h (nothing_never v r)
    obtain ⟨hnp, hcases⟩ := key
    refine ⟨hnp, ?_⟩
    -- now read off `itemAnnots` for the tuple form
    unfold itemAnnots
    simp only
    cases addT with
    | none =>
      have hn' : NoTwins itemsT := by simpa using hn
      by_cases hb : kw.addItemsB = true
      · simp [hb]
      · simp only [hb, Bool.false_eq_true, if_false]
        rcases hcases with ⟨t, ht, hrt⟩ | ⟨t, he, _⟩ | ⟨_, hb'⟩
        · by_cases hany : itemsT.any isAnyText = true
          · simp [hany]
          · simp only [hany, Bool.false_eq_true, if_false]
            exact Or.inr (Or.inr ⟨t, mem_dedupe ht hn', hrt⟩)
        · cases he
        · exact absurd hb' hb
    | some a =>
      have hn' : NoTwins (itemsT ++ [a]) := by simpa using hn
      simp only
      by_cases hany : (itemsT ++ [a]).any isAnyText = true
      · simp [hany]
      · simp only [hany, Bool.false_eq_true, if_false]
        rcases hcases with ⟨t, ht, hrt⟩ | ⟨t, he, hrt⟩ | ⟨hnone, _⟩
        · exact Or.inr (Or.inr ⟨t, mem_dedupe (List.mem_append_left _ ht) hn', hrt⟩)
        · have : t = a := (Option.some.inj he).symm
          subst this
          exact Or.inr (Or.inr ⟨t, mem_dedupe (List.mem_append_right _ (List.mem_singleton.mpr rfl)) hn', hrt⟩)
        · -- additional items present in the annotation but absent in the call: excluded by `AddP`
          rw [hnone] at ha
          exact absurd ha (by simp [AddP])

/-- the result of an untyped construction (arrays through `Items`, objects through `Properties`, scalars as they are)
    is never the marker -/
theorem generic_construct_notNP {env : Env} {kw : Kw} {sub : Sub} {v : JVal} {r : RVal}
    (h : (match v with
      | .arr xs => itemsCall kw sub xs
      | .obj kvs => propsCall env kw sub kvs
      | v => Res.ok (scalarConv v)) = .ok r) : r.isNP = false := by
  cases v with
  | arr xs => obtain ⟨ys, rfl⟩ := collect_arr h; rfl
  | obj kvs => obtain ⟨l, rfl⟩ := propsCall_anon h; rfl
  | null => simp only [Res.ok.injEq] at h; subst h; rfl
  | bool b => simp only [Res.ok.injEq] at h; subst h; rfl
  | num n => simp only [Res.ok.injEq] at h; subst h; rfl
  | str s => simp only [Res.ok.injEq] at h; subst h; rfl

theorem firstOk_head_of_all {rs : List Res} {r : RVal} (hf : firstOk rs = some r) (hc : anyCrash rs = false)
    (hr : anyReject rs = false) : rs.head? = some (.ok r) := by
  cases rs with
  | nil => cases hf
  | cons x xs =>
    cases x with
    | ok y => simp only [firstOk, Option.some.injEq] at hf; subst hf; rfl
    | reject => simp [anyReject] at hr
    | crash => simp [anyCrash] at hc

/-- **One node**: if the children's calls are typed by the children's annotations, the node's call is typed by
    the node's annotation. -/
theorem core_typed (env : Env) (c : Cls) (kw : Kw) (sub : Sub) (itemsT : List PyType) (addT : Option PyType)
    (elsT : List PyType) (hi : All2 P sub.items itemsT) (ha : AddP sub.addItems addT)
    (he : All2 P sub.elements elsT) (hyp : HypNode c kw itemsT addT elsT) :
    P (callCore env c kw sub) (annotCore c kw itemsT addT elsT) := by
  intro v r h
  simp only [callCore, create] at h
  obtain ⟨hv, hc⟩ := guard_ok h
  have htype := validators_typeOk hv
  -- members of a composition
  have member : ∀ (mode : Cls), attempt mode (sub.elements.map fun f => f (.val v)) = .ok r →
      ∃ t ∈ elsT, r.hasType t = true ∧ r.isNP = false := by
    intro mode hm
    have hmem := C04.firstOk_mem (C04.attempt_first hm)
    obtain ⟨f, hf, hfr⟩ := List.mem_map.mp hmem
    obtain ⟨t, ht, hP⟩ := he.exists_right hf
    exact ⟨t, ht, hP v r hfr⟩
  cases c with
  | element =>
    simp only [construct] at hc
    exact ⟨by simp [annotCore, RVal.hasType, generic_construct_notNP hc], generic_construct_notNP hc⟩
  | not =>
    simp only [construct] at hc
    have hnp : r.isNP = false := by
      cases hs : sub.elements with
      | nil => rw [hs] at hc; cases hc
      | cons f fs =>
        rw [hs] at hc
        cases fs with
        | cons g gs => cases hc
        | nil =>
          simp only at hc
          cases hf : f (.val v) with
          | ok x => rw [hf] at hc; cases hc
          | crash => rw [hf] at hc; cases hc
          | reject => rw [hf] at hc; simp only [Res.ok.injEq] at hc; subst hc; rfl
    exact ⟨by simp [annotCore, RVal.hasType, hnp], hnp⟩
  | nothing => simp [typeOk] at htype
  | null =>
    cases v <;> simp [typeOk] at htype
    simp only [construct, scalarConv, Res.ok.injEq] at hc
    subst hc
    exact ⟨rfl, rfl⟩
  | boolean =>
    cases v <;> simp [typeOk] at htype
    simp only [construct, scalarConv, Res.ok.injEq] at hc
    subst hc
    exact ⟨rfl, rfl⟩
  | string =>
    cases v <;> simp [typeOk] at htype
    simp only [construct, scalarConv, Res.ok.injEq] at hc
    subst hc
    exact ⟨rfl, rfl⟩
  | integer =>
    cases v with
    | num n =>
      cases n with
      | int i =>
        simp only [construct, scalarConv, Res.ok.injEq] at hc
        subst hc
        exact ⟨rfl, rfl⟩
      | flt a b => simp [typeOk] at htype
    | _ => simp [typeOk] at htype
  | number =>
    cases v with
    | num n =>
      simp only [construct] at hc
      cases hd : asDouble n with
      | none => rw [hd] at hc; cases hc
      | some d =>
        rw [hd] at hc
        simp only [Res.ok.injEq] at hc
        subst hc
        exact ⟨rfl, rfl⟩
    | _ => simp [typeOk] at htype
  | object n =>
    cases v with
    | obj kvs =>
      simp only [construct] at hc
      cases hp : propsCall env kw sub kvs with
      | ok x =>
        obtain ⟨l, rfl⟩ := propsCall_anon hp
        rw [hp] at hc
        simp only [Res.ok.injEq] at hc
        subst hc
        exact ⟨by simp [annotCore, RVal.hasType], rfl⟩
      | reject => rw [hp] at hc; cases hc
      | crash => rw [hp] at hc; cases hc
    | _ => simp [typeOk] at htype
  | array =>
    cases v with
    | arr xs =>
      simp only [construct] at hc
      obtain ⟨rs, rfl⟩ := collect_arr hc
      refine ⟨?_, rfl⟩
      have hitems := C04.array_items hc
      obtain ⟨hk, hn⟩ := hyp.1 rfl
      simp only [annotCore]
      apply list_sound
      intro x hx
      obtain ⟨i, hi', hxi⟩ := List.getElem_of_mem hx
      have hlt : i < xs.length := by rw [← hitems.1]; exact hi'
      obtain ⟨y, hy, hcall⟩ := hitems.2 i hlt
      have : y = x := by
        rw [List.getElem?_eq_getElem hi'] at hy
        rw [← hxi]; exact (Option.some.inj hy).symm
      subst this
      exact itemCall_typed hi ha hk hn i _ _ hcall
    | _ => simp [typeOk] at htype
  | anyOf =>
    simp only [construct] at hc
    obtain ⟨t, ht, hrt, hnp⟩ := member .anyOf hc
    exact ⟨union_sound ht (hyp.2.1 (Or.inl rfl)) hrt hnp, hnp⟩
  | oneOf =>
    simp only [construct] at hc
    obtain ⟨t, ht, hrt, hnp⟩ := member .oneOf hc
    exact ⟨union_sound ht (hyp.2.1 (Or.inr rfl)) hrt hnp, hnp⟩
  | allOf =>
    simp only [construct] at hc
    -- every member answered; the first one's result is returned
    have hfirst := C04.attempt_first hc
    have hcr : anyCrash (sub.elements.map fun f => f (.val v)) = false ∧
        anyReject (sub.elements.map fun f => f (.val v)) = false := by
      unfold attempt at hc
      by_cases h1 : anyCrash (sub.elements.map fun f => f (.val v)) = true
      · simp [h1] at hc
      · simp only [h1, Bool.false_eq_true, if_false, hfirst] at hc
        by_cases h2 : anyReject (sub.elements.map fun f => f (.val v)) = true
        · simp [h2] at hc
        · exact ⟨by simpa using h1, by simpa using h2⟩
    have hhead := firstOk_head_of_all hfirst hcr.1 hcr.2
    generalize hse : sub.elements = els at he hhead
    cases he with
    | nil => simp at hhead
    | @cons f t fs ts hft _ =>
      simp only [List.map_cons, List.head?_cons, Option.some.injEq] at hhead
      have := hft v r hhead
      refine ⟨?_, this.2⟩
      simp only [annotCore]
      rcases hyp.2.2 rfl with e | e
      · rw [e]; simpa using this.1
      · rw [e]; simp [RVal.hasType, this.2]

/-! ### the whole tree -/

mutual
theorem call_typed (env : Env) : ∀ (e : Elem), Hyp e → P (Elem.call env e) (annot e)
  | .mk c kw items addI cont props pats addP pn deps els, h => by
    rw [Hyp] at h
    obtain ⟨hnode, hi, ha, he⟩ := h
    rw [annot]
    unfold Elem.call
    exact core_typed env c kw _ _ _ _ (callList_typed env items hi) (callAddl_typed env addI ha)
      (callList_typed env els he) hnode
theorem callList_typed (env : Env) : ∀ (es : List Elem), HypL es → All2 P (callList env es) (annotList es)
  | [], _ => by rw [callList, annotList]; exact All2.nil
  | e :: es, h => by
    rw [HypL] at h
    rw [callList, annotList]
    exact All2.cons (call_typed env e h.1) (callList_typed env es h.2)
theorem callAddl_typed (env : Env) : ∀ (o : Option Elem), HypO o → AddP (callAddl env o) (annotOpt o)
  | none, _ => by rw [callAddl, annotOpt]; trivial
  | some e, h => by
    rw [HypO] at h
    rw [callAddl, annotOpt]
    exact call_typed env e h
end

/-- **Soundness of element annotations.**  For every element tree satisfying `Hyp`, every regex/format
    environment and every passed value: whatever the call returns belongs to the element's annotation and is
    not the not-passed marker. -/
theorem C19_element_sound (env : Env) (e : Elem) (h : Hyp e) (v : JVal) (r : RVal)
    (hr : e.call env (.val v) = .ok r) : r.hasType (annot e) = true ∧ r.isNP = false :=
  call_typed env e h v r hr

/-! ### the property wrapper -/

/-- the default, when there is one, is valid for its own element (the property's own restriction) -/
def DefaultValid (env : Env) (e : Elem) : Prop :=
  ∀ d, e.kw.default = some d → ∃ r, e.call env (.val d) = .ok r

theorem call_notPassed (env : Env) (e : Elem) :
    e.call env .notPassed = (match e.kw.default with
      | none => .ok .notPassed
      | some d => match e.call env (.val d) with
        | .ok r => .ok r
        | .reject => .ok (.raw d)
        | .crash => .crash) := by
  cases e with
  | mk c kw items addI cont props pats addP pn deps els =>
    simp only [Elem.call, callCore, Elem.kw]
    cases kw.default <;> rfl

/-- **Soundness of property annotations.**  The value an attribute receives — from the supplied member, from a
    valid default, or the not-passed marker — belongs to the annotation `_Property.annotation` prints; and when
    that annotation has no `Maybe` (the property is required or defaulted) the attribute is never the marker,
    provided a required property without default is actually supplied (which `Required` enforces, see
    `required_supplied`). -/
theorem C19_property_sound (env : Env) (k : Key) (e : Elem) (h : Hyp e) (hd : DefaultValid env e) (a : Arg) (r : RVal)
    (hr : e.call env a = .ok r)
    (hsupplied : k.required = true → e.kw.default = none → a ≠ .notPassed) :
    r.hasType (propAnnot k e) = true ∧ ((k.required = true ∨ e.kw.default.isSome = true) → r.isNP = false) := by
  cases a with
  | val v =>
    have := call_typed env e h v r hr
    refine ⟨?_, fun _ => this.2⟩
    unfold propAnnot
    split
    · exact this.1
    · simp [RVal.hasType, this.1]
  | notPassed =>
    rw [call_notPassed] at hr
    cases hdef : e.kw.default with
    | none =>
      rw [hdef] at hr
      simp only [Res.ok.injEq] at hr
      subst hr
      have hreq : k.required = false := by
        cases hk : k.required with
        | false => rfl
        | true => exact absurd rfl (hsupplied hk hdef)
      refine ⟨by simp [propAnnot, hreq, hdef, RVal.hasType, RVal.isNP], fun hc => ?_⟩
      rcases hc with hc | hc
      · rw [hreq] at hc; cases hc
      · cases hc
    | some d =>
      rw [hdef] at hr
      simp only at hr
      obtain ⟨r', hr'⟩ := hd d hdef
      rw [hr'] at hr
      simp only [Res.ok.injEq] at hr
      subst hr
      have := call_typed env e h d r' hr'
      exact ⟨by simp [propAnnot, hdef, this.1], fun _ => this.2⟩

/-- what `Required` enforces: on an accepted object every required property without default has its member
    supplied (so `hsupplied` above is met by every model that was actually built) -/
theorem required_supplied (kw : Kw) (props : List (Key × Option JVal)) (depNames : List (String × List String))
    (kvs : List (String × JVal)) (hok : objChecks kw props depNames kvs = .pass)
    (k : Key) (hk : (k, none) ∈ props) (hreq : k.required = true) : (JVal.keys kvs).contains k.src = true := by
  unfold objChecks at hok
  have h1 := V.ofBool_eq_pass.mp (V.and_eq_pass.mp hok).1
  rw [List.all_eq_true] at h1
  apply h1
  unfold requiredNames
  refine List.mem_append_right _ (List.mem_map.mpr ⟨(k, none), List.mem_filter.mpr ⟨hk, by simp [hreq]⟩, rfl⟩)

/-! ### the hypothesis cannot be dropped: `AllOf` annotated with a non-first member (finding C19-allof-annotation) -/

def qCls : Elem := .mk (.object "Q") { hasProps := true } [] none none
  [({ name := "a", required := true, source := some "a" }, Elem.leaf .integer)] [] none none [] []
def allOfBad : Elem := .mk .allOf {} [] none none [] [] none none [] [Elem.leaf .element { required := some ["a"] }, qCls]
def envNone : Env := { re := fun _ _ => false, fmt := fun _ => none }

theorem counter_allOf :
    (annot allOfBad).show = "Q" ∧
    (match allOfBad.call envNone (.val (.obj [("a", .num (.int 1))])) with
     | .ok r => r.hasType (annot allOfBad) == false
     | _ => false) = true := by decide +kernel

/-- finding C19-pattern-overlap-default.  `C19_property_sound` speaks of the property's own element being called; when a
    `patternProperties` pattern of the owning class also matches the property's JSON name, the class calls the composite
    `AllOf(element, *patterns)` instead, which carries no default: the attribute of a defaulted (hence "always present")
    property is then the not-passed marker.  The same class without the pattern fills the default. -/
def envA : Env := { re := fun p s => p == "^a" && s.startsWith "a", fmt := fun _ => none }
def holderPat : Elem := .mk (.object "Holder") { hasProps := true, hasPatProps := true } [] none none
  [({ name := "a", source := some "a" }, Elem.leaf .integer { default := some (.num (.int 3)) })]
  [({ name := "^a" }, Elem.trivial)] none none [] []
def holderPlain : Elem := .mk (.object "Holder") { hasProps := true } [] none none
  [({ name := "a", source := some "a" }, Elem.leaf .integer { default := some (.num (.int 3)) })] [] none none [] []

theorem counter_pattern_overlap_default :
    (match holderPat.call envA (.val (.obj [])) with
     | .ok (.inst _ [("a", .notPassed)]) => true
     | _ => false) = true ∧
    (match holderPlain.call envA (.val (.obj [])) with
     | .ok (.inst _ [("a", .num (.int 3))]) => true
     | _ => false) = true := by
  refine ⟨by decide +kernel, by decide +kernel⟩

/-- finding C19-key-collision (the C19 face of C04-key-collision): an input member spelled like the Python attribute name of a
    declared property whose JSON name is different lands on that attribute; the property is annotated `Maybe[List[Any]]`
    and holds a number. -/
def holderCollide : Elem := .mk (.object "C") { hasProps := true } [] none none
  [({ name := "a_b", source := some "a b" }, .mk .array { itemsKind := .single } [Elem.trivial] none none [] [] none none [] [])]
  [] none none [] []

theorem counter_key_collision :
    (match holderCollide.call envNone (.val (.obj [("a_b", .num (.flt 1 1))])) with
     | .ok (.inst _ [("a_b", .num _)]) => true
     | _ => false) = true := by decide +kernel

/-- non-vacuity: a tree with tuple items, a union and a class satisfies `Hyp` and is called successfully -/
def good : Elem := .mk .array { itemsKind := .tuple, addItemsB := false } [Elem.leaf .string, qCls] none none [] [] none none [] []
example : (annot good).show = "List[Union[str, Q]]" := by decide +kernel
example : (match good.call envNone (.val (.arr [.str "x", .obj [("a", .num (.int 1))]])) with
    | .ok r => r.hasType (annot good)
    | _ => false) = true := by decide +kernel

end Statham.C19
