/- C19 — placeholder while the correspondence is brought up; theorems follow. -/
import StathamModel.Py.Module
import StathamModel.Tie
namespace Statham.C19
open Statham
example : (propAnnot { name := "a" } (Elem.leaf .string)).show = "Maybe[str]" := by decide +kernel
end Statham.C19
