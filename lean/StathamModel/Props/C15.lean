/-
  C15 — a subclass model means its parent's schema plus its own additions.
-/
import StathamModel.Inherit
import StathamModel.Lemmas.DictMerge
import StathamModel.Validate
import StathamModel.SerJson
import StathamModel.Tie
namespace Statham.C15
open Statham

/-! ## 1. A chain of class statements equals one flat statement -/

theorem over_assoc (a b c : ClassArgs) : (a.over b).over c = a.over (b.over c) := by
  simp [ClassArgs.over, Option.or_assoc]

theorem nonEmptyDoc_idem (a : Option String) : nonEmptyDoc (nonEmptyDoc a) = nonEmptyDoc a := by
  cases a with
  | none => rfl
  | some s => by_cases h : s = "" <;> simp [nonEmptyDoc, h]

theorem nonEmptyDoc_or (a b : Option String) :
    nonEmptyDoc (nonEmptyDoc a <|> nonEmptyDoc b) = (nonEmptyDoc a <|> nonEmptyDoc b) := by
  cases a with
  | none => simpa [nonEmptyDoc] using nonEmptyDoc_idem b
  | some s =>
    by_cases h : s = ""
    · simpa [nonEmptyDoc, h] using nonEmptyDoc_idem b
    · simp [nonEmptyDoc, h]

/-- a child of a child is a child of the parent with the two statements merged -/
theorem inherit_inherit (p : Cfg) (d1 d2 : ClassDecl) (h1 : keysDistinct d1.props) :
    inherit (inherit p d1) d2 = inherit p (d1.andThen d2) := by
  simp only [inherit, ClassDecl.andThen, over_assoc, nonEmptyDoc_or, dictMerge_assoc _ _ _ h1, Option.or_assoc,
    Option.orElse_eq_or, Cfg.mk.injEq, true_and, and_true]
  simp [HOrElse.hOrElse, OrElse.orElse, Option.or_assoc]

/-- every class statement's body is a dict: property names are distinct -/
def bodiesAreDicts (ds : List ClassDecl) : Prop := ∀ d ∈ ds, keysDistinct d.props

theorem andThen_distinct (d1 d2 : ClassDecl) (h : keysDistinct d1.props) : keysDistinct (d1.andThen d2).props :=
  keysDistinct_dictMerge _ _ h

/-- **Multi-level chains**: declaring `d, d₁, …, dₙ` one below the other gives exactly the class that the single
    merged statement gives. -/
theorem chain_flat (p : Cfg) (d : ClassDecl) (ds : List ClassDecl) (hd : keysDistinct d.props) :
    ds.foldl inherit (inherit p d) = inherit p (ds.foldl ClassDecl.andThen d) := by
  induction ds generalizing d with
  | nil => rfl
  | cons d' ds ih =>
    simp only [List.foldl_cons]
    rw [inherit_inherit p d d' hd]
    exact ih (d.andThen d') (andThen_distinct d d' hd)

/-- **The subclass validates exactly like the flat class**: same result for every environment and argument -/
theorem C15_validates_like_flat (env : Env) (name : String) (d : ClassDecl) (ds : List ClassDecl) (hd : keysDistinct d.props)
    (a : Arg) :
    ((ds.foldl inherit (inherit Cfg.object d)).toElem name).call env a =
    ((inherit Cfg.object (ds.foldl ClassDecl.andThen d)).toElem name).call env a := by
  rw [chain_flat _ d ds hd]

/-- … and serializes exactly like it -/
theorem C15_serializes_like_flat (defs : List (String × Elem)) (name : String) (d : ClassDecl) (ds : List ClassDecl)
    (hd : keysDistinct d.props) :
    serElem none defs ((ds.foldl inherit (inherit Cfg.object d)).toElem name) =
    serElem none defs ((inherit Cfg.object (ds.foldl ClassDecl.andThen d)).toElem name) := by
  rw [chain_flat _ d ds hd]

/-- what "merged" means, keyword by keyword: the child's argument where passed, else the parent's -/
theorem merged_keyword (d1 d2 : ClassDecl) :
    (d1.andThen d2).args.minProperties = (d2.args.minProperties <|> d1.args.minProperties) ∧
    (d1.andThen d2).args.required = (d2.args.required <|> d1.args.required) ∧
    (d1.andThen d2).args.addProps = (d2.args.addProps <|> d1.args.addProps) := ⟨rfl, rfl, rfl⟩

/-- … and property by property: the child's where the body declares that name -/
theorem merged_property_own (d1 d2 : ClassDecl) (n : String) (c : Cell) (h : dictGet? d2.props n = some c)
    (hd : keysDistinct d2.props) : dictGet? (d1.andThen d2).props n = some c :=
  dictGet?_dictMerge_right d1.props d2.props n c hd h

/-- … else the parent's -/
theorem merged_property_inherited (d1 d2 : ClassDecl) (n : String) (h : dictGet? d2.props n = none) :
    dictGet? (d1.andThen d2).props n = dictGet? d1.props n :=
  dictGet?_dictMerge_left d1.props d2.props n h

/-! ## 2. Classes never share a `_Property` object: reconfiguring one class leaves every other class alone -/

/-- every property identity a class holds exists, and no identity is held by two classes -/
def Inv (w : World) : Prop :=
  (∀ (c : Nat) (cls : ClsObj), w.classes[c]? = some cls → ∀ p ∈ cls.props, p.2 < w.cells.length) ∧
  (∀ (c1 c2 : Nat) (cls1 cls2 : ClsObj) (n1 n2 : String) (id : Nat), w.classes[c1]? = some cls1 → w.classes[c2]? = some cls2 →
    (n1, id) ∈ cls1.props → (n2, id) ∈ cls2.props → c1 = c2)

theorem inv_init : Inv World.init := by
  constructor
  · intro c cls h p hp
    match c, h with
    | 0, h => simp [World.init] at h; subst h; cases hp
  · intro c1 c2 cls1 cls2 n1 n2 id h1 h2 m1 _
    match c1, h1 with
    | 0, h1 => simp [World.init] at h1; subst h1; cases m1

theorem alloc_cells (cells : List Cell) (l : List (String × Cell)) : (alloc cells l).1 = cells ++ l.map (·.2) := by
  induction l generalizing cells with
  | nil => simp [alloc]
  | cons p r ih => obtain ⟨n, c⟩ := p; simp [alloc, ih]

theorem alloc_ids (cells : List Cell) (l : List (String × Cell)) (q : String × Nat) (h : q ∈ (alloc cells l).2) :
    cells.length ≤ q.2 ∧ q.2 < (alloc cells l).1.length := by
  induction l generalizing cells with
  | nil => simp [alloc] at h
  | cons p r ih =>
    obtain ⟨n, c⟩ := p
    simp only [alloc, List.mem_cons] at h ⊢
    rcases h with rfl | h
    · simp [alloc_cells]
    · have := ih (cells ++ [c]) h
      simp only [List.length_append, List.length_cons, List.length_nil] at this
      exact ⟨by omega, this.2⟩

theorem derefProps_congr (cells cells' : List Cell) (props : List (String × Nat))
    (h : ∀ p ∈ props, cells'[p.2]? = cells[p.2]?) : derefProps cells' props = derefProps cells props := by
  unfold derefProps
  induction props with
  | nil => rfl
  | cons p r ih =>
    simp only [List.filterMap_cons, h p (List.mem_cons_self ..)]
    rw [ih fun q hq => h q (List.mem_cons_of_mem _ hq)]

theorem view_congr (w w' : World) (c : Nat) (hc : w'.classes[c]? = w.classes[c]?)
    (hcells : ∀ cls, w.classes[c]? = some cls → ∀ p ∈ cls.props, w'.cells[p.2]? = w.cells[p.2]?) :
    w'.view c = w.view c := by
  unfold World.view
  rw [hc]
  cases h : w.classes[c]? with
  | none => rfl
  | some cls => simp only [Option.map_some]; rw [derefProps_congr _ _ _ (hcells cls h)]

theorem getElemOpt_append_lt {α} (l r : List α) (i : Nat) (h : i < l.length) : (l ++ r)[i]? = l[i]? := by
  rw [List.getElem?_append_left h]

/-- **One step aimed elsewhere leaves class `c` exactly as it was.** -/
theorem step_view_other (w : World) (op : Op) (c : Nat) (hinv : Inv w) (hc : c < w.classes.length)
    (ht : op.target ≠ some c) : (step w op).view c = w.view c := by
  have hbound : ∀ cls, w.classes[c]? = some cls → ∀ p ∈ cls.props, p.2 < w.cells.length := fun cls h => hinv.1 c cls h
  have modify_other : ∀ (t : Nat) (name : String) (f : Cell → Cell), t ≠ c → (modifyCell w t name f).view c = w.view c := by
    intro t name f htc
    unfold modifyCell
    cases h1 : w.classes[t]? with
    | none => rfl
    | some tcls =>
      simp only
      cases h2 : dictGet? tcls.props name with
      | none => rfl
      | some id =>
        simp only
        cases h3 : w.cells[id]? with
        | none => rfl
        | some cell =>
          simp only
          apply view_congr
          · rfl
          · intro cls hcls p hp
            have hmem : (name, id) ∈ tcls.props := dictGet?_mem _ _ _ h2
            have hne : p.2 ≠ id := by
              intro e
              have := hinv.2 c t cls tcls p.1 name id hcls h1 (by rw [← e]; exact hp) hmem
              exact htc this.symm
            simp only
            rw [List.getElem?_set_ne (Ne.symm hne)]
  cases op with
  | define parent d =>
    simp only [step]
    cases hp : w.classes[parent]? with
    | none => rfl
    | some p =>
      simp only
      apply view_congr
      · simp only; rw [getElemOpt_append_lt _ _ _ hc]
      · intro cls hcls q hq
        simp only [alloc_cells, List.append_assoc]
        rw [getElemOpt_append_lt _ _ _ (hbound cls hcls q hq)]
  | setKw t patch =>
    have htc : t ≠ c := fun e => ht (by rw [Op.target, e])
    simp only [step]
    cases h : w.classes[t]? with
    | none => rfl
    | some cls =>
      simp only
      apply view_congr
      · simp only; rw [List.getElem?_set_ne htc]
      · intros; rfl
  | setProp t name p =>
    have htc : t ≠ c := fun e => ht (by rw [Op.target, e])
    simp only [step]
    cases h : w.classes[t]? with
    | none => rfl
    | some cls =>
      simp only
      apply view_congr
      · simp only; rw [List.getElem?_set_ne htc]
      · intro cls' hcls q hq
        simp only
        rw [getElemOpt_append_lt _ _ _ (hbound cls' hcls q hq)]
  | delProp t name =>
    have htc : t ≠ c := fun e => ht (by rw [Op.target, e])
    simp only [step]
    cases h : w.classes[t]? with
    | none => rfl
    | some cls =>
      simp only
      apply view_congr
      · simp only; rw [List.getElem?_set_ne htc]
      · intros; rfl
  | setRequired t name b =>
    have htc : t ≠ c := fun e => ht (by rw [Op.target, e])
    exact modify_other t name _ htc
  | setElement t name e =>
    have htc : t ≠ c := fun e' => ht (by rw [Op.target, e'])
    exact modify_other t name _ htc
  | use t => rfl

theorem inv_of_same (w w' : World) (hlen : w'.cells.length = w.cells.length) (hcls : w'.classes = w.classes)
    (h : Inv w) : Inv w' := by
  unfold Inv at *
  rw [hlen, hcls]
  exact h

theorem inv_update (w : World) (t : Nat) (cls cls' : ClsObj) (cells' : List Cell) (ht : w.classes[t]? = some cls)
    (hlen : w.cells.length ≤ cells'.length)
    (hprops : ∀ q ∈ cls'.props, q ∈ cls.props ∨ (w.cells.length ≤ q.2 ∧ q.2 < cells'.length))
    (h : Inv w) : Inv { cells := cells', classes := w.classes.set t cls' } := by
  have htl : t < w.classes.length := by
    rcases Nat.lt_or_ge t w.classes.length with h' | h'
    · exact h'
    · rw [List.getElem?_eq_none h'] at ht; cases ht
  -- what a class of the new world is
  have look : ∀ (c : Nat) (x : ClsObj), (w.classes.set t cls')[c]? = some x →
      (c = t ∧ x = cls') ∨ (c ≠ t ∧ w.classes[c]? = some x) := by
    intro c x hx
    by_cases e : t = c
    · subst e
      rw [List.getElem?_set_self htl] at hx
      exact Or.inl ⟨rfl, (Option.some.inj hx).symm⟩
    · rw [List.getElem?_set_ne e] at hx
      exact Or.inr ⟨fun e' => e e'.symm, hx⟩
  constructor
  · intro c x hx q hq
    simp only at hx ⊢
    rcases look c x hx with ⟨_, rfl⟩ | ⟨_, hold⟩
    · rcases hprops q hq with hq | hq
      · exact Nat.lt_of_lt_of_le (h.1 t cls ht q hq) hlen
      · exact hq.2
    · exact Nat.lt_of_lt_of_le (h.1 c x hold q hq) hlen
  · intro c1 c2 x1 x2 n1 n2 id h1 h2 m1 m2
    simp only at h1 h2
    rcases look c1 x1 h1 with ⟨e1, rfl⟩ | ⟨e1, o1⟩ <;> rcases look c2 x2 h2 with ⟨e2, rfl⟩ | ⟨e2, o2⟩
    · rw [e1, e2]
    · rcases hprops _ m1 with m1 | m1
      · exact absurd (h.2 t c2 cls x2 n1 n2 id ht o2 m1 m2) (fun e => e2 e.symm)
      · exact absurd (h.1 c2 x2 o2 _ m2) (by simp only; omega)
    · rcases hprops _ m2 with m2 | m2
      · exact absurd (h.2 c1 t x1 cls n1 n2 id o1 ht m1 m2) e1
      · exact absurd (h.1 c1 x1 o1 _ m1) (by simp only; omega)
    · exact h.2 c1 c2 x1 x2 n1 n2 id o1 o2 m1 m2

theorem modifyCell_inv (w : World) (t : Nat) (name : String) (f : Cell → Cell) (h : Inv w) : Inv (modifyCell w t name f) := by
  unfold modifyCell
  cases w.classes[t]? with
  | none => exact h
  | some cls =>
    simp only
    cases dictGet? cls.props name with
    | none => exact h
    | some id =>
      simp only
      cases w.cells[id]? with
      | none => exact h
      | some cell => exact inv_of_same w _ (by simp) rfl h

/-- **The invariant is preserved by every operation.** -/
theorem step_inv (w : World) (op : Op) (h : Inv w) : Inv (step w op) := by
  cases op with
  | define parent d =>
    simp only [step]
    cases hp : w.classes[parent]? with
    | none => exact h
    | some p =>
      simp only
      -- abbreviations
      generalize hA : alloc w.cells (derefProps w.cells p.props) = A
      generalize hB : alloc A.1 d.props = B
      have lenA : w.cells.length ≤ A.1.length := by rw [← hA, alloc_cells]; simp
      have lenB : A.1.length ≤ B.1.length := by rw [← hB, alloc_cells]; simp
      have fresh : ∀ q ∈ dictMerge A.2 B.2, w.cells.length ≤ q.2 ∧ q.2 < B.1.length := by
        intro q hq
        rcases mem_dictMerge _ _ q hq with hq | hq
        · have := alloc_ids w.cells _ q (by rw [hA]; exact hq)
          rw [hA] at this
          exact ⟨this.1, Nat.lt_of_lt_of_le this.2 lenB⟩
        · have := alloc_ids A.1 _ q (by rw [hB]; exact hq)
          rw [hB] at this
          exact ⟨Nat.le_trans lenA this.1, this.2⟩
      have look : ∀ (c : Nat) (x : ClsObj) (nc : ClsObj), (w.classes ++ [nc])[c]? = some x →
          (c = w.classes.length ∧ x = nc) ∨ (c < w.classes.length ∧ w.classes[c]? = some x) := by
        intro c x nc hx
        rcases Nat.lt_or_ge c w.classes.length with hlt | hge
        · rw [List.getElem?_append_left hlt] at hx; exact Or.inr ⟨hlt, hx⟩
        · rw [List.getElem?_append_right hge] at hx
          have : c - w.classes.length = 0 := by
            rcases Nat.eq_zero_or_pos (c - w.classes.length) with z | z
            · exact z
            · rw [List.getElem?_eq_none (by simp only [List.length_cons, List.length_nil]; omega)] at hx; cases hx
          rw [this] at hx
          exact Or.inl ⟨by omega, by simpa using hx.symm⟩
      constructor
      · intro c x hx q hq
        simp only at hx ⊢
        rcases look c x _ hx with ⟨_, rfl⟩ | ⟨_, hold⟩
        · exact (fresh q hq).2
        · exact Nat.lt_of_lt_of_le (h.1 c x hold q hq) (Nat.le_trans lenA lenB)
      · intro c1 c2 x1 x2 n1 n2 id h1 h2 m1 m2
        simp only at h1 h2
        rcases look c1 x1 _ h1 with ⟨e1, rfl⟩ | ⟨_, o1⟩ <;> rcases look c2 x2 _ h2 with ⟨e2, rfl⟩ | ⟨_, o2⟩
        · rw [e1, e2]
        · exact absurd (h.1 c2 x2 o2 _ m2) (by have := (fresh _ m1).1; simp only at this ⊢; omega)
        · exact absurd (h.1 c1 x1 o1 _ m1) (by have := (fresh _ m2).1; simp only at this ⊢; omega)
        · exact h.2 c1 c2 x1 x2 n1 n2 id o1 o2 m1 m2
  | setKw t patch =>
    simp only [step]
    cases ht : w.classes[t]? with
    | none => exact h
    | some cls => exact inv_update w t cls _ w.cells ht (Nat.le_refl _) (fun q hq => Or.inl hq) h
  | setProp t name p =>
    simp only [step]
    cases ht : w.classes[t]? with
    | none => exact h
    | some cls =>
      refine inv_update w t cls _ (w.cells ++ [p]) ht (by simp) (fun q hq => ?_) h
      rcases mem_dictSet _ _ _ q hq with rfl | hq
      · exact Or.inr ⟨Nat.le_refl _, by simp⟩
      · exact Or.inl hq
  | delProp t name =>
    simp only [step]
    cases ht : w.classes[t]? with
    | none => exact h
    | some cls => exact inv_update w t cls _ w.cells ht (Nat.le_refl _) (fun q hq => Or.inl ((List.mem_filter.mp hq).1)) h
  | setRequired t name b => exact modifyCell_inv w t name _ h
  | setElement t name e => exact modifyCell_inv w t name _ h
  | use t => exact h

theorem step_classes_mono (w : World) (op : Op) : w.classes.length ≤ (step w op).classes.length := by
  have mc : ∀ t name f, (modifyCell w t name f).classes = w.classes := by
    intro t name f
    unfold modifyCell
    cases w.classes[t]? with
    | none => rfl
    | some cls =>
      simp only
      cases dictGet? cls.props name with
      | none => rfl
      | some id => simp only; cases w.cells[id]? <;> rfl
  cases op with
  | define parent d => simp only [step]; cases w.classes[parent]? <;> simp
  | setKw t patch => simp only [step]; cases w.classes[t]? <;> simp
  | setProp t name p => simp only [step]; cases w.classes[t]? <;> simp
  | delProp t name => simp only [step]; cases w.classes[t]? <;> simp
  | setRequired t name b => simp only [step]; rw [mc]; exact Nat.le_refl _
  | setElement t name e => simp only [step]; rw [mc]; exact Nat.le_refl _
  | use t => exact Nat.le_refl _

theorem run_inv (w : World) (ops : List Op) (h : Inv w) : Inv (run w ops) := by
  induction ops generalizing w with
  | nil => exact h
  | cons op r ih => exact ih _ (step_inv w op h)

/-- **Defining, using or reconfiguring other classes never changes class `c`**: after any history none of whose
    operations is aimed at `c` — class statements (children of `c` included), uses, keyword assignments,
    property additions / replacements / deletions, flag and element changes on properties of any other class,
    in any order — class `c` is, by value, exactly what it was. -/
theorem C15_parent_untouched (w : World) (ops : List Op) (c : Nat) (hinv : Inv w) (hc : c < w.classes.length)
    (hops : ∀ op ∈ ops, op.target ≠ some c) : (run w ops).view c = w.view c := by
  induction ops generalizing w with
  | nil => rfl
  | cons op r ih =>
    have := ih (step w op) (step_inv w op hinv) (Nat.lt_of_lt_of_le hc (step_classes_mono w op))
      (fun o ho => hops o (List.mem_cons_of_mem _ ho))
    show (run (step w op) r).view c = w.view c
    rw [this, step_view_other w op c hinv hc (hops op (List.mem_cons_self ..))]

/-- from a fresh interpreter every reachable world satisfies the invariant -/
theorem reachable_inv (ops : List Op) : Inv (run World.init ops) := run_inv _ _ inv_init

/-- and therefore so does its view as an element tree: verdicts and serialization of `c` are unchanged -/
theorem C15_parent_behaviour_untouched (ops₀ ops : List Op) (c : Nat) (hc : c < (run World.init ops₀).classes.length)
    (hops : ∀ op ∈ ops, op.target ≠ some c) (env : Env) (a : Arg) (defs : List (String × Elem)) :
    ((run (run World.init ops₀) ops).viewElem c).map (fun e => (e.call env a, serElem none defs e)) =
    ((run World.init ops₀).viewElem c).map (fun e => (e.call env a, serElem none defs e)) := by
  unfold World.viewElem
  rw [C15_parent_untouched _ ops c (reachable_inv ops₀) hc hops]

/-! ### Non-vacuity: a parent, a child overriding a property and a keyword, then the child reconfigured -/

def strElem : Elem := Elem.leaf .string
def intElem : Elem := Elem.leaf .integer
def demo : List Op :=
  [.define 0 { name := "Base", args := { addProps := some (.flag false) }, props := [("name", { required := true, elem := strElem })] },
   .define 1 { name := "Child", args := { minProperties := some (.int 1) }, props := [("age", { elem := intElem })] }]
def reconf : List Op := [.setRequired 2 "name" false, .setProp 2 "extra" { elem := strElem }, .delProp 2 "age", .use 2]

example : (run World.init demo).classes.length = 3 := by decide +kernel
example : ∀ op ∈ reconf, op.target ≠ some 1 := by decide
/-- the child really changed, the parent did not -/
example : (((run (run World.init demo) reconf).view 2).map (·.2.props.map (·.1))) = some ["name", "extra"] := by decide +kernel
example : (((run (run World.init demo) reconf).view 1).map (·.2.props.map fun p => (p.1, p.2.required))) = some [("name", true)] := by
  decide +kernel
/-- a world that shares a `_Property` object between parent and child violates the invariant, and there the
    child's reconfiguration does reach the parent (what the cloning in `ObjectMeta.__new__` prevents) -/
def shared : World :=
  { cells := [{ required := true, elem := strElem }],
    classes := [{ name := "Object", args := {}, props := [] }, { name := "Base", args := {}, props := [("name", 0)] },
                { name := "Child", args := {}, props := [("name", 0)] }] }
example : ¬ Inv shared := fun h => absurd (h.2 1 2 _ _ "name" "name" 0 rfl rfl (List.mem_cons_self ..) (List.mem_cons_self ..)) (by decide)
example : ((step shared (.setRequired 2 "name" false)).view 1).map (·.2.props.map fun p => p.2.required) = some [false] := by
  decide +kernel

end Statham.C15
