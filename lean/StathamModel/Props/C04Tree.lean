/-
  C04 at every depth: the result of a successful call holds the whole input value, unaltered.

  `embeds r v`: `r` is `v` — the same scalar (numbers by value), a list holding the items' results in
  order, an object result holding, for every input member, a member of the same key whose result embeds the
  member's value.  Defaults and class instances add structure; nothing of the input is dropped or changed.

  Hypotheses: `NoRename e` — no property of the tree is stored under a name different from its JSON key
  (otherwise two keys can meet in one attribute: finding C04-key-collision); `okVal v` — objects of the value
  have distinct keys (a Python dict) and integers are below 2^53 in magnitude (beyond that `Number` rounds:
  finding C04-int-precision).
-/
import StathamModel.Props.C04
import StathamModel.Lemmas.EqRefl
import StathamModel.Lemmas.DictMerge
import StathamModel.Props.C19
import StathamModel.Lemmas.AssembleObj
import StathamModel.Lemmas.Build
namespace Statham.C04
open Statham

mutual
def embeds : RVal → JVal → Bool
  | r, .null => (match r with | .null => true | .raw w => JVal.pyEq w .null | _ => false)
  | r, .bool b => (match r with | .bool b' => b == b' | .raw w => JVal.pyEq w (.bool b) | _ => false)
  | r, .num n => (match r with | .num m => Num.eqv m n | .raw w => JVal.pyEq w (.num n) | _ => false)
  | r, .str s => (match r with | .str s' => s == s' | .raw w => JVal.pyEq w (.str s) | _ => false)
  | r, .arr xs => (match r with | .arr rs => embedsList rs xs | .raw w => JVal.pyEq w (.arr xs) | _ => false)
  | r, .obj kvs => (match r with
      | .anon l => embedsKV l kvs
      | .inst _ l => embedsKV l kvs
      | .raw w => JVal.pyEq w (.obj kvs)
      | _ => false)
def embedsList : List RVal → List JVal → Bool
  | [], [] => true
  | r :: rs, x :: xs => embeds r x && embedsList rs xs
  | _, _ => false
/-- every input member has a result member of the same key that embeds its value -/
def embedsKV : List (String × RVal) → List (String × JVal) → Bool
  | _, [] => true
  | l, (k, x) :: kvs => l.any (fun p => p.1 == k && embeds p.2 x) && embedsKV l kvs
end

/-- integers small enough to be exact doubles -/
def smallInts : JVal → Bool
  | .num (.int i) => i.natAbs < 9007199254740992
  | .arr xs => siL xs
  | .obj kvs => siKV kvs
  | _ => true
where
  siL : List JVal → Bool
    | [] => true
    | x :: xs => smallInts x && siL xs
  siKV : List (String × JVal) → Bool
    | [] => true
    | (_, v) :: r => smallInts v && siKV r

def okVal (v : JVal) : Prop := distinctKeys v = true ∧ smallInts v = true

theorem okVal_item {xs : List JVal} (h : okVal (.arr xs)) {x : JVal} (hx : x ∈ xs) : okVal x := by
  obtain ⟨h1, h2⟩ := h
  simp only [distinctKeys, smallInts] at h1 h2
  induction xs with
  | nil => cases hx
  | cons y ys ih =>
    simp only [distinctKeys.dkL, smallInts.siL, Bool.and_eq_true] at h1 h2
    rcases List.mem_cons.mp hx with rfl | hx
    · exact ⟨h1.1, h2.1⟩
    · exact ih hx h1.2 h2.2

theorem okVal_member {kvs : List (String × JVal)} (h : okVal (.obj kvs)) {k : String} {x : JVal} (hx : (k, x) ∈ kvs) :
    okVal x := by
  obtain ⟨h1, h2⟩ := h
  simp only [distinctKeys, smallInts, Bool.and_eq_true] at h1 h2
  have h1' := h1.2
  clear h1
  induction kvs with
  | nil => cases hx
  | cons y ys ih =>
    obtain ⟨k', y'⟩ := y
    simp only [distinctKeys.dkKV, smallInts.siKV, Bool.and_eq_true] at h1' h2
    rcases List.mem_cons.mp hx with he | hx
    · simp only [Prod.mk.injEq] at he
      obtain ⟨_, rfl⟩ := he
      exact ⟨h1'.1, h2.1⟩
    · exact ih hx h2.2 h1'.2

/-! ### untouched values -/

theorem embeds_raw (v : JVal) (h : distinctKeys v = true) : embeds (.raw v) v = true := by
  cases v <;> simp only [embeds] <;> exact pyEq_refl _ h

mutual
theorem embeds_trivial : ∀ (v : JVal), embeds (trivialConv v) v = true
  | .null => rfl
  | .bool b => by simp [trivialConv, embeds]
  | .num n => by simp [trivialConv, embeds, Num.eqv]
  | .str s => by simp [trivialConv, embeds]
  | .arr xs => by simp only [trivialConv, embeds]; exact embedsList_trivial xs
  | .obj kvs => by simp only [trivialConv, embeds]; exact embedsKV_trivial kvs kvs (fun p hp => hp)
theorem embedsList_trivial : ∀ (xs : List JVal), embedsList (trivialConv.conv xs) xs = true
  | [] => rfl
  | x :: xs => by simp only [trivialConv.conv, embedsList, embeds_trivial x, embedsList_trivial xs]; rfl
theorem embedsKV_trivial : ∀ (all kvs : List (String × JVal)), (∀ p ∈ kvs, p ∈ all) →
    embedsKV (trivialConv.convKV all) kvs = true
  | _, [], _ => by rw [embedsKV]
  | all, (k, x) :: kvs, h => by
    rw [embedsKV, embedsKV_trivial all kvs (fun p hp => h p (List.mem_cons_of_mem _ hp))]
    simp only [Bool.and_true, List.any_eq_true]
    refine ⟨(k, trivialConv x), ?_, by simp [embeds_trivial x]⟩
    have hm : (k, x) ∈ all := h (k, x) (List.mem_cons_self ..)
    clear h
    induction all with
    | nil => cases hm
    | cons a r ih =>
      obtain ⟨k', x'⟩ := a
      simp only [trivialConv.convKV]
      rcases List.mem_cons.mp hm with he | hm
      · simp only [Prod.mk.injEq] at he
        obtain ⟨rfl, rfl⟩ := he
        exact List.mem_cons_self ..
      · exact List.mem_cons_of_mem _ (ih hm)
end

theorem embeds_scalar (v : JVal) (hs : match v with | .arr _ => False | .obj _ => False | _ => True) :
    embeds (scalarConv v) v = true := by
  cases v with
  | arr xs => exact absurd hs id
  | obj kvs => exact absurd hs id
  | null => rfl
  | bool b => simp [scalarConv, embeds]
  | num n => simp [scalarConv, embeds, Num.eqv]
  | str s => simp [scalarConv, embeds]

/-! ### one node -/

/-- a call that hands back every passed value complete and unaltered -/
def P (f : Call) : Prop := ∀ v r, okVal v → f (.val v) = .ok r → embeds r v = true

theorem P_trivial : P trivialCall := by
  intro v r _ h
  simp only [trivialCall, Res.ok.injEq] at h
  subst h
  exact embeds_trivial v

theorem P_nothing : P nothingCall := by
  intro v r _ h
  simp [nothingCall] at h

/-- `AllOf` built on the fly: the first member's result -/
theorem P_allOfCall {fs : List Call} (h : ∀ f ∈ fs, P f) : P (allOfCall fs) := by
  intro v r hv hr
  simp only [allOfCall] at hr
  have hmem := firstOk_mem (attempt_first hr)
  obtain ⟨f, hf, hfr⟩ := List.mem_map.mp hmem
  exact h f hf v r hv hfr

structure SubOK (sub : Sub) : Prop where
  items : ∀ f ∈ sub.items, P f
  addItems : ∀ p, sub.addItems = some p → P p.2
  props : ∀ p ∈ sub.props, P p.2.2 ∧ p.1.src = p.1.name
  patProps : ∀ p ∈ sub.patProps, P p.2
  addProps : ∀ f, sub.addProps = some f → P f
  elements : ∀ f ∈ sub.elements, P f

theorem P_itemCall {kw : Kw} {sub : Sub} (h : SubOK sub) (idx : Nat) : P (itemCall resAlg kw sub idx) := by
  unfold itemCall
  cases kw.itemsKind with
  | none => exact P_trivial
  | single =>
    simp only
    cases hh : sub.items.head? with
    | none => exact P_trivial
    | some f => exact h.items f (List.mem_of_head? hh)
  | tuple =>
    simp only
    cases hg : sub.items[idx]? with
    | some f => exact h.items f (List.mem_of_getElem? hg)
    | none =>
      simp only [Option.getD_none]
      unfold additionalItemCall
      cases ha : sub.addItems with
      | some p => exact h.addItems p ha
      | none =>
        simp only
        by_cases hb : kw.addItemsB = true
        · simp only [hb, if_true]; exact P_trivial
        · simp only [hb, Bool.false_eq_true, if_false]; exact P_nothing

theorem itemsCallFrom_embeds {kw : Kw} {sub : Sub} (h : SubOK sub) :
    ∀ (ys : List JVal) (off : Nat) (qs : List RVal), (∀ y ∈ ys, okVal y) →
      itemsCallFrom resAlg kw sub off ys = qs.map Res.ok → embedsList qs ys = true
  | [], _, qs, _, hq => by
    cases qs with
    | nil => rfl
    | cons q qs => simp [itemsCallFrom] at hq
  | y :: ys, off, qs, hok, hq => by
    cases qs with
    | nil => simp [itemsCallFrom] at hq
    | cons q qs =>
      simp only [itemsCallFrom, List.map_cons, List.cons.injEq] at hq
      rw [embedsList, P_itemCall h off y q (hok y (List.mem_cons_self ..)) hq.1,
        itemsCallFrom_embeds h ys (off + 1) qs (fun z hz => hok z (List.mem_cons_of_mem _ hz)) hq.2]
      rfl

theorem items_embeds {kw : Kw} {sub : Sub} (h : SubOK sub) {xs : List JVal} {r : RVal} (hv : okVal (.arr xs))
    (hr : itemsCall kw sub xs = .ok r) : embeds r (.arr xs) = true := by
  obtain ⟨rs, rfl⟩ := C19.collect_arr hr
  simp only [embeds]
  exact itemsCallFrom_embeds h xs 0 rs (fun y hy => okVal_item hv hy) (itemsCall_ok hr)

theorem findDeclared_aux (k : String) (Q : Key → Call → Prop) :
    ∀ (ps : List (Key × Option JVal × Call)) (acc : Option (Key × Call)),
      (∀ key f, acc = some (key, f) → Q key f) → (∀ p ∈ ps, p.1.src = k → Q p.1 p.2.2) →
      ∀ key f, ps.foldl (fun acc p => if p.1.src == k then some (p.1, p.2.2) else acc) acc = some (key, f) → Q key f
  | [], acc, hacc, _, key, f, hf => hacc key f hf
  | p :: ps, acc, hacc, hps, key, f, hf => by
    simp only [List.foldl_cons] at hf
    refine findDeclared_aux k Q ps _ ?_ (fun q hq => hps q (List.mem_cons_of_mem _ hq)) key f hf
    intro key' f' he
    by_cases hc : (p.1.src == k) = true
    · simp only [hc, if_true, Option.some.injEq, Prod.mk.injEq] at he
      rw [← he.1, ← he.2]
      exact hps p (List.mem_cons_self ..) (by simpa using hc)
    · simp only [hc, Bool.false_eq_true, if_false] at he
      exact hacc key' f' he

theorem findDeclared_spec {props : List (Key × Option JVal × Call)} {k : String} {key : Key} {f : Call}
    (h : findDeclared props k = some (key, f)) : ∃ p ∈ props, p.1 = key ∧ p.2.2 = f ∧ key.src = k := by
  unfold findDeclared at h
  exact findDeclared_aux k (fun key f => ∃ p ∈ props, p.1 = key ∧ p.2.2 = f ∧ key.src = k) props none
    (fun _ _ hn => by cases hn) (fun p hp hs => ⟨p, hp, rfl, rfl, hs⟩) key f h

/-- under `SubOK` every key resolves to a call that is `P`, and to its own name -/
theorem resolve_ok {env : Env} {kw : Kw} {sub : Sub} (h : SubOK sub) (k : String) (a : Arg) :
    (resolveCall resAlg env kw sub k a).1 = k ∧
    ∃ f, P f ∧ (resolveCall resAlg env kw sub k a).2 = f a := by
  have hpats : ∀ f ∈ matchingPats env sub.patProps k, P f := by
    intro f hf
    unfold matchingPats at hf
    obtain ⟨p, hp, rfl⟩ := List.mem_map.mp hf
    exact h.patProps p (List.mem_filter.mp hp).1
  have haddl : P (additionalPropCall resAlg kw sub) := by
    unfold additionalPropCall
    cases hap : sub.addProps with
    | some f => exact h.addProps f hap
    | none =>
      simp only
      by_cases hb : kw.addPropsB = true
      · simp only [hb, if_true]; exact P_trivial
      · simp only [hb, Bool.false_eq_true, if_false]; exact P_nothing
  unfold resolveCall
  cases hd : findDeclared sub.props k with
  | none =>
    match hm : matchingPats env sub.patProps k with
    | [] => exact ⟨rfl, additionalPropCall resAlg kw sub, haddl, rfl⟩
    | [f] => exact ⟨rfl, f, hpats f (by rw [hm]; exact List.mem_cons_self ..), rfl⟩
    | f :: g :: rest =>
      exact ⟨rfl, allOfCall (f :: g :: rest), P_allOfCall (fun x hx => hpats x (by rw [hm]; exact hx)), rfl⟩
  | some kf =>
    obtain ⟨key, f⟩ := kf
    obtain ⟨p, hp, hk1, hk2, hsrc⟩ := findDeclared_spec hd
    have hPf : P f := by rw [← hk2]; exact (h.props p hp).1
    have hname : key.name = k := by rw [← hk1, ← (h.props p hp).2, hk1, hsrc]
    match hm : matchingPats env sub.patProps k with
    | [] => exact ⟨hname, f, hPf, rfl⟩
    | g :: rest =>
      refine ⟨hname, allOfCall (f :: g :: rest), P_allOfCall (fun x hx => ?_), rfl⟩
      rcases List.mem_cons.mp hx with rfl | hx
      · exact hPf
      · exact hpats x (by rw [hm]; exact hx)

theorem distinct_removeDups (l : List String) : distinct (removeDups l) = true := by
  induction l with
  | nil => rfl
  | cons a r ih =>
    rw [removeDups, distinct_cons]
    refine ⟨fun hm => ?_, distinct_filter _ ih⟩
    have := (List.mem_filter.mp hm).2
    simp at this

theorem visitKeys_distinct (sub : Sub) (kvs : List (String × JVal)) (h : distinct (kvs.map (·.1)) = true) :
    distinct (visitKeys sub kvs) = true := by
  unfold visitKeys JVal.keys
  apply distinct_append (distinct_removeDups _) (distinct_filter _ h)
  intro x hx hx2
  have := (List.mem_filter.mp hx2).2
  simp only [Bool.not_eq_true', List.contains_eq_mem, decide_eq_false_iff_not] at this
  exact this hx

theorem outs_names {env : Env} {kw : Kw} {sub : Sub} (h : SubOK sub) (kvs : List (String × JVal)) :
    (propsOuts resAlg env kw sub kvs).map (·.1) = visitKeys sub kvs := by
  unfold propsOuts
  rw [List.map_map]
  conv => rhs; rw [← List.map_id (visitKeys sub kvs)]
  apply List.map_congr_left
  intro k _
  exact (resolve_ok h k (argOf kvs k)).1

theorem props_embeds {env : Env} {kw : Kw} {sub : Sub} (h : SubOK sub) {kvs : List (String × JVal)} {L : List (String × RVal)}
    (hv : okVal (.obj kvs)) (hr : propsCall env kw sub kvs = .ok (.anon L)) : embedsKV L kvs = true := by
  have hkeys : distinct (kvs.map (·.1)) = true := by
    have := hv.1
    simp only [distinctKeys, Bool.and_eq_true] at this
    exact this.1
  have hdist : distinct ((propsOuts resAlg env kw sub kvs).map (·.1)) = true := by
    rw [outs_names h]; exact visitKeys_distinct sub kvs hkeys
  -- every suffix of the input is embedded
  suffices hs : ∀ (part : List (String × JVal)), (∀ p ∈ part, p ∈ kvs) → embedsKV L part = true from hs kvs (fun _ hp => hp)
  intro part
  induction part with
  | nil => intro _; rw [embedsKV]
  | cons kx rest ih =>
    obtain ⟨k, x⟩ := kx
    intro hsub
    rw [embedsKV, ih (fun p hp => hsub p (List.mem_cons_of_mem _ hp))]
    simp only [Bool.and_true, List.any_eq_true]
    have hm : (k, x) ∈ kvs := hsub (k, x) (List.mem_cons_self ..)
    obtain ⟨r, hcall, hget⟩ := object_members hr hdist hkeys hm
    obtain ⟨hname, f, hP, hres⟩ := resolve_ok (env := env) (kw := kw) h k (.val x)
    rw [hname] at hget
    rw [hres] at hcall
    refine ⟨(k, r), dictGet?_mem _ _ _ hget, ?_⟩
    simp [hP x r (okVal_member hv hm) hcall]

/-- **One node**: with sub-calls that hand their values back whole, so does this call. -/
theorem core_embeds (env : Env) (c : Cls) (kw : Kw) (sub : Sub) (h : SubOK sub) : P (callCore env c kw sub) := by
  intro v r hv hr
  simp only [callCore, create] at hr
  obtain ⟨hvd, hc⟩ := C19.guard_ok hr
  have htype := C19.validators_typeOk hvd
  have generic : (match v with
      | .arr xs => itemsCall kw sub xs
      | .obj kvs => propsCall env kw sub kvs
      | v => Res.ok (scalarConv v)) = .ok r → embeds r v = true := by
    intro hg
    cases v with
    | arr xs => exact items_embeds h hv hg
    | obj kvs =>
      obtain ⟨l, rfl⟩ := C19.propsCall_anon hg
      simp only [embeds]
      exact props_embeds h hv hg
    | null => simp only [Res.ok.injEq] at hg; subst hg; rfl
    | bool b => simp only [Res.ok.injEq] at hg; subst hg; simp [scalarConv, embeds]
    | num n => simp only [Res.ok.injEq] at hg; subst hg; simp [scalarConv, embeds, Num.eqv]
    | str s => simp only [Res.ok.injEq] at hg; subst hg; simp [scalarConv, embeds]
  have member : ∀ (mode : Cls), attempt mode (sub.elements.map fun f => f (.val v)) = .ok r → embeds r v = true := by
    intro mode hm
    have hmem := firstOk_mem (attempt_first hm)
    obtain ⟨f, hf, hfr⟩ := List.mem_map.mp hmem
    exact h.elements f hf v r hv hfr
  cases c with
  | element => simp only [construct] at hc; exact generic hc
  | nothing => simp [typeOk] at htype
  | boolean => simp only [construct] at hc; exact generic hc
  | integer => simp only [construct] at hc; exact generic hc
  | null => simp only [construct] at hc; exact generic hc
  | string => simp only [construct] at hc; exact generic hc
  | array => simp only [construct] at hc; exact generic hc
  | not =>
    simp only [construct] at hc
    cases hs : sub.elements with
    | nil => rw [hs] at hc; cases hc
    | cons f fs =>
      rw [hs] at hc
      cases fs with
      | cons g gs => cases hc
      | nil =>
        simp only at hc
        cases hf : f (.val v) with
        | ok x => rw [hf] at hc; cases hc
        | crash => rw [hf] at hc; cases hc
        | reject =>
          rw [hf] at hc
          simp only [Res.ok.injEq] at hc
          subst hc
          exact embeds_raw v hv.1
  | number =>
    cases v with
    | num n =>
      simp only [construct] at hc
      cases n with
      | int i =>
        have hsmall : i.natAbs < 9007199254740992 := by
          have := hv.2
          simpa [smallInts] using this
        have := number_value i hsmall
        rw [this.1] at hc
        simp only [Res.ok.injEq] at hc
        subst hc
        simp only [embeds]
        exact this.2
      | flt a b =>
        simp only [asDouble, Res.ok.injEq] at hc
        subst hc
        simp [embeds, Num.eqv]
    | _ => simp [typeOk] at htype
  | object n =>
    cases v with
    | obj kvs =>
      simp only [construct] at hc
      cases hp : propsCall env kw sub kvs with
      | ok x =>
        obtain ⟨l, rfl⟩ := C19.propsCall_anon hp
        rw [hp] at hc
        simp only [Res.ok.injEq] at hc
        subst hc
        simp only [embeds]
        exact props_embeds h hv hp
      | reject => rw [hp] at hc; cases hc
      | crash => rw [hp] at hc; cases hc
    | _ => simp [typeOk] at htype
  | anyOf => simp only [construct] at hc; exact member .anyOf hc
  | oneOf => simp only [construct] at hc; exact member .oneOf hc
  | allOf => simp only [construct] at hc; exact member .allOf hc

/-! ### the whole tree -/

/-- no property is stored under an attribute name different from its JSON key -/
def keysPlain (props : List (Key × Elem)) : Prop := ∀ p ∈ props, p.1.src = p.1.name

mutual
def NoRename : Elem → Prop
  | .mk _ _ items addI _ props pats addP _ _ els =>
    keysPlain props ∧ NoRenameL items ∧ NoRenameO addI ∧ NoRenameK props ∧ NoRenameK pats ∧ NoRenameO addP ∧ NoRenameL els
def NoRenameO : Option Elem → Prop
  | none => True
  | some e => NoRename e
def NoRenameL : List Elem → Prop
  | [] => True
  | e :: es => NoRename e ∧ NoRenameL es
def NoRenameK : List (Key × Elem) → Prop
  | [] => True
  | (_, e) :: r => NoRename e ∧ NoRenameK r
end

mutual
theorem call_embeds (env : Env) : ∀ (e : Elem), NoRename e → P (Elem.call env e)
  | .mk c kw items addI cont props pats addP pn deps els, h => by
    rw [NoRename] at h
    obtain ⟨hplain, hi, ha, hp, hpt, hap, he⟩ := h
    unfold Elem.call
    apply core_embeds
    exact {
      items := callList_embeds env items hi
      addItems := by
        intro p hp'
        cases addI with
        | none => simp [callAddl] at hp'
        | some e =>
          simp only [callAddl, Option.some.injEq] at hp'
          rw [← hp']
          exact call_embeds env e ha
      props := callProps_embeds env props hp hplain
      patProps := callKeyed_embeds env pats hpt
      addProps := by
        intro f hf
        cases addP with
        | none => simp [callOpt] at hf
        | some e =>
          simp only [callOpt, Option.some.injEq] at hf
          rw [← hf]
          exact call_embeds env e hap
      elements := callList_embeds env els he }
theorem callList_embeds (env : Env) : ∀ (es : List Elem), NoRenameL es → ∀ f ∈ callList env es, P f
  | [], _ => by intro f hf; simp [callList] at hf
  | e :: es, h => by
    rw [NoRenameL] at h
    intro f hf
    rw [callList] at hf
    rcases List.mem_cons.mp hf with rfl | hf
    · exact call_embeds env e h.1
    · exact callList_embeds env es h.2 f hf
theorem callKeyed_embeds (env : Env) : ∀ (l : List (Key × Elem)), NoRenameK l → ∀ p ∈ callKeyed env l, P p.2
  | [], _ => by intro p hp; simp [callKeyed] at hp
  | (k, e) :: r, h => by
    rw [NoRenameK] at h
    intro p hp
    rw [callKeyed] at hp
    rcases List.mem_cons.mp hp with rfl | hp
    · exact call_embeds env e h.1
    · exact callKeyed_embeds env r h.2 p hp
theorem callProps_embeds (env : Env) : ∀ (l : List (Key × Elem)), NoRenameK l → keysPlain l →
    ∀ p ∈ callProps env l, P p.2.2 ∧ p.1.src = p.1.name
  | [], _, _ => by intro p hp; simp [callProps] at hp
  | (k, e) :: r, h, hk => by
    rw [NoRenameK] at h
    intro p hp
    rw [callProps] at hp
    rcases List.mem_cons.mp hp with rfl | hp
    · exact ⟨call_embeds env e h.1, hk (k, e) (List.mem_cons_self ..)⟩
    · exact callProps_embeds env r h.2 (fun q hq => hk q (List.mem_cons_of_mem _ hq)) p hp
end

/-- **Accepted values come back complete and unaltered, at every depth.**  For every element tree without renamed
    properties, every environment, and every value whose objects have distinct keys and whose integers are below
    2^53 in magnitude: if the call returns `r`, then `r` embeds `v` — scalars equal (numbers by value), arrays
    item by item in order, and every member of every object present under its key with its value embedded in turn. -/
theorem C04_tree (env : Env) (e : Elem) (h : NoRename e) (v : JVal) (hv : okVal v) (r : RVal)
    (hr : e.call env (.val v) = .ok r) : embeds r v = true :=
  call_embeds env e h v r hv hr

/-! non-vacuity -/
def sample : Elem := .mk (.object "T") { hasProps := true } [] none none
  [({ name := "a", source := some "a" }, .mk .array { itemsKind := .single } [Elem.leaf .number] none none [] [] none none [] [])]
  [] none none [] []
example : NoRename sample := by
  simp [sample, NoRename, NoRenameL, NoRenameO, NoRenameK, keysPlain, Key.src, Elem.leaf]
example : (match sample.call env0 (.val (.obj [("a", .arr [.num (.int 1), .num (.flt 5 2)]), ("extra", .str "x")])) with
    | .ok r => embeds r (.obj [("a", .arr [.num (.int 1), .num (.flt 5 2)]), ("extra", .str "x")])
    | _ => false) = true := by decide +kernel

end Statham.C04
