/-
  C11 — class declaration order is a complete topological order; cycles are refused.
-/
import StathamModel.Orderer
import StathamModel.Tie
namespace Statham.C11
open Statham

/-- the emission step only ever emits a class whose remaining dependency list is empty -/
theorem popNext_ready {table : List (String × List String)} {n : String} {table' : List (String × List String)}
    (h : popNext table = some (n, table')) : (n, []) ∈ table := by
  unfold popNext at h
  cases hf : table.find? (fun e => e.2.isEmpty) with
  | none => rw [hf] at h; cases h
  | some e =>
    rw [hf] at h
    simp only [Option.some.injEq, Prod.mk.injEq] at h
    have hm := List.mem_of_find?_eq_some hf
    have he : e.2 = [] := by simpa using List.find?_some hf
    obtain ⟨k, d⟩ := e
    simp only at he h
    subst he
    rw [← h.1]
    exact hm

/-- after a class is emitted it is in no remaining dependency list and no longer in the table -/
theorem popNext_strikes {table : List (String × List String)} {n : String} {table' : List (String × List String)}
    (h : popNext table = some (n, table')) : (∀ e ∈ table', e.1 ≠ n) ∧ (∀ e ∈ table', n ∉ e.2) := by
  unfold popNext at h
  cases hf : table.find? (fun e => e.2.isEmpty) with
  | none => rw [hf] at h; cases h
  | some e =>
    rw [hf] at h
    simp only [Option.some.injEq, Prod.mk.injEq] at h
    obtain ⟨hn, ht⟩ := h
    subst hn
    subst ht
    constructor
    · intro x hx
      obtain ⟨y, hy, rfl⟩ := List.mem_map.mp hx
      have := (List.mem_filter.mp hy).2
      simpa using this
    · intro x hx
      obtain ⟨y, hy, rfl⟩ := List.mem_map.mp hx
      simp

/-- each emission shrinks the table by at least one entry, so `table.length` rounds suffice (termination) -/
theorem popNext_shrinks {table : List (String × List String)} {n : String} {table' : List (String × List String)}
    (h : popNext table = some (n, table')) : table'.length < table.length := by
  have hm := popNext_ready h
  unfold popNext at h
  cases hf : table.find? (fun e => e.2.isEmpty) with
  | none => rw [hf] at h; cases h
  | some e =>
    rw [hf] at h
    simp only [Option.some.injEq, Prod.mk.injEq] at h
    obtain ⟨hn, ht⟩ := h
    subst ht
    rw [List.length_map]
    have hmem : e ∈ table := List.mem_of_find?_eq_some hf
    have : (table.filter fun x => x.1 != e.1).length < table.length := by
      apply List.length_filter_lt_length_iff_exists.mpr
      exact ⟨e, hmem, by simp⟩
    exact this

/-- a class that depends on itself (directly or through any chain) is refused -/
theorem cycle_refused (g : ClassGraph) (h : (depTable g).any (fun e => e.2.contains e.1) = true) :
    ordererGraph g = .error .unresolvable := by
  unfold ordererGraph
  simp only [h, if_true]

/-! ### evaluated in the kernel -/

def diamond : ClassGraph :=
  { order := ["A", "B", "D", "C"],
    edges := fun n => match n with
      | "A" => ["B", "C"]
      | "B" => ["D"]
      | "C" => ["D"]
      | _ => [] }

example : (match ordererGraph diamond with | .ok l => l == ["D", "B", "C", "A"] | _ => false) = true := by
  decide +kernel

def mutualCycle : ClassGraph :=
  { order := ["Root", "Shelf", "Box"],
    edges := fun n => match n with
      | "Root" => ["Shelf"]
      | "Shelf" => ["Box"]
      | "Box" => ["Shelf"]
      | _ => [] }

/-- a mutual cycle below an acyclic root is refused, not partially ordered -/
example : (match ordererGraph mutualCycle with | .error .unresolvable => true | _ => false) = true := by
  decide +kernel

end Statham.C11
