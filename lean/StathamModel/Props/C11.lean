/-
  C11 — class declaration order is a complete topological order; cycles are refused.
-/
import StathamModel.Orderer
import StathamModel.Lemmas.ListAux
import StathamModel.Lemmas.OrdererComplete
import StathamModel.Lemmas.TreeGraph
import StathamModel.Tie
namespace Statham.C11
open Statham

/-- the emission step only ever emits a class whose remaining dependency list is empty -/
theorem popNext_ready {table : List (String × List String)} {n : String} {table' : List (String × List String)}
    (h : popNext table = some (n, table')) : (n, []) ∈ table := by
  unfold popNext at h
  cases hf : table.find? (fun e => e.2.isEmpty) with
  | none => rw [hf] at h; cases h
  | some e =>
    rw [hf] at h
    simp only [Option.some.injEq, Prod.mk.injEq] at h
    have hm := List.mem_of_find?_eq_some hf
    have he : e.2 = [] := by simpa using List.find?_some hf
    obtain ⟨k, d⟩ := e
    simp only at he h
    subst he
    rw [← h.1]
    exact hm

/-- after a class is emitted it is in no remaining dependency list and no longer in the table -/
theorem popNext_strikes {table : List (String × List String)} {n : String} {table' : List (String × List String)}
    (h : popNext table = some (n, table')) : (∀ e ∈ table', e.1 ≠ n) ∧ (∀ e ∈ table', n ∉ e.2) := by
  unfold popNext at h
  cases hf : table.find? (fun e => e.2.isEmpty) with
  | none => rw [hf] at h; cases h
  | some e =>
    rw [hf] at h
    simp only [Option.some.injEq, Prod.mk.injEq] at h
    obtain ⟨hn, ht⟩ := h
    subst hn
    subst ht
    constructor
    · intro x hx
      obtain ⟨y, hy, rfl⟩ := List.mem_map.mp hx
      have := (List.mem_filter.mp hy).2
      simpa using this
    · intro x hx
      obtain ⟨y, hy, rfl⟩ := List.mem_map.mp hx
      simp

/-- each emission shrinks the table by at least one entry, so `table.length` rounds suffice (termination) -/
theorem popNext_shrinks {table : List (String × List String)} {n : String} {table' : List (String × List String)}
    (h : popNext table = some (n, table')) : table'.length < table.length := by
  have hm := popNext_ready h
  unfold popNext at h
  cases hf : table.find? (fun e => e.2.isEmpty) with
  | none => rw [hf] at h; cases h
  | some e =>
    rw [hf] at h
    simp only [Option.some.injEq, Prod.mk.injEq] at h
    obtain ⟨hn, ht⟩ := h
    subst ht
    rw [List.length_map]
    have hmem : e ∈ table := List.mem_of_find?_eq_some hf
    have : (table.filter fun x => x.1 != e.1).length < table.length := by
      apply List.length_filter_lt_length_iff_exists.mpr
      exact ⟨e, hmem, by simp⟩
    exact this

/-- a class that depends on itself (directly or through any chain) is refused -/
theorem cycle_refused (g : ClassGraph) (h : (depTable g).any (fun e => e.2.contains e.1) = true) :
    ordererGraph g = .error .unresolvable := by
  unfold ordererGraph
  simp only [h, if_true]

/-! ### The emitted order respects every dependency, without repetition -/

/-- what the next table is made of -/
theorem popNext_table {table : List (String × List String)} {n : String} {table' : List (String × List String)}
    (h : popNext table = some (n, table')) :
    table' = (table.filter fun x => x.1 != n).map fun x => (x.1, x.2.filter fun d => d != n) := by
  unfold popNext at h
  cases hf : table.find? (fun e => e.2.isEmpty) with
  | none => rw [hf] at h; cases h
  | some e =>
    rw [hf] at h
    simp only [Option.some.injEq, Prod.mk.injEq] at h
    rw [← h.1, ← h.2]

/-- **Every class is declared after everything it depends on**: if `n` is emitted at position `i`, it had an
    entry in the table and every member of that entry's dependency list was emitted before position `i`. -/
theorem emitAll_sound : ∀ (fuel : Nat) (table : List (String × List String)) (i : Nat) (n : String),
    (emitAll fuel table).1[i]? = some n →
    ∃ deps, (n, deps) ∈ table ∧ ∀ d ∈ deps, d ∈ (emitAll fuel table).1.take i
  | 0, table, i, n, h => by simp [emitAll] at h
  | fuel + 1, table, i, n, h => by
    unfold emitAll at h ⊢
    cases hp : popNext table with
    | none => rw [hp] at h; simp at h
    | some p =>
      obtain ⟨m, table'⟩ := p
      rw [hp] at h
      simp only at h ⊢
      cases i with
      | zero =>
        simp only [List.getElem?_cons_zero, Option.some.injEq] at h
        subst h
        exact ⟨[], popNext_ready hp, by simp⟩
      | succ i =>
        simp only [List.getElem?_cons_succ] at h
        obtain ⟨deps', hmem, hdeps⟩ := emitAll_sound fuel table' i n h
        rw [popNext_table hp] at hmem
        obtain ⟨x, hx, hxe⟩ := List.mem_map.mp hmem
        simp only [Prod.mk.injEq] at hxe
        refine ⟨x.2, by rw [← hxe.1]; exact (List.mem_filter.mp hx).1, fun d hd => ?_⟩
        by_cases e : d = m
        · subst e; simp
        · have : d ∈ deps' := by
            rw [← hxe.2]
            exact List.mem_filter.mpr ⟨hd, by simpa using e⟩
          simp only [List.take_succ_cons, List.mem_cons]
          exact Or.inr (hdeps d this)

/-- everything emitted was a key of the table -/
theorem emitAll_keys : ∀ (fuel : Nat) (table : List (String × List String)) (n : String),
    n ∈ (emitAll fuel table).1 → n ∈ table.map (·.1)
  | 0, table, n, h => by simp [emitAll] at h
  | fuel + 1, table, n, h => by
    unfold emitAll at h
    cases hp : popNext table with
    | none => rw [hp] at h; simp at h
    | some p =>
      obtain ⟨m, table'⟩ := p
      rw [hp] at h
      simp only [List.mem_cons] at h
      rcases h with rfl | h
      · exact List.mem_map.mpr ⟨_, popNext_ready hp, rfl⟩
      · have := emitAll_keys fuel table' n h
        rw [popNext_table hp] at this
        obtain ⟨y, hy, rfl⟩ := List.mem_map.mp this
        obtain ⟨x, hx, rfl⟩ := List.mem_map.mp hy
        exact List.mem_map.mpr ⟨x, (List.mem_filter.mp hx).1, rfl⟩

/-- **No class is declared twice** -/
theorem emitAll_nodup : ∀ (fuel : Nat) (table : List (String × List String)), (emitAll fuel table).1.Nodup
  | 0, table => by simp [emitAll]
  | fuel + 1, table => by
    unfold emitAll
    cases hp : popNext table with
    | none => simp
    | some p =>
      obtain ⟨m, table'⟩ := p
      simp only
      refine List.nodup_cons.mpr ⟨fun hm => ?_, emitAll_nodup fuel table'⟩
      have := emitAll_keys fuel table' m hm
      obtain ⟨y, hy, hye⟩ := List.mem_map.mp this
      exact (popNext_strikes hp).1 y hy hye

/-- **The orderer's answer is a topological order of the class graph**: a class appears after all of its
    descendant classes, and never twice. -/
theorem C11_order_sound (g : ClassGraph) (out : List String) (h : ordererGraph g = .ok out) :
    out.Nodup ∧ ∀ (i : Nat) (n : String), out[i]? = some n → n ∈ g.order ∧ ∀ d ∈ descendantsOf g n, d ∈ out.take i := by
  unfold ordererGraph at h
  by_cases hc : (depTable g).any (fun e => e.2.contains e.1) = true
  · rw [if_pos hc] at h; cases h
  · rw [if_neg hc] at h
    simp only [Except.ok.injEq] at h
    subst h
    refine ⟨emitAll_nodup _ _, fun i n hi => ?_⟩
    obtain ⟨deps, hmem, hdeps⟩ := emitAll_sound _ _ i n hi
    unfold depTable at hmem
    obtain ⟨x, hx, hxe⟩ := List.mem_map.mp hmem
    simp only [Prod.mk.injEq] at hxe
    refine ⟨by rw [← hxe.1]; exact mem_removeDups.mp hx, fun d hd => hdeps d ?_⟩
    rw [← hxe.2, hxe.1]; exact hd

/-! ### Completeness: every class is declared -/

theorem subset_of_nodup_length {out ks : List String} (hn : out.Nodup) (hsub : out ⊆ ks) (hlen : out.length = ks.length) :
    ks ⊆ out := by
  intro k hk
  refine Classical.byContradiction fun hno => ?_
  have hsub' : out ⊆ ks.erase k := by
    intro x hx
    have hxk : x ≠ k := fun e => hno (e ▸ hx)
    exact (List.mem_erase_of_ne hxk).mpr (hsub hx)
  have := List.Nodup.length_le_of_subset hn hsub'
  rw [List.length_erase] at this
  simp only [hk, if_true] at this
  have : 0 < ks.length := List.length_pos_of_mem hk
  omega

/-- **The order is complete**: when the dependency table is closed (each list holds exactly the descendant classes:
    transitively closed, irreflexive, all of them classes of the graph — what `depTable` computes for an acyclic
    graph, compared with the real orderer on every generated graph), the orderer refuses nothing and declares
    every class of the graph exactly once. -/
theorem C11_complete (g : ClassGraph) (h : ClosedTable (depTable g)) :
    ∃ out, ordererGraph g = .ok out ∧ out.Nodup ∧ ∀ n, n ∈ out ↔ n ∈ g.order := by
  have hnocycle : (depTable g).any (fun e => e.2.contains e.1) = false := by
    rw [Bool.eq_false_iff]
    intro hc
    obtain ⟨e, he, hce⟩ := List.any_eq_true.mp hc
    exact h.irrefl e he (by simpa using hce)
  refine ⟨(emitAll (depTable g).length (depTable g)).1, ?_, emitAll_nodup _ _, fun n => ?_⟩
  · unfold ordererGraph
    rw [if_neg (by rw [hnocycle]; exact Bool.false_ne_true)]
  · have hcomp := emitAll_complete (depTable g).length (depTable g) h (Nat.le_refl _)
    have hkeys : ∀ x, x ∈ (emitAll (depTable g).length (depTable g)).1 → x ∈ (depTable g).map (·.1) :=
      fun x hx => emitAll_keys _ _ x hx
    have hsub := subset_of_nodup_length (emitAll_nodup _ _) hkeys (by rw [hcomp.2, List.length_map])
    have hkeyorder : ∀ x, x ∈ (depTable g).map (·.1) ↔ x ∈ g.order := by
      intro x
      unfold depTable
      simp only [List.map_map, Function.comp_def, List.map_id', mem_removeDups]
    constructor
    · intro hn; exact (hkeyorder n).mp (hkeys n hn)
    · intro hn; exact hsub ((hkeyorder n).mpr hn)

/-! ### evaluated in the kernel -/

def diamond : ClassGraph :=
  { order := ["A", "B", "D", "C"],
    edges := fun n => match n with
      | "A" => ["B", "C"]
      | "B" => ["D"]
      | "C" => ["D"]
      | _ => [] }

example : (match ordererGraph diamond with | .ok l => l == ["D", "B", "C", "A"] | _ => false) = true := by
  decide +kernel

/-- non-vacuity of `C11_complete`: the diamond's table is closed -/
example : ClosedTable (depTable diamond) :=
  ⟨by decide +kernel, by decide +kernel, by decide +kernel, by decide +kernel, by decide +kernel⟩

def mutualCycle : ClassGraph :=
  { order := ["Root", "Shelf", "Box"],
    edges := fun n => match n with
      | "Root" => ["Shelf"]
      | "Shelf" => ["Box"]
      | "Box" => ["Shelf"]
      | _ => [] }

/-- a mutual cycle below an acyclic root is refused, not partially ordered -/
example : (match ordererGraph mutualCycle with | .error .unresolvable => true | _ => false) = true := by
  decide +kernel

/-- **declared after every object class below it**, stated on the tree itself rather than through the model's computed
    `descendantsOf` (whose search fuel is shown to suffice, `descendantsOf_direct`): if the orderer answers `order`, the class
    found under the `i`-th name has every object class among its descendants — through any keyword position, at any depth —
    declared strictly earlier -/
theorem C11_declared_after_dependencies (els : List Elem) (order : List String) (h : ordererTree els = .ok order)
    (i : Nat) (n : String) (hi : order[i]? = some n) (c : Elem)
    (hc : (objectClasses els).find? (fun c => objName c.cls == n) = some c)
    (d : Elem) (hd : d ∈ descendants c) (ho : isObjectClass d.cls = true) :
    objName d.cls ∈ order.take i := by
  refine ((C11_order_sound (treeGraph els) order h).2 i n hi).2 (objName d.cls)
    (descendantsOf_direct _ (treeGraph_bounded els) n _ ?_)
  simp only [treeGraph, hc]
  rw [mem_removeDups]
  exact List.mem_map.mpr ⟨d, List.mem_filter.mpr ⟨hd, ho⟩, rfl⟩

end Statham.C11
