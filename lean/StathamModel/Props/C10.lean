/-
  C10 — only validation and schema-parse errors escape; no crash on any JSON input.

  The model's outcomes are `ok`, `reject` (the validation error) and `crash` (an evaluated
  sub-computation performs float arithmetic that overflows).  Every definition is a total,
  structurally recursive function: Lean accepted them, so every call terminates.
-/
import StathamModel.Lemmas.NoCrash
import StathamModel.Lemmas.ParseErr
import StathamModel.Tie
namespace Statham.C10
open Statham

/-- **The property at full strength**: calls never leave {return, validation error}; parsing a
    metaschema-valid schema never raises outside the schema-parse family. -/
def Statement : Prop :=
  (∀ (env : Env) (e : Elem) (a : Arg), (e.call env a).verdict ≠ .crash) ∧
  (∀ (cx : PCtx) (s : Schema), (flagsOf cx s).wf = true → LibErr (parseErr s))

/-- every call of the model returns, raises the validation error, or is `crash` -/
theorem outcomes (env : Env) (e : Elem) (a : Arg) :
    (∃ r, e.call env a = .ok r) ∨ e.call env a = .reject ∨ e.call env a = .crash := by
  cases e.call env a with
  | ok r => exact Or.inl ⟨r, rfl⟩
  | reject => exact Or.inr (Or.inl rfl)
  | crash => exact Or.inr (Or.inr rfl)

/-- **Proved (calls).**  For every element tree whose `multipleOf` keywords are non-zero integers
    below 2^53 and whose defaults contain only integers below 2^53, and every argument whose
    integers are below 2^53 (floats are unrestricted), at any nesting depth: the call returns or
    raises the validation error. -/
theorem C10_partial_call (env : Env) (e : Elem) (a : Arg) (he : safeElem e = true) (ha : safeArg a = true) :
    (∃ r, e.call env a = .ok r) ∨ e.call env a = .reject := by
  have hnc := acc_nc env e he a ha
  rw [← call_verdict] at hnc
  cases h : e.call env a with
  | ok r => exact Or.inl ⟨r, rfl⟩
  | reject => exact Or.inr rfl
  | crash => rw [h] at hnc; exact absurd rfl hnc

/-- **Proved (parsing).**  On every metaschema-valid schema (known type names, no unsupported
    keyword, …) `parse_element` returns an element or raises `SchemaParseError` (missing title);
    in particular never a `KeyError`/`TypeError` (`PErr.other`). -/
theorem C10_parse (cx : PCtx) (s : Schema) (h : (flagsOf cx s).wf = true) :
    (∃ e, parseElement cx s = .ok e) ∨ parseElement cx s = .error .notImplemented ∨
      parseElement cx s = .error .missingTitle := by
  unfold parseElement
  rcases parseErr_lib cx s h with h0 | h0 | h0 <;> rw [h0]
  · exact Or.inl ⟨_, rfl⟩
  · exact Or.inr (Or.inl rfl)
  · exact Or.inr (Or.inr rfl)

/-! ### counter-witnesses: the full statement is false of the model (and of the library) -/

def env0 : Env := { re := fun _ _ => false, fmt := fun _ => none }

/-- `Number()(10**400)`: `float(10**400)` overflows -/
theorem counter_huge_int :
    ((Elem.leaf .number).call env0 (.val (.num (.int (10 ^ 400))))).verdict = .crash := by decide +kernel

/-- `Element(multipleOf=0.5)(1e308)`: the quotient is `inf`, `int(inf)` raises -/
theorem counter_quotient_overflow :
    ((Elem.leaf .element { multipleOf := some (.flt 1 2) }).call env0
      (.val (.num (.flt (10 ^ 308) 1)))).verdict = .crash := by decide +kernel

/-- the hypotheses are satisfiable on a non-trivial tree -/
example : safeElem (Elem.mk .array { itemsKind := .single, multipleOf := some (.int 3), default := some (.arr [.num (.int 7)]) }
    [Elem.leaf .number { multipleOf := some (.int 2) }] none none [] [] none none [] []) = true := by decide +kernel
example : safeArg (.val (.arr [.num (.flt 1 3), .num (.int 9007199254740991), .obj [("k", .null)]])) = true := by
  decide +kernel

end Statham.C10
