/-
  C13 — elements always validate according to their current configuration.
-/
import StathamModel.History
import StathamModel.Lemmas.CallVerdict
import StathamModel.Tie
import StathamModel.Props.C08
namespace Statham.C13
open Statham

/-- **The property.** Whatever reconfiguration steps and validation calls came before, each call
    answers exactly as a freshly constructed element with the configuration of that moment. -/
def Statement : Prop :=
  ∀ (env : Env) (e : Elem) (h : List Step), (runHistory env e h).1 = freshAnswers env e h

theorem C13_full : Statement := by
  intro env e h
  induction h generalizing e with
  | nil => rfl
  | cons s rest ih =>
    cases s with
    | reconfig f => simp only [runHistory, freshAnswers]; exact ih (f e)
    | call a =>
      simp only [runHistory, freshAnswers, configAfter]
      rw [ih e]

/-- calls do not move the configuration: only reconfiguration steps do -/
theorem calls_keep_config (env : Env) (e : Elem) (h : List Step) :
    (runHistory env e h).2 = configAfter e h := by
  induction h generalizing e with
  | nil => rfl
  | cons s rest ih =>
    cases s with
    | reconfig f => simp only [runHistory, configAfter]; exact ih (f e)
    | call a => simp only [runHistory, configAfter]; exact ih e

/-- inserting or deleting earlier calls does not change a later answer -/
theorem earlier_calls_irrelevant (env : Env) (e : Elem) (pre : List Arg) (a : Arg) :
    ((runHistory env e (pre.map Step.call ++ [Step.call a])).1).getLast? = some (e.call env a) := by
  induction pre with
  | nil => simp [runHistory]
  | cons p pre ih =>
    simp only [List.map_cons, List.cons_append, runHistory]
    cases hrun : (runHistory env e (pre.map Step.call ++ [Step.call a])).1 with
    | nil => rw [hrun] at ih; simp at ih
    | cons x xs => rw [hrun] at ih; simpa using ih

/-- In the model an element has no state besides its configuration: the library matches this only if it
    keeps no cache, which is what the write-site inventory (`C08.writeSites_accounted`: no store outside
    the accounted ones, no cache decorator) and the history correspondence check on every run. -/
theorem no_hidden_state_sites : Gen.notableWriteSites = C08.accounted.map (·.1) := C08.writeSites_accounted

/-- non-vacuity: a reconfiguration really changes the answer -/
example :
    let env : Env := { re := fun _ _ => false, fmt := fun _ => none }
    let e := Elem.leaf .integer { maximum := some (.int 5) }
    let loosen : Elem → Elem := fun _ => Elem.leaf .integer { maximum := some (.int 10) }
    ((runHistory env e [.call (.val (.num (.int 7))), .reconfig loosen, .call (.val (.num (.int 7)))]).1.map
      Res.verdict) = [.reject, .pass] := by decide +kernel

end Statham.C13
