/-
  C08 — validation is pure: it changes neither schema nor data, and is repeatable.

  In the model a call is a function `Elem → Arg → Res`: the element and the value are Lean
  values, so "unchanged" and "repeatable" hold by construction.  What carries the property over
  to the library is (1) the *inventory of write sites*, regenerated from /repo on every run and
  accounted for here site by site, and (2) the heap state-diff correspondence
  (harness/statediff.py), which snapshots everything reachable from the element tree and the
  library's module state around every call.
-/
import StathamModel.Lemmas.CallVerdict
import StathamModel.Gen.Sites
import StathamModel.Tie
namespace Statham.C08
open Statham

/-- what a store in the library may legitimately touch -/
inductive Role where
  | localContainer   -- a container or string created in the same function
  | freshResult      -- the object being built as the call's result (`Object.__init__`, `_AnonymousObject`)
  | bind             -- `_Property.bind` / `_PropertyDict.parent`: idempotent on a bound tree (see `bind_noop`)
  | construction     -- class / element construction time (descriptors, class dictionaries)
  | parser           -- the parser's own state and its (documented) in-place rewriting of the input document
  | registry         -- the format registry (explicit registration API)
  | serializer       -- dictionaries the serializers build
  | singleton        -- one-time creation of the `NotPassed` singleton
deriving DecidableEq, Repr

/-- every write site of the library outside constructors, with its role -/
def accounted : List (Gen.Site × Role) := [
  (⟨"statham/schema/constants.py", "NotPassed.__new__", "assign", "cls._instance"⟩, .singleton),
  (⟨"statham/schema/elements/array.py", "Array.item_annotations", "call:append", "annotations"⟩, .localContainer),
  (⟨"statham/schema/elements/base.py", "Element.properties", "assign", "self._properties"⟩, .construction),
  (⟨"statham/schema/elements/base.py", "Element.properties", "assign", "self._properties"⟩, .construction),
  (⟨"statham/schema/elements/base.py", "Element.properties", "assign", "self._properties.parent"⟩, .construction),
  (⟨"statham/schema/elements/base.py", "_AnonymousObject.__setattr__", "call:__setitem__", "self"⟩, .freshResult),
  (⟨"statham/schema/elements/items.py", "Items.__repr__", "call:append", "items"⟩, .localContainer),
  (⟨"statham/schema/elements/items.py", "Items.__repr__", "call:append", "items"⟩, .localContainer),
  (⟨"statham/schema/elements/meta.py", "ObjectClassDict.__setitem__", "call:__setitem__", "self.properties"⟩, .construction),
  (⟨"statham/schema/elements/meta.py", "ObjectClassDict.__setitem__", "call:__setitem__", "super()"⟩, .construction),
  (⟨"statham/schema/elements/meta.py", "ObjectMeta.python", "augassign-name", "class_def := f'class {repr(cls)}({', '.join(cls_args)}):\\n'"⟩, .localContainer),
  (⟨"statham/schema/elements/meta.py", "ObjectMeta.python", "call:append", "cls_args"⟩, .localContainer),
  (⟨"statham/schema/elements/object.py", "Object.__init__", "setattr", "self"⟩, .freshResult),
  (⟨"statham/schema/elements/object.py", "Object.__init_subclass__", "assign", "cls.description"⟩, .construction),
  (⟨"statham/schema/elements/object.py", "Object.inline", "assign", "object_properties[prop_name]"⟩, .construction),
  (⟨"statham/schema/elements/properties.py", "Properties.__repr__", "call:append", "props"⟩, .localContainer),
  (⟨"statham/schema/elements/properties.py", "Properties.__repr__", "call:append", "props"⟩, .localContainer),
  (⟨"statham/schema/elements/properties.py", "Properties.__repr__", "call:append", "props"⟩, .localContainer),
  (⟨"statham/schema/helpers.py", "custom_repr_args", "assign", "kwargs[param.name]"⟩, .localContainer),
  (⟨"statham/schema/helpers.py", "custom_repr_args", "call:append", "args"⟩, .localContainer),
  (⟨"statham/schema/helpers.py", "custom_repr_args", "call:extend", "args"⟩, .localContainer),
  (⟨"statham/schema/parser.py", "_ParseState.dedupe", "assign", "object_type.__name__"⟩, .parser),
  (⟨"statham/schema/parser.py", "_ParseState.dedupe", "call:append", "self.seen[name]"⟩, .parser),
  (⟨"statham/schema/parser.py", "_parse_composition", "assign", "composition[key]"⟩, .parser),
  (⟨"statham/schema/parser.py", "_parse_composition", "assign", "element.default"⟩, .parser),
  (⟨"statham/schema/parser.py", "_parse_composition", "call:append", "all_of"⟩, .parser),
  (⟨"statham/schema/parser.py", "_parse_composition", "call:append", "all_of"⟩, .parser),
  (⟨"statham/schema/parser.py", "_parse_composition", "call:append", "all_of"⟩, .parser),
  (⟨"statham/schema/parser.py", "_parse_multi_typed", "assign", "single['default']"⟩, .parser),
  (⟨"statham/schema/parser.py", "_parse_object", "assign", "class_dict[key]"⟩, .parser),
  (⟨"statham/schema/parser.py", "_parse_object", "assign", "cls_args[key]"⟩, .parser),
  (⟨"statham/schema/parser.py", "_parse_object", "call:update", "properties"⟩, .parser),
  (⟨"statham/schema/parser.py", "parse_element", "assign", "schema['additionalItems']"⟩, .parser),
  (⟨"statham/schema/parser.py", "parse_element", "assign", "schema['additionalProperties']"⟩, .parser),
  (⟨"statham/schema/parser.py", "parse_element", "assign", "schema[keyword]"⟩, .parser),
  (⟨"statham/schema/parser.py", "parse_element", "assign", "schema[literal_key]"⟩, .parser),
  (⟨"statham/schema/property.py", "_Property.__repr__", "call:pop", "repr_args.kwargs"⟩, .localContainer),
  (⟨"statham/schema/property.py", "_Property.bind", "assign", "self.name"⟩, .bind),
  (⟨"statham/schema/property.py", "_Property.bind", "assign", "self.parent"⟩, .bind),
  (⟨"statham/schema/property.py", "_Property.bind", "assign", "self.source"⟩, .bind),
  (⟨"statham/schema/property.py", "_PropertyDict.__setitem__", "call:__setitem__", "super()"⟩, .construction),
  (⟨"statham/schema/property.py", "_PropertyDict.parent", "assign", "self._parent"⟩, .bind),
  (⟨"statham/schema/validation/format.py", "_FormatString.register._register_callable", "assign", "self._callable_register[format_string]"⟩, .registry),
  (⟨"statham/schema/validation/object.py", "Required.from_element", "augassign-name", "required := list(getattr(element, 'required', None) or [])"⟩, .localContainer),
  (⟨"statham/serializers/json.py", "_serialize_element", "assign", "schema['not']"⟩, .serializer),
  (⟨"statham/serializers/json.py", "_serialize_element", "assign", "schema['properties']"⟩, .serializer),
  (⟨"statham/serializers/json.py", "_serialize_element", "assign", "schema['required']"⟩, .serializer),
  (⟨"statham/serializers/json.py", "_serialize_element", "assign", "schema['title']"⟩, .serializer),
  (⟨"statham/serializers/json.py", "_serialize_element", "assign", "schema['type']"⟩, .serializer),
  (⟨"statham/serializers/json.py", "_serialize_element", "assign", "schema[element.mode]"⟩, .serializer),
  (⟨"statham/serializers/json.py", "_serialize_element", "delete", "schema['properties']"⟩, .serializer),
  (⟨"statham/serializers/json.py", "_serialize_element", "delete", "schema['required']"⟩, .serializer),
  (⟨"statham/serializers/json.py", "serialize_json", "call:update", "schema['definitions']"⟩, .serializer),
  (⟨"statham/serializers/json.py", "serialize_json", "delete", "schema['definitions']"⟩, .serializer),
  (⟨"statham/serializers/orderer.py", "get_children", "call:add", "seen"⟩, .serializer),
  (⟨"statham/serializers/orderer.py", "orderer.pop_name", "call:update", "object_dependencies"⟩, .serializer),
  (⟨"statham/serializers/orderer.py", "orderer.pop_name", "delete", "object_dependencies[name]"⟩, .serializer),
  (⟨"statham/serializers/python.py", "_get_statham_imports", "call:append", "statham_imports"⟩, .serializer),
  (⟨"statham/serializers/python.py", "_get_statham_imports", "call:append", "statham_imports"⟩, .serializer),
  (⟨"statham/serializers/python.py", "_get_statham_imports", "call:append", "statham_imports"⟩, .serializer)
]

/-- **Tie.** The write sites found in /repo on this run are exactly the accounted ones: a new store,
    augmented assignment, mutator call, `setattr`, cache decorator — or an aliasing change of an
    augmented-assignment target — breaks this theorem. -/
theorem writeSites_accounted : Gen.notableWriteSites = accounted.map (·.1) := by decide +kernel

theorem no_unscanned_modules : Gen.unscannedModules = [] := by decide

/-- a site is on the validation path if it lives in the element / validation / property modules -/
def onCallPath (s : Gen.Site) : Bool :=
  (s.file.startsWith "statham/schema/elements/" || s.file.startsWith "statham/schema/validation/" ||
    s.file == "statham/schema/property.py") &&
  !(s.func.endsWith "__repr__" || s.func == "ObjectMeta.python" || s.func == "Array.item_annotations")

/-- every write on the validation path is to a local container, to the fresh result, an idempotent
    bind, or happens at class-construction time or through the registration API -/
theorem callPath_harmless :
    (accounted.filter fun p => onCallPath p.1).all
      (fun p => p.2 == .localContainer || p.2 == .freshResult || p.2 == .bind || p.2 == .construction ||
        p.2 == .registry) = true := by decide +kernel

/-! ### the `bind` stores are no-ops on a bound tree -/

/-- `_Property.bind(name=…)`: `if not self.source: self.source = name; self.name = name` -/
def bind (k : Key) (name : String) : Key :=
  { k with name := name, source := some (match k.source with
      | some s => if s = "" then name else s
      | none => name) }

/-- a property as it sits in a container after construction: its source is set (non-empty) -/
def Bound (k : Key) : Prop := ∃ s, k.source = some s ∧ s ≠ ""

theorem bind_noop (k : Key) (h : Bound k) : bind k k.name = k := by
  obtain ⟨s, hs, hne⟩ := h
  cases k with
  | mk name required source names =>
    simp only at hs
    subst hs
    simp [bind, hne]

theorem bind_idempotent (k : Key) (n : String) (hn : n ≠ "") : bind (bind k n) n = bind k n := by
  cases k with
  | mk name required source names =>
    cases source with
    | none => simp [bind, hn]
    | some s => by_cases h : s = "" <;> simp [bind, h, hn]

theorem bind_bound (k : Key) (n : String) (hn : n ≠ "") : Bound (bind k n) := by
  cases k with
  | mk name required source names =>
    cases source with
    | none => exact ⟨n, rfl, hn⟩
    | some s =>
      by_cases h : s = ""
      · exact ⟨n, by simp [bind, h], hn⟩
      · exact ⟨s, by simp [bind, h], h⟩

/-! ### the property in the model -/

/-- repeating a call any number of times gives the same outcome, and the element a call is made
    on is the element afterwards (a call returns no new element) -/
theorem repeatable (env : Env) (e : Elem) (a : Arg) (n : Nat) :
    (List.replicate n a).map (e.call env) = List.replicate n (e.call env a) := by
  induction n with
  | zero => rfl
  | succ n ih => simp [List.replicate_succ, ih]

/-- the verdict of a sequence of calls does not depend on what was validated before -/
theorem history_independent (env : Env) (e : Elem) (hist : List Arg) (a : Arg) :
    ((hist ++ [a]).map (e.call env)).getLast? = some (e.call env a) := by
  simp

end Statham.C08
