/-
  C18 — an element's repr is the expression that rebuilds it.
-/
import StathamModel.Py.Repr
import StathamModel.Py.Eval
import StathamModel.Lemmas.EvalLeaf
import StathamModel.Lemmas.EvalTree
import StathamModel.Tie
namespace Statham.C18
open Statham Statham.PyEval

/-- a keyword is printed exactly when it differs from the constructor default: it is absent from the
    keyword arguments iff `kwExpr` is `none` for it -/
theorem kwargs_complete (sig : List Gen.Param) (kw : Kw) (k : ReprKids) (name : String)
    (hsig : ∃ p ∈ sig, p.name = name ∧ p.kind = .keywordOnly) :
    (∃ e, (name, e) ∈ kwargsOf sig kw k) ↔ (kwExpr kw k name).isSome = true := by
  unfold kwargsOf
  constructor
  · rintro ⟨e, he⟩
    obtain ⟨p, _, hpe⟩ := List.mem_filterMap.mp he
    cases hk : kwExpr kw k p.name with
    | none => rw [hk] at hpe; cases hpe
    | some x =>
      rw [hk] at hpe
      simp only [Option.map_some, Option.some.injEq, Prod.mk.injEq] at hpe
      rw [← hpe.1, hk]; rfl
  · intro h
    obtain ⟨p, hp, hn, hkind⟩ := hsig
    cases hk : kwExpr kw k name with
    | none => rw [hk] at h; cases h
    | some x =>
      refine ⟨x, List.mem_filterMap.mpr ⟨p, List.mem_filter.mpr ⟨hp, by simp [hkind]⟩, ?_⟩⟩
      rw [hn, hk]; simp [hn]

/-- only keyword-only parameters of the class's own signature are ever printed as keywords -/
theorem kwargs_sound (sig : List Gen.Param) (kw : Kw) (k : ReprKids) (name : String) (e : PyExpr)
    (h : (name, e) ∈ kwargsOf sig kw k) : ∃ p ∈ sig, p.name = name ∧ p.kind = .keywordOnly := by
  unfold kwargsOf at h
  obtain ⟨p, hp, hpe⟩ := List.mem_filterMap.mp h
  cases hk : kwExpr kw k p.name with
  | none => rw [hk] at hpe; cases hpe
  | some x =>
    rw [hk] at hpe
    simp only [Option.map_some, Option.some.injEq, Prod.mk.injEq] at hpe
    exact ⟨p, (List.mem_filter.mp hp).1, hpe.1, by simpa using (List.mem_filter.mp hp).2⟩

/-- `source` is printed exactly when it differs from the attribute name -/
theorem prop_source_shown (k : Key) (e : PyExpr) :
    (∃ x, propExpr k e = .call "Property" [e] x ∧ ((∃ s, ("source", s) ∈ x) ↔ k.src ≠ k.name)) := by
  unfold propExpr
  refine ⟨_, rfl, ?_⟩
  by_cases hs : k.src == k.name
  · have : k.src = k.name := by simpa using hs
    cases k.required <;> simp [hs, this]
  · have : k.src ≠ k.name := by simpa using hs
    cases k.required <;> simp [hs, this]

/-! ### the repr of a leaf element evaluates back to the element (every keyword configuration of its class) -/

/-- `String(...)`: all 2^8 combinations of passed / not passed keywords, every keyword value -/
theorem C18_round_trip_string (d c : Option JVal) (e : Option (List JVal)) (f p : Option String) (mn mx : Option Num)
    (ds : Option String) :
    evalLeaf (reprExpr (Elem.leaf .string
        { default := d, const := c, enum := e, format := f, pattern := p, minLength := mn, maxLength := mx, description := ds })) =
      some (Elem.leaf .string
        { default := d, const := c, enum := e, format := f, pattern := p, minLength := mn, maxLength := mx, description := ds }) := by
  simp only [Elem.leaf, reprExpr, reprCore, reprList, reprOpt, reprKeyed, evalLeaf, leafClassOf]
  rw [kwargs_string]

/-- `Integer(...)` and `Number(...)` -/
theorem C18_round_trip_numeric (cls : Cls) (hc : cls = .integer ∨ cls = .number) (d c : Option JVal) (e : Option (List JVal))
    (a b x y m : Option Num) (ds : Option String) :
    evalLeaf (reprExpr (Elem.leaf cls
        { default := d, const := c, enum := e, minimum := a, maximum := b, exclusiveMinimum := x, exclusiveMaximum := y,
          multipleOf := m, description := ds })) =
      some (Elem.leaf cls
        { default := d, const := c, enum := e, minimum := a, maximum := b, exclusiveMinimum := x, exclusiveMaximum := y,
          multipleOf := m, description := ds }) := by
  rcases hc with rfl | rfl <;>
    (simp only [Elem.leaf, reprExpr, reprCore, reprList, reprOpt, reprKeyed, evalLeaf, leafClassOf]; rw [kwargs_numeric])

/-- `Boolean(...)` and `Null(...)` -/
theorem C18_round_trip_basic (cls : Cls) (hc : cls = .boolean ∨ cls = .null) (d c : Option JVal) (e : Option (List JVal))
    (ds : Option String) :
    evalLeaf (reprExpr (Elem.leaf cls { default := d, const := c, enum := e, description := ds })) =
      some (Elem.leaf cls { default := d, const := c, enum := e, description := ds }) := by
  rcases hc with rfl | rfl
  · simp only [Elem.leaf, reprExpr, reprCore, reprList, reprOpt, reprKeyed, evalLeaf, leafClassOf]
    rw [kwargs_basic Gen.sigBoolean rfl]
  · simp only [Elem.leaf, reprExpr, reprCore, reprList, reprOpt, reprKeyed, evalLeaf, leafClassOf]
    rw [kwargs_basic Gen.sigNull rfl]

/-- a generic `Element(...)` without sub-elements: all 25 keyword slots (12 optional numbers / strings / literals, `required`,
    the seven flags, empty `items` / `properties` / `patternProperties` / `dependencies`), every combination -/
theorem C18_round_trip_element_leaf (d c : Option JVal) (e : Option (List JVal)) (tuple addI : Bool) (mnI mxI : Option Num)
    (uniq : Bool) (a b x y m : Option Num) (f p : Option String) (mnL mxL : Option Num) (req : Option (List String))
    (hp hpp addP : Bool) (mnP mxP : Option Num) (hd : Bool) (ds : Option String) :
    evalLeaf (reprExpr (Elem.leaf .element (leafKw d c e tuple addI mnI mxI uniq a b x y m f p mnL mxL req hp hpp addP mnP mxP hd ds))) =
      some (Elem.leaf .element (leafKw d c e tuple addI mnI mxI uniq a b x y m f p mnL mxL req hp hpp addP mnP mxP hd ds)) := by
  simp only [Elem.leaf, reprExpr, reprCore, reprList, reprOpt, reprKeyed, evalLeaf, leafClassOf]
  rw [kwargs_element]

/-! ### the repr of a whole element tree evaluates back to the tree

`WF env e` (Lemmas/EvalTree): every object class of the tree is in the namespace `env` under its printed name, and every
other node holds exactly what its class's constructor takes, in the form the constructor leaves it in (`NodeOK`: container
keywords consistent with their flags, bound properties, no keyword of another class).  No bound on depth or width. -/

/-- **C18** for trees: `eval(repr(e), namespace)` rebuilds `e` itself — nested elements, tuple and single `items`, property
    dictionaries with renamed and required properties, pattern properties, both forms of `dependencies`, compositions and
    `Not`, object classes looked up by name -/
theorem C18_round_trip_tree (env : String → Option Elem) (e : Elem) (h : WF env e) :
    evalElem env (reprExpr e) = some e := by
  unfold evalElem
  rw [eval_repr env e h]

/-- a property wrapper evaluates to the wrapper: same element, same `required`, and a `source` that binds to the same JSON name -/
theorem C18_round_trip_property (env : String → Option Elem) (k : Key) (e : Elem) (h : WF env e) :
    evalV env (propExpr k (reprExpr e)) =
      some (.prop k.required (if k.src == k.name then none else some k.src) e) ∧
    boundSource k.name (if k.src == k.name then none else some k.src) = k.src := by
  refine ⟨evalV_propExpr env k _ e (eval_repr env e h), ?_⟩
  by_cases hq : k.src = k.name
  · simp [hq, boundSource]
  · have hne : k.src ≠ "" := fun h0 => hq (by rw [h0, Key.src_empty k h0])
    simp [hq, boundSource, hne]

/-- the hypotheses are met by a tree with nesting, a renamed required property, a tuple, a composition and an object class -/
def sampleObj : Elem :=
  .mk (.object "Pet") { hasProps := true } [] none none
    [({ name := "name", required := true, source := some "name" }, Elem.leaf .string)] [] none none [] []
def sampleTree : Elem :=
  .mk .element { hasProps := true, hasPatProps := true, addPropsB := false, itemsKind := .tuple, hasDeps := true } [Elem.leaf .integer { minimum := some (.int 0) }, sampleObj]
    none (some (Elem.leaf .null)) 
    [({ name := "class_", required := true, source := some "class" },
       .mk .array { itemsKind := .single, minItems := some (.int 1) } [sampleObj] none none [] [] none none [] []),
     ({ name := "x", source := some "x" }, Elem.compose .anyOf [Elem.leaf .string { maxLength := some (.int 3) }, Elem.leaf .null] (some .null))]
    [({ name := "^a" }, .mk .not {} [] none none [] [] none none [] [Elem.leaf .boolean])] none none
    [({ name := "a", names := some ["b"] }, Elem.trivial), ({ name := "c" }, Elem.leaf .number)] []
def sampleEnv : String → Option Elem := fun n => if n = "Pet" then some sampleObj else none

example : WF sampleEnv sampleTree := by
  simp [WF, WFL, WFO, WFK, WFD, sampleTree, sampleObj, sampleEnv, NodeOK, Elem.leaf, Elem.compose, Elem.trivial]
  refine ⟨?_, ?_⟩ <;> constructor <;> simp [BoundKey, PatKey, DepOK, Key.src, Elem.trivial, Elem.leaf]

/-- the executable form the driver reports (`namespaceOf` = the tree's own object classes), evaluated in the kernel -/
example : evalBack sampleTree = true := by decide +kernel

/-! ### evaluated in the kernel -/

example :
    (match reprExpr (Elem.mk .array { itemsKind := .single, minItems := some (.int 1), addItemsB := false }
        [Elem.leaf .string { maxLength := some (.int 3) }] none none [] [] none none [] []) with
     | .call "Array" [.call "String" [] [("maxLength", .lit (.num (.int 3)))]]
         [("additionalItems", .lit (.bool false)), ("minItems", .lit (.num (.int 1)))] => true
     | _ => false) = true := by decide +kernel

end Statham.C18
