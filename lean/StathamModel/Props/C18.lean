/-
  C18 — an element's repr is the expression that rebuilds it.
-/
import StathamModel.Py.Repr
import StathamModel.Py.Eval
import StathamModel.Lemmas.EvalLeaf
import StathamModel.Tie
namespace Statham.C18
open Statham

/-- a keyword is printed exactly when it differs from the constructor default: it is absent from the
    keyword arguments iff `kwExpr` is `none` for it -/
theorem kwargs_complete (sig : List Gen.Param) (kw : Kw) (k : ReprKids) (name : String)
    (hsig : ∃ p ∈ sig, p.name = name ∧ p.kind = .keywordOnly) :
    (∃ e, (name, e) ∈ kwargsOf sig kw k) ↔ (kwExpr kw k name).isSome = true := by
  unfold kwargsOf
  constructor
  · rintro ⟨e, he⟩
    obtain ⟨p, _, hpe⟩ := List.mem_filterMap.mp he
    cases hk : kwExpr kw k p.name with
    | none => rw [hk] at hpe; cases hpe
    | some x =>
      rw [hk] at hpe
      simp only [Option.map_some, Option.some.injEq, Prod.mk.injEq] at hpe
      rw [← hpe.1, hk]; rfl
  · intro h
    obtain ⟨p, hp, hn, hkind⟩ := hsig
    cases hk : kwExpr kw k name with
    | none => rw [hk] at h; cases h
    | some x =>
      refine ⟨x, List.mem_filterMap.mpr ⟨p, List.mem_filter.mpr ⟨hp, by simp [hkind]⟩, ?_⟩⟩
      rw [hn, hk]; simp [hn]

/-- only keyword-only parameters of the class's own signature are ever printed as keywords -/
theorem kwargs_sound (sig : List Gen.Param) (kw : Kw) (k : ReprKids) (name : String) (e : PyExpr)
    (h : (name, e) ∈ kwargsOf sig kw k) : ∃ p ∈ sig, p.name = name ∧ p.kind = .keywordOnly := by
  unfold kwargsOf at h
  obtain ⟨p, hp, hpe⟩ := List.mem_filterMap.mp h
  cases hk : kwExpr kw k p.name with
  | none => rw [hk] at hpe; cases hpe
  | some x =>
    rw [hk] at hpe
    simp only [Option.map_some, Option.some.injEq, Prod.mk.injEq] at hpe
    exact ⟨p, (List.mem_filter.mp hp).1, hpe.1, by simpa using (List.mem_filter.mp hp).2⟩

/-- `source` is printed exactly when it differs from the attribute name -/
theorem prop_source_shown (k : Key) (e : PyExpr) :
    (∃ x, propExpr k e = .call "Property" [e] x ∧ ((∃ s, ("source", s) ∈ x) ↔ k.src ≠ k.name)) := by
  unfold propExpr
  refine ⟨_, rfl, ?_⟩
  by_cases hs : k.src == k.name
  · have : k.src = k.name := by simpa using hs
    cases k.required <;> simp [hs, this]
  · have : k.src ≠ k.name := by simpa using hs
    cases k.required <;> simp [hs, this]

/-! ### the repr of a leaf element evaluates back to the element (every keyword configuration of its class) -/

/-- `String(...)`: all 2^8 combinations of passed / not passed keywords, every keyword value -/
theorem C18_round_trip_string (d c : Option JVal) (e : Option (List JVal)) (f p : Option String) (mn mx : Option Num)
    (ds : Option String) :
    evalLeaf (reprExpr (Elem.leaf .string
        { default := d, const := c, enum := e, format := f, pattern := p, minLength := mn, maxLength := mx, description := ds })) =
      some (Elem.leaf .string
        { default := d, const := c, enum := e, format := f, pattern := p, minLength := mn, maxLength := mx, description := ds }) := by
  simp only [Elem.leaf, reprExpr, reprCore, reprList, reprOpt, reprKeyed, evalLeaf, leafClassOf]
  rw [kwargs_string]

/-- `Integer(...)` and `Number(...)` -/
theorem C18_round_trip_numeric (cls : Cls) (hc : cls = .integer ∨ cls = .number) (d c : Option JVal) (e : Option (List JVal))
    (a b x y m : Option Num) (ds : Option String) :
    evalLeaf (reprExpr (Elem.leaf cls
        { default := d, const := c, enum := e, minimum := a, maximum := b, exclusiveMinimum := x, exclusiveMaximum := y,
          multipleOf := m, description := ds })) =
      some (Elem.leaf cls
        { default := d, const := c, enum := e, minimum := a, maximum := b, exclusiveMinimum := x, exclusiveMaximum := y,
          multipleOf := m, description := ds }) := by
  rcases hc with rfl | rfl <;>
    (simp only [Elem.leaf, reprExpr, reprCore, reprList, reprOpt, reprKeyed, evalLeaf, leafClassOf]; rw [kwargs_numeric])

/-- `Boolean(...)` and `Null(...)` -/
theorem C18_round_trip_basic (cls : Cls) (hc : cls = .boolean ∨ cls = .null) (d c : Option JVal) (e : Option (List JVal))
    (ds : Option String) :
    evalLeaf (reprExpr (Elem.leaf cls { default := d, const := c, enum := e, description := ds })) =
      some (Elem.leaf cls { default := d, const := c, enum := e, description := ds }) := by
  rcases hc with rfl | rfl
  · simp only [Elem.leaf, reprExpr, reprCore, reprList, reprOpt, reprKeyed, evalLeaf, leafClassOf]
    rw [kwargs_basic Gen.sigBoolean rfl]
  · simp only [Elem.leaf, reprExpr, reprCore, reprList, reprOpt, reprKeyed, evalLeaf, leafClassOf]
    rw [kwargs_basic Gen.sigNull rfl]

/-- a generic `Element(...)` without sub-elements: all 25 keyword slots (12 optional numbers / strings / literals, `required`,
    the seven flags, empty `items` / `properties` / `patternProperties` / `dependencies`), every combination -/
theorem C18_round_trip_element_leaf (d c : Option JVal) (e : Option (List JVal)) (tuple addI : Bool) (mnI mxI : Option Num)
    (uniq : Bool) (a b x y m : Option Num) (f p : Option String) (mnL mxL : Option Num) (req : Option (List String))
    (hp hpp addP : Bool) (mnP mxP : Option Num) (hd : Bool) (ds : Option String) :
    evalLeaf (reprExpr (Elem.leaf .element (leafKw d c e tuple addI mnI mxI uniq a b x y m f p mnL mxL req hp hpp addP mnP mxP hd ds))) =
      some (Elem.leaf .element (leafKw d c e tuple addI mnI mxI uniq a b x y m f p mnL mxL req hp hpp addP mnP mxP hd ds)) := by
  simp only [Elem.leaf, reprExpr, reprCore, reprList, reprOpt, reprKeyed, evalLeaf, leafClassOf]
  rw [kwargs_element]

/-! ### evaluated in the kernel -/

example :
    (match reprExpr (Elem.mk .array { itemsKind := .single, minItems := some (.int 1), addItemsB := false }
        [Elem.leaf .string { maxLength := some (.int 3) }] none none [] [] none none [] []) with
     | .call "Array" [.call "String" [] [("maxLength", .lit (.num (.int 3)))]]
         [("additionalItems", .lit (.bool false)), ("minItems", .lit (.num (.int 1)))] => true
     | _ => false) = true := by decide +kernel

end Statham.C18
