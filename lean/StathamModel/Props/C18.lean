/-
  C18 — an element's repr is the expression that rebuilds it.
-/
import StathamModel.Py.Repr
import StathamModel.Tie
namespace Statham.C18
open Statham

/-- a keyword is printed exactly when it differs from the constructor default: it is absent from the
    keyword arguments iff `kwExpr` is `none` for it -/
theorem kwargs_complete (sig : List Gen.Param) (kw : Kw) (k : ReprKids) (name : String)
    (hsig : ∃ p ∈ sig, p.name = name ∧ p.kind = .keywordOnly) :
    (∃ e, (name, e) ∈ kwargsOf sig kw k) ↔ (kwExpr kw k name).isSome = true := by
  unfold kwargsOf
  constructor
  · rintro ⟨e, he⟩
    obtain ⟨p, _, hpe⟩ := List.mem_filterMap.mp he
    cases hk : kwExpr kw k p.name with
    | none => rw [hk] at hpe; cases hpe
    | some x =>
      rw [hk] at hpe
      simp only [Option.map_some, Option.some.injEq, Prod.mk.injEq] at hpe
      rw [← hpe.1, hk]; rfl
  · intro h
    obtain ⟨p, hp, hn, hkind⟩ := hsig
    cases hk : kwExpr kw k name with
    | none => rw [hk] at h; cases h
    | some x =>
      refine ⟨x, List.mem_filterMap.mpr ⟨p, List.mem_filter.mpr ⟨hp, by simp [hkind]⟩, ?_⟩⟩
      rw [hn, hk]; simp [hn]

/-- only keyword-only parameters of the class's own signature are ever printed as keywords -/
theorem kwargs_sound (sig : List Gen.Param) (kw : Kw) (k : ReprKids) (name : String) (e : PyExpr)
    (h : (name, e) ∈ kwargsOf sig kw k) : ∃ p ∈ sig, p.name = name ∧ p.kind = .keywordOnly := by
  unfold kwargsOf at h
  obtain ⟨p, hp, hpe⟩ := List.mem_filterMap.mp h
  cases hk : kwExpr kw k p.name with
  | none => rw [hk] at hpe; cases hpe
  | some x =>
    rw [hk] at hpe
    simp only [Option.map_some, Option.some.injEq, Prod.mk.injEq] at hpe
    exact ⟨p, (List.mem_filter.mp hp).1, hpe.1, by simpa using (List.mem_filter.mp hp).2⟩

/-- `source` is printed exactly when it differs from the attribute name -/
theorem prop_source_shown (k : Key) (e : PyExpr) :
    (∃ x, propExpr k e = .call "Property" [e] x ∧ ((∃ s, ("source", s) ∈ x) ↔ k.src ≠ k.name)) := by
  unfold propExpr
  refine ⟨_, rfl, ?_⟩
  by_cases hs : k.src == k.name
  · have : k.src = k.name := by simpa using hs
    cases k.required <;> simp [hs, this]
  · have : k.src ≠ k.name := by simpa using hs
    cases k.required <;> simp [hs, this]

/-! ### evaluated in the kernel -/

example :
    (match reprExpr (Elem.mk .array { itemsKind := .single, minItems := some (.int 1), addItemsB := false }
        [Elem.leaf .string { maxLength := some (.int 3) }] none none [] [] none none [] []) with
     | .call "Array" [.call "String" [] [("maxLength", .lit (.num (.int 3)))]]
         [("additionalItems", .lit (.bool false)), ("minItems", .lit (.num (.int 1)))] => true
     | _ => false) = true := by decide +kernel

end Statham.C18
