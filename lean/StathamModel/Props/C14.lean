/-
  C14 — concurrent validation against shared models equals sequential validation.

  PARTIAL: the theorem is about interleavings of the atomic shared-state steps of calls (the model of
  Threads.lean); that the library's calls consist of such steps only is carried by the write-site
  inventory tie (C08) and by the controlled-scheduler correspondence; CPython's actual preemption
  granularity, the GIL and C-level atomicity are not modelled.
-/
import StathamModel.Threads
import StathamModel.Props.C08
namespace Statham.C14
open Statham

/-- a step that leaves the shared state as it is -/
def Noop (s : Shared) (a : Act) : Prop := (a.run s).1 = s

theorem read_noop (s : Shared) (p : Nat) : Noop s (.read p) := rfl

/-- in a state where every step of every thread is a no-op, any execution order leaves the state unchanged and
    every step observes what it would observe in that state -/
theorem trace_fixed (s : Shared) (tr : Trace) (h : ∀ p ∈ tr, Noop s p.2) :
    runTrace s tr = (s, tr.map fun p => (p.1, (p.2.run s).2)) := by
  induction tr with
  | nil => rfl
  | cons p r ih =>
    obtain ⟨t, a⟩ := p
    have h0 : (a.run s).1 = s := h (t, a) (List.mem_cons_self ..)
    have ih' := ih fun q hq => h q (List.mem_cons_of_mem _ hq)
    simp only [runTrace, List.map_cons]
    rw [show a.run s = (s, (a.run s).2) from Prod.ext h0 rfl]
    simp only
    rw [ih']

theorem obsOf_map (s : Shared) (tr : Trace) (t : Nat) :
    obsOf (tr.map fun p => (p.1, (p.2.run s).2)) t = (tr.ofThread t).map fun a => (a.run s).2 := by
  unfold obsOf Trace.ofThread
  induction tr with
  | nil => rfl
  | cons p r ih =>
    by_cases e : (p.1 == t) = true
    · simp only [List.map_cons, List.filter_cons, e, if_true] at ih ⊢
      rw [ih]
    · simp only [List.map_cons, List.filter_cons, e] at ih ⊢
      exact ih

/-- **Every interleaving equals the sequential runs.**  Let the shared `_Property` records be in a state `s` in
    which each step of each thread's program is a no-op (a bound tree, see `bind_noop_bound`).  Then for *every*
    execution `tr` whose per-thread projections are the threads' programs — any number of threads, any
    preemption points — the shared state afterwards is `s` (the tree is unchanged) and each thread observed
    exactly what it observes when it runs alone from `s`. -/
theorem C14_interleavings (s : Shared) (progs : Nat → List Act) (tr : Trace)
    (hproj : ∀ t, tr.ofThread t = progs t)
    (hnoop : ∀ t, ∀ a ∈ progs t, Noop s a) :
    (runTrace s tr).1 = s ∧ ∀ t, obsOf (runTrace s tr).2 t = (runAlone s (progs t)).2 ∧ (runAlone s (progs t)).1 = s := by
  have hall : ∀ p ∈ tr, Noop s p.2 := by
    intro p hp
    apply hnoop p.1 p.2
    rw [← hproj p.1]
    unfold Trace.ofThread
    apply List.mem_map.mpr
    refine ⟨p, ?_, rfl⟩
    apply List.mem_filter.mpr
    exact ⟨hp, by simp⟩
  rw [trace_fixed s tr hall]
  refine ⟨rfl, fun t => ?_⟩
  have halone : ∀ q ∈ (progs t).map (fun a => ((0 : Nat), a)), Noop s q.2 := by
    intro q hq
    obtain ⟨a, ha, rfl⟩ := List.mem_map.mp hq
    exact hnoop t a ha
  unfold runAlone
  rw [trace_fixed s _ halone]
  simp only [List.map_map]
  constructor
  · rw [obsOf_map, hproj t]
    simp [Function.comp_def]
  · trivial

/-! ### On a bound tree every `bind` of the call path is a no-op -/

/-- property `p` is bound under `name` in element `parent`, the way `_PropertyDict` leaves it at construction -/
def BoundAt (s : Shared) (p : Nat) (name : String) (parent : Nat) : Prop :=
  ∃ ps src, s[p]? = some ps ∧ ps.name = some name ∧ ps.parent = some parent ∧ ps.source = some src ∧ src ≠ ""

theorem bind_noop_bound (s : Shared) (p : Nat) (name : String) (parent : Nat) (h : BoundAt s p name parent) :
    Noop s (.bind p name parent) := by
  obtain ⟨ps, src, hp, hn, hpar, hs, hne⟩ := h
  unfold Noop
  simp only [Act.run, hp]
  have : ps.bind name parent = ps := by
    cases ps with
    | mk n so pa =>
      simp only at hn hpar hs
      subst hn hpar hs
      unfold PState.bind
      by_cases e : name = ""
      · simp [e]
      · simp [e, hne]
  rw [this]
  have hlt : p < s.length := by
    rcases Nat.lt_or_ge p s.length with h' | h'
    · exact h'
    · rw [List.getElem?_eq_none h'] at hp; cases hp
  have hget : s[p] = ps := by
    have := List.getElem?_eq_getElem hlt
    rw [hp] at this
    exact (Option.some.inj this).symm
  rw [← hget]
  exact List.set_getElem_self hlt

/-- the first bind of a fresh `_Property` establishes the bound state (so every later one is a no-op) -/
theorem bind_establishes (s : Shared) (p : Nat) (name : String) (parent : Nat) (hn : name ≠ "")
    (hp : p < s.length) : BoundAt ((Act.bind p name parent).run s).1 p name parent := by
  have : s[p]? = some s[p] := List.getElem?_eq_getElem hp
  simp only [Act.run, this]
  have hsrc : ∃ src, (s[p].bind name parent).source = some src ∧ src ≠ "" := by
    unfold PState.bind
    simp only [hn, if_false]
    cases s[p].source with
    | none => exact ⟨name, rfl, hn⟩
    | some x =>
      by_cases e : x = ""
      · exact ⟨name, by simp [e], hn⟩
      · exact ⟨x, by simp [e], e⟩
  obtain ⟨src, h1, h2⟩ := hsrc
  exact ⟨s[p].bind name parent, src, by simp [hp], by simp [PState.bind, hn], by simp [PState.bind, hn], h1, h2⟩

/-- the calls' shared writes are binds (tie: the inventory theorem of C08 re-checked on this run) -/
theorem shared_writes_are_binds :
    ((C08.accounted.filter fun p => C08.onCallPath p.1).filter fun p =>
        !(p.2 == .localContainer || p.2 == .freshResult || p.2 == .construction || p.2 == .registry)).all
      (fun p => p.2 == .bind) = true := by decide +kernel

/-! ### What the hypothesis excludes: one `_Property` object placed under two names -/

/-- property 0 sits under "a" in element 1 and is also placed under "b" in element 2 -/
def sharedWrapper : Shared := [{ name := some "a", source := some "a", parent := some 1 }]
def progA : List Act := [.bind 0 "a" 1, .read 0]
def progB : List Act := [.bind 0 "b" 2, .read 0]
/-- A binds, B binds, A reads: A sees B's name -/
def badTrace : Trace := [(0, .bind 0 "a" 1), (1, .bind 0 "b" 2), (0, .read 0), (1, .read 0)]

theorem counter_shared_wrapper :
    badTrace.ofThread 0 = progA ∧ badTrace.ofThread 1 = progB ∧
    obsOf (runTrace sharedWrapper badTrace).2 0 ≠ (runAlone sharedWrapper progA).2 := by decide +kernel

/-- non-vacuity: a bound tree with two threads whose programs satisfy the hypothesis -/
def boundTree : Shared := [{ name := some "a", source := some "a", parent := some 1 }, { name := some "b", source := some "src", parent := some 1 }]
example : BoundAt boundTree 0 "a" 1 ∧ BoundAt boundTree 1 "b" 1 :=
  ⟨⟨_, "a", rfl, rfl, rfl, rfl, by decide⟩, ⟨_, "src", rfl, rfl, rfl, rfl, by decide⟩⟩

end Statham.C14
