/-
  C02 — generated Python models accept exactly what the source schema accepts.

  The generated module is modelled as an AST (`Py/Module.lean`): import groups, then one `ClassDef` per class
  in the orderer's order.  Proved here: each class is declared exactly once and after every class it depends
  on; a property is printed with the optional wrapper exactly when it is neither required nor defaulted;
  class keywords are printed exactly when they differ from the constructor default.  That executing the
  text rebuilds an equal class is compared on the real code (exec + `==`), not proved here.
-/
import StathamModel.Py.Module
import StathamModel.Props.C11
import StathamModel.Props.C18
import StathamModel.Tie
namespace Statham.C02
open Statham

/-- the declared classes are the orderer's answer, in its order, restricted to classes that exist -/
theorem classes_follow_order (els : List Elem) (m : PyModule) (h : emitModule els = .ok m) :
    ∃ order, ordererTree els = .ok order ∧
      m.classes = order.filterMap fun n => ((objectClasses els).find? fun c => objName c.cls == n).map classDef := by
  unfold emitModule at h
  cases ho : ordererTree els with
  | error e => rw [ho] at h; cases h
  | ok order =>
    rw [ho] at h
    simp only [Except.ok.injEq] at h
    exact ⟨order, rfl, by rw [← h]⟩

theorem classDef_name (e : Elem) : (classDef e).name = objName e.cls := rfl

/-- **Exactly one class statement per class**: no class name is declared twice. -/
theorem C02_declared_once (els : List Elem) (m : PyModule) (h : emitModule els = .ok m) :
    (m.classes.map (·.name)).Nodup := by
  obtain ⟨order, ho, hc⟩ := classes_follow_order els m h
  have hnd : order.Nodup := (C11.C11_order_sound _ order ho).1
  rw [hc]
  -- names of the filterMap are a sublist of `order`
  have : ∀ (l : List String), l.Nodup →
      ((l.filterMap fun n => ((objectClasses els).find? fun c => objName c.cls == n).map classDef).map (·.name)).Nodup := by
    intro l hl
    induction l with
    | nil => simp
    | cons n r ih =>
      have hr := (List.nodup_cons.mp hl).2
      have hn := (List.nodup_cons.mp hl).1
      simp only [List.filterMap_cons]
      cases hf : (objectClasses els).find? (fun c => objName c.cls == n) with
      | none => simpa using ih hr
      | some c =>
        simp only [Option.map_some, List.map_cons]
        refine List.nodup_cons.mpr ⟨?_, ih hr⟩
        have hcn : objName c.cls = n := by simpa using List.find?_some hf
        rw [classDef_name, hcn]
        intro hmem
        obtain ⟨d, hd, hdn⟩ := List.mem_map.mp hmem
        obtain ⟨x, hx, hxe⟩ := List.mem_filterMap.mp hd
        cases hf2 : (objectClasses els).find? (fun c => objName c.cls == x) with
        | none => rw [hf2] at hxe; cases hxe
        | some c2 =>
          rw [hf2] at hxe
          simp only [Option.map_some, Option.some.injEq] at hxe
          have : objName c2.cls = x := by simpa using List.find?_some hf2
          rw [← hxe, classDef_name, this] at hdn
          exact hn (hdn ▸ hx)
  exact this order hnd

/-- **Each class after everything it depends on**: if class `n` is declared at position `i` of the orderer's
    answer, every descendant class of `n` (as the orderer computes them) was declared before it. -/
theorem C02_dependencies_first (els : List Elem) (order : List String) (h : ordererTree els = .ok order)
    (i : Nat) (n : String) (hi : order[i]? = some n) :
    ∀ d ∈ descendantsOf (treeGraph els) n, d ∈ order.take i :=
  ((C11.C11_order_sound _ order h).2 i n hi).2

/-- a property line carries the optional wrapper exactly when the property is neither required nor defaulted -/
theorem C02_optional_wrapper (k : Key) (e : Elem) :
    propAnnot k e = (if k.required = true ∨ e.kw.default.isSome = true then annot e else .maybe (annot e)) := by
  unfold propAnnot
  by_cases h1 : k.required = true
  · simp [h1]
  · by_cases h2 : e.kw.default.isSome = true
    · simp [h2]
    · simp [h1, h2]

/-- class keywords: printed exactly when they differ from the `ObjectMeta.__new__` default (and never `description`,
    which becomes the docstring) -/
theorem C02_class_keywords (e : Elem) (name : String) (x : PyExpr) (h : (name, x) ∈ (classDef e).kwargs) :
    name ≠ "description" ∧ (∃ p ∈ Gen.sigObjectMeta, p.name = name ∧ p.kind = .keywordOnly) ∧
      kwExpr e.kw (reprKidsOf e) name = some x := by
  unfold classDef at h
  simp only [List.mem_filter, bne_iff_ne, ne_eq] at h
  obtain ⟨hmem, hne⟩ := h
  refine ⟨hne, C18.kwargs_sound _ _ _ _ _ hmem, ?_⟩
  unfold kwargsOf at hmem
  obtain ⟨p, _, hpe⟩ := List.mem_filterMap.mp hmem
  cases hk : kwExpr e.kw (reprKidsOf e) p.name with
  | none => rw [hk] at hpe; cases hpe
  | some y =>
    rw [hk] at hpe
    simp only [Option.map_some, Option.some.injEq, Prod.mk.injEq] at hpe
    rw [← hpe.1, hk, hpe.2]

/-! ### evaluated in the kernel: a parent with a nested class, as the generator emits it -/

def child : Elem := .mk (.object "Child") { hasProps := true } [] none none
  [({ name := "id", required := true, source := some "id" }, Elem.leaf .string)] [] none none [] []
def root : Elem := .mk (.object "Root") { hasProps := true, addPropsB := false, description := some "The root." } [] none none
  [({ name := "child", source := some "child" }, child),
   ({ name := "tags", source := some "tags" }, .mk .array { itemsKind := .single } [Elem.leaf .string] none none [] [] none none [] [])]
  [] none none [] []

example : (match emitModule [root] with
    | .ok m => m.classes.map (·.name) == ["Child", "Root"] && m.elements == ["Array", "Object", "String"] && m.maybe && m.property &&
        m.typing == ["List"] &&
        (List.range m.classes.length).all (fun i => match m.classes[i]? with
          | some c => c.names.all fun n => (m.scopeAt i).contains n
          | none => true)
    | .error _ => false) = true := by decide +kernel

example : (match emitModule [root] with
    | .ok m => (m.classes.map fun c => c.props.map fun p => (p.attr, p.ann.show)) ==
        [[("id", "str")], [("child", "Maybe[Child]"), ("tags", "Maybe[List[str]]")]]
    | .error _ => false) = true := by decide +kernel

end Statham.C02
