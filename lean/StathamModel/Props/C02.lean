/-
  C02 — generated Python models accept exactly what the source schema accepts.

  The generated module is modelled as an AST (`Py/Module.lean`): import groups, then one `ClassDef` per class
  in the orderer's order.  Proved here: each class is declared exactly once and after every class it depends
  on; a property is printed with the optional wrapper exactly when it is neither required nor defaulted;
  class keywords are printed exactly when they differ from the constructor default; executing a class statement
  in a namespace that holds the classes it refers to rebuilds the class itself, and executing a module top to
  bottom rebuilds every class (`C02_class_statement_rebuilds`, `C02_module_executes`, over the evaluator model
  `Py/EvalTree.lean` + `Py/EvalClass.lean`, which is tied to the real `exec` differentially).
-/
import StathamModel.Py.Module
import StathamModel.Props.C11
import StathamModel.Props.C18
import StathamModel.Lemmas.ReprNames
import StathamModel.Lemmas.AnnotNames
import StathamModel.Lemmas.EvalClass
import StathamModel.Lemmas.ModuleExec
import StathamModel.Tie
namespace Statham.C02
open Statham

/-- the declared classes are the orderer's answer, in its order, restricted to classes that exist -/
theorem classes_follow_order (els : List Elem) (m : PyModule) (h : emitModule els = .ok m) :
    ∃ order, ordererTree els = .ok order ∧
      m.classes = order.filterMap fun n => ((objectClasses els).find? fun c => objName c.cls == n).map classDef := by
  unfold emitModule at h
  cases ho : ordererTree els with
  | error e => rw [ho] at h; cases h
  | ok order =>
    rw [ho] at h
    simp only [Except.ok.injEq] at h
    exact ⟨order, rfl, by rw [← h]⟩

theorem classDef_name (e : Elem) : (classDef e).name = objName e.cls := rfl

/-- **Exactly one class statement per class**: no class name is declared twice. -/
theorem C02_declared_once (els : List Elem) (m : PyModule) (h : emitModule els = .ok m) :
    (m.classes.map (·.name)).Nodup := by
  obtain ⟨order, ho, hc⟩ := classes_follow_order els m h
  have hnd : order.Nodup := (C11.C11_order_sound _ order ho).1
  rw [hc]
  -- names of the filterMap are a sublist of `order`
  have : ∀ (l : List String), l.Nodup →
      ((l.filterMap fun n => ((objectClasses els).find? fun c => objName c.cls == n).map classDef).map (·.name)).Nodup := by
    intro l hl
    induction l with
    | nil => simp
    | cons n r ih =>
      have hr := (List.nodup_cons.mp hl).2
      have hn := (List.nodup_cons.mp hl).1
      simp only [List.filterMap_cons]
      cases hf : (objectClasses els).find? (fun c => objName c.cls == n) with
      | none => simpa using ih hr
      | some c =>
        simp only [Option.map_some, List.map_cons]
        refine List.nodup_cons.mpr ⟨?_, ih hr⟩
        have hcn : objName c.cls = n := by simpa using List.find?_some hf
        rw [classDef_name, hcn]
        intro hmem
        obtain ⟨d, hd, hdn⟩ := List.mem_map.mp hmem
        obtain ⟨x, hx, hxe⟩ := List.mem_filterMap.mp hd
        cases hf2 : (objectClasses els).find? (fun c => objName c.cls == x) with
        | none => rw [hf2] at hxe; cases hxe
        | some c2 =>
          rw [hf2] at hxe
          simp only [Option.map_some, Option.some.injEq] at hxe
          have : objName c2.cls = x := by simpa using List.find?_some hf2
          rw [← hxe, classDef_name, this] at hdn
          exact hn (hdn ▸ hx)
  exact this order hnd

/-- **Each class after everything it depends on**: if class `n` is declared at position `i` of the orderer's
    answer, every descendant class of `n` (as the orderer computes them) was declared before it. -/
theorem C02_dependencies_first (els : List Elem) (order : List String) (h : ordererTree els = .ok order)
    (i : Nat) (n : String) (hi : order[i]? = some n) :
    ∀ d ∈ descendantsOf (treeGraph els) n, d ∈ order.take i :=
  ((C11.C11_order_sound _ order h).2 i n hi).2

/-- a property line carries the optional wrapper exactly when the property is neither required nor defaulted -/
theorem C02_optional_wrapper (k : Key) (e : Elem) :
    propAnnot k e = (if k.required = true ∨ e.kw.default.isSome = true then annot e else .maybe (annot e)) := by
  unfold propAnnot
  by_cases h1 : k.required = true
  · simp [h1]
  · by_cases h2 : e.kw.default.isSome = true
    · simp [h2]
    · simp [h1, h2]

/-- class keywords: printed exactly when they differ from the `ObjectMeta.__new__` default (and never `description`,
    which becomes the docstring) -/
theorem C02_class_keywords (e : Elem) (name : String) (x : PyExpr) (h : (name, x) ∈ (classDef e).kwargs) :
    name ≠ "description" ∧ (∃ p ∈ Gen.sigObjectMeta, p.name = name ∧ p.kind = .keywordOnly) ∧
      kwExpr e.kw (reprKidsOf e) name = some x := by
  unfold classDef at h
  simp only [List.mem_filter, bne_iff_ne, ne_eq] at h
  obtain ⟨hmem, hne⟩ := h
  refine ⟨hne, C18.kwargs_sound _ _ _ _ _ hmem, ?_⟩
  unfold kwargsOf at hmem
  obtain ⟨p, _, hpe⟩ := List.mem_filterMap.mp hmem
  cases hk : kwExpr e.kw (reprKidsOf e) p.name with
  | none => rw [hk] at hpe; cases hpe
  | some y =>
    rw [hk] at hpe
    simp only [Option.map_some, Option.some.injEq, Prod.mk.injEq] at hpe
    rw [← hpe.1, hk, hpe.2]

/-! ### every name the module refers to is imported or is a class the referring class depends on -/

theorem contains_of_mem {l : List String} {n : String} (h : n ∈ l) : l.contains n = true := by
  simpa using h

/-- **The module uses only what it imports or declares.**  For every class statement of the generated module and
    every name its source refers to — base class, class keywords, annotations and property expressions — the name
    is one of the imported typing words, `Maybe` / `Property` with the corresponding import present, an imported
    element class, or the name of a model class among the descendants of the class being declared (and those are
    declared earlier: `C02_dependencies_first`). -/
theorem C02_names_resolved (els : List Elem) (m : PyModule) (h : emitModule els = .ok m)
    (hok : ∀ c ∈ objectClasses els, ArraysOK c) :
    ∀ cd ∈ m.classes, ∀ n ∈ cd.names,
      n ∈ m.typing ∨ (n = "Maybe" ∧ m.maybe = true) ∨ (n = "Property" ∧ m.property = true) ∨ n ∈ m.elements ∨
      ∃ c ∈ objectClasses els, objName c.cls = cd.name ∧ n ∈ directClasses c := by
  unfold emitModule at h
  cases ho : ordererTree els with
  | error e => rw [ho] at h; cases h
  | ok order =>
    rw [ho] at h
    simp only [Except.ok.injEq] at h
    subst h
    intro cd hcd n hn
    simp only at hcd hn ⊢
    -- the class element this statement was printed from
    obtain ⟨nm, _, hfm⟩ := List.mem_filterMap.mp hcd
    cases hf : (objectClasses els).find? (fun c => objName c.cls == nm) with
    | none => rw [hf] at hfm; cases hfm
    | some c =>
      rw [hf] at hfm
      simp only [Option.map_some, Option.some.injEq] at hfm
      subst hfm
      have hc : c ∈ objectClasses els := List.mem_of_find?_eq_some hf
      have hcls : isObjectClass c.cls = true := (List.mem_filter.mp hc).2
      have hcall : c ∈ els ++ (els.map descendants).flatten := (List.mem_filter.mp hc).1
      -- all names of all class statements
      have hall : n ∈ ((order.filterMap fun n => ((objectClasses els).find? fun c => objName c.cls == n).map classDef).map
          ClassDef.names).flatten :=
        List.mem_flatten.mpr ⟨_, List.mem_map.mpr ⟨classDef c, hcd, rfl⟩, hn⟩
      generalize ((order.filterMap fun n => ((objectClasses els).find? fun c => objName c.cls == n).map classDef).map
          ClassDef.names).flatten = allNames at hall ⊢
      -- descendants of c are among everything the import scan sees
      have hdesc : ∀ d ∈ descendants c, d ∈ els ++ (els.map descendants).flatten := by
        intro d hd
        rcases List.mem_append.mp hcall with hce | hce
        · exact List.mem_append_right _ (List.mem_flatten.mpr ⟨_, List.mem_map.mpr ⟨c, hce, rfl⟩, hd⟩)
        · obtain ⟨l, hl, hcl⟩ := List.mem_flatten.mp hce
          obtain ⟨r, hr, rfl⟩ := List.mem_map.mp hl
          exact List.mem_append_right _ (List.mem_flatten.mpr ⟨_, List.mem_map.mpr ⟨r, hr, rfl⟩, desc_trans r c hcl d hd⟩)
      -- a printed name of a descendant is an imported element class or a class the statement depends on
      have of_desc : ∀ d ∈ descendants c, printedName d = n →
          n ∈ sortDedupe ((els ++ (els.map descendants).flatten).map importName) ∨
          ∃ c' ∈ objectClasses els, objName c'.cls = (classDef c).name ∧ n ∈ directClasses c' := by
        intro d hd hpn
        by_cases hdc : isObjectClass d.cls = true
        · refine Or.inr ⟨c, hc, rfl, ?_⟩
          unfold directClasses
          refine List.mem_map.mpr ⟨d, List.mem_filter.mpr ⟨hd, hdc⟩, ?_⟩
          rw [← hpn]
          cases hdd : d.cls <;> simp [hdd, isObjectClass] at hdc ⊢
          simp [printedName, hdd, pyClassName, objName]
        · refine Or.inl (mem_sortDedupe.mpr (List.mem_map.mpr ⟨d, hdesc d hd, ?_⟩))
          rw [← hpn]
          unfold importName printedName
          cases hdd : d.cls <;> simp [hdd, isObjectClass] at hdc ⊢
      have of_allowed : Allowed (descendants c) n →
          (n = "Property" ∧ allNames.contains "Property" = true) ∨ n ∈ sortDedupe ((els ++ (els.map descendants).flatten).map importName) ∨
          ∃ c' ∈ objectClasses els, objName c'.cls = (classDef c).name ∧ n ∈ directClasses c' := by
        intro ha
        rcases ha with hp | ⟨d, hd, hpn⟩
        · exact Or.inl ⟨hp, by rw [hp] at hall; exact contains_of_mem hall⟩
        · exact Or.inr (of_desc d hd hpn)
      -- where the name sits in the class statement
      simp only [ClassDef.names, List.mem_cons, List.mem_append] at hn
      rcases hn with hbase | hkw | hprops
      · -- the base class `Object`
        refine Or.inr (Or.inr (Or.inr (Or.inl (mem_sortDedupe.mpr (List.mem_map.mpr ⟨c, hcall, ?_⟩)))))
        rw [hbase]
        unfold importName classDef
        cases hcc : c.cls <;> simp [hcc, isObjectClass] at hcls ⊢
      · -- class keywords
        have hk : n ∈ PyExpr.namesKw (kwargsOf Gen.sigObjectMeta c.kw (reprKidsOf c)) := by
          have hsub : ∀ (l : List (String × PyExpr)) (p : String × PyExpr → Bool), ∀ x ∈ PyExpr.namesKw (l.filter p),
              x ∈ PyExpr.namesKw l := by
            intro l p
            induction l with
            | nil => intro x hx; simpa using hx
            | cons a r ih =>
              intro x hx
              obtain ⟨an, ae⟩ := a
              by_cases hp : p (an, ae) = true
              · simp only [List.filter_cons, hp, if_true, PyExpr.namesKw, List.mem_append] at hx ⊢
                rcases hx with hx | hx
                · exact Or.inl hx
                · exact Or.inr (ih x hx)
              · simp only [List.filter_cons, hp, Bool.false_eq_true, if_false] at hx
                simp only [PyExpr.namesKw, List.mem_append]
                exact Or.inr (ih x hx)
          exact hsub _ _ n hkw
        rcases of_allowed (kids_allowed c (hok c hc) n (kwargsOf_names _ _ _ n hk)) with h1 | h1 | h1
        · exact Or.inr (Or.inr (Or.inl h1))
        · exact Or.inr (Or.inr (Or.inr (Or.inl h1)))
        · exact Or.inr (Or.inr (Or.inr (Or.inr h1)))
      · -- property lines
        obtain ⟨l, hl, hnl⟩ := List.mem_flatten.mp hprops
        obtain ⟨pl, hpl, rfl⟩ := List.mem_map.mp hl
        simp only [classDef, List.mem_map] at hpl
        obtain ⟨ke, hke, rfl⟩ := hpl
        obtain ⟨k, e⟩ := ke
        have hsubtree := prop_in_descendants c hke
        have hok_e : ArraysOK e := arraysOK_prop (hok c hc) hke
        simp only [List.mem_append] at hnl
        rcases hnl with hann | hexpr
        · -- the annotation
          have hcore : typingWord n ∨ ClassIn (e :: descendants e) n ∨ n = "Maybe" := by
            unfold propAnnot at hann
            split at hann
            · rcases annot_names e n hann with h1 | h1
              · exact Or.inl h1
              · exact Or.inr (Or.inl h1)
            · simp only [PyType.names, List.mem_cons] at hann
              rcases hann with h1 | h1
              · exact Or.inr (Or.inr h1)
              · rcases annot_names e n h1 with h2 | h2
                · exact Or.inl h2
                · exact Or.inr (Or.inl h2)
          rcases hcore with hw | ⟨d, hd, hdc, hdn⟩ | hm
          · refine Or.inl (List.mem_filter.mpr ⟨?_, contains_of_mem hall⟩)
            rcases hw with rfl | rfl | rfl <;> simp
          · refine Or.inr (Or.inr (Or.inr (Or.inr ⟨c, hc, rfl, ?_⟩)))
            unfold directClasses
            exact List.mem_map.mpr ⟨d, List.mem_filter.mpr ⟨hsubtree d hd, hdc⟩, hdn⟩
          · exact Or.inr (Or.inl ⟨hm, by rw [hm] at hall; exact contains_of_mem hall⟩)
        · -- the `Property(...)` expression
          rw [propExpr_names] at hexpr
          rcases List.mem_cons.mp hexpr with hp | hx
          · exact Or.inr (Or.inr (Or.inl ⟨hp, by rw [hp] at hall; exact contains_of_mem hall⟩))
          · rcases reprExpr_names e hok_e n hx with hp | ⟨d, hd, hpn⟩
            · exact Or.inr (Or.inr (Or.inl ⟨hp, by rw [hp] at hall; exact contains_of_mem hall⟩))
            · rcases of_desc d (hsubtree d hd) hpn with h1 | h1
              · exact Or.inr (Or.inr (Or.inr (Or.inl h1)))
              · exact Or.inr (Or.inr (Or.inr (Or.inr h1)))

/-! ### evaluated in the kernel: a parent with a nested class, as the generator emits it -/

def child : Elem := .mk (.object "Child") { hasProps := true } [] none none
  [({ name := "id", required := true, source := some "id" }, Elem.leaf .string)] [] none none [] []
def root : Elem := .mk (.object "Root") { hasProps := true, addPropsB := false, description := some "The root." } [] none none
  [({ name := "child", source := some "child" }, child),
   ({ name := "tags", source := some "tags" }, .mk .array { itemsKind := .single } [Elem.leaf .string] none none [] [] none none [] [])]
  [] none none [] []

example : (match emitModule [root] with
    | .ok m => m.classes.map (·.name) == ["Child", "Root"] && m.elements == ["Array", "Object", "String"] && m.maybe && m.property &&
        m.typing == ["List"] &&
        (List.range m.classes.length).all (fun i => match m.classes[i]? with
          | some c => c.names.all fun n => (m.scopeAt i).contains n
          | none => true)
    | .error _ => false) = true := by decide +kernel

example : (match emitModule [root] with
    | .ok m => (m.classes.map fun c => c.props.map fun p => (p.attr, p.ann.show)) ==
        [[("id", "str")], [("child", "Maybe[Child]"), ("tags", "Maybe[List[str]]")]]
    | .error _ => false) = true := by decide +kernel

/-! ### executing the generated text rebuilds the classes -/

open Statham.PyEval in
/-- **a class statement, executed, is the class**: for a model class in the form its statement determines (`ClassOK`:
    only what `ObjectMeta` takes, container keywords consistent with their flags, bound properties) whose sub-elements are
    well formed for the namespace (every class they refer to is there under its printed name) -/
theorem C02_class_statement_rebuilds (env : String → Option Elem) (n : String) (kw : Kw) (items : List Elem)
    (addI cont : Option Elem) (props pats : List (Key × Elem)) (addP pn : Option Elem) (deps : List (Key × Elem)) (els : List Elem)
    (ok : ClassOK ⟨kw, items, addI, cont, props, pats, addP, pn, deps, els⟩)
    (hi : WFL env items) (ha : WFO env addI) (hc : WFO env cont) (hp : WFK env props) (hpt : WFK env pats)
    (hap : WFO env addP) (hpn : WFO env pn) (hd : WFD env deps) (he : WFL env els) :
    evalClassDef env (classDef (.mk (.object n) kw items addI cont props pats addP pn deps els)) =
      some (.mk (.object n) kw items addI cont props pats addP pn deps els) :=
  evalClassDef_classDef env n kw items addI cont props pats addP pn deps els ok hi ha hc hp hpt hap hpn hd he

open Statham.PyEval in
/-- **a module, executed top to bottom, rebuilds every class**: if each class statement is executable in the namespace the
    earlier statements leave behind (`ChainOK`; that the classes a statement refers to *are* earlier is
    `C02_dependencies_first`), the execution yields exactly the classes the statements were printed from, in order -/
theorem C02_module_executes (cs : List Elem) (env : String → Option Elem) (h : ChainOK env cs) :
    execClasses env (cs.map classDef) = some (cs.map fun c => (objName c.cls, c)) :=
  execClasses_ok cs env h

open Statham.PyEval in
/-- **every module the generator model emits from well-formed trees executes back to its classes.**  `ModuleOK`: one class
    per name, none called `NotPassed`, classes in the form their statement determines, every other element in the form its
    constructor leaves it in.  No hypothesis about the order: that each statement finds its classes already declared is
    derived (orderer soundness `C11_declared_after_dependencies` + adequacy of its search), for trees of any size. -/
theorem C02_emitted_module_executes (els : List Elem) (m : PyModule) (h : emitModule els = .ok m) (ok : ModuleOK els) :
    ∃ cs : List Elem, m.classes = cs.map classDef ∧
      execClasses (fun _ => none) m.classes = some (cs.map fun c => (objName c.cls, c)) := by
  obtain ⟨order, ho, hc⟩ := classes_follow_order els m h
  refine ⟨order.filterMap (lookupClass els), ?_, ?_⟩
  · rw [hc, List.map_filterMap]
    rfl
  · have hchain := chainOK_of_module els ok order ho order [] (fun _ => none) (by simp) (by intro d _ hd; cases hd)
    have : m.classes = (order.filterMap (lookupClass els)).map classDef := by rw [hc, List.map_filterMap]; rfl
    rw [this]
    exact C02_module_executes _ _ hchain

open Statham.PyEval in
/-- **every class the executed module defines is one of the parsed classes, bound under its own name** — so the executed class
    and the parsed class are the same element: equal, and validating identically, in every environment -/
theorem C02_executed_classes_are_parsed (els : List Elem) (m : PyModule) (h : emitModule els = .ok m) (ok : ModuleOK els) :
    ∃ defs : List (String × Elem), execClasses (fun _ => none) m.classes = some defs ∧
      ∀ p ∈ defs, p.2 ∈ objectClasses els ∧ objName p.2.cls = p.1 := by
  obtain ⟨order, ho, hc⟩ := classes_follow_order els m h
  have hchain := chainOK_of_module els ok order ho order [] (fun _ => none) (by simp) (by intro d _ hd; cases hd)
  have hm : m.classes = (order.filterMap (lookupClass els)).map classDef := by rw [hc, List.map_filterMap]; rfl
  refine ⟨_, by rw [hm]; exact C02_module_executes _ _ hchain, ?_⟩
  intro p hp
  obtain ⟨c, hcmem, rfl⟩ := List.mem_map.mp hp
  obtain ⟨n, _, hl⟩ := List.mem_filterMap.mp hcmem
  exact ⟨(lookupClass_spec hl).1, rfl⟩

open Statham.PyEval in
/-- **Consequently**: whatever class the executed module binds under the name of a parsed class *is* that parsed class (names
    are unique in a well-formed module), so it accepts a value exactly when the parsed class does — and for a schema meeting
    the `Good` conditions of C01, exactly when Draft 6 says the value is valid (`C01_partial`). -/
theorem C02_executed_class_is_parsed (els : List Elem) (ok : ModuleOK els) (c root : Elem)
    (hc : c ∈ objectClasses els) (hr : root ∈ objectClasses els) (hn : objName c.cls = objName root.cls) : c = root :=
  ok.unique c hc root hr hn

namespace Sample
open Statham.PyEval

def tag : Elem :=
  .mk (.object "Tag") { hasProps := true, description := some "A tag." } [] none none
    [({ name := "label", required := true, source := some "label" }, Elem.leaf .string { maxLength := some (.int 8) })] [] none none [] []
def post : Elem :=
  .mk (.object "Post") { hasProps := true, addPropsB := false, hasPatProps := true, required := some ["tags"] } [] none none
    [({ name := "tags", source := some "tags" },
       .mk .array { itemsKind := .single, default := some (.arr []) } [tag] none none [] [] none none [] []),
     ({ name := "class_", required := true, source := some "class" }, Elem.compose .anyOf [tag, Elem.leaf .null])]
    [({ name := "^x-" }, Elem.leaf .integer)] none none [] []

/-- the hypotheses are met by a two-class module in which the second class refers to the first from two places -/
example : ChainOK (fun _ => none) [tag, post] := by
  simp [ChainOK, DeclOK, WF, WFL, WFO, WFK, WFD, tag, post, NodeOK, Elem.leaf, Elem.compose, objName, Elem.cls]
  refine ⟨?_, ?_, ?_⟩ <;> constructor <;> simp [BoundKey, PatKey, DepOK, Key.src]

def mini : Elem :=
  .mk (.object "Mini") { hasProps := true } [] none none [({ name := "tag", required := true, source := some "tag" }, tag)] [] none none [] []

/-- ... and `ModuleOK` by the trees a small module is generated from (so `C02_emitted_module_executes` applies to it) -/
example : ModuleOK [mini] := by
  have hoc : objectClasses [mini] = [mini, tag] := rfl
  have hpool : [mini] ++ ([mini].map descendants).flatten = [mini, tag, Elem.leaf .string { maxLength := some (.int 8) }] := rfl
  constructor
  · intro a ha b hb hn
    rw [hoc] at ha hb
    simp only [List.mem_cons, List.mem_nil_iff, or_false] at ha hb
    rcases ha with rfl | rfl <;> rcases hb with rfl | rfl <;> first | rfl | (exfalso; revert hn; decide)
  · intro c hc
    rw [hoc] at hc
    simp only [List.mem_cons, List.mem_nil_iff, or_false] at hc
    rcases hc with rfl | rfl <;> decide
  · intro c hc
    rw [hoc] at hc
    simp only [List.mem_cons, List.mem_nil_iff, or_false] at hc
    rcases hc with rfl | rfl <;>
      (constructor <;> simp [stOf, tag, mini, BoundKey, PatKey, DepOK, Key.src])
  · intro d hd hno
    rw [hpool] at hd
    simp only [List.mem_cons, List.mem_nil_iff, or_false] at hd
    rcases hd with rfl | rfl | rfl
    · simp [mini, isObjectClass, Elem.cls] at hno
    · simp [tag, isObjectClass, Elem.cls] at hno
    · simp [NodeOK, stOf, Elem.leaf, Elem.cls]

/-- the executable form the driver reports, evaluated in the kernel on the same module -/
example : execBack [post] = true := by decide +kernel

end Sample

end Statham.C02
