/-
  C01 — Validation verdicts match JSON Schema Draft 6 for every schema and value.

  Model: `parseE` (statham/schema/parser.py) and `Elem.call` (elements + validators).
  Specification: `D6.valid` (StathamModel/Spec/Draft6.lean), written from the Draft-6 text.
-/
import StathamModel.Lemmas.ParseOk
import StathamModel.Lemmas.CallVerdict
import StathamModel.Tie
namespace Statham.C01
open Statham

/-- metaschema validity over the supported keywords (what the property quantifies over) -/
def WF (cx : PCtx) (s : Schema) : Prop := (flagsOf cx s).wf = true ∧ (flagsOf cx s).litClean = true

/-- **The property at full strength.**  For every metaschema-valid schema and every JSON value
    the parsed element either returns or raises the validation error (never anything else), and
    it accepts exactly when Draft 6 says valid — where, at each object schema, `required` may be
    read with or without the documented waiver of defaulted names (`ℓ`). -/
def Statement : Prop :=
  ∀ (env : Env) (cx : PCtx) (s : Schema) (v : JVal), WF cx s → distinctKeys v = true →
    (parseE cx s).call env (.val v) ≠ .crash ∧
    ∃ ℓ : SKw → Bool, (parseE cx s).accepts env v = D6.valid env ℓ s v

/-- **What is proved.**  On every schema all of whose nodes satisfy the `Good` conditions
    (metaschema-valid; `multipleOf` an integer below 2^53; no two JSON names of one object
    collapsing onto one attribute name; no undeclared required name next to a restrictive
    `additionalProperties` on a class; defaults not migrated by the single-branch collapse),
    for every value and every environment (regular expressions, format checkers): if the
    call stays inside the arithmetic domain it accepts exactly when Draft 6 says valid, with the
    waiver read the way the library reads it (on schemas it turns into classes). -/
theorem C01_partial (env : Env) (cx : PCtx) (s : Schema) (v : JVal)
    (hg : Good cx s = true) (hv : distinctKeys v = true)
    (hnc : (parseE cx s).call env (.val v) ≠ .crash) :
    (parseE cx s).accepts env v = D6.valid env typeHasObject s v := by
  have hrel := (parse_ok env cx s hg).1 v hv
  rw [accepts_eq]
  unfold Elem.accV
  have hnc' : (parseE cx s).acc env (.val v) ≠ .crash := by
    rw [← call_verdict]
    intro h
    apply hnc
    cases hc : (parseE cx s).call env (.val v) <;> simp_all [Res.verdict]
  rw [hrel.eq_of_ne_crash hnc']
  cases D6.valid env typeHasObject s v <;> rfl

/-- a call yields a value, the validation error, or (outside the arithmetic domain) a crash: the
    model has no other outcome, in particular no `TypeError` on a well-formed schema -/
theorem C01_outcomes (env : Env) (e : Elem) (a : Arg) :
    (∃ r, e.call env a = .ok r) ∨ e.call env a = .reject ∨ e.call env a = .crash := by
  cases e.call env a with
  | ok r => exact Or.inl ⟨r, rfl⟩
  | reject => exact Or.inr (Or.inl rfl)
  | crash => exact Or.inr (Or.inr rfl)

/-- the existential form of the partial theorem, matching `Statement`'s second conjunct -/
theorem C01_partial_exists (env : Env) (cx : PCtx) (s : Schema) (v : JVal)
    (hg : Good cx s = true) (hv : distinctKeys v = true)
    (hnc : (parseE cx s).call env (.val v) ≠ .crash) :
    ∃ ℓ : SKw → Bool, (parseE cx s).accepts env v = D6.valid env ℓ s v :=
  ⟨typeHasObject, C01_partial env cx s v hg hv hnc⟩

/-- not-passed never raises -/
theorem C01_notPassed (env : Env) (e : Elem) : e.call env .notPassed ≠ .reject := by
  intro h
  have := acc_notPassed_ne_reject env e
  rw [← call_verdict, h] at this
  exact this rfl

/-! ### Why `Statement` is not proved as it stands: kernel-checked counter-witnesses
     (each one is the complement of one `Good` condition and an entry of known_findings.json) -/

def ci0 : CharInfo := { isalnum := isAsciiAlnum, uname := fun _ => "unknown" }
def cx0 : PCtx := { ci := ci0 }
def env0 : Env := { re := fun _ _ => false, fmt := fun _ => none }

/-- `{"type":"object","title":"A","required":["a"],"additionalProperties":false}` -/
def sSynth : Schema :=
  .mk { type := .single "object", title := some "A", required := some ["a"] } [] none none [] []
    (some (.bool false)) none [] [] [] [] none

/-- finding C01-synthetic-required: the model (like the library) accepts `{"a": 1}`, Draft 6 does not -/
theorem counter_synthetic :
    (parseE cx0 sSynth).accepts env0 (.obj [("a", .num (.int 1))]) = true ∧
    (∀ b : Bool, D6.valid env0 (fun _ => b) sSynth (.obj [("a", .num (.int 1))]) = false) ∧
    (flagsOf cx0 sSynth).noSynthetic = false := by
  refine ⟨by decide +kernel, fun b => by cases b <;> decide +kernel, by decide +kernel⟩

/-- `{"properties": {"a b": {"type":"string"}, "a_b": {"type":"integer"}}}` -/
def sCollapse : Schema :=
  .mk { hasProps := true } [] none none
    [("a b", Schema.leaf { type := .single "string" }), ("a_b", Schema.leaf { type := .single "integer" })] []
    none none [] [] [] [] none

/-- finding C01-name-collapse: both names map to `a_b`, the first property is lost -/
theorem counter_collapse :
    (parseE cx0 sCollapse).accepts env0 (.obj [("a b", .num (.int 1))]) = true ∧
    (∀ b : Bool, D6.valid env0 (fun _ => b) sCollapse (.obj [("a b", .num (.int 1))]) = false) ∧
    (flagsOf cx0 sCollapse).noCollapse = false := by
  refine ⟨by decide +kernel, fun b => by cases b <;> decide +kernel, by decide +kernel⟩

/-- `{"multipleOf": 0.1}` (0.1 is the double 3602879701896397 / 2^55) -/
def sTenth : Schema := Schema.leaf { multipleOf := some (.flt 3602879701896397 36028797018963968) }

/-- finding C01-float-multipleOf: `4 / 0.1` rounds to `40.0`, so the model (like the library) accepts 4,
    although the double nearest to 0.1 does not divide 4 -/
theorem counter_float_multipleOf :
    (parseE cx0 sTenth).accepts env0 (.num (.int 4)) = true ∧
    (∀ b : Bool, D6.valid env0 (fun _ => b) sTenth (.num (.int 4)) = false) ∧
    (flagsOf cx0 sTenth).intMultipleOf = false := by
  refine ⟨by decide +kernel, fun b => by cases b <;> decide +kernel, by decide +kernel⟩

/-- `{"type":"object","title":"A","required":["p"],"properties":{"p":{"anyOf":[{"default":1}]}}}` -/
def sMigrated : Schema :=
  .mk { type := .single "object", title := some "A", required := some ["p"], hasProps := true } [] none none
    [("p", .mk { hasAnyOf := true } [] none none [] [] none none []
        [Schema.leaf { default := some (.num (.int 1)) }] [] [] none)] []
    none none [] [] [] [] none

/-- finding C01-migrated-default: the single `anyOf` branch is collapsed into the property, its default
    comes along, and the library waives a required name whose schema declares no default -/
theorem counter_migrated_default :
    (parseE cx0 sMigrated).accepts env0 (.obj []) = true ∧
    (∀ b : Bool, D6.valid env0 (fun _ => b) sMigrated (.obj []) = false) ∧
    (flagsOf cx0 sMigrated).defaultFaithful = false := by
  refine ⟨by decide +kernel, fun b => by cases b <;> decide +kernel, by decide +kernel⟩

/-- `{"type":"number"}` on `10^400`: outside the arithmetic domain (`float(10**400)` overflows) -/
theorem counter_crash :
    ((parseE cx0 (Schema.leaf { type := .single "number" })).call env0 (.val (.num (.int (10 ^ 400))))).verdict
      = .crash := by
  decide +kernel

/-! ### the hypotheses are satisfiable on non-trivial inputs -/

/-- `{"type":"object","title":"T","required":["n"],
     "properties":{"n":{"type":"integer","minimum":1,"multipleOf":2},"s":{"type":["string","null"],"maxLength":2}},
     "additionalProperties":{"type":"array","items":[{"type":"boolean"}],"additionalItems":false},
     "oneOf":[{"minProperties":1},{"maxProperties":0}]}` -/
def sGood : Schema :=
  .mk { type := .single "object", title := some "T", required := some ["n"], hasProps := true, hasOneOf := true }
    [] none none
    [("n", Schema.leaf { type := .single "integer", minimum := some (.int 1), multipleOf := some (.int 2) }),
     ("s", Schema.leaf { type := .list ["string", "null"], maxLength := some (.int 2) })] []
    (some (.mk { type := .single "array", itemsKind := .tuple } [Schema.leaf { type := .single "boolean" }]
      (some (.bool false)) none [] [] none none [] [] [] [] none))
    none [] []
    [Schema.leaf { minProperties := some (.int 1) }, Schema.leaf { maxProperties := some (.int 0) }] [] none

example : Good cx0 sGood = true := by decide +kernel
example : (parseE cx0 sGood).accepts env0 (.obj [("n", .num (.int 4)), ("x", .arr [.bool true])]) = true := by
  decide +kernel
example : (parseE cx0 sGood).accepts env0 (.obj [("n", .num (.int 3))]) = false := by decide +kernel
example : (parseE cx0 sGood).accepts env0 (.obj [("n", .num (.int 2)), ("x", .arr [.bool true, .null])]) = false := by
  decide +kernel
example : D6.valid env0 typeHasObject sGood (.obj [("n", .num (.int 4)), ("x", .arr [.bool true])]) = true := by
  decide +kernel

end Statham.C01
