/-
  C07 — defaults and object descriptions survive parsing and serialization.
-/
import StathamModel.Parse
import StathamModel.Good
import StathamModel.SerJson
import StathamModel.Tie
import StathamModel.Lemmas.ParseNF
namespace Statham.C07
open Statham

/-- the default a schema object declares, as the parser reads it (annotations stripped) -/
def declared (k : SKw) : Option JVal := k.default.map parseLiteral

/-- every element class the parser can build for one type name carries the default it is given -/
theorem mkTyped_default (cx : PCtx) (t : String) (k : SKw) (p : Parts) (d : Option JVal) (ht : t ∈ knownTypes) :
    (mkTyped cx t k p d).kw.default = d := by
  simp only [knownTypes, List.mem_cons, List.mem_nil_iff, or_false] at ht
  rcases ht with rfl | rfl | rfl | rfl | rfl | rfl | rfl
  · simp [mkTyped, typedLeaf, Gen.parserTypeMapping, List.lookup, mkElem, Elem.kw, filterKw, keep, Gen.sigString, Gen.Param.names, baseKw]
  · simp [mkTyped, typedLeaf, Gen.parserTypeMapping, List.lookup, mkElem, Elem.kw, filterKw, keep, Gen.sigNumeric, Gen.Param.names, baseKw]
  · simp [mkTyped, typedLeaf, Gen.parserTypeMapping, List.lookup, mkElem, Elem.kw, filterKw, keep, Gen.sigNumeric, Gen.Param.names, baseKw]
  · simp [mkTyped, typedLeaf, Gen.parserTypeMapping, List.lookup, mkElem, Elem.kw, filterKw, keep, Gen.sigBoolean, Gen.Param.names, baseKw]
  · simp [mkTyped, typedLeaf, Gen.parserTypeMapping, List.lookup, mkElem, Elem.kw, filterKw, keep, Gen.sigNull, Gen.Param.names, baseKw]
  · simp only [mkTyped]
    unfold mkArray
    have hk : (baseKw k p d).itemsKind = k.itemsKind := rfl
    cases hik : k.itemsKind <;>
      simp [hk, hik, mkElem, Elem.kw, filterKw, keep, Gen.sigArray, Gen.Param.names, baseKw]
  · simp [mkTyped, mkObject, mkElem, Elem.kw, filterKw, keep, objectAllowed, Gen.objectClassArgs, baseKw]

/-- a schema object without composition keywords: the element carries exactly the declared default
    (any type, single- and multi-element type lists included) -/
theorem base_default (cx : PCtx) (k : SKw) (p : Parts) (d : Option JVal)
    (hwf : match k.type with
      | .none => True
      | .single t => t ∈ knownTypes
      | .list ts => ∀ t ∈ ts, t ∈ knownTypes) :
    (assembleBase cx k p d).kw.default = d := by
  unfold assembleBase
  cases ht : k.type with
  | none => simp [mkElem, Elem.kw, filterKw, keep, Gen.sigElement, Gen.Param.names, baseKw]
  | single t => rw [ht] at hwf; exact mkTyped_default cx t k p d hwf
  | list ts =>
    rw [ht] at hwf
    cases ts with
    | nil => simp [Elem.compose, Elem.kw]
    | cons t rest =>
      cases rest with
      | nil => exact mkTyped_default cx t k p d (hwf t (List.mem_cons_self ..))
      | cons t2 r2 => simp [Elem.compose, Elem.kw]

/-- with composition keywords: a *declared* default (falsy or not) is what the result carries -/
theorem finish_default (el : Elem) (d : JVal) : (finishComposition el (some d)).kw.default = some d := by
  unfold finishComposition
  split
  · simp [Elem.compose, Elem.kw]
  · cases el; simp [Elem.withDefault, Elem.kw]

/-- **Proved.** For every schema object with known type names: if it has no composition keyword, or it
    declares a default, the parsed element carries exactly the declared default — for every JSON value,
    `false`, `0`, `""`, `[]`, `{}` and `null` included. -/
theorem C07_partial_default (cx : PCtx) (k : SKw) (kids : Kids)
    (hwf : match k.type with
      | .none => True
      | .single t => t ∈ knownTypes
      | .list ts => ∀ t ∈ ts, t ∈ knownTypes)
    (h : hasComposition k kids.not = false ∨ k.default.isSome = true) :
    (assembleK cx k kids).kw.default = declared k := by
  unfold assembleK assemble declared
  simp only
  by_cases hc : hasComposition k kids.not = true
  · simp only [hc, if_true]
    rcases h with h | h
    · rw [hc] at h; cases h
    · cases hd : k.default with
      | none => rw [hd] at h; cases h
      | some d => simp only [Option.map_some, assembleComposition]; exact finish_default _ _
  · simp only [hc]
    exact base_default cx k _ _ hwf

def cx0 : PCtx := { ci := { isalnum := isAsciiAlnum, uname := fun _ => "unknown" } }

/-! ### the serialization side, on the schema-level model of `serialize_json` (`toSchema`, tied to the real serializer by the
     driver op `to_schema`) -/

/-- the `default` / `description` members of a serialized document's root -/
def schemaDefault : Schema → Option JVal
  | .bool _ => none
  | .mk k .. => k.default
def schemaDescription : Schema → Option String
  | .bool _ => none
  | .mk k .. => k.description

/-- **Proved.** The JSON serialization of any element other than `Nothing()` carries exactly the element's default and
    description — whatever the class, the keywords, the value (falsy ones included). -/
theorem C07_json_default (e : Elem) (hc : e.cls ≠ .nothing) :
    schemaDefault (toSchema e) = e.kw.default ∧ schemaDescription (toSchema e) = e.kw.description := by
  cases e with
  | mk c kw items addI cont props pats addP pn deps els =>
    have hc' : c ≠ .nothing := hc
    rw [toSchema_mk hc']
    exact ⟨rfl, rfl⟩

/-- **Proved: parse then serialize.** A schema object that declares a default (or has no composition keyword) and does not
    reduce to `Nothing()` serializes with exactly that default at its root. -/
theorem C07_default_parse_serialize (cx : PCtx) (k : SKw) (kids : Kids)
    (hwf : match k.type with
      | .none => True
      | .single t => t ∈ knownTypes
      | .list ts => ∀ t ∈ ts, t ∈ knownTypes)
    (h : hasComposition k kids.not = false ∨ k.default.isSome = true)
    (hn : (assembleK cx k kids).cls ≠ .nothing) :
    schemaDefault (toSchema (assembleK cx k kids)) = declared k := by
  rw [(C07_json_default _ hn).1]
  exact C07_partial_default cx k kids hwf h

/-- **Proved: every later round trip keeps every default and description at every depth** — for schemas meeting the
    decidable source condition `nfGood`, the re-parsed tree is the *same tree* (C06_round_trip), so nothing is dropped, moved
    or shared. -/
theorem C07_round_trips_keep_everything (cx : PCtx) (s : Schema) (h : nfGood cx s = true) :
    parseE cx (toSchema (parseE cx s)) = parseE cx s ∧
    schemaDefault (toSchema (parseE cx (toSchema (parseE cx s)))) = schemaDefault (toSchema (parseE cx s)) := by
  have := parse_toSchema cx _ (parse_NF cx s h)
  exact ⟨this, by rw [this]⟩

/-- **Proved: the description of an object schema is the description of its class** (no composition keyword beside it; with
    one, the description stays on the class too, since `description` is a class argument and not split off — see
    `description_beside_composition`). -/
theorem C07_description_class (cx : PCtx) (k : SKw) (p : Parts) (d : Option JVal) :
    (mkTyped cx "object" k p d).kw.description = k.description := by
  unfold mkTyped
  simp only [beq_self_eq_true, if_true]
  rw [mkObject_objKw]
  rfl

theorem description_beside_composition :
    (match (parseE cx0 (.mk { type := .single "object", title := some "A", description := some "text", hasAnyOf := true } [] none none [] []
        none none [] [Schema.leaf { required := some ["a"] }, Schema.leaf { required := some ["b"] }] [] [] none)) with
     | .mk .allOf _ _ _ _ _ _ _ _ _ (cls :: _) => cls.kw.description == some "text"
     | _ => false) = true := by decide +kernel

/-! ### counter-witnesses -/

/-- finding C01-migrated-default seen from C07: without a declared default, a composition that collapses to
    a single branch hands that branch's default to the enclosing schema — a default "moved to another element" -/
theorem counter_migrated :
    ((parseE cx0 (.mk { hasAnyOf := true } [] none none [] [] none none []
        [Schema.leaf { default := some (.num (.int 1)) }] [] [] none)).kw.default).isSome = true := by decide +kernel

/-- finding C07-reduces-to-nothing: `{"anyOf": [false], "default": 1}` is `Nothing()` carrying a default,
    and `Nothing()` serializes to `false`, which has no place for it -/
theorem counter_nothing_default :
    (match parseE cx0 (.mk { hasAnyOf := true, default := some (.num (.int 1)) } [] none none [] [] none none []
        [.bool false] [] [] none) with
     | e => e.cls == .nothing && e.kw.default.isSome && (match serElem none [] e with | .bool false => true | _ => false)) = true := by
  decide +kernel

/-- non-vacuity: falsy defaults on a composition survive (the repaired defect F04) -/
example :
    (match (parseE cx0 (.mk { hasAnyOf := true, default := some (.bool false) } [] none none [] [] none none []
        [Schema.leaf { type := .single "string" }, Schema.leaf { type := .single "integer" }] [] [] none)).kw.default with
     | some (.bool false) => true
     | _ => false) = true := by decide +kernel

end Statham.C07
