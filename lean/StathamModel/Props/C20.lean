/-
  C20 — unsupported schema features are refused, never silently mis-modelled.

  `hasUnsupported s` says that some position of `s` which `parse_element` interprets as a schema carries
  one of the documented unsupported keywords (`SKw.unsupported` is `UNSUPPORTED_SCHEMA_KEYWORDS ∩ keys`,
  filled by the decoder from the regenerated constant).  `strip s` is the same schema without those
  keywords.  Reference cycles are not finite schemas; that clause is explored on the real code only.
-/
import StathamModel.Parse
import StathamModel.Dedupe
import StathamModel.Tie
namespace Statham.C20
open Statham

mutual
/-- some visited position carries an unsupported keyword -/
def hasUnsupported : Schema → Bool
  | .bool _ => false
  | .mk k items addI cont props pats addP pn deps anyOf oneOf allOf not =>
    !k.unsupported.isEmpty || unsNamed props || unsList items || unsNamed pats || unsOpt pn || unsOpt cont ||
      unsDeps deps || unsOpt addP || unsOpt addI || unsList anyOf || unsList oneOf || unsList allOf || unsOpt not
def unsOpt : Option Schema → Bool
  | none => false
  | some s => hasUnsupported s
def unsList : List Schema → Bool
  | [] => false
  | s :: ss => hasUnsupported s || unsList ss
def unsNamed : List (String × Schema) → Bool
  | [] => false
  | (_, s) :: r => hasUnsupported s || unsNamed r
/-- array-form dependencies are lists of names, not schemas -/
def unsDeps : List (Key × Schema) → Bool
  | [] => false
  | (k, s) :: r => (if k.names.isSome then false else hasUnsupported s) || unsDeps r
end

mutual
/-- the same schema without the unsupported keywords, at every schema position -/
def strip : Schema → Schema
  | .bool b => .bool b
  | .mk k items addI cont props pats addP pn deps anyOf oneOf allOf not =>
    .mk { k with unsupported := [] } (stripList items) (stripOpt addI) (stripOpt cont) (stripNamed props) (stripNamed pats)
      (stripOpt addP) (stripOpt pn) (stripDeps deps) (stripList anyOf) (stripList oneOf) (stripList allOf) (stripOpt not)
def stripOpt : Option Schema → Option Schema
  | none => none
  | some s => some (strip s)
def stripList : List Schema → List Schema
  | [] => []
  | s :: ss => strip s :: stripList ss
def stripNamed : List (String × Schema) → List (String × Schema)
  | [] => []
  | (n, s) :: r => (n, strip s) :: stripNamed r
def stripDeps : List (Key × Schema) → List (Key × Schema)
  | [] => []
  | (k, s) :: r => (k, if k.names.isSome then s else strip s) :: stripDeps r
end

/-- `NI o b`: the error `o` is "not implemented" exactly when `b`, and otherwise absent -/
def NI (o : Option PErr) (b : Bool) : Prop := o = if b then some .notImplemented else none

theorem firstErr_NI : ∀ (l : List (Option PErr × Bool)), (∀ p ∈ l, NI p.1 p.2) →
    NI (firstErr (l.map (·.1))) (l.any (·.2))
  | [], _ => rfl
  | (o, b) :: r, h => by
    have h0 : NI o b := h (o, b) (List.mem_cons_self ..)
    have ih := firstErr_NI r fun p hp => h p (List.mem_cons_of_mem _ hp)
    unfold NI at h0 ih ⊢
    cases b with
    | true => subst h0; simp [firstErr]
    | false => subst h0; simp only [List.map_cons, firstErr, List.any_cons, Bool.false_or]; exact ih

theorem firstErr_none_all : ∀ (l : List (Option PErr)), firstErr l = none → ∀ o ∈ l, o = none
  | [], _, o, ho => by cases ho
  | some e :: r, h, _, _ => by rw [firstErr] at h; cases h
  | none :: r, h, o, ho => by
    rw [firstErr] at h
    rcases List.mem_cons.mp ho with rfl | ho
    · rfl
    · exact firstErr_none_all r h o ho

theorem ownErr_strip (k : SKw) : ownErr { k with unsupported := [] } = ownErr k := rfl

/-! The core lemma: when the stripped schema parses, the original's error is "not implemented" exactly
    when it has an unsupported keyword somewhere, and otherwise there is none. -/
mutual
theorem parseErr_NI : ∀ (s : Schema), parseErr (strip s) = none → NI (parseErr s) (hasUnsupported s)
  | .bool _, _ => by unfold NI; rw [parseErr, hasUnsupported]; rfl
  | .mk k items addI cont props pats addP pn deps anyOf oneOf allOf not, h => by
    rw [strip, parseErr] at h
    simp only [List.isEmpty_nil, Bool.not_true, Bool.false_eq_true, if_false] at h
    -- every component of the stripped schema is error-free
    have hall : ∀ o ∈ [errNamed (stripNamed props), errList (stripList items), errNamed (stripNamed pats), errOpt (stripOpt pn),
        errOpt (stripOpt cont), errDeps (stripDeps deps), errOpt (stripOpt addP), errOpt (stripOpt addI),
        ownErr { k with unsupported := [] }, errList (stripList anyOf), errList (stripList oneOf),
        errList (stripList allOf), errOpt (stripOpt not)], o = none := by
      intro o ho
      exact firstErr_none_all _ h o ho
    simp only [List.mem_cons, List.mem_nil_iff, or_false, forall_eq_or_imp, forall_eq] at hall
    obtain ⟨h1, h2, h3, h4, h5, h6, h7, h8, h9, h10, h11, h12, h13⟩ := hall
    rw [parseErr, hasUnsupported]
    by_cases hu : k.unsupported.isEmpty = true
    · simp only [hu, Bool.not_true, Bool.false_eq_true, if_false, Bool.false_or]
      have := firstErr_NI
        [(errNamed props, unsNamed props), (errList items, unsList items), (errNamed pats, unsNamed pats),
         (errOpt pn, unsOpt pn), (errOpt cont, unsOpt cont), (errDeps deps, unsDeps deps), (errOpt addP, unsOpt addP),
         (errOpt addI, unsOpt addI), (ownErr k, false), (errList anyOf, unsList anyOf), (errList oneOf, unsList oneOf),
         (errList allOf, unsList allOf), (errOpt not, unsOpt not)]
        (by
          simp only [List.mem_cons, List.mem_nil_iff, or_false, forall_eq_or_imp, forall_eq]
          refine ⟨errNamed_NI props h1, errList_NI items h2, errNamed_NI pats h3, errOpt_NI pn h4, errOpt_NI cont h5,
            errDeps_NI deps h6, errOpt_NI addP h7, errOpt_NI addI h8, ?_, errList_NI anyOf h10, errList_NI oneOf h11,
            errList_NI allOf h12, errOpt_NI not h13⟩
          rw [ownErr_strip] at h9
          unfold NI; rw [h9]; rfl)
      simpa only [List.map_cons, List.map_nil, List.any_cons, List.any_nil, Bool.or_false, Bool.false_or, Bool.or_assoc] using this
    · have hu' : k.unsupported.isEmpty = false := by simpa using hu
      unfold NI
      simp [hu']
theorem errOpt_NI : ∀ (o : Option Schema), errOpt (stripOpt o) = none → NI (errOpt o) (unsOpt o)
  | none, _ => by unfold NI; rw [errOpt, unsOpt]; rfl
  | some s, h => by rw [stripOpt, errOpt] at h; rw [errOpt, unsOpt]; exact parseErr_NI s h
theorem errList_NI : ∀ (l : List Schema), errList (stripList l) = none → NI (errList l) (unsList l)
  | [], _ => by unfold NI; rw [errList, unsList]; rfl
  | s :: ss, h => by
    rw [stripList, errList] at h
    cases hs : parseErr (strip s) with
    | some e => rw [hs] at h; cases h
    | none =>
      rw [hs] at h
      have a := parseErr_NI s hs
      have b := errList_NI ss h
      unfold NI at a b ⊢
      rw [errList, unsList, a]
      cases hasUnsupported s <;> simp [b]
theorem errNamed_NI : ∀ (l : List (String × Schema)), errNamed (stripNamed l) = none → NI (errNamed l) (unsNamed l)
  | [], _ => by unfold NI; rw [errNamed, unsNamed]; rfl
  | (n, s) :: r, h => by
    rw [stripNamed, errNamed] at h
    cases hs : parseErr (strip s) with
    | some e => rw [hs] at h; cases h
    | none =>
      rw [hs] at h
      have a := parseErr_NI s hs
      have b := errNamed_NI r h
      unfold NI at a b ⊢
      rw [errNamed, unsNamed, a]
      cases hasUnsupported s <;> simp [b]
theorem errDeps_NI : ∀ (l : List (Key × Schema)), errDeps (stripDeps l) = none → NI (errDeps l) (unsDeps l)
  | [], _ => by unfold NI; rw [errDeps, unsDeps]; rfl
  | (k, s) :: r, h => by
    rw [stripDeps, errDeps] at h
    by_cases hk : k.names.isSome = true
    · simp only [hk, if_true] at h
      have b := errDeps_NI r h
      unfold NI at b ⊢
      rw [errDeps, unsDeps]
      simp [hk, b]
    · simp only [hk, Bool.false_eq_true, if_false] at h
      cases hs : parseErr (strip s) with
      | some e => rw [hs] at h; cases h
      | none =>
        rw [hs] at h
        have a := parseErr_NI s hs
        have b := errDeps_NI r h
        unfold NI at a b ⊢
        rw [errDeps, unsDeps]
        simp only [hk, Bool.false_eq_true, if_false, a]
        cases hasUnsupported s <;> simp [b]
end

/-- **Refused**: a supported schema (its stripped form parses) with an unsupported keyword in any visited
    position raises the not-implemented error. -/
theorem C20_refused (cx : PCtx) (s : Schema) (hsup : parseErr (strip s) = none) (hu : hasUnsupported s = true) :
    parseNamed1 cx s = .error .notImplemented := by
  have := parseErr_NI s hsup
  unfold NI at this
  rw [hu] at this
  simp [parseNamed1, this]

/-! **Never silently ignored** (unconditional): whenever parsing returns an element, no visited position
    carried an unsupported keyword. -/
mutual
theorem parsed_no_unsupported : ∀ (s : Schema), parseErr s = none → hasUnsupported s = false
  | .bool _, _ => by rw [hasUnsupported]
  | .mk k items addI cont props pats addP pn deps anyOf oneOf allOf not, h => by
    rw [parseErr] at h
    by_cases hu : k.unsupported.isEmpty = true
    · simp only [hu, Bool.not_true, Bool.false_eq_true, if_false] at h
      have hall := firstErr_none_all _ h
      simp only [List.mem_cons, List.mem_nil_iff, or_false, forall_eq_or_imp, forall_eq] at hall
      obtain ⟨h1, h2, h3, h4, h5, h6, h7, h8, _, h10, h11, h12, h13⟩ := hall
      rw [hasUnsupported]
      simp [hu, named_no_unsupported props h1, list_no_unsupported items h2, named_no_unsupported pats h3, opt_no_unsupported pn h4,
        opt_no_unsupported cont h5, deps_no_unsupported deps h6, opt_no_unsupported addP h7, opt_no_unsupported addI h8,
        list_no_unsupported anyOf h10, list_no_unsupported oneOf h11, list_no_unsupported allOf h12, opt_no_unsupported not h13]
    · have hu' : k.unsupported.isEmpty = false := by simpa using hu
      simp [hu'] at h
theorem opt_no_unsupported : ∀ (o : Option Schema), errOpt o = none → unsOpt o = false
  | none, _ => by rw [unsOpt]
  | some s, h => by rw [errOpt] at h; rw [unsOpt]; exact parsed_no_unsupported s h
theorem list_no_unsupported : ∀ (l : List Schema), errList l = none → unsList l = false
  | [], _ => by rw [unsList]
  | s :: ss, h => by
    rw [errList] at h
    cases hs : parseErr s with
    | some e => rw [hs] at h; cases h
    | none => rw [hs] at h; rw [unsList, parsed_no_unsupported s hs, list_no_unsupported ss h]; rfl
theorem named_no_unsupported : ∀ (l : List (String × Schema)), errNamed l = none → unsNamed l = false
  | [], _ => by rw [unsNamed]
  | (n, s) :: r, h => by
    rw [errNamed] at h
    cases hs : parseErr s with
    | some e => rw [hs] at h; cases h
    | none => rw [hs] at h; rw [unsNamed, parsed_no_unsupported s hs, named_no_unsupported r h]; rfl
theorem deps_no_unsupported : ∀ (l : List (Key × Schema)), errDeps l = none → unsDeps l = false
  | [], _ => by rw [unsDeps]
  | (k, s) :: r, h => by
    rw [errDeps] at h
    by_cases hk : k.names.isSome = true
    · simp only [hk, if_true] at h
      rw [unsDeps]; simp [hk, deps_no_unsupported r h]
    · simp only [hk, Bool.false_eq_true, if_false] at h
      cases hs : parseErr s with
      | some e => rw [hs] at h; cases h
      | none => rw [hs] at h; rw [unsDeps]; simp [hk, parsed_no_unsupported s hs, deps_no_unsupported r h]
end

theorem C20_never_silent (cx : PCtx) (s : Schema) (e : Elem) (h : parseNamed1 cx s = .ok e) : hasUnsupported s = false := by
  unfold parseNamed1 at h
  cases hp : parseErr s with
  | some err => rw [hp] at h; cases h
  | none => exact parsed_no_unsupported s hp

/-! the stripped schema has nothing unsupported left -/
mutual
theorem strip_clean : ∀ (s : Schema), hasUnsupported (strip s) = false
  | .bool _ => by rw [strip, hasUnsupported]
  | .mk k items addI cont props pats addP pn deps anyOf oneOf allOf not => by
    rw [strip, hasUnsupported]
    simp [stripNamed_clean props, stripList_clean items, stripNamed_clean pats, stripOpt_clean pn, stripOpt_clean cont,
      stripDeps_clean deps, stripOpt_clean addP, stripOpt_clean addI, stripList_clean anyOf, stripList_clean oneOf,
      stripList_clean allOf, stripOpt_clean not]
theorem stripOpt_clean : ∀ (o : Option Schema), unsOpt (stripOpt o) = false
  | none => by rw [stripOpt, unsOpt]
  | some s => by rw [stripOpt, unsOpt]; exact strip_clean s
theorem stripList_clean : ∀ (l : List Schema), unsList (stripList l) = false
  | [] => by rw [stripList, unsList]
  | s :: ss => by rw [stripList, unsList, strip_clean s, stripList_clean ss]; rfl
theorem stripNamed_clean : ∀ (l : List (String × Schema)), unsNamed (stripNamed l) = false
  | [] => by rw [stripNamed, unsNamed]
  | (n, s) :: r => by rw [stripNamed, unsNamed, strip_clean s, stripNamed_clean r]; rfl
theorem stripDeps_clean : ∀ (l : List (Key × Schema)), unsDeps (stripDeps l) = false
  | [] => by rw [stripDeps, unsDeps]
  | (k, s) :: r => by
    rw [stripDeps, unsDeps]
    by_cases hk : k.names.isSome = true
    · simp [hk, stripDeps_clean r]
    · simp [hk, strip_clean s, stripDeps_clean r]
end

/-- **The same schema without that part still parses** — the only error a supported schema with unsupported
    keywords can raise is the refusal itself, and removing the keywords removes it. -/
theorem C20_still_parses (cx : PCtx) (s : Schema) (hsup : parseErr (strip s) = none) :
    ∃ e, parseNamed1 cx (strip s) = .ok e := by
  simp [parseNamed1, hsup]

/-- documents: the root and every entry of `definitions` are visited -/
theorem C20_document (cx : PCtx) (root : Schema) (defs : List (String × Schema))
    (hsup : parseErr (strip root) = none ∧ ∀ d ∈ defs, parseErr (strip d.2) = none)
    (hu : hasUnsupported root = true ∨ ∃ d ∈ defs, hasUnsupported d.2 = true) :
    parseDoc cx root defs = .error .notImplemented := by
  have key : NI (firstErr (parseErr root :: defs.map (fun d => parseErr d.2)))
      (hasUnsupported root || defs.any (fun d => hasUnsupported d.2)) := by
    have := firstErr_NI ((parseErr root, hasUnsupported root) :: defs.map fun d => (parseErr d.2, hasUnsupported d.2))
      (by
        intro p hp
        rcases List.mem_cons.mp hp with rfl | hp
        · exact parseErr_NI root hsup.1
        · obtain ⟨d, hd, rfl⟩ := List.mem_map.mp hp
          exact parseErr_NI d.2 (hsup.2 d hd))
    simpa [List.map_map, Function.comp_def, List.any_map] using this
  have hb : (hasUnsupported root || defs.any (fun d => hasUnsupported d.2)) = true := by
    rcases hu with h | ⟨d, hd, h⟩
    · simp [h]
    · simp only [Bool.or_eq_true, List.any_eq_true]; exact Or.inr ⟨d, hd, h⟩
  unfold NI at key
  rw [hb] at key
  simp [parseDoc, key]

theorem C20_document_never_silent (cx : PCtx) (root : Schema) (defs : List (String × Schema)) (es : List Elem)
    (h : parseDoc cx root defs = .ok es) : hasUnsupported root = false ∧ ∀ d ∈ defs, hasUnsupported d.2 = false := by
  unfold parseDoc at h
  cases hf : firstErr (parseErr root :: defs.map (fun d => parseErr d.2)) with
  | some e => rw [hf] at h; cases h
  | none =>
    have hall := firstErr_none_all _ hf
    refine ⟨parsed_no_unsupported root (hall _ (List.mem_cons_self ..)), fun d hd => ?_⟩
    exact parsed_no_unsupported d.2 (hall _ (List.mem_cons_of_mem _ (List.mem_map.mpr ⟨d, hd, rfl⟩)))

/-! ### Non-vacuity -/

def sIf : Schema := .mk { type := .single "string", unsupported := ["if"] } [] none none [] [] none none [] [] [] [] none
def sNested : Schema := .mk { type := .single "array" } [sIf] none none [] [] none none [] [] [] [] none

example : hasUnsupported sNested = true ∧ parseErr (strip sNested) = none := by decide +kernel
example : parseErr sNested = some .notImplemented := by decide +kernel

end Statham.C20
