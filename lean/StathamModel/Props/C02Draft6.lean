/-
  C02 — the property's last sentence: the generated root class accepts a JSON value iff the source schema does.
  (a file of its own: it puts C02's module-execution theorems and C01's Draft-6 theorem together, and the two developments
  use the name `NodeOK` for different things)
-/
import StathamModel.Props.C02
import StathamModel.Props.C01
namespace Statham.C02
open Statham

open Statham.PyEval in
/-- **The property's last sentence, as a theorem about the models**: for a schema meeting the `Good` conditions of C01 whose
    parse is an object class, in a module that is well-formed (`ModuleOK`), the class the *executed generated module* binds under
    the root's name accepts a JSON value exactly when Draft 6 says the value is valid against the source schema (for calls that
    stay inside the arithmetic domain).  Chain: `C02_executed_classes_are_parsed` (the executed class is one of the parsed
    classes, under its name) + uniqueness of names + `C01_partial`. -/
theorem C02_generated_root_accepts_iff_draft6 (env : Env) (cx : PCtx) (s : Schema) (m : PyModule) (v : JVal)
    (hg : Good cx s = true) (hcls : isObjectClass (parseE cx s).cls = true)
    (h : emitModule [parseE cx s] = .ok m) (ok : ModuleOK [parseE cx s])
    (hv : distinctKeys v = true) (hnc : (parseE cx s).call env (.val v) ≠ .crash) :
    ∃ defs : List (String × Elem), execClasses (fun _ => none) m.classes = some defs ∧
      ∀ c, (objName (parseE cx s).cls, c) ∈ defs → c.accepts env v = D6.valid env typeHasObject s v := by
  obtain ⟨defs, hex, hall⟩ := C02_executed_classes_are_parsed [parseE cx s] m h ok
  refine ⟨defs, hex, ?_⟩
  intro c hc
  obtain ⟨hmem, hname⟩ := hall _ hc
  have hroot : parseE cx s ∈ objectClasses [parseE cx s] := by
    unfold objectClasses
    exact List.mem_filter.mpr ⟨by simp, hcls⟩
  have : c = parseE cx s := ok.unique c hmem _ hroot hname
  rw [this]
  exact C01.C01_partial env cx s v hg hv hnc


end Statham.C02
