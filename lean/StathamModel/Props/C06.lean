/-
  C06 — serialize-then-parse is the identity on statham's normal form.
  The pieces both directions share (one generated keyword table), and the round trip itself on the schema-level
  model of the serializer (`toSchema`, StathamModel/ToSchema.lean; tied to the real `serialize_json` by the driver op
  `to_schema`): `C06_partial_round_trip` and `C06_partial_fixpoint`.
-/
import StathamModel.SerJson
import StathamModel.Lemmas.SerOk
import StathamModel.Lemmas.ParseNF
import StathamModel.Lemmas.SerParses
import StathamModel.Lemmas.ElemBeq
import StathamModel.Lemmas.CallVerdict
import StathamModel.Dedupe
import StathamModel.Tie
namespace Statham.C06
open Statham

/-- the keyword set the serializer walks is exactly the keyword set `_keyword_filter(Element)` lets the
    parser pass through: both are read off the same generated signature, so a keyword known to one side
    only changes this table and breaks the tie -/
theorem shared_keyword_table :
    (Gen.sigElement.filter fun p => p.kind == .keywordOnly).map (·.name) = Gen.Param.names Gen.sigElement := by
  decide

/-- every keyword of the table is one the serializer knows how to emit -/
def emits (name : String) : Bool :=
  ["default", "const", "enum", "items", "additionalItems", "minItems", "maxItems", "uniqueItems", "contains",
   "minimum", "maximum", "exclusiveMinimum", "exclusiveMaximum", "multipleOf", "format", "pattern", "minLength",
   "maxLength", "required", "properties", "patternProperties", "additionalProperties", "minProperties",
   "maxProperties", "propertyNames", "dependencies", "description"].contains name

theorem serializer_covers_signature : (Gen.Param.names Gen.sigElement).all emits = true := by decide

def cx0 : PCtx := { ci := { isalnum := isAsciiAlnum, uname := fun _ => "unknown" } }

/-- `{}` ↔ `Element()` and `false` ↔ `Nothing()`: the base cases of the round trip -/
theorem trivial_round_trip :
    (match serElem none [] (parseE cx0 Schema.empty), serElem none [] (parseE cx0 (.bool false)) with
     | .obj [], .bool false => true
     | _, _ => false) = true := by decide +kernel

/-- a schema in normal form and its round trip, evaluated in the kernel:
    `{"type":"array","items":{"type":"integer","minimum":1},"uniqueItems":true}` -/
theorem example_fixpoint :
    (match serElem none [] (parseE cx0 (.mk { type := .single "array", itemsKind := .single, uniqueItems := some true }
        [Schema.leaf { type := .single "integer", minimum := some (.int 1) }] none none [] [] none none [] [] [] [] none)) with
     | .obj [("items", .obj [("minimum", .num (.int 1)), ("type", .str "integer")]), ("uniqueItems", .bool true),
             ("type", .str "array")] => true
     | _ => false) = true := by decide +kernel

/-- **The property at full strength** (JSON leg): after the first parse, serialize-then-parse changes nothing. -/
def Statement : Prop :=
  ∀ (cx : PCtx) (s : Schema), parseErr s = none →
    parseE cx (toSchema (parseE cx s)) = parseE cx s

/-- **Proved: serialize-then-parse is the identity on normal-form trees.**  `NF cx e` says that at every node of `e`
    the parser, handed the node's own keywords and children, builds that node again (and that `Nothing()` carries
    nothing and does not sit in an `additional…` position, where `false` is read as the boolean).  Every keyword
    value, every default, every property flag and every class name comes back: the conclusion is equality of trees,
    not `==`. -/
theorem C06_partial_round_trip (cx : PCtx) (e : Elem) (h : NF cx e) : parseE cx (toSchema e) = e :=
  parse_toSchema cx e h

/-- the form the driver evaluates (`nfBool`: executable, proved sound) -/
theorem C06_round_trip_decidable (cx : PCtx) (e : Elem) (h : nfBool cx e = true) : parseE cx (toSchema e) = e :=
  parse_toSchema cx e (nfBool_sound cx e h)

/-- **Proved: the fixpoint form of the property** — once the first parse has produced a normal-form tree, the
    second serialization is the identical document, and so is every later one.  What is not proved is that the first
    parse always lands in normal form (`NF (parseE cx s)`): the driver evaluates that on every generated schema, and
    the complement is exactly the recorded findings of C06 (empty keyword beside composition, `Nothing` with a
    default) plus class-name suffixing, which lives in `Dedupe`. -/
theorem C06_partial_fixpoint (cx : PCtx) (s : Schema) (h : NF cx (parseE cx s)) :
    toSchema (parseE cx (toSchema (parseE cx s))) = toSchema (parseE cx s) := by
  rw [parse_toSchema cx _ h]

/-- `n` round trips -/
def roundTrips (cx : PCtx) : Nat → Elem → Elem
  | 0, e => e
  | n + 1, e => roundTrips cx n (parseE cx (toSchema e))

/-- and by induction any number of further round trips -/
theorem C06_partial_iterate (cx : PCtx) (e : Elem) (h : NF cx e) (n : Nat) : roundTrips cx n e = e := by
  induction n with
  | zero => rfl
  | succ n ih => rw [roundTrips, parse_toSchema cx e h, ih]

/-- **Proved: the property's JSON leg, with a decidable hypothesis on the source schema only.**  `nfGood cx s` asks of every
    schema object in `s`: clean literals; no empty `required` and `properties` present exactly when non-empty (finding
    C06-empty-keyword-beside-composition); distinct, non-collapsing, non-empty property names; `type` over the seven type names;
    for object schemas a title that formats to itself (finding C06-class-name-suffixes and the title findings of C12);
    `additionalItems` / `additionalProperties` given as a schema do not parse to `Nothing()`; no default next to composition
    members that parse to `Nothing()` (finding C06-nothing-with-default / C07-reduces-to-nothing).  Then the first parse is
    in normal form (`parse_NF`: one node equation per shape the parser can build — untyped, five typed leaves, arrays,
    classes with synthetic required properties, type lists, `AllOf` / `AnyOf` / `OneOf` / `Not` with every collapse rule,
    and the migration of `default`), so serializing and parsing again gives the identical tree … -/
theorem C06_round_trip (cx : PCtx) (s : Schema) (h : nfGood cx s = true) :
    parseE cx (toSchema (parseE cx s)) = parseE cx s :=
  parse_toSchema cx _ (parse_NF cx s h)

/-- **Proved: the second parse does not raise.**  The serializer writes no unsupported keyword, only the seven type names and a
    title for every class, so `parse_element` on the serialized document returns — for every tree whose object classes have
    non-empty names (`toSchema_parses`, any tree, no normal-form hypothesis) — and what it returns is the first tree. -/
theorem C06_second_parse_succeeds (cx : PCtx) (s : Schema) (h : nfGood cx s = true) (hn : namedOK (parseE cx s) = true) :
    parseElement cx (toSchema (parseE cx s)) = .ok (parseE cx s) := by
  unfold parseElement
  rw [toSchema_parses _ hn, C06_round_trip cx s h]

/-- … and the second-round document is the first-round document, as is every later one -/
theorem C06_fixpoint (cx : PCtx) (s : Schema) (h : nfGood cx s = true) :
    toSchema (parseE cx (toSchema (parseE cx s))) = toSchema (parseE cx s) :=
  C06_partial_fixpoint cx s (parse_NF cx s h)

theorem C06_iterate (cx : PCtx) (s : Schema) (h : nfGood cx s = true) (n : Nat) :
    roundTrips cx n (parseE cx s) = parseE cx s :=
  C06_partial_iterate cx _ (parse_NF cx s h) n

/-- **The normal form means what the source means**: for a schema that meets the `Good` conditions of C01 and `nfGood`, and
    whose normal-form document meets `Good` again, Draft 6 reads both documents alike on every value on which the parsed
    element stays inside the arithmetic domain (C01_partial on the source, C03_partial_meaning on the normal form). -/
theorem C06_meaning_preserved (env : Env) (cx : PCtx) (s : Schema) (v : JVal)
    (hg : Good cx s = true) (hn : nfGood cx s = true) (hg' : Good cx (toSchema (parseE cx s)) = true)
    (hv : distinctKeys v = true) (hnc : (parseE cx s).acc env (.val v) ≠ .crash) :
    D6.valid env typeHasObject s v = D6.valid env typeHasObject (toSchema (parseE cx s)) v := by
  have h1 := ((parse_ok env cx s hg).1 v hv).eq_of_ne_crash hnc
  have h2 := ((ser_ok env cx (parseE cx s) (parse_NF cx s hn) hg').1 v hv).eq_of_ne_crash hnc
  rw [h1] at h2
  cases ha : D6.valid env typeHasObject s v <;> cases hb : D6.valid env typeHasObject (toSchema (parseE cx s)) v <;>
    simp_all [V.ofBool]

/-- non-vacuity: a class with a required undeclared name, an array property, a type list and composition with a default -/
def sEx : Schema :=
  .mk { type := .single "object", title := some "Order", required := some ["p", "ghost"], hasProps := true } [] none none
    [("p", .mk { type := .single "array", itemsKind := .single, uniqueItems := some true }
        [Schema.leaf { type := .single "integer", minimum := some (.int 1) }] none none [] [] none none [] [] [] [] none),
     ("q", .mk { hasAnyOf := true, default := some (.str "x") } [] none none [] [] none none []
        [Schema.leaf { type := .single "string" }, Schema.leaf { type := .list ["null", "boolean"] }] [] [] none),
     ("r", .mk { hasAllOf := true } [] none none [] [] none none [] [] []
        [Schema.leaf { minimum := some (.int 0) }, .mk {} [] none none [] [] none none [] [] [] [] (some (Schema.leaf { type := .single "null" }))] none)]
    [] (some (.bool false)) none [] [] [] [] none

theorem sEx_nfGood : nfGood cx0 sEx = true := by decide +kernel
theorem sEx_named : namedOK (parseE cx0 sEx) = true := by decide +kernel

/-- finding C06-nothing-with-default at the excluded point: `Nothing()` carrying a default is not in normal form, and the
    round trip indeed loses the default -/
theorem counter_nothing_default :
    (parseE cx0 (toSchema (Elem.leaf .nothing { default := some (.num (.int 1)) }))).kw.default = none := by
  decide +kernel

end Statham.C06
