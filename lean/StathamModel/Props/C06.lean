/-
  C06 — serialize-then-parse is the identity on statham's normal form.
  (the fixpoint theorem is added as it is proved; first: the pieces both directions share)
-/
import StathamModel.SerJson
import StathamModel.Dedupe
import StathamModel.Tie
namespace Statham.C06
open Statham

/-- the keyword set the serializer walks is exactly the keyword set `_keyword_filter(Element)` lets the
    parser pass through: both are read off the same generated signature, so a keyword known to one side
    only changes this table and breaks the tie -/
theorem shared_keyword_table :
    (Gen.sigElement.filter fun p => p.kind == .keywordOnly).map (·.name) = Gen.Param.names Gen.sigElement := by
  decide

/-- every keyword of the table is one the serializer knows how to emit -/
def emits (name : String) : Bool :=
  ["default", "const", "enum", "items", "additionalItems", "minItems", "maxItems", "uniqueItems", "contains",
   "minimum", "maximum", "exclusiveMinimum", "exclusiveMaximum", "multipleOf", "format", "pattern", "minLength",
   "maxLength", "required", "properties", "patternProperties", "additionalProperties", "minProperties",
   "maxProperties", "propertyNames", "dependencies", "description"].contains name

theorem serializer_covers_signature : (Gen.Param.names Gen.sigElement).all emits = true := by decide

def cx0 : PCtx := { ci := { isalnum := isAsciiAlnum, uname := fun _ => "unknown" } }

/-- `{}` ↔ `Element()` and `false` ↔ `Nothing()`: the base cases of the round trip -/
theorem trivial_round_trip :
    (match serElem none [] (parseE cx0 Schema.empty), serElem none [] (parseE cx0 (.bool false)) with
     | .obj [], .bool false => true
     | _, _ => false) = true := by decide +kernel

/-- a schema in normal form and its round trip, evaluated in the kernel:
    `{"type":"array","items":{"type":"integer","minimum":1},"uniqueItems":true}` -/
theorem example_fixpoint :
    (match serElem none [] (parseE cx0 (.mk { type := .single "array", itemsKind := .single, uniqueItems := some true }
        [Schema.leaf { type := .single "integer", minimum := some (.int 1) }] none none [] [] none none [] [] [] [] none)) with
     | .obj [("items", .obj [("minimum", .num (.int 1)), ("type", .str "integer")]), ("uniqueItems", .bool true),
             ("type", .str "array")] => true
     | _ => false) = true := by decide +kernel

end Statham.C06
