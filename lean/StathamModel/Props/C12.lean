/-
  C12 — every JSON name maps to a usable, unambiguous Python name.

  `attrName` / `titleFormat` model `_parse_attribute_name` / `_title_format` character by
  character.  Unicode facts are parameters (`CharInfo`, and `idc` = "may occur inside an
  identifier"); the check decides the hypotheses about them exhaustively against the running
  interpreter, code point by code point.
-/
import StathamModel.Names
import StathamModel.Gen.Constants
import StathamModel.Tie
namespace Statham.C12
open Statham

/-- what the proofs assume about the interpreter's character classes -/
structure Faithful (ci : CharInfo) (idc : Char → Bool) : Prop where
  /-- every `str.isalnum()` character may occur inside an identifier (false for 923 code points, e.g. `²`:
      the recorded finding C12-alnum-not-identifier) -/
  alnum : ∀ c, ci.isalnum c = true → idc c = true
  underscore : idc '_' = true
  /-- lower-cased Unicode names consist of identifier characters, spaces and hyphens -/
  uname : ∀ c, ∀ x ∈ (ci.uname c).toList, idc x = true ∨ x = ' ' ∨ x = '-'
  blank : ∀ x ∈ "blank".toList, idc x = true

theorem charMap_ok {ci : CharInfo} {idc : Char → Bool} (F : Faithful ci idc) (prev : Option Char) (c : Char)
    (next : Option Char) : ∀ x ∈ charMap ci prev c next, idc x = true ∨ x = ' ' ∨ x = '-' := by
  intro x hx
  unfold charMap at hx
  split at hx
  · rename_i h
    simp only [List.mem_singleton] at hx
    subst hx
    simp only [Bool.or_eq_true, beq_iff_eq] at h
    rcases h with ((h | h) | h) | h
    · exact Or.inl (F.alnum _ h)
    · subst h; exact Or.inl F.underscore
    · exact Or.inr (Or.inr h)
    · exact Or.inr (Or.inl h)
  · split at hx
    · simp only [List.mem_singleton] at hx
      subst hx; exact Or.inl F.underscore
    · -- a Unicode-name label, possibly with `_` before and after
      have hl : ∀ y ∈ (match prev with
          | some p => if p != '_' then '_' :: (ci.uname c).toList else (ci.uname c).toList
          | none => (ci.uname c).toList), idc y = true ∨ y = ' ' ∨ y = '-' := by
        intro y hy
        cases prev with
        | none => exact F.uname c y hy
        | some p =>
          simp only at hy
          split at hy
          · rcases List.mem_cons.mp hy with e | e
            · subst e; exact Or.inl F.underscore
            · exact F.uname c y e
          · exact F.uname c y hy
      cases next with
      | none => exact hl x hx
      | some n =>
        simp only at hx
        split at hx
        · rcases List.mem_append.mp hx with e | e
          · exact hl x e
          · simp only [List.mem_singleton] at e; subst e; exact Or.inl F.underscore
        · exact hl x hx

theorem mapChars_ok {ci : CharInfo} {idc : Char → Bool} (F : Faithful ci idc) :
    ∀ (name : List Char) (prev : Option Char), ∀ x ∈ mapChars ci prev name, idc x = true ∨ x = ' ' ∨ x = '-'
  | [], _, x, hx => by simp [mapChars] at hx
  | c :: rest, prev, x, hx => by
    rw [mapChars] at hx
    rcases List.mem_append.mp hx with e | e
    · exact charMap_ok F prev c rest.head? x e
    · exact mapChars_ok F rest (some c) x e

theorem replace_ok {idc : Char → Bool} (hu : idc '_' = true) (cs : List Char)
    (h : ∀ x ∈ cs, idc x = true ∨ x = ' ' ∨ x = '-') : ∀ x ∈ replaceSpaceHyphen cs, idc x = true := by
  intro x hx
  unfold replaceSpaceHyphen at hx
  obtain ⟨y, hy, rfl⟩ := List.mem_map.mp hx
  by_cases hc : (y == ' ' || y == '-') = true
  · simp only [hc, if_true]; exact hu
  · simp only [hc]
    rcases h y hy with e | e | e
    · exact e
    · subst e; simp at hc
    · subst e; simp at hc

/-- the attribute name, once the first character has been fixed -/
def headFixed (c : Char) (rest : List Char) : List Char := if isFirstChar c then c :: rest else '_' :: c :: rest

theorem finishName_cons (reserved : List String) (c : Char) (rest : List Char) :
    finishName reserved (c :: rest) =
      if reserved.contains (String.ofList (headFixed c rest)) then headFixed c rest ++ ['_'] else headFixed c rest := rfl

theorem finishName_ok {idc : Char → Bool} (hu : idc '_' = true) (hb : ∀ x ∈ "blank".toList, idc x = true)
    (reserved : List String) (cs : List Char) (h : ∀ x ∈ cs, idc x = true) : ∀ x ∈ finishName reserved cs, idc x = true := by
  intro x hx
  cases cs with
  | nil => exact hb x hx
  | cons c rest =>
    rw [finishName_cons] at hx
    have hcs : ∀ y ∈ headFixed c rest, idc y = true := by
      intro y hy
      unfold headFixed at hy
      split at hy
      · exact h y hy
      · rcases List.mem_cons.mp hy with e | e
        · subst e; exact hu
        · exact h y e
    split at hx
    · rcases List.mem_append.mp hx with e | e
      · exact hcs x e
      · simp only [List.mem_singleton] at e; subst e; exact hu
    · exact hcs x hx

/-- **Proved: every character of the attribute name is an identifier character**, for every property name
    (any length, any code points), under `Faithful`. -/
theorem C12_partial_chars {ci : CharInfo} {idc : Char → Bool} (F : Faithful ci idc) (reserved : List String)
    (name : List Char) : ∀ x ∈ attrNameChars ci reserved name, idc x = true :=
  finishName_ok F.underscore F.blank reserved _ (replace_ok F.underscore _ (mapChars_ok F name none))

theorem headFixed_first (c : Char) (rest : List Char) :
    ∃ c' rest', headFixed c rest = c' :: rest' ∧ isFirstChar c' = true := by
  unfold headFixed
  by_cases hf : isFirstChar c = true
  · simp only [hf, if_true]; exact ⟨c, rest, rfl, hf⟩
  · simp only [hf]; exact ⟨'_', c :: rest, rfl, by decide⟩

theorem finishName_first (reserved : List String) (cs : List Char) :
    ∃ c rest, finishName reserved cs = c :: rest ∧ isFirstChar c = true := by
  cases cs with
  | nil => exact ⟨'b', "lank".toList, rfl, by decide⟩
  | cons c rest =>
    rw [finishName_cons]
    obtain ⟨c', rest', he, hf⟩ := headFixed_first c rest
    rw [he]
    split
    · exact ⟨c', rest' ++ ['_'], rfl, hf⟩
    · exact ⟨c', rest', rfl, hf⟩

/-- **Proved: the attribute name starts with an ASCII letter or `_`** (so it is non-empty and cannot start
    with a digit), for every property name. -/
theorem C12_first_char (ci : CharInfo) (reserved : List String) (name : List Char) :
    ∃ c rest, attrNameChars ci reserved name = c :: rest ∧ isFirstChar c = true :=
  finishName_first reserved _

/-- appending `_` to a reserved name never yields another reserved name (decided over the regenerated list:
    `dir(object) + keyword.kwlist + ["_dict"]` of the target interpreter) -/
theorem reserved_suffix_free :
    Gen.reservedProperties.all (fun r => !Gen.reservedProperties.contains (r ++ "_")) = true := by decide +kernel

theorem finishName_not_reserved (cs : List Char) :
    Gen.reservedProperties.contains (String.ofList (finishName Gen.reservedProperties cs)) = false := by
  cases cs with
  | nil => decide +kernel
  | cons c rest =>
    rw [finishName_cons]
    generalize headFixed c rest = cs'
    by_cases hr : Gen.reservedProperties.contains (String.ofList cs') = true
    · simp only [hr, if_true]
      have := List.all_eq_true.mp reserved_suffix_free (String.ofList cs') (by simpa using hr)
      have e : String.ofList (cs' ++ ['_']) = String.ofList cs' ++ "_" := by
        simp [String.ofList_append]
      rw [e]
      simpa using this
    · simp only [hr]
      simpa using hr

/-- **Proved: the attribute name is never a reserved attribute or keyword.** -/
theorem C12_not_reserved (ci : CharInfo) (name : String) :
    Gen.reservedProperties.contains (attrName ci Gen.reservedProperties name) = false :=
  finishName_not_reserved _

/-! ### counter-witnesses (complements of the hypotheses; recorded findings) -/

def ci0 : CharInfo := { isalnum := isAsciiAlnum, uname := fun _ => "unknown" }

/-- finding C12-collapse: three different JSON names, one attribute name -/
theorem counter_collapse :
    attrName ci0 Gen.reservedProperties "a b" = "a_b" ∧ attrName ci0 Gen.reservedProperties "a-b" = "a_b" ∧
    attrName ci0 Gen.reservedProperties "a_b" = "a_b" := by
  refine ⟨by decide +kernel, by decide +kernel, by decide +kernel⟩

/-- finding C12-empty-name: the empty JSON name becomes `blank` (and `bind` then drops the empty source) -/
theorem counter_empty : attrName ci0 Gen.reservedProperties "" = "blank" := by decide +kernel

/-- finding C12-titles: titles without an ASCII letter format to the empty class name; `none` to `None` -/
theorem counter_titles : titleFormat "123" = "" ∧ titleFormat "é" = "" ∧ titleFormat "none" = "None" ∧
    titleFormat "property" = "Property" := by
  refine ⟨by decide +kernel, by decide +kernel, by decide +kernel, by decide +kernel⟩

/-- non-vacuity: a renamed keyword and a symbol, evaluated in the kernel -/
example : attrName ci0 Gen.reservedProperties "class" = "class_" ∧ attrName ci0 Gen.reservedProperties "1st" = "_1st" := by
  refine ⟨by decide +kernel, by decide +kernel⟩

end Statham.C12
