/-
  C09 — code generation and serialization are deterministic across processes.

  The model's `parseDoc`, `emitModule`, `serializeJson` are functions of the document, so "same document,
  same output" holds in the model by construction.  What can make the *library* differ between processes is
  an iteration whose order comes from a hash table: over a `set`/`frozenset` (string hashes are seeded per
  process, class hashes follow memory addresses).  The translator lists every such iteration in /repo on
  this run (`Gen.iterSites`: for-loops, comprehensions, `list()`/`join()`/… over anything that is syntactically
  a set, a module- or function-level name bound to one, or set algebra on sets or dict views); this file
  accounts for each of them.  PARTIAL: the scan is syntactic; cross-process behaviour itself is observed by
  running the generator in subprocesses under different hash seeds.
-/
import StathamModel.Gen.Sites
import StathamModel.Gen.Constants
import StathamModel.Tie
namespace Statham.C09
open Statham

inductive Harmless where
  | intoSet          -- the elements go straight into another set: order cannot be observed
  | sortedAfter      -- the result is sorted before anything is emitted
  | validationOnly   -- decides which of several validation errors is reported first; never runs during generation
deriving DecidableEq, Repr

/-- every hash-ordered iteration of the library, with the reason it cannot reach generated output -/
def accounted : List (Gen.Site × Harmless) := [
  (⟨"statham/schema/validation/__init__.py", "_all_subclasses", "listcomp", "_all_subclasses(c)"⟩, .intoSet),
  (⟨"statham/schema/validation/__init__.py", "get_validators", "for", "_all_subclasses(Validator)"⟩, .validationOnly),
  (⟨"statham/serializers/python.py", "_get_element_imports", "listcomp",
    "set.union(*(_get_single_element_imports(element) for element in elements))"⟩, .sortedAfter)
]

/-- **Tie**: the hash-ordered iterations found in /repo on this run are exactly the accounted ones.  A new loop over
    a set (or a tuple constant turned into a set) in the parser or the serializers breaks this theorem. -/
theorem iterSites_accounted : Gen.iterSites = accounted.map (·.1) := by decide +kernel

/-- none of them is in the parser, and the only one in a serializer is sorted before emission -/
theorem generation_path_ordered :
    (accounted.filter fun p => p.1.file == "statham/schema/parser.py" || p.1.file.startsWith "statham/serializers/").all
      (fun p => p.2 == .sortedAfter) = true := by decide +kernel

/-- the composition keywords, whose parse order decides which equally-titled class gets which suffix, are an ordered
    tuple and the parser's loop iterates that tuple (regenerated constants) -/
theorem composition_order_fixed :
    Gen.compositionKeywordsOrdered = true ∧
    Gen.compositionLoopIter = "(key for key in COMPOSITION_KEYWORDS if key != 'not')" :=
  ⟨Tie.compositionKeywords_ordered, Tie.compositionLoop_ordered⟩

end Statham.C09
