/-
  C05 — defaults fill omitted values and never override supplied ones.
-/
import StathamModel.Lemmas.Results
import StathamModel.Tie
namespace Statham.C05
open Statham

/-- what "the default, converted as if supplied when valid, as-is when not" means -/
def defaultResult (env : Env) (e : Elem) (d : JVal) : Res :=
  match e.call env (.val d) with
  | .ok r => .ok r
  | .reject => .ok (.raw d)
  | .crash => .crash

/-- **Calling any element or model class with no value** yields its own default on those terms, or the
    not-passed marker when it has none (every element class, every keyword configuration). -/
theorem C05_no_value (env : Env) (e : Elem) :
    e.call env .notPassed =
      match e.kw.default with
      | none => .ok .notPassed
      | some d => defaultResult env e d := by
  cases e with
  | mk c kw items addI cont props pats addP pn deps els =>
    unfold defaultResult
    simp only [Elem.call, callCore, Elem.kw]
    cases kw.default <;> rfl

/-- a default never turns a call without value into an error -/
theorem C05_invalid_default_is_returned (env : Env) (e : Elem) (d : JVal) (hd : e.kw.default = some d)
    (hrej : e.call env (.val d) = .reject) : e.call env .notPassed = .ok (.raw d) := by
  rw [C05_no_value, hd]
  simp [defaultResult, hrej]

/-- **The property for objects, full strength** (false of the model, see the counter-witness):
    every declared property omitted from the input shows up under its Python name with its default. -/
def StatementOmitted : Prop :=
  ∀ (env : Env) (kw : Kw) (sub : Sub) (kvs : List (String × JVal)) (L : List (String × RVal))
    (key : Key) (f : Call),
    propsCall env kw sub kvs = .ok (.anon L) → findDeclared sub.props key.src = some (key, f) →
    key.src ∉ kvs.map (·.1) →
    ∃ r, f .notPassed = .ok r ∧ dictGet? L key.name = some r

/-- **Proved.** Under two hypotheses — no `patternProperties` pattern matches the property's JSON name, and
    no two visited keys resolve to one result name — an omitted declared property is in the result under
    its Python name, holding what calling its element without a value gives (`C05_no_value`: the
    converted default, the raw default if invalid, not-passed if none). -/
theorem C05_partial_omitted (env : Env) (kw : Kw) (sub : Sub) (kvs : List (String × JVal))
    (L : List (String × RVal)) (key : Key) (f : Call)
    (h : propsCall env kw sub kvs = .ok (.anon L))
    (hdecl : findDeclared sub.props key.src = some (key, f))
    (hmem : key.src ∈ sub.props.map (·.1.src))
    (homit : key.src ∉ kvs.map (·.1))
    (hnopat : matchingPats env sub.patProps key.src = [])
    (hdist : distinct ((propsOuts resAlg env kw sub kvs).map (·.1)) = true) :
    ∃ r, f .notPassed = .ok r ∧ dictGet? L key.name = some r := by
  have hk : key.src ∈ visitKeys sub kvs := by
    unfold visitKeys
    exact List.mem_append_left _ (mem_removeDups.mpr hmem)
  obtain ⟨r, hr, hget⟩ := propsCall_member h hdist hk
  have harg : argOf kvs key.src = .notPassed := by simp [argOf, lookup_none homit]
  have hres : resolveCall resAlg env kw sub key.src .notPassed = (key.name, f .notPassed) := by
    unfold resolveCall
    simp only [hdecl, hnopat]
  rw [harg, hres] at hr hget
  exact ⟨r, hr, hget⟩

/-- **Proved.** A supplied value is never replaced by a default: under the same hypotheses the result holds,
    under the property's Python name, what the property's element makes of the *supplied* value. -/
theorem C05_partial_supplied (env : Env) (kw : Kw) (sub : Sub) (kvs : List (String × JVal))
    (L : List (String × RVal)) (key : Key) (f : Call) (x : JVal)
    (h : propsCall env kw sub kvs = .ok (.anon L))
    (hdecl : findDeclared sub.props key.src = some (key, f))
    (hkeys : distinct (kvs.map (·.1)) = true)
    (hsup : (key.src, x) ∈ kvs)
    (hnopat : matchingPats env sub.patProps key.src = [])
    (hdist : distinct ((propsOuts resAlg env kw sub kvs).map (·.1)) = true) :
    ∃ r, f (.val x) = .ok r ∧ dictGet? L key.name = some r := by
  have hk : key.src ∈ visitKeys sub kvs := by
    unfold visitKeys
    by_cases hm : key.src ∈ removeDups (sub.props.map fun p => p.1.src)
    · exact List.mem_append_left _ hm
    · refine List.mem_append_right _ (List.mem_filter.mpr ⟨List.mem_map.mpr ⟨(key.src, x), hsup, rfl⟩, ?_⟩)
      simpa using hm
  obtain ⟨r, hr, hget⟩ := propsCall_member h hdist hk
  have harg : argOf kvs key.src = .val x := by simp [argOf, lookup_of_mem hkeys hsup]
  have hres : resolveCall resAlg env kw sub key.src (.val x) = (key.name, f (.val x)) := by
    unfold resolveCall
    simp only [hdecl, hnopat]
  rw [harg, hres] at hr hget
  exact ⟨r, hr, hget⟩

/-! ### counter-witness: a pattern that also matches a defaulted property loses the default -/

def envA : Env := { re := fun p s => p == "^a" && s.startsWith "a", fmt := fun _ => none }

/-- `Element(properties={"a": Property(Element(default=7))}, patternProperties={"^a": Element()})({})` -/
def ePattern : Elem :=
  .mk .element { hasProps := true, hasPatProps := true } [] none none
    [({ name := "a", source := some "a" }, Elem.leaf .element { default := some (.num (.int 7)) })]
    [({ name := "^a" }, Elem.trivial)] none none [] []

/-- finding C05-pattern-overlap: the composite `AllOf(declared, pattern…)` has no default, so the omitted
    property comes back as the not-passed marker instead of 7 -/
theorem counter_pattern_overlap :
    (match ePattern.call envA (.val (.obj [])) with
     | .ok (.anon [("a", .notPassed)]) => true
     | _ => false) = true := by decide +kernel

/-- the same element without the pattern does fill in the default (the hypotheses are satisfiable) -/
example :
    (match (Elem.mk .element { hasProps := true } [] none none
        [({ name := "a_b", source := some "a b" }, Elem.leaf .number { default := some (.num (.int 7)) })]
        [] none none [] []).call envA (.val (.obj [])) with
     | .ok (.anon [("a_b", .num (.flt 7 1))]) => true
     | _ => false) = true := by decide +kernel

end Statham.C05
