/-
  C17 — equal elements are interchangeable.
-/
import StathamModel.Eq
import StathamModel.Lemmas.EqRefl
import StathamModel.Lemmas.EqSymm
import StathamModel.Validate
import StathamModel.Tie
import StathamModel.Lemmas.AccNames
import StathamModel.Lemmas.CallVerdict
import StathamModel.Lemmas.ElemBeq
import StathamModel.Lemmas.SerNames
namespace Statham.C17
open Statham

/-- **The property at full strength**: equality is reflexive and symmetric, and equal elements accept the
    same values (the serialization half is checked by correspondence). -/
def Statement : Prop :=
  (∀ e, wfElem e = true → elemEq e e = true) ∧
  (∀ a b, wfElem a = true → wfElem b = true → elemEq a b = elemEq b a) ∧
  (∀ (env : Env) a b v, wfElem a = true → wfElem b = true → elemEq a b = true → a.accepts env v = b.accepts env v)

/-- **Proved: reflexivity**, for every element tree whose dictionaries (literal objects, `properties`,
    `patternProperties`, `dependencies`) have distinct keys — i.e. every tree that can exist in Python; hence
    independently built copies of one schema are equal. The congruence clause is false as stated
    (`counter_bool_number`); congruence outside the recorded region is checked by correspondence. -/
theorem C17_partial_refl (e : Elem) (h : wfElem e = true) : elemEq e e = true := elemEq_refl e h

/-- **Proved: symmetry**, for every pair of well-formed element trees: `a == b` and `b == a` agree — literals by
    Python `==` (dictionaries order-insensitively), numbers by value, `properties` / `patternProperties` /
    `dependencies` as mappings (the pigeonhole step: equal sizes + distinct names), class names ignored. -/
theorem C17_symm (a b : Elem) (ha : wfElem a = true) (hb : wfElem b = true) : elemEq a b = elemEq b a :=
  elemEq_symm a b ha hb

/-- **Proved: the congruence clause for pairs that are the same tree up to names.**  If two element trees coincide once the
    attribute names of properties and the names of object classes are forgotten (`anonymize`: everything else — every keyword
    value in its own spelling, every JSON name, flag, order — identical), they accept exactly the same values, in every
    regex/format environment.  This is the case de-duplication and `definitions` lookup rely on: one class shared between
    object schemas that differ in title only, a reference to a definition that was written separately.  The two ways in
    which `==` is coarser than this relation and the congruence *fails* are the recorded findings (`counter_bool_number`:
    literals compared with Python `==`; `counter_int_float_multipleOf`: numbers compared by value); the remaining ways
    (dictionary order, `2` vs `2.0` in the comparing keywords) are decided by correspondence. -/
theorem C17_partial_congruence (env : Env) (a b : Elem) (h : anonymize a = anonymize b) (v : JVal) :
    a.accepts env v = b.accepts env v := by
  rw [accepts_eq, accepts_eq]
  unfold Elem.accV
  rw [acc_congr_of_anonymize env a b h]

/-- the form the driver evaluates (`Elem.same`: executable structural comparison, proved sound) -/
theorem C17_congruence_decidable (env : Env) (a b : Elem) (h : Elem.same (anonymize a) (anonymize b) = true) (v : JVal) :
    a.accepts env v = b.accepts env v :=
  C17_partial_congruence env a b (Elem.same_sound _ _ h) v

/-- **Proved: and they serialize to the same JSON Schema** — class titles aside, which the property's own wording leaves out
    of equality: the schema-level serializations of two trees equal up to names coincide once `title`s are blanked
    (`untitle_toSchema_anon`: the serializer reads a property's JSON name and flag, never its attribute name, and a class
    name only into `title`). -/
theorem C17_partial_congruence_serialization (a b : Elem) (h : anonymize a = anonymize b) :
    untitle (toSchema a) = untitle (toSchema b) :=
  ser_congr_of_anonymize a b h

/-- the same for the not-passed marker (defaults are treated alike) -/
theorem C17_partial_congruence_notPassed (env : Env) (a b : Elem) (h : anonymize a = anonymize b) :
    a.acc env .notPassed = b.acc env .notPassed := by
  rw [acc_congr_of_anonymize env a b h]

/-- non-vacuity: two classes with different names and differently named attributes for the same JSON members -/
example : anonymize (.mk (.object "Cat") { hasProps := true } [] none none
      [({ name := "name", required := true, source := some "name" }, Elem.leaf .string)] [] none none [] []) =
    anonymize (.mk (.object "Dog") { hasProps := true } [] none none
      [({ name := "label", required := true, source := some "name" }, Elem.leaf .string)] [] none none [] []) := by
  rfl

def env0 : Env := { re := fun _ _ => false, fmt := fun _ => none }

/-- finding C17-bool-number-literals: equal, yet they disagree on `true` -/
theorem counter_bool_number :
    elemEq (Elem.leaf .element { const := some (.bool true) }) (Elem.leaf .element { const := some (.num (.int 1)) }) = true ∧
    (Elem.leaf .element { const := some (.bool true) }).accepts env0 (.bool true) = true ∧
    (Elem.leaf .element { const := some (.num (.int 1)) }).accepts env0 (.bool true) = false := by
  refine ⟨by decide +kernel, by decide +kernel, by decide +kernel⟩

/-- finding C17-int-float-multipleOf: `multipleOf=2` and `multipleOf=2.0` compare equal (`2 == 2.0`), but the
    validator takes the exact `%` path for an int parameter and the float-quotient path for a float one; on
    `2^53 + 1` (odd, and rounded to `2^53` by the conversion to double) the first rejects and the second accepts.
    This is the hypothesis the congruence proof forces (same *spelling* of `multipleOf`), run at the excluded point. -/
theorem counter_int_float_multipleOf :
    elemEq (Elem.leaf .element { multipleOf := some (.int 2) }) (Elem.leaf .element { multipleOf := some (.flt 2 1) }) = true ∧
    (Elem.leaf .element { multipleOf := some (.int 2) }).accepts env0 (.num (.int 9007199254740993)) = false ∧
    (Elem.leaf .element { multipleOf := some (.flt 2 1) }).accepts env0 (.num (.int 9007199254740993)) = true := by
  refine ⟨by decide +kernel, by decide +kernel, by decide +kernel⟩

/-- equality never identifies different element classes (subclass priority makes `Element() == String()` false
    both ways), and ignores class names -/
theorem classes_matter : elemEq (Elem.leaf .element) (Elem.leaf .string) = false ∧
    elemEq (Elem.leaf .string) (Elem.leaf .element) = false ∧
    elemEq (Elem.leaf (.object "A") { hasProps := true }) (Elem.leaf (.object "B") { hasProps := true }) = true := by
  refine ⟨by decide +kernel, by decide +kernel, by decide +kernel⟩

end Statham.C17
