/-
  C04 — an accepted value comes back complete and unaltered inside the model.

  The theorems describe one level of a successful call exactly; every level of the returned
  structure is again the result of a successful call of a sub-element on the corresponding
  part of the input, so they apply at every depth.
-/
import StathamModel.Lemmas.Results
import StathamModel.Tie
namespace Statham.C04
open Statham

/-- `int` accepted by a `number` schema comes back as the equal float; below 2^53 the value is the same -/
theorem number_value (i : Int) (h : i.natAbs < 9007199254740992) :
    asDouble (.int i) = some (.flt i 1) ∧ Num.eqv (.flt i 1) (.int i) = true := by
  have hs : i.natAbs < pow2 53 := by
    have : pow2 53 = 9007199254740992 := by decide
    omega
  constructor
  · simp [asDouble, toDouble, hs]
  · simp [Num.eqv, Num.numer, Num.denom]

theorem float_value (n : Int) (d : Nat) : asDouble (.flt n d) = some (.flt n d) := rfl

/-- compositions return the construction of the first member that accepts -/
theorem attempt_first {mode : Cls} {rs : List Res} {r : RVal} (h : attempt mode rs = .ok r) :
    firstOk rs = some r := by
  unfold attempt at h
  split at h
  · cases h
  · cases hf : firstOk rs with
    | none => rw [hf] at h; cases h
    | some r' =>
      rw [hf] at h
      cases mode <;> simp only at h <;> (try split at h) <;> first | cases h; rfl | cases h

/-- the first accepting member's result is that member's own call result on the *same* value -/
theorem firstOk_mem {rs : List Res} {r : RVal} (h : firstOk rs = some r) : Res.ok r ∈ rs := by
  induction rs with
  | nil => cases h
  | cons x xs ih =>
    cases x with
    | ok y => simp only [firstOk, Option.some.injEq] at h; subst h; exact List.mem_cons_self ..
    | reject => exact List.mem_cons_of_mem _ (ih h)
    | crash => exact List.mem_cons_of_mem _ (ih h)

/-- **Arrays keep their length and order**: item `i` of the result is the result of calling the element
    that governs position `i` on input item `i`. -/
theorem array_items {kw : Kw} {sub : Sub} {xs : List JVal} {rs : List RVal}
    (h : itemsCall kw sub xs = .ok (.arr rs)) :
    rs.length = xs.length ∧
    ∀ i (hi : i < xs.length), ∃ r, rs[i]? = some r ∧ itemCall resAlg kw sub i (.val xs[i]) = .ok r := by
  refine ⟨itemsCall_length h, ?_⟩
  have hok := itemsCall_ok h
  have hgen : ∀ (ys : List JVal) (off : Nat) (qs : List RVal),
      itemsCallFrom resAlg kw sub off ys = qs.map Res.ok →
      ∀ i (hi : i < ys.length), ∃ r, qs[i]? = some r ∧ itemCall resAlg kw sub (off + i) (.val ys[i]) = .ok r := by
    intro ys
    induction ys with
    | nil => intro off qs _ i hi; simp at hi
    | cons y ys ih =>
      intro off qs hq i hi
      cases qs with
      | nil => simp [itemsCallFrom] at hq
      | cons q qs =>
        simp only [itemsCallFrom, List.map_cons, List.cons.injEq] at hq
        cases i with
        | zero => exact ⟨q, rfl, by simpa using hq.1⟩
        | succ j =>
          obtain ⟨r, hr1, hr2⟩ := ih (off + 1) qs hq.2 j (by simpa using hi)
          refine ⟨r, by simpa using hr1, ?_⟩
          have : off + (j + 1) = off + 1 + j := by omega
          simpa [this] using hr2
  intro i hi
  simpa using hgen xs 0 rs hok i hi

/-- **Objects: nothing is dropped.** Every member of the input (and every declared property) appears in
    the result under its resolved name, holding the result of calling the element that governs it —
    provided no two visited keys resolve to one result name (the `NoKeyCollision` hypothesis). -/
theorem object_members {env : Env} {kw : Kw} {sub : Sub} {kvs : List (String × JVal)} {L : List (String × RVal)}
    (h : propsCall env kw sub kvs = .ok (.anon L))
    (hdist : distinct ((propsOuts resAlg env kw sub kvs).map (·.1)) = true)
    (hkeys : distinct (kvs.map (·.1)) = true) {k : String} {x : JVal} (hm : (k, x) ∈ kvs) :
    ∃ r, (resolveCall resAlg env kw sub k (.val x)).2 = .ok r ∧
      dictGet? L (resolveCall resAlg env kw sub k (.val x)).1 = some r := by
  have hk : k ∈ visitKeys sub kvs := by
    unfold visitKeys
    by_cases hs : k ∈ removeDups (sub.props.map fun p => p.1.src)
    · exact List.mem_append_left _ hs
    · exact List.mem_append_right _ (List.mem_filter.mpr ⟨List.mem_map.mpr ⟨(k, x), hm, rfl⟩, by simpa using hs⟩)
  have harg : argOf kvs k = .val x := by simp [argOf, lookup_of_mem hkeys hm]
  have := propsCall_member h hdist hk
  rwa [harg] at this

/-- **Objects: nothing is invented.** Every key of the result is the resolved name of an input member or
    of a declared property. -/
theorem object_keys {env : Env} {kw : Kw} {sub : Sub} {kvs : List (String × JVal)} {L : List (String × RVal)}
    (h : propsCall env kw sub kvs = .ok (.anon L)) {n : String} {r : RVal} (hn : dictGet? L n = some r) :
    ∃ k ∈ visitKeys sub kvs, (resolveCall resAlg env kw sub k (argOf kvs k)) = (n, .ok r) := by
  obtain ⟨l, hl, rfl⟩ := propsCall_ok h
  rw [dictOfList_get] at hn
  cases hf : l.reverse.find? (fun p => p.1 == n) with
  | none => rw [hf] at hn; cases hn
  | some q =>
    rw [hf] at hn
    simp only [Option.map_some, Option.some.injEq] at hn
    have hq : q ∈ l := List.mem_reverse.mp (List.mem_of_find?_eq_some hf)
    have hqn : q.1 = n := by simpa using List.find?_some hf
    have : (q.1, Res.ok q.2) ∈ propsOuts resAlg env kw sub kvs := by
      rw [hl]; exact List.mem_map.mpr ⟨q, hq, rfl⟩
    unfold propsOuts at this
    obtain ⟨k, hk, he⟩ := List.mem_map.mp this
    exact ⟨k, hk, by rw [he, hqn, hn]⟩

/-! ### counter-witnesses (complements of the hypotheses) -/

def env0 : Env := { re := fun _ _ => false, fmt := fun _ => none }

/-- finding C04-key-collision: `{"a b": 1, "a_b": 2}` against properties `a b` (attribute `a_b`): the
    declared value is overwritten by the additional member of the same name — one member is lost -/
theorem counter_key_collision :
    (match (Elem.mk .element { hasProps := true } [] none none
        [({ name := "a_b", source := some "a b" }, Elem.trivial)] [] none none [] []).call env0
        (.val (.obj [("a b", .num (.int 1)), ("a_b", .num (.int 2))])) with
     | .ok (.anon [("a_b", .num (.int 2))]) => true
     | _ => false) = true := by decide +kernel

/-- finding C04-int-precision: `Number()(2^53 + 1)` comes back as `2^53` -/
theorem counter_int_precision :
    (match (Elem.leaf .number).call env0 (.val (.num (.int 9007199254740993))) with
     | .ok (.num (.flt 9007199254740992 1)) => true
     | _ => false) = true := by decide +kernel

end Statham.C04
