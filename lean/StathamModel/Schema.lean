/-
  A JSON Schema document over the keywords the parser reads, as a typed tree.

  The theorems quantify over `Schema` (every finite tree is a value of this type).  The
  driver decodes JSON documents into `Schema` (`Driver.lean`, exercised by the
  correspondence check); keys the parser ignores are dropped by the decoder.

  "absent" for container keywords is a flag in `SKw` (cf. `Elem`).
-/
import StathamModel.Json
import StathamModel.Elem
namespace Statham

inductive TypeSpec where
  | none
  | single (t : String)
  | list (ts : List String)
deriving DecidableEq, Repr, Inhabited

/-- keywords of one schema object that hold no sub-schema -/
structure SKw where
  type : TypeSpec := .none
  title : Option String := none
  autotitle : Option String := none       -- "_x_autotitle"
  description : Option String := none
  default : Option JVal := none
  const : Option JVal := none
  enum : Option (List JVal) := none
  itemsKind : ItemsKind := .none
  minItems : Option Num := none
  maxItems : Option Num := none
  uniqueItems : Option Bool := none
  minimum : Option Num := none
  maximum : Option Num := none
  exclusiveMinimum : Option Num := none
  exclusiveMaximum : Option Num := none
  multipleOf : Option Num := none
  format : Option String := none
  pattern : Option String := none
  minLength : Option Num := none
  maxLength : Option Num := none
  required : Option (List String) := none
  hasProps : Bool := false
  hasPatProps : Bool := false
  minProperties : Option Num := none
  maxProperties : Option Num := none
  hasDeps : Bool := false
  hasAnyOf : Bool := false
  hasOneOf : Bool := false
  hasAllOf : Bool := false
  /-- unsupported keywords present on this object (`UNSUPPORTED_SCHEMA_KEYWORDS ∩ keys`) -/
  unsupported : List String := []
deriving Repr, Inhabited

inductive Schema where
  | bool (b : Bool)
  | mk (kw : SKw)
       (items : List Schema)
       (addItems : Option Schema)       -- `some (.bool b)` = the literal boolean
       (contains : Option Schema)
       (props : List (String × Schema))
       (patProps : List (String × Schema))
       (addProps : Option Schema)
       (propNames : Option Schema)
       (deps : List (Key × Schema))     -- `key.names = some l`: array form (schema ignored)
       (anyOf : List Schema) (oneOf : List Schema) (allOf : List Schema)
       (not : Option Schema)
deriving Repr, Inhabited

namespace Schema
/-- `{}` -/
def empty : Schema := .mk {} [] none none [] [] none none [] [] [] [] none
def leaf (kw : SKw) : Schema := .mk kw [] none none [] [] none none [] [] [] [] none
end Schema

end Statham
