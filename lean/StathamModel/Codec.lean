/-
  JSON line-protocol codec for the driver (not used by any theorem).

  Tagged value encoding (written by harness/protocol.py):
    null, true/false, "str", [ ... ]           as themselves
    {"i":"<decimal>"}                          Python int
    {"f":["<num>","<den>"]}                    finite Python float, exact ratio
    {"o":[[key, value], ...]}                  dict, insertion-ordered
    {"np":1}                                   NotPassed (only where an argument is expected)
-/
import Lean.Data.Json
import StathamModel.Json
import StathamModel.Elem
import StathamModel.Schema
import StathamModel.Validate
import StathamModel.Names
import StathamModel.Gen.Constants
namespace Statham.Codec
open Lean (Json)

abbrev R := Except String

def getField (j : Json) (k : String) : Option Json :=
  match j.getObjVal? k with
  | .ok v => some v
  | .error _ => none

def parseInt (s : String) : R Int :=
  match s.toInt? with
  | some i => pure i
  | none => throw s!"bad int {s}"

def jsonInt (j : Json) : R Int :=
  match j with
  | .str s => parseInt s
  | .num n => if n.exponent == 0 then pure n.mantissa else throw "non-integer number"
  | _ => throw "expected int"

partial def decVal (j : Json) : R JVal :=
  match j with
  | .null => pure .null
  | .bool b => pure (.bool b)
  | .str s => pure (.str s)
  | .arr xs => do
    let ys ← xs.toList.mapM decVal
    pure (.arr ys)
  | .num n => if n.exponent == 0 then pure (.num (.int n.mantissa)) else throw "bare non-integer number"
  | .obj _ =>
    match getField j "i", getField j "f", getField j "o" with
    | some i, _, _ => do pure (.num (.int (← jsonInt i)))
    | _, some f, _ => do
      let a ← f.getArr?
      if a.size != 2 then throw "bad float"
      let n ← jsonInt a[0]!
      let d ← jsonInt a[1]!
      pure (.num (.flt n d.toNat))
    | _, _, some o => do
      let a ← o.getArr?
      let kvs ← a.toList.mapM fun kv => do
        let p ← kv.getArr?
        if p.size != 2 then throw "bad pair"
        let k ← p[0]!.getStr?
        let v ← decVal p[1]!
        pure (k, v)
      pure (.obj kvs)
    | _, _, _ => throw s!"unrecognised tagged value {j.compress}"

def decArg (j : Json) : R Arg :=
  match getField j "np" with
  | some _ => pure .notPassed
  | none => do pure (.val (← decVal j))

def encInt (i : Int) : Json := Json.mkObj [("i", .str (toString i))]

def encNum : Num → Json
  | .int i => encInt i
  | .flt n d => Json.mkObj [("f", .arr #[.str (toString n), .str (toString d)])]

partial def encVal : JVal → Json
  | .null => .null
  | .bool b => .bool b
  | .num n => encNum n
  | .str s => .str s
  | .arr xs => .arr (xs.map encVal).toArray
  | .obj kvs => Json.mkObj [("o", .arr (kvs.map fun kv => Json.arr #[.str kv.1, encVal kv.2]).toArray)]

/-- a raw Python value inside a result: lists are lists, dicts are plain dicts -/
partial def encRaw : JVal → Json
  | .arr xs => .arr (xs.map encRaw).toArray
  | .obj kvs => Json.mkObj [("dict", .arr (kvs.map fun kv => Json.arr #[.str kv.1, encRaw kv.2]).toArray)]
  | v => encVal v

partial def encRVal : RVal → Json
  | .notPassed => Json.mkObj [("np", (1 : Nat))]
  | .null => .null
  | .bool b => .bool b
  | .num n => encNum n
  | .str s => .str s
  | .arr xs => .arr (xs.map encRVal).toArray
  | .anon kvs => Json.mkObj [("anon", .arr (kvs.map fun kv => Json.arr #[.str kv.1, encRVal kv.2]).toArray)]
  | .inst c kvs => Json.mkObj [("inst", .str c),
      ("d", .arr (kvs.map fun kv => Json.arr #[.str kv.1, encRVal kv.2]).toArray)]
  | .raw v => encRaw v

def encRes : Res → Json
  | .ok r => Json.mkObj [("r", "ok"), ("v", encRVal r)]
  | .reject => Json.mkObj [("r", "reject")]
  | .crash => Json.mkObj [("r", "crash")]

/-! ### environment tables -/

structure Tables where
  re : List (String × String × Bool) := []
  fmt : List (String × String × Bool) := []
  fmtRegistered : List String := []
  ci : List (Char × Bool × String) := []

def decTriples (j : Json) : R (List (String × String × Bool)) := do
  let a ← j.getArr?
  a.toList.mapM fun t => do
    let p ← t.getArr?
    if p.size != 3 then throw "bad triple"
    pure (← p[0]!.getStr?, ← p[1]!.getStr?, ← p[2]!.getBool?)

def decTables (j : Json) : R Tables := do
  let re ← match getField j "re" with
    | some t => decTriples t
    | none => pure []
  let fmt ← match getField j "fmt" with
    | some t => decTriples t
    | none => pure []
  let reg ← match getField j "fmt_registered" with
    | some t => do (← t.getArr?).toList.mapM (·.getStr?)
    | none => pure []
  let ci ← match getField j "ci" with
    | some t => do
      (← t.getArr?).toList.mapM fun e => do
        let p ← e.getArr?
        if p.size != 3 then throw "bad ci entry"
        let s ← p[0]!.getStr?
        match s.toList with
        | [c] => pure (c, ← p[1]!.getBool?, ← p[2]!.getStr?)
        | _ => throw "ci key must be one character"
    | none => pure []
  pure { re := re, fmt := fmt, fmtRegistered := reg, ci := ci }

/-- oracle misses are recorded here so the harness can tell (should never happen) -/
initialize missRef : IO.Ref (List String) ← IO.mkRef []

def asciiAlnum (c : Char) : Bool :=
  (c ≥ 'a' && c ≤ 'z') || (c ≥ 'A' && c ≤ 'Z') || (c ≥ '0' && c ≤ '9')

def Tables.env (t : Tables) : Env :=
  { re := fun p s => match t.re.find? (fun e => e.1 == p && e.2.1 == s) with
      | some e => e.2.2
      | none => false
    fmt := fun name =>
      if t.fmtRegistered.contains name then
        some fun s => match t.fmt.find? (fun e => e.1 == name && e.2.1 == s) with
          | some e => e.2.2
          | none => true
      else none }

/-- queries the model could not answer from the tables -/
def Tables.reMiss (t : Tables) (p s : String) : Bool :=
  !(t.re.any fun e => e.1 == p && e.2.1 == s)

def Tables.charInfo (t : Tables) : CharInfo :=
  { isalnum := fun c => match t.ci.find? (fun e => e.1 == c) with
      | some e => e.2.1
      | none => asciiAlnum c
    uname := fun c => match t.ci.find? (fun e => e.1 == c) with
      | some e => e.2.2
      | none => "unknown" }

/-! ### schemas -/

def optNum (j : Json) (k : String) : R (Option Num) :=
  match getField j k with
  | none => pure none
  | some v => do
    match ← decVal v with
    | .num n => pure (some n)
    | _ => throw s!"keyword {k}: expected number"

def jvalField (kvs : List (String × JVal)) (k : String) : Option JVal := JVal.lookup k kvs

def asNum (k : String) : Option JVal → R (Option Num)
  | none => pure none
  | some (.num n) => pure (some n)
  | some _ => throw s!"keyword {k}: expected a number"

def asStr (k : String) : Option JVal → R (Option String)
  | none => pure none
  | some (.str s) => pure (some s)
  | some _ => throw s!"keyword {k}: expected a string"

def asStrList (k : String) : Option JVal → R (Option (List String))
  | none => pure none
  | some (.arr xs) => do
    let l ← xs.mapM fun x => match x with
      | .str s => pure s
      | _ => throw s!"keyword {k}: expected strings"
    pure (some l)
  | some _ => throw s!"keyword {k}: expected a list"

/-- decode a schema document (tagged JVal) into the typed `Schema` tree -/
partial def decSchema (v : JVal) : R Schema :=
  match v with
  | .bool b => pure (.bool b)
  | .obj kvs => do
    let f := jvalField kvs
    let type ← match f "type" with
      | none => pure TypeSpec.none
      | some (.str t) => pure (TypeSpec.single t)
      | some (.arr ts) => do
        let l ← ts.mapM fun x => match x with
          | .str s => pure s
          | _ => throw "type list: expected strings"
        pure (TypeSpec.list l)
      | some _ => throw "invalid type keyword"
    let schemaList (k : String) : R (Bool × List Schema) := match f k with
      | none => pure (false, [])
      | some (.arr xs) => do pure (true, ← xs.mapM decSchema)
      | some _ => throw s!"keyword {k}: expected a list of schemas"
    let schemaOpt (k : String) : R (Option Schema) := match f k with
      | none => pure none
      | some s => do pure (some (← decSchema s))
    let named (k : String) : R (Bool × List (String × Schema)) := match f k with
      | none => pure (false, [])
      | some (.obj m) => do
        -- "Ignore malformed values": the parser keeps only dict / bool entries (e.g. drops the `_x_autotitle`
        -- annotation that the title labeller puts on the map itself)
        let l ← (m.filter fun kv => match kv.2 with | .obj _ => true | .bool _ => true | _ => false).mapM fun kv => do
          pure (kv.1, ← decSchema kv.2)
        pure (true, l)
      | some _ => throw s!"keyword {k}: expected an object"
    let (itemsKind, items) ← match f "items" with
      | none => pure (ItemsKind.none, [])
      | some (.arr xs) => do pure (ItemsKind.tuple, ← xs.mapM decSchema)
      | some s => do pure (ItemsKind.single, [← decSchema s])
    let (hasProps, props) ← named "properties"
    let (hasPat, pats) ← named "patternProperties"
    let (hasDeps, deps) ← match f "dependencies" with
      | none => pure (false, [])
      | some (.obj m) => do
        let l ← (m.filter fun kv => match kv.2 with | .obj _ => true | .bool _ => true | .arr _ => true | _ => false).mapM fun kv => match kv.2 with
          | .arr _ => do
            let names ← asStrList "dependencies" (some kv.2)
            pure (({ name := kv.1, names := names } : Key), Schema.bool true)
          | s => do pure (({ name := kv.1 } : Key), ← decSchema s)
        pure (true, l)
      | some _ => throw "dependencies: expected an object"
    let (hasAny, anyOf) ← schemaList "anyOf"
    let (hasOne, oneOf) ← schemaList "oneOf"
    let (hasAll, allOf) ← schemaList "allOf"
    let uniq ← match f "uniqueItems" with
      | none => pure none
      | some (.bool b) => pure (some b)
      | some _ => throw "uniqueItems: expected a boolean"
    let kw : SKw :=
      { type := type
        title := ← asStr "title" (f "title")
        autotitle := ← asStr "_x_autotitle" (f "_x_autotitle")
        description := ← asStr "description" (f "description")
        default := f "default"
        const := f "const"
        enum := ← match f "enum" with
          | none => pure none
          | some (.arr xs) => pure (some xs)
          | some _ => throw "enum: expected a list"
        itemsKind := itemsKind
        minItems := ← asNum "minItems" (f "minItems")
        maxItems := ← asNum "maxItems" (f "maxItems")
        uniqueItems := uniq
        minimum := ← asNum "minimum" (f "minimum")
        maximum := ← asNum "maximum" (f "maximum")
        exclusiveMinimum := ← asNum "exclusiveMinimum" (f "exclusiveMinimum")
        exclusiveMaximum := ← asNum "exclusiveMaximum" (f "exclusiveMaximum")
        multipleOf := ← asNum "multipleOf" (f "multipleOf")
        format := ← asStr "format" (f "format")
        pattern := ← asStr "pattern" (f "pattern")
        minLength := ← asNum "minLength" (f "minLength")
        maxLength := ← asNum "maxLength" (f "maxLength")
        required := ← asStrList "required" (f "required")
        hasProps := hasProps
        hasPatProps := hasPat
        minProperties := ← asNum "minProperties" (f "minProperties")
        maxProperties := ← asNum "maxProperties" (f "maxProperties")
        hasDeps := hasDeps
        hasAnyOf := hasAny
        hasOneOf := hasOne
        hasAllOf := hasAll
        unsupported := (JVal.keys kvs).filter fun k => Gen.unsupportedKeywords.contains k }
    pure (.mk kw items (← schemaOpt "additionalItems") (← schemaOpt "contains") props pats
      (← schemaOpt "additionalProperties") (← schemaOpt "propertyNames") deps anyOf oneOf allOf
      (← schemaOpt "not"))
  | _ => throw "schema must be an object or a boolean"

/-! ### elements (DSL-built trees, as dumped by harness/dump.py) -/

def decCls (j : Json) : R Cls := do
  let c ← (← j.getObjVal? "cls").getStr?
  match c with
  | "Element" => pure .element
  | "Nothing" => pure .nothing
  | "Boolean" => pure .boolean
  | "Integer" => pure .integer
  | "Null" => pure .null
  | "Number" => pure .number
  | "String" => pure .string
  | "Array" => pure .array
  | "Object" => do pure (.object (← (← j.getObjVal? "name").getStr?))
  | "AnyOf" => pure .anyOf
  | "OneOf" => pure .oneOf
  | "AllOf" => pure .allOf
  | "Not" => pure .not
  | other => throw s!"unknown element class {other}"

def optField {α} (j : Json) (k : String) (f : Json → R α) : R (Option α) :=
  match getField j k with
  | none => pure none
  | some .null => pure none
  | some v => do pure (some (← f v))

def decNumJ (j : Json) : R Num := do
  match ← decVal j with
  | .num n => pure n
  | _ => throw "expected a number"

def decKey (j : Json) : R Key := do
  let name ← (← j.getObjVal? "name").getStr?
  let required ← match getField j "required" with
    | some b => b.getBool?
    | none => pure false
  let source ← optField j "source" (·.getStr?)
  let names ← optField j "names" fun v => do (← v.getArr?).toList.mapM (·.getStr?)
  pure { name := name, required := required, source := source, names := names }

partial def decElem (j : Json) : R Elem := do
  let cls ← decCls j
  let k ← j.getObjVal? "kw"
  let lit (name : String) : R (Option JVal) := match getField k name with
    | none => pure none
    | some v => do pure (some (← decVal v))
  let num (name : String) : R (Option Num) := optField k name decNumJ
  let str (name : String) : R (Option String) := optField k name (·.getStr?)
  let flag (name : String) (d : Bool) : R Bool := match getField k name with
    | some b => b.getBool?
    | none => pure d
  let itemsKind ← match getField k "itemsKind" with
    | some (.str "single") => pure ItemsKind.single
    | some (.str "tuple") => pure ItemsKind.tuple
    | _ => pure ItemsKind.none
  let kw : Kw :=
    { default := ← lit "default"
      const := ← lit "const"
      enum := ← match getField k "enum" with
        | none => pure none
        | some v => do (match ← decVal v with
          | .arr xs => pure (some xs)
          | _ => throw "enum: expected list")
      itemsKind := itemsKind
      addItemsB := ← flag "addItemsB" true
      minItems := ← num "minItems"
      maxItems := ← num "maxItems"
      uniqueItems := ← flag "uniqueItems" false
      minimum := ← num "minimum"
      maximum := ← num "maximum"
      exclusiveMinimum := ← num "exclusiveMinimum"
      exclusiveMaximum := ← num "exclusiveMaximum"
      multipleOf := ← num "multipleOf"
      format := ← str "format"
      pattern := ← str "pattern"
      minLength := ← num "minLength"
      maxLength := ← num "maxLength"
      required := ← optField k "required" fun v => do (← v.getArr?).toList.mapM (·.getStr?)
      hasProps := ← flag "hasProps" false
      hasPatProps := ← flag "hasPatProps" false
      addPropsB := ← flag "addPropsB" true
      minProperties := ← num "minProperties"
      maxProperties := ← num "maxProperties"
      hasDeps := ← flag "hasDeps" false
      description := ← str "description" }
  let elems (name : String) : R (List Elem) := match getField j name with
    | none => pure []
    | some v => do (← v.getArr?).toList.mapM decElem
  let elemOpt (name : String) : R (Option Elem) := optField j name decElem
  let keyed (name : String) : R (List (Key × Elem)) := match getField j name with
    | none => pure []
    | some v => do
      (← v.getArr?).toList.mapM fun e => do
        let p ← e.getArr?
        if p.size != 2 then throw "bad keyed entry"
        pure (← decKey p[0]!, ← decElem p[1]!)
  pure (.mk cls kw (← elems "items") (← elemOpt "addItems") (← elemOpt "contains")
    (← keyed "props") (← keyed "patProps") (← elemOpt "addProps") (← elemOpt "propNames")
    (← keyed "deps") (← elems "elements"))

/-! ### elements out (for parse results) -/

def encOptNum (name : String) (o : Option Num) : List (String × Json) :=
  match o with
  | some n => [(name, encNum n)]
  | none => []

def encOptStr (name : String) (o : Option String) : List (String × Json) :=
  match o with
  | some s => [(name, .str s)]
  | none => []

def encKw (k : Kw) : Json :=
  Json.mkObj <|
    (match k.default with | some v => [("default", encVal v)] | none => []) ++
    (match k.const with | some v => [("const", encVal v)] | none => []) ++
    (match k.enum with | some l => [("enum", .arr (l.map encVal).toArray)] | none => []) ++
    (match k.itemsKind with
      | .none => []
      | .single => [("itemsKind", .str "single")]
      | .tuple => [("itemsKind", .str "tuple")]) ++
    (if k.addItemsB then [] else [("addItemsB", .bool false)]) ++
    encOptNum "minItems" k.minItems ++ encOptNum "maxItems" k.maxItems ++
    (if k.uniqueItems then [("uniqueItems", .bool true)] else []) ++
    encOptNum "minimum" k.minimum ++ encOptNum "maximum" k.maximum ++
    encOptNum "exclusiveMinimum" k.exclusiveMinimum ++ encOptNum "exclusiveMaximum" k.exclusiveMaximum ++
    encOptNum "multipleOf" k.multipleOf ++
    encOptStr "format" k.format ++ encOptStr "pattern" k.pattern ++
    encOptNum "minLength" k.minLength ++ encOptNum "maxLength" k.maxLength ++
    (match k.required with | some l => [("required", .arr (l.map Json.str).toArray)] | none => []) ++
    (if k.hasProps then [("hasProps", .bool true)] else []) ++
    (if k.hasPatProps then [("hasPatProps", .bool true)] else []) ++
    (if k.addPropsB then [] else [("addPropsB", .bool false)]) ++
    encOptNum "minProperties" k.minProperties ++ encOptNum "maxProperties" k.maxProperties ++
    (if k.hasDeps then [("hasDeps", .bool true)] else []) ++
    encOptStr "description" k.description

def encKey (k : Key) : Json :=
  Json.mkObj <|
    [("name", .str k.name)] ++
    (if k.required then [("required", .bool true)] else []) ++
    encOptStr "source" k.source ++
    (match k.names with | some l => [("names", .arr (l.map Json.str).toArray)] | none => [])

def clsName : Cls → String
  | .element => "Element" | .nothing => "Nothing" | .boolean => "Boolean" | .integer => "Integer"
  | .null => "Null" | .number => "Number" | .string => "String" | .array => "Array"
  | .object _ => "Object" | .anyOf => "AnyOf" | .oneOf => "OneOf" | .allOf => "AllOf" | .not => "Not"

partial def encElem (e : Elem) : Json :=
  let keyed (l : List (Key × Elem)) : Json := .arr (l.map fun p => Json.arr #[encKey p.1, encElem p.2]).toArray
  Json.mkObj <|
    [("cls", .str (clsName e.cls))] ++
    (match e.cls with | .object n => [("name", .str n)] | _ => []) ++
    [("kw", encKw e.kw)] ++
    (if e.items.isEmpty then [] else [("items", .arr (e.items.map encElem).toArray)]) ++
    (match e.addItems with | some a => [("addItems", encElem a)] | none => []) ++
    (match e.contains with | some a => [("contains", encElem a)] | none => []) ++
    (if e.props.isEmpty then [] else [("props", keyed e.props)]) ++
    (if e.patProps.isEmpty then [] else [("patProps", keyed e.patProps)]) ++
    (match e.addProps with | some a => [("addProps", encElem a)] | none => []) ++
    (match e.propNames with | some a => [("propNames", encElem a)] | none => []) ++
    (if e.deps.isEmpty then [] else [("deps", keyed e.deps)]) ++
    (if e.elements.isEmpty then [] else [("elements", .arr (e.elements.map encElem).toArray)])

end Statham.Codec
