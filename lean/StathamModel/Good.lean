/-
  Decidable conditions on schemas that the theorems use as hypotheses.

  `WF`-type conditions say "this is a metaschema-valid Draft-6 document over the supported
  keywords" (what property C01 quantifies over).  The others carve out the regions where the
  unchanged library is known to depart from the property; each is the complement of one
  entry of /verif/known_findings.json, and the driver evaluates them to classify failures.
-/
import StathamModel.Parse
namespace Statham

def knownTypes : List String := ["string", "integer", "number", "boolean", "null", "array", "object"]

/-- the library turns a schema into a class exactly when `type` mentions `object` -/
def typeHasObject (k : SKw) : Bool :=
  match k.type with
  | .none => false
  | .single t => t == "object"
  | .list ts => ts.contains "object"

/-- no `_x_autotitle` annotation inside a literal (so `_parse_literal` is the identity) -/
def litClean : JVal → Bool
  | .arr xs => cleanL xs
  | .obj kvs => cleanKV kvs
  | _ => true
where
  cleanL : List JVal → Bool
    | [] => true
    | x :: xs => litClean x && cleanL xs
  cleanKV : List (String × JVal) → Bool
    | [] => true
    | (k, v) :: r => k != "_x_autotitle" && litClean v && cleanKV r

/-- no element occurs twice -/
def distinct : List String → Bool
  | [] => true
  | x :: xs => !xs.contains x && distinct xs

def optAll {α} (o : Option α) (p : α → Bool) : Bool :=
  match o with
  | none => true
  | some a => p a

def posNum (n : Num) : Bool := 0 < n.numer && 0 < n.denom
def nonnegInt (n : Num) : Bool :=
  match n with
  | .int i => 0 ≤ i
  | .flt _ _ => false

/-- shape conditions of one schema object (metaschema validity of its own keywords) -/
def wfNode (k : SKw) (items : List Schema) (props pats : List (String × Schema))
    (deps : List (Key × Schema)) (anyOf oneOf allOf : List Schema) : Bool :=
  (match k.type with
   | .none => true
   | .single t => knownTypes.contains t
   | .list ts => !ts.isEmpty && ts.all (knownTypes.contains ·) && distinct ts) &&
  (match k.itemsKind with
   | .none => items.isEmpty
   | .single => items.length == 1
   | .tuple => !items.isEmpty) &&
  (k.hasProps || props.isEmpty) && (k.hasPatProps || pats.isEmpty) && (k.hasDeps || deps.isEmpty) &&
  (k.hasAnyOf == !anyOf.isEmpty) && (k.hasOneOf == !oneOf.isEmpty) && (k.hasAllOf == !allOf.isEmpty) &&
  distinct (props.map (·.1)) &&
  distinct (pats.map (·.1)) &&
  distinct (deps.map (·.1.name)) &&
  optAll k.required distinct &&
  optAll k.multipleOf posNum &&
  optAll k.minItems nonnegInt && optAll k.maxItems nonnegInt &&
  optAll k.minLength nonnegInt && optAll k.maxLength nonnegInt &&
  optAll k.minProperties nonnegInt && optAll k.maxProperties nonnegInt &&
  optAll k.enum (fun l => !l.isEmpty) &&
  k.unsupported.isEmpty

def litCleanNode (k : SKw) : Bool :=
  optAll k.const litClean && optAll k.enum (fun l => l.all litClean) && optAll k.default litClean

/-- `multipleOf` is an int below 2^53 (the fragment on which the float arithmetic is exact) -/
def intMultipleOf (k : SKw) : Bool :=
  optAll k.multipleOf fun m =>
    match m with
    | .int i => 0 < i && i < 9007199254740992
    | .flt _ _ => false

/-- no two JSON names of one object map to the same Python attribute name, and none is empty
    (an empty name loses its source: `bind` replaces a falsy source by the attribute name) -/
def noCollapse (cx : PCtx) (k : SKw) (props : List (String × Schema)) : Bool :=
  let names := props.map (·.1) ++ (k.required.getD [])
  names.all (fun a => a != "") &&
  names.all fun a => names.all fun b =>
    attrName cx.ci cx.reserved a != attrName cx.ci cx.reserved b || a == b

/-- every required name of a class-building schema is declared, or additional properties are
    unrestricted (otherwise the synthetic property the parser adds hides `additionalProperties`) -/
def noSynthetic (k : SKw) (props : List (String × Schema)) (addP : Option Schema) : Bool :=
  !typeHasObject k ||
    (match addP with
     | none => true
     | some (.bool true) => true
     | _ => false) ||
    (k.required.getD []).all fun n => props.any fun p => p.1 == n

def declaresDefaultS : Schema → Bool
  | .bool _ => false
  | .mk k .. => k.default.isSome

/-- a property schema carries a default exactly when it declares one (a default can otherwise
    migrate up through the single-branch collapse of a composition) -/
def defaultFaithful (cx : PCtx) (props : List (String × Schema)) : Bool :=
  props.all fun p => (parseE cx p.2).kw.default.isSome == declaresDefaultS p.2

structure Flags where
  wf : Bool := true
  litClean : Bool := true
  intMultipleOf : Bool := true
  noCollapse : Bool := true
  noSynthetic : Bool := true
  defaultFaithful : Bool := true
deriving Repr, DecidableEq

def Flags.and (a b : Flags) : Flags :=
  { wf := a.wf && b.wf, litClean := a.litClean && b.litClean, intMultipleOf := a.intMultipleOf && b.intMultipleOf,
    noCollapse := a.noCollapse && b.noCollapse, noSynthetic := a.noSynthetic && b.noSynthetic,
    defaultFaithful := a.defaultFaithful && b.defaultFaithful }

def Flags.all (f : Flags) : Bool :=
  f.wf && f.litClean && f.intMultipleOf && f.noCollapse && f.noSynthetic && f.defaultFaithful

def nodeFlags (cx : PCtx) (k : SKw) (items : List Schema) (props pats : List (String × Schema))
    (addP : Option Schema) (deps : List (Key × Schema)) (anyOf oneOf allOf : List Schema) : Flags :=
  { wf := wfNode k items props pats deps anyOf oneOf allOf
    litClean := litCleanNode k
    intMultipleOf := intMultipleOf k
    noCollapse := noCollapse cx k props
    noSynthetic := noSynthetic k props addP
    defaultFaithful := defaultFaithful cx props }

mutual
/-- the conjunction of the node conditions over every schema position -/
def flagsOf (cx : PCtx) : Schema → Flags
  | .bool _ => {}
  | .mk k items addI cont props pats addP pn deps anyOf oneOf allOf not =>
    (nodeFlags cx k items props pats addP deps anyOf oneOf allOf).and <|
    (flagsList cx items).and <| (flagsOpt cx addI).and <| (flagsOpt cx cont).and <|
    (flagsNamed cx props).and <| (flagsNamed cx pats).and <| (flagsOpt cx addP).and <|
    (flagsOpt cx pn).and <| (flagsDeps cx deps).and <| (flagsList cx anyOf).and <|
    (flagsList cx oneOf).and <| (flagsList cx allOf).and <| flagsOpt cx not
def flagsOpt (cx : PCtx) : Option Schema → Flags
  | none => {}
  | some s => flagsOf cx s
def flagsList (cx : PCtx) : List Schema → Flags
  | [] => {}
  | s :: ss => (flagsOf cx s).and (flagsList cx ss)
def flagsNamed (cx : PCtx) : List (String × Schema) → Flags
  | [] => {}
  | (_, s) :: r => (flagsOf cx s).and (flagsNamed cx r)
def flagsDeps (cx : PCtx) : List (Key × Schema) → Flags
  | [] => {}
  | (_, s) :: r => (flagsOf cx s).and (flagsDeps cx r)
end

/-- the hypothesis of `C01_partial`: every node of the schema meets every condition -/
def Good (cx : PCtx) (s : Schema) : Bool := (flagsOf cx s).all

/-- objects in a JSON value have distinct keys (that is what a Python `dict` is) -/
def distinctKeys : JVal → Bool
  | .arr xs => dkL xs
  | .obj kvs => distinct (kvs.map (·.1)) && dkKV kvs
  | _ => true
where
  dkL : List JVal → Bool
    | [] => true
    | x :: xs => distinctKeys x && dkL xs
  dkKV : List (String × JVal) → Bool
    | [] => true
    | (_, v) :: r => distinctKeys v && dkKV r

end Statham
