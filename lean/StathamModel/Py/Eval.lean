/-
  Evaluating the printed form of a leaf element back into an element: the constructor named by the call, each
  keyword argument assigned to the keyword of that name.  (Sub-elements are not evaluated here; the tree-level
  round trip is checked on the real code by `eval(repr(x)) == x`.)
-/
import StathamModel.Py.Repr
namespace Statham

def leafClassOf : String → Option Cls
  | "Element" => some .element
  | "String" => some .string
  | "Integer" => some .integer
  | "Number" => some .number
  | "Boolean" => some .boolean
  | "Null" => some .null
  | _ => none

def decodeStrs : List JVal → Option (List String)
  | [] => some []
  | .str s :: r => (decodeStrs r).map (s :: ·)
  | _ :: _ => none

/-- `Class(**{name: value})` for the literal-valued keywords -/
def setLit (kw : Kw) (name : String) (e : PyExpr) : Option Kw :=
  match name, e with
  | "default", .lit v => some { kw with default := some v }
  | "const", .lit v => some { kw with const := some v }
  | "enum", .lit (.arr l) => some { kw with enum := some l }
  | "format", .lit (.str s) => some { kw with format := some s }
  | "pattern", .lit (.str s) => some { kw with pattern := some s }
  | "description", .lit (.str s) => some { kw with description := some s }
  | "minLength", .lit (.num n) => some { kw with minLength := some n }
  | "maxLength", .lit (.num n) => some { kw with maxLength := some n }
  | "minimum", .lit (.num n) => some { kw with minimum := some n }
  | "maximum", .lit (.num n) => some { kw with maximum := some n }
  | "exclusiveMinimum", .lit (.num n) => some { kw with exclusiveMinimum := some n }
  | "exclusiveMaximum", .lit (.num n) => some { kw with exclusiveMaximum := some n }
  | "multipleOf", .lit (.num n) => some { kw with multipleOf := some n }
  | "minItems", .lit (.num n) => some { kw with minItems := some n }
  | "maxItems", .lit (.num n) => some { kw with maxItems := some n }
  | "minProperties", .lit (.num n) => some { kw with minProperties := some n }
  | "maxProperties", .lit (.num n) => some { kw with maxProperties := some n }
  | "uniqueItems", .lit (.bool true) => some { kw with uniqueItems := true }
  | "additionalItems", .lit (.bool false) => some { kw with addItemsB := false }
  | "additionalProperties", .lit (.bool false) => some { kw with addPropsB := false }
  | "items", .list [] => some { kw with itemsKind := .tuple }
  | "properties", .dict [] => some { kw with hasProps := true }
  | "patternProperties", .dict [] => some { kw with hasPatProps := true }
  | "dependencies", .dict [] => some { kw with hasDeps := true }
  | "required", .lit (.arr l) => (decodeStrs l).map fun names => { kw with required := some names }
  | _, _ => none

def applyKwargs : Kw → List (String × PyExpr) → Option Kw
  | kw, [] => some kw
  | kw, (n, e) :: r => match setLit kw n e with
    | some kw' => applyKwargs kw' r
    | none => none

/-- evaluate `Class(kw=…, …)` for the leaf element classes -/
def evalLeaf : PyExpr → Option Elem
  | .call f [] kwargs =>
    match leafClassOf f, applyKwargs {} kwargs with
    | some c, some kw => some (Elem.leaf c kw)
    | _, _ => none
  | _ => none

end Statham
