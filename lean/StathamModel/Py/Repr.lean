/-
  `custom_repr` (statham/schema/helpers.py), `_Property.__repr__`, `ObjectMeta.__repr__`, at the
  level of a small Python expression AST.  Which arguments are printed is decided by walking
  the *generated* constructor signatures, as `inspect.signature` is walked in the Python.
-/
import StathamModel.Elem
import StathamModel.Gen.Signatures
namespace Statham

inductive PyExpr where
  | lit (v : JVal)                                   -- `repr()` of None/True/False/int/float/str and lists/dicts of them
  | name (n : String)
  | call (f : String) (args : List PyExpr) (kwargs : List (String × PyExpr))
  | list (xs : List PyExpr)
  | dict (kvs : List (String × PyExpr))              -- keys are string literals
deriving Repr, Inhabited

def numE (n : Num) : PyExpr := .lit (.num n)

/-- sub-expressions of one element, already rendered -/
structure ReprKids where
  items : List PyExpr := []
  addItems : Option PyExpr := none
  contains : Option PyExpr := none
  props : List (Key × PyExpr) := []
  patProps : List (Key × PyExpr) := []
  addProps : Option PyExpr := none
  propNames : Option PyExpr := none
  deps : List (Key × PyExpr) := []
  elements : List PyExpr := []

/-- `_Property.__repr__`: `Property(<element>, required=True, source='…')`; `source` is dropped when it
    equals the attribute name -/
def propExpr (k : Key) (e : PyExpr) : PyExpr :=
  .call "Property" [e]
    ((if k.required then [("required", PyExpr.lit (.bool true))] else []) ++
     (if k.src == k.name then [] else [("source", PyExpr.lit (.str k.src))]))

/-- the value printed for keyword `name`, or `none` when it equals the constructor default -/
def kwExpr (kw : Kw) (k : ReprKids) (name : String) : Option PyExpr :=
  match name with
  | "default" => kw.default.map PyExpr.lit
  | "const" => kw.const.map PyExpr.lit
  | "enum" => kw.enum.map fun l => PyExpr.lit (.arr l)
  | "items" => (match kw.itemsKind with
    | .none => none
    | .single => k.items.head?
    | .tuple => some (.list k.items))
  | "additionalItems" => (match k.addItems with
    | some e => some e
    | none => if kw.addItemsB then none else some (.lit (.bool false)))
  | "minItems" => kw.minItems.map numE
  | "maxItems" => kw.maxItems.map numE
  | "uniqueItems" => if kw.uniqueItems then some (.lit (.bool true)) else none
  | "contains" => k.contains
  | "minimum" => kw.minimum.map numE
  | "maximum" => kw.maximum.map numE
  | "exclusiveMinimum" => kw.exclusiveMinimum.map numE
  | "exclusiveMaximum" => kw.exclusiveMaximum.map numE
  | "multipleOf" => kw.multipleOf.map numE
  | "format" => kw.format.map fun s => PyExpr.lit (.str s)
  | "pattern" => kw.pattern.map fun s => PyExpr.lit (.str s)
  | "minLength" => kw.minLength.map numE
  | "maxLength" => kw.maxLength.map numE
  | "required" => kw.required.map fun l => PyExpr.lit (.arr (l.map JVal.str))
  | "properties" => if kw.hasProps then some (.dict (k.props.map fun p => (p.1.name, propExpr p.1 p.2))) else none
  | "patternProperties" => if kw.hasPatProps then some (.dict (k.patProps.map fun p => (p.1.name, p.2))) else none
  | "additionalProperties" => (match k.addProps with
    | some e => some e
    | none => if kw.addPropsB then none else some (.lit (.bool false)))
  | "minProperties" => kw.minProperties.map numE
  | "maxProperties" => kw.maxProperties.map numE
  | "propertyNames" => k.propNames
  | "dependencies" =>
    if kw.hasDeps then
      some (.dict (k.deps.map fun d => (d.1.name, match d.1.names with
        | some l => PyExpr.lit (.arr (l.map JVal.str))
        | none => d.2)))
    else none
  | "description" => kw.description.map fun s => PyExpr.lit (.str s)
  | _ => none

/-- keyword-only arguments of a signature that differ from their defaults, in signature order -/
def kwargsOf (sig : List Gen.Param) (kw : Kw) (k : ReprKids) : List (String × PyExpr) :=
  (sig.filter fun p => p.kind == .keywordOnly).filterMap fun p => (kwExpr kw k p.name).map fun e => (p.name, e)

def pyClassName : Cls → String
  | .element => "Element" | .nothing => "Nothing" | .boolean => "Boolean" | .integer => "Integer"
  | .null => "Null" | .number => "Number" | .string => "String" | .array => "Array"
  | .object n => n | .anyOf => "AnyOf" | .oneOf => "OneOf" | .allOf => "AllOf" | .not => "Not"

/-- `repr(element)` given the rendered sub-elements -/
def reprCore (c : Cls) (kw : Kw) (k : ReprKids) : PyExpr :=
  match c with
  | .object n => .name n
  | .nothing => .call "Nothing" [] (kwargsOf Gen.sigNothing kw k)
  | .element => .call "Element" [] (kwargsOf Gen.sigElement kw k)
  | .array =>
    -- `items` is positional and always printed
    .call "Array" [(kwExpr kw k "items").getD (.name "NotPassed")] (kwargsOf Gen.sigArray kw k)
  | .string => .call "String" [] (kwargsOf Gen.sigString kw k)
  | .integer => .call "Integer" [] (kwargsOf Gen.sigNumeric kw k)
  | .number => .call "Number" [] (kwargsOf Gen.sigNumeric kw k)
  | .boolean => .call "Boolean" [] (kwargsOf Gen.sigBoolean kw k)
  | .null => .call "Null" [] (kwargsOf Gen.sigNull kw k)
  | .not => .call "Not" (k.elements.take 1) (kwargsOf Gen.sigNot kw k)
  | .anyOf => .call "AnyOf" k.elements (kwargsOf Gen.sigComposition kw k)
  | .oneOf => .call "OneOf" k.elements (kwargsOf Gen.sigComposition kw k)
  | .allOf => .call "AllOf" k.elements (kwargsOf Gen.sigComposition kw k)

mutual
def reprExpr : Elem → PyExpr
  | .mk c kw items addI cont props pats addP pn deps els =>
    reprCore c kw
      { items := reprList items
        addItems := reprOpt addI
        contains := reprOpt cont
        props := reprKeyed props
        patProps := reprKeyed pats
        addProps := reprOpt addP
        propNames := reprOpt pn
        deps := reprKeyed deps
        elements := reprList els }
def reprOpt : Option Elem → Option PyExpr
  | none => none
  | some e => some (reprExpr e)
def reprList : List Elem → List PyExpr
  | [] => []
  | e :: es => reprExpr e :: reprList es
def reprKeyed : List (Key × Elem) → List (Key × PyExpr)
  | [] => []
  | (k, e) :: r => (k, reprExpr e) :: reprKeyed r
end

end Statham
