/-
  What it means for a runtime value to belong to an annotation, read the way a type checker reads it:
  `Any` is anything (but never the not-passed marker), `int` also holds a `bool`, `float` also holds an `int`,
  `List[T]` a list whose elements all belong to `T`, `Union[…]` one of its members, a class name an instance
  of that class, and `Maybe[T]` is the only place the not-passed marker may appear.
-/
import StathamModel.Py.Module
import StathamModel.Validate
namespace Statham

def RVal.isNP : RVal → Bool
  | .notPassed => true
  | _ => false

mutual
def RVal.hasType : RVal → PyType → Bool
  | r, .any => !r.isNP
  | r, .none_ => (match r with | .null => true | _ => false)
  | r, .str => (match r with | .str _ => true | _ => false)
  | r, .int => (match r with | .num (.int _) => true | .bool _ => true | _ => false)
  | r, .float => (match r with | .num _ => true | .bool _ => true | _ => false)
  | r, .bool => (match r with | .bool _ => true | _ => false)
  | r, .listBare => (match r with | .arr _ => true | _ => false)
  | r, .list t => (match r with | .arr xs => xs.all (fun x => RVal.hasType x t) | _ => false)
  | r, .union ts => !r.isNP && RVal.hasTypeAny r ts
  | r, .cls n => (match r with | .inst m _ => m == n | _ => false)
  | r, .maybe t => r.isNP || RVal.hasType r t
def RVal.hasTypeAny : RVal → List PyType → Bool
  | _, [] => false
  | r, t :: ts => RVal.hasType r t || RVal.hasTypeAny r ts
end

theorem hasTypeAny_of_mem {r : RVal} {t : PyType} {ts : List PyType} (hm : t ∈ ts) (h : r.hasType t = true) :
    r.hasTypeAny ts = true := by
  induction ts with
  | nil => cases hm
  | cons u us ih =>
    rw [RVal.hasTypeAny]
    rcases List.mem_cons.mp hm with rfl | hm
    · simp [h]
    · simp [ih hm]

end Statham
