/-
  Executing a generated class statement: `class Name(Object, **kwargs): """doc"""; attr: Ann = Property(...)`.
  The class keywords go through the `ObjectMeta` constructor signature (generated, `Gen.sigObjectMeta`), the docstring
  becomes the description, each body line binds a property under its attribute name.  Annotations are not evaluated
  (Python does not evaluate them for the class's behaviour either).
-/
import StathamModel.Py.EvalTree
import StathamModel.Py.Module
namespace Statham.PyEval

def bindLines (env : String → Option Elem) : List PropLine → Option (List (Key × Elem))
  | [] => some []
  | p :: r => match evalV env p.expr, bindLines env r with
    | some (.prop req src e), some ps =>
      some (({ name := p.attr, required := req, source := some (boundSource p.attr src) }, e) :: ps)
    | _, _ => none

def evalClassDef (env : String → Option Elem) (cd : ClassDef) : Option Elem :=
  if cd.base = "Object" then
    match evalKVs env cd.kwargs with
    | some kv =>
      if accepts Gen.sigObjectMeta kv then
        match applyVals {} kv, bindLines env cd.props with
        | some s, some ps =>
          some (St.toElem (.object cd.name) { s with kw := { s.kw with description := cd.doc, hasProps := true }, props := ps })
        | _, _ => none
      else none
    | none => none
  else none

/-- executing the class statements of a module top to bottom: each class sees the classes declared before it -/
def execClasses (env : String → Option Elem) : List ClassDef → Option (List (String × Elem))
  | [] => some []
  | cd :: r => match evalClassDef env cd with
    | some c => (execClasses (fun n => if n = cd.name then some c else env n) r).map ((cd.name, c) :: ·)
    | none => none

/-- does executing the module generated for `elements` rebuild classes equal (both ways round) to the ones it was generated from -/
def execBack (elements : List Elem) : Bool :=
  match emitModule elements with
  | .error _ => false
  | .ok m =>
    match execClasses (fun _ => none) m.classes with
    | some got =>
      got.length == m.classes.length && got.all fun nc =>
        match (objectClasses elements).find? fun o => objName o.cls == nc.1 with
        | some o => elemEq nc.2 o && elemEq o nc.2
        | none => false
    | none => false

end Statham.PyEval
