/-
  Generated Python: type annotations (`Element.annotation` and its overrides, `_Property.annotation`),
  class source (`ObjectMeta.python`, `_Property.python`) and the module (`serialize_python`), as a small
  AST.  Text-level details (quoting, line breaks) are the printer's business and are compared by parsing
  the real text with Python's `ast`.
-/
import StathamModel.Py.Repr
import StathamModel.Orderer
namespace Statham

inductive PyType where
  | any | none_ | str | int | float | bool
  | listBare                        -- `List`
  | list (t : PyType)               -- `List[t]`
  | union (ts : List PyType)        -- `Union[t₁, …]`
  | cls (n : String)                -- a model class
  | maybe (t : PyType)              -- `Maybe[t]`
deriving Repr, Inhabited

mutual
def PyType.show : PyType → String
  | .any => "Any" | .none_ => "None" | .str => "str" | .int => "int" | .float => "float" | .bool => "bool"
  | .listBare => "List"
  | .list t => "List[" ++ t.show ++ "]"
  | .union ts => "Union[" ++ ", ".intercalate (PyType.showList ts) ++ "]"
  | .cls n => n
  | .maybe t => "Maybe[" ++ t.show ++ "]"
def PyType.showList : List PyType → List String
  | [] => []
  | t :: ts => t.show :: PyType.showList ts
end

/-- `remove_duplicates` on annotation strings -/
def dedupeTypes : List PyType → List PyType
  | [] => []
  | t :: ts => t :: (dedupeTypes ts).filter fun u => u.show != t.show

def isAnyText (t : PyType) : Bool := t.show == "Any"

/-- `CompositionElement.annotation` -/
def unionAnnot (members : List PyType) : PyType :=
  match dedupeTypes members with
  | [t] => t
  | ts => if ts.any isAnyText then .any else .union ts

/-- `AllOf.annotation`: the first explicit annotation, else the first that is not `Any`, else `Any` -/
def allOfAnnot (members : List PyType) : PyType :=
  match members.find? (fun t => !isAnyText t && !t.show.startsWith "Union") with
  | some t => t
  | none => (members.find? fun t => !isAnyText t).getD .any

/-- `Array.annotation` from `item_annotations` -/
def listAnnot (itemAnns : List PyType) : PyType :=
  match itemAnns with
  | [] => .listBare
  | [t] => .list t
  | ts => .list (.union ts)

/-- `Array.item_annotations` -/
def itemAnnots (kind : ItemsKind) (addItemsB : Bool) (items : List PyType) (addItems : Option PyType) : List PyType :=
  match kind with
  | .single => items.take 1
  | _ =>
    match addItems with
    | none => if addItemsB then [.any] else (if items.any isAnyText then [.any] else dedupeTypes items)
    | some a =>
      let all := items ++ [a]
      if all.any isAnyText then [.any] else dedupeTypes all

def annotCore (c : Cls) (kw : Kw) (items : List PyType) (addItems : Option PyType) (elements : List PyType) : PyType :=
  match c with
  | .element | .not => .any
  | .nothing | .null => .none_
  | .boolean => .bool
  | .integer => .int
  | .number => .float
  | .string => .str
  | .array => listAnnot (itemAnnots kw.itemsKind kw.addItemsB items addItems)
  | .object n => .cls n
  | .anyOf | .oneOf => unionAnnot elements
  | .allOf => allOfAnnot elements

mutual
/-- `element.annotation` -/
def annot : Elem → PyType
  | .mk c kw items addI _ _ _ _ _ _ els => annotCore c kw (annotList items) (annotOpt addI) (annotList els)
def annotOpt : Option Elem → Option PyType
  | none => none
  | some e => some (annot e)
def annotList : List Elem → List PyType
  | [] => []
  | e :: es => annot e :: annotList es
end

/-- `_Property.annotation`: bare when required or when the element has a default, else `Maybe[…]` -/
def propAnnot (k : Key) (e : Elem) : PyType :=
  if k.required || e.kw.default.isSome then annot e else .maybe (annot e)

/-! ### class source -/

structure PropLine where
  attr : String
  ann : PyType
  expr : PyExpr
deriving Repr

structure ClassDef where
  name : String
  base : String
  kwargs : List (String × PyExpr)
  doc : Option String
  props : List PropLine
deriving Repr

def reprKidsOf (e : Elem) : ReprKids :=
  { items := reprList e.items, addItems := reprOpt e.addItems, contains := reprOpt e.contains, props := reprKeyed e.props,
    patProps := reprKeyed e.patProps, addProps := reprOpt e.addProps, propNames := reprOpt e.propNames,
    deps := reprKeyed e.deps, elements := reprList e.elements }

/-- `ObjectMeta.python()` for a class declared directly below `Object` -/
def classDef (e : Elem) : ClassDef :=
  { name := objName e.cls
    base := "Object"
    kwargs := (kwargsOf Gen.sigObjectMeta e.kw (reprKidsOf e)).filter fun p => p.1 != "description"
    doc := e.kw.description
    props := e.props.map fun p => { attr := p.1.name, ann := propAnnot p.1 p.2, expr := propExpr p.1 (reprExpr p.2) } }

/-! ### names an expression / annotation refers to -/

mutual
def PyExpr.names : PyExpr → List String
  | .lit _ => []
  | .name n => [n]
  | .call f args kwargs => f :: (PyExpr.namesList args ++ PyExpr.namesKw kwargs)
  | .list xs => PyExpr.namesList xs
  | .dict kvs => PyExpr.namesKw kvs
def PyExpr.namesList : List PyExpr → List String
  | [] => []
  | x :: xs => x.names ++ PyExpr.namesList xs
def PyExpr.namesKw : List (String × PyExpr) → List String
  | [] => []
  | (_, x) :: r => x.names ++ PyExpr.namesKw r
end

mutual
def PyType.names : PyType → List String
  | .any => ["Any"]
  | .listBare => ["List"]
  | .list t => "List" :: t.names
  | .union ts => "Union" :: PyType.namesList ts
  | .cls n => [n]
  | .maybe t => "Maybe" :: t.names
  | _ => []
def PyType.namesList : List PyType → List String
  | [] => []
  | t :: ts => t.names ++ PyType.namesList ts
end

def ClassDef.names (c : ClassDef) : List String :=
  c.base :: (PyExpr.namesKw c.kwargs ++ (c.props.map fun p => p.ann.names ++ p.expr.names).flatten)

/-! ### the module -/

def insertSorted (s : String) : List String → List String
  | [] => [s]
  | x :: xs => if s < x then s :: x :: xs else if s == x then x :: xs else x :: insertSorted s xs

def sortDedupe (l : List String) : List String := l.foldl (fun acc s => insertSorted s acc) []

/-- the element class an element is imported as (`Object` for every model class) -/
def importName (e : Elem) : String :=
  match e.cls with
  | .object _ => "Object"
  | c => pyClassName c

structure PyModule where
  /-- `from typing import …`: the names the annotations need (the Python may import more: it searches the text) -/
  typing : List String
  maybe : Bool
  elements : List String
  property : Bool
  classes : List ClassDef
deriving Repr

def builtinNames : List String := ["None", "str", "int", "float", "bool", "True", "False"]

/-- `serialize_python(*elements)` -/
def emitModule (elements : List Elem) : Except OrdErr PyModule :=
  match ordererTree elements with
  | .error e => .error e
  | .ok order =>
    let classes := objectClasses elements
    let defs := order.filterMap fun n => (classes.find? fun c => objName c.cls == n).map classDef
    -- the Python searches the declaration text for these words; on identifiers that is membership among the names used
    let allNames := (defs.map ClassDef.names).flatten
    .ok { typing := ["Any", "List", "Union"].filter fun n => allNames.contains n
          maybe := allNames.contains "Maybe"
          elements := sortDedupe ((elements ++ (elements.map descendants).flatten).map importName)
          property := allNames.contains "Property"
          classes := defs }

/-- every name the module can refer to at class `i`: imports, builtins, and the classes declared before it -/
def PyModule.scopeAt (m : PyModule) (i : Nat) : List String :=
  builtinNames ++ m.typing ++ (if m.maybe then ["Maybe"] else []) ++ m.elements ++
    (if m.property then ["Property"] else []) ++ (m.classes.take i).map (·.name)

end Statham
