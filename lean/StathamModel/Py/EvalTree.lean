/-
  Evaluating the printed form of a whole element tree: `eval(repr(element), namespace)`.

  `evalV` walks the expression; a call evaluates its arguments first and then runs the constructor named by the
  call (`pyConstruct`), which assigns each keyword argument to the keyword of that name (`setArg`) after checking
  that the constructor's signature (generated, `Gen.sig*`) has a keyword-only parameter of that name — the real
  constructors raise `TypeError` otherwise.  Object classes are printed by name and looked up in the namespace.
-/
import StathamModel.Py.Eval
import StathamModel.SerJson
import StathamModel.Eq
namespace Statham.PyEval

/-- the values of a printed `dict` -/
inductive Entry where
  | prop (required : Bool) (source : Option String) (e : Elem)      -- `Property(e, required=…, source=…)`, not yet bound
  | elem (e : Elem)
  | names (l : List String)

inductive PyVal where
  | lit (v : JVal)
  | elem (e : Elem)
  | prop (required : Bool) (source : Option String) (e : Elem)
  | notPassed
  | elems (es : List Elem)
  | entries (kvs : List (String × Entry))

/-- constructor state: the keyword record and the element-valued attributes -/
structure St where
  kw : Kw := {}
  items : List Elem := []
  addItems : Option Elem := none
  contains : Option Elem := none
  props : List (Key × Elem) := []
  patProps : List (Key × Elem) := []
  addProps : Option Elem := none
  propNames : Option Elem := none
  deps : List (Key × Elem) := []
  elements : List Elem := []

def St.toElem (c : Cls) (s : St) : Elem :=
  .mk c s.kw s.items s.addItems s.contains s.props s.patProps s.addProps s.propNames s.deps s.elements

/-- `_Property.bind`: the attribute name comes from the dict key, `source` falls back to it when missing or empty -/
def boundSource (n : String) : Option String → String
  | some s => if s = "" then n else s
  | none => n

def bindProp (n : String) : Entry → Option (Key × Elem)
  | .prop r src e => some ({ name := n, required := r, source := some (boundSource n src) }, e)
  | _ => none

def bindPat (n : String) : Entry → Option (Key × Elem)
  | .elem e => some ({ name := n }, e)
  | _ => none

def bindDep (n : String) : Entry → Option (Key × Elem)
  | .elem e => some ({ name := n }, e)
  | .names l => some ({ name := n, names := some l }, Elem.trivial)
  | _ => none

def bindAll (f : String → Entry → Option (Key × Elem)) : List (String × Entry) → Option (List (Key × Elem))
  | [] => some []
  | (n, v) :: r => match f n v, bindAll f r with
    | some p, some ps => some (p :: ps)
    | _, _ => none

/-- `Class(**{name: value})` -/
def setArg (s : St) (name : String) (v : PyVal) : Option St :=
  match name, v with
  | "items", .elem e => some { s with kw := { s.kw with itemsKind := .single }, items := [e] }
  | "items", .elems es => some { s with kw := { s.kw with itemsKind := .tuple }, items := es }
  | "items", .notPassed => some s
  | "additionalItems", .elem e => some { s with addItems := some e }
  | "contains", .elem e => some { s with contains := some e }
  | "properties", .entries kvs =>
    (bindAll bindProp kvs).map fun ps => { s with kw := { s.kw with hasProps := true }, props := ps }
  | "patternProperties", .entries kvs =>
    (bindAll bindPat kvs).map fun ps => { s with kw := { s.kw with hasPatProps := true }, patProps := ps }
  | "additionalProperties", .elem e => some { s with addProps := some e }
  | "propertyNames", .elem e => some { s with propNames := some e }
  | "dependencies", .entries kvs =>
    (bindAll bindDep kvs).map fun ps => { s with kw := { s.kw with hasDeps := true }, deps := ps }
  | n, .lit v => (setLit s.kw n (.lit v)).map fun kw => { s with kw := kw }
  | _, _ => none

def applyVals : St → List (String × PyVal) → Option St
  | s, [] => some s
  | s, (n, v) :: r => match setArg s n v with
    | some s' => applyVals s' r
    | none => none

/-- the constructor has a keyword-only parameter of every given name (`TypeError` otherwise) -/
def accepts (sig : List Gen.Param) (kwargs : List (String × PyVal)) : Bool :=
  kwargs.all fun a => sig.any fun p => p.name == a.1 && p.kind == .keywordOnly

def sigOf : Cls → List Gen.Param
  | .element => Gen.sigElement | .nothing => Gen.sigNothing | .boolean => Gen.sigBoolean | .integer => Gen.sigNumeric
  | .null => Gen.sigNull | .number => Gen.sigNumeric | .string => Gen.sigString | .array => Gen.sigArray
  | .object _ => Gen.sigObjectMeta | .anyOf => Gen.sigComposition | .oneOf => Gen.sigComposition
  | .allOf => Gen.sigComposition | .not => Gen.sigNot

def allElems : List PyVal → Option (List Elem)
  | [] => some []
  | .elem e :: r => (allElems r).map (e :: ·)
  | _ :: _ => none

def propOf (e : Elem) : List (String × PyVal) → Option PyVal
  | [] => some (.prop false none e)
  | [("required", .lit (.bool b))] => some (.prop b none e)
  | [("source", .lit (.str s))] => some (.prop false (some s) e)
  | [("required", .lit (.bool b)), ("source", .lit (.str s))] => some (.prop b (some s) e)
  | _ => none

def classOf : String → Option Cls
  | "Element" => some .element | "Nothing" => some .nothing | "String" => some .string | "Integer" => some .integer
  | "Number" => some .number | "Boolean" => some .boolean | "Null" => some .null | "Array" => some .array
  | "Not" => some .not | "AnyOf" => some .anyOf | "OneOf" => some .oneOf | "AllOf" => some .allOf
  | _ => none

/-- the state after the positional arguments of `Class(*args)` -/
def positional (c : Cls) (args : List PyVal) : Option St :=
  match c, args with
  | .array, [a] => setArg {} "items" a
  | .not, [.elem e] => some { elements := [e] }
  | .anyOf, args => (allElems args).map fun es => { elements := es }
  | .oneOf, args => (allElems args).map fun es => { elements := es }
  | .allOf, args => (allElems args).map fun es => { elements := es }
  | .array, _ => none
  | .not, _ => none
  | .object _, _ => none
  | _, [] => some {}
  | _, _ => none

def pyConstruct (f : String) (args : List PyVal) (kwargs : List (String × PyVal)) : Option PyVal :=
  if f = "Property" then
    match args with
    | [.elem e] => propOf e kwargs
    | _ => none
  else match classOf f with
    | some c =>
      if accepts (sigOf c) kwargs then
        match positional c args with
        | some s => (applyVals s kwargs).map fun s => .elem (s.toElem c)
        | none => none
      else none
    | none => none

def toEntry : PyVal → Option Entry
  | .prop r s e => some (.prop r s e)
  | .elem e => some (.elem e)
  | .lit (.arr l) => (decodeStrs l).map .names
  | _ => none

def toEntries : List (String × PyVal) → Option (List (String × Entry))
  | [] => some []
  | (n, v) :: r => match toEntry v, toEntries r with
    | some e, some es => some ((n, e) :: es)
    | _, _ => none

mutual
/-- `eval(expr, namespace)`; `env` maps the names of object classes to the classes -/
def evalV (env : String → Option Elem) : PyExpr → Option PyVal
  | .lit v => some (.lit v)
  | .name n => if n = "NotPassed" then some .notPassed else (env n).map .elem
  | .call f args kwargs =>
    match evalVs env args, evalKVs env kwargs with
    | some a, some k => pyConstruct f a k
    | _, _ => none
  | .list xs => match evalVs env xs with
    | some vs => (allElems vs).map .elems
    | none => none
  | .dict kvs => match evalKVs env kvs with
    | some vs => (toEntries vs).map .entries
    | none => none
def evalVs (env : String → Option Elem) : List PyExpr → Option (List PyVal)
  | [] => some []
  | x :: r => match evalV env x, evalVs env r with
    | some v, some vs => some (v :: vs)
    | _, _ => none
def evalKVs (env : String → Option Elem) : List (String × PyExpr) → Option (List (String × PyVal))
  | [] => some []
  | (n, x) :: r => match evalV env x, evalKVs env r with
    | some v, some vs => some ((n, v) :: vs)
    | _, _ => none
end

/-- `eval(repr(e))` as an element -/
def evalElem (env : String → Option Elem) (x : PyExpr) : Option Elem :=
  match evalV env x with
  | some (.elem e) => some e
  | _ => none

/-- the namespace `eval` runs in: every object class of the tree under its printed name (first wins) -/
def namespaceOf (e : Elem) : String → Option Elem := fun n =>
  (e :: descendants e).find? fun d => d.cls == .object n

/-- does `eval(repr(e), namespace)` rebuild an element equal to `e` (both ways round) -/
def evalBack (e : Elem) : Bool :=
  match evalElem (namespaceOf e) (reprExpr e) with
  | some e' => elemEq e' e && elemEq e e'
  | none => false

end Statham.PyEval
