/-
  The verdict-only view of validation: `Elem.acc env e a : V` is what `e.call env a` yields
  with the constructed value forgotten.  `Lemmas/CallVerdict.lean` proves
  `(e.call env a).verdict = e.acc env a` for every element and argument, so every theorem
  about verdicts can be carried out on this smaller semantics.
-/
import StathamModel.Validate
namespace Statham

abbrev VSub := SubG V

def trivialV : CallG V := fun _ => .pass

def nothingV : CallG V := fun a =>
  match a with
  | .notPassed => .pass
  | .val _ => .reject

def isCrash : V → Bool
  | .crash => true
  | _ => false
def isPass : V → Bool
  | .pass => true
  | _ => false
def isReject : V → Bool
  | .reject => true
  | _ => false

/-- `_attempt_schemas` on verdicts -/
def attemptV (mode : Cls) (vs : List V) : V :=
  if vs.any isCrash then .crash else
  if !vs.any isPass then .reject else
  match mode with
  | .oneOf => if (vs.filter isPass).length > 1 then .reject else .pass
  | .allOf => if vs.any isReject then .reject else .pass
  | _ => .pass

def allOfV (fs : List (CallG V)) : CallG V := fun a =>
  match a with
  | .notPassed => .pass
  | .val v => attemptV .allOf (fs.map fun f => f (.val v))

def vAlg : Alg V := { trivial := trivialV, nothing := nothingV, allOf := allOfV }

def notV : V → V
  | .pass => .reject
  | .reject => .pass
  | .crash => .crash

def constructV (env : Env) (c : Cls) (kw : Kw) (sub : VSub) (v : JVal) : V :=
  match c with
  | .not =>
    match sub.elements with
    | [f] => notV (f (.val v))
    | _ => .reject
  | .anyOf => attemptV .anyOf (sub.elements.map fun f => f (.val v))
  | .oneOf => attemptV .oneOf (sub.elements.map fun f => f (.val v))
  | .allOf => attemptV .allOf (sub.elements.map fun f => f (.val v))
  | .number =>
    match v with
    | .num n => (match asDouble n with
      | none => .crash
      | some _ => .pass)
    | _ => .reject
  | .object _ =>
    match v with
    | .obj kvs => V.all (fun o => o.2) (propsOuts vAlg env kw sub kvs)
    | _ => .reject
  | _ =>
    match v with
    | .arr xs => V.all id (itemsCallFrom vAlg kw sub 0 xs)
    | .obj kvs => V.all (fun o => o.2) (propsOuts vAlg env kw sub kvs)
    | _ => .pass

def createV (env : Env) (c : Cls) (kw : Kw) (sub : VSub) (v : JVal) : V :=
  (validators id env c kw sub v).and (constructV env c kw sub v)

def accCore (env : Env) (c : Cls) (kw : Kw) (sub : VSub) (a : Arg) : V :=
  match a with
  | .val v => createV env c kw sub v
  | .notPassed =>
    match kw.default with
    | none => .pass
    | some d =>
      match createV env c kw sub d with
      | .crash => .crash
      | _ => .pass

mutual
def Elem.acc (env : Env) : Elem → Arg → V
  | .mk c kw items addI cont props pats addP pn deps els =>
    accCore env c kw
      { items := accList env items
        addItems := accAddl env addI
        contains := accOpt env cont
        props := accProps env props
        patProps := accKeyed env pats
        addProps := accOpt env addP
        propNames := accOpt env pn
        deps := accKeyed env deps
        elements := accList env els }
def accOpt (env : Env) : Option Elem → Option (CallG V)
  | none => none
  | some e => some (Elem.acc env e)
def accAddl (env : Env) : Option Elem → Option (Bool × CallG V)
  | none => none
  | some e => some (e.cls != .nothing, Elem.acc env e)
def accList (env : Env) : List Elem → List (CallG V)
  | [] => []
  | e :: es => Elem.acc env e :: accList env es
def accKeyed (env : Env) : List (Key × Elem) → List (Key × CallG V)
  | [] => []
  | (k, e) :: r => (k, Elem.acc env e) :: accKeyed env r
def accProps (env : Env) : List (Key × Elem) → List (Key × Option JVal × CallG V)
  | [] => []
  | (k, e) :: r => (k, e.kw.default, Elem.acc env e) :: accProps env r
end

/-- verdict on a passed value -/
def Elem.accV (env : Env) (e : Elem) (v : JVal) : V := e.acc env (.val v)

end Statham
