/-
  Kernel-checked tie between the tables regenerated from /repo on every run
  (`StathamModel/Gen/*.lean`) and what the hand-written model assumes about them.
  A change of a signature, a validator's `types`/`keywords`, a comparison operator, a
  keyword set, the dispatch order, the orderer's paths … changes the generated text and one
  of these theorems stops checking.
-/
import StathamModel.Json
import StathamModel.Gen.Validators
import StathamModel.Gen.Signatures
import StathamModel.Gen.Constants
namespace Statham.Tie
open Statham.Gen

/-! ### the ten compare-and-raise validators: raise condition and subject -/
theorem minItems_fails : MinItems.fails = fun x p => Num.lt x p := rfl
theorem maxItems_fails : MaxItems.fails = fun x p => Num.lt p x := rfl
theorem minimum_fails : Minimum.fails = fun x p => Num.lt x p := rfl
theorem maximum_fails : Maximum.fails = fun x p => Num.lt p x := rfl
theorem exclusiveMinimum_fails : ExclusiveMinimum.fails = fun x p => Num.le x p := rfl
theorem exclusiveMaximum_fails : ExclusiveMaximum.fails = fun x p => Num.le p x := rfl
theorem minProperties_fails : MinProperties.fails = fun x p => Num.lt x p := rfl
theorem maxProperties_fails : MaxProperties.fails = fun x p => Num.lt p x := rfl
theorem minLength_fails : MinLength.fails = fun x p => Num.lt x p := rfl
theorem maxLength_fails : MaxLength.fails = fun x p => Num.lt p x := rfl
theorem subjects :
    (MinItems.subjectIsLen, MaxItems.subjectIsLen, MinProperties.subjectIsLen, MaxProperties.subjectIsLen,
     MinLength.subjectIsLen, MaxLength.subjectIsLen, Minimum.subjectIsLen, Maximum.subjectIsLen,
     ExclusiveMinimum.subjectIsLen, ExclusiveMaximum.subjectIsLen)
    = (true, true, true, true, true, true, false, false, false, false) := rfl

/-! ### which Python types each validator looks at, and which keywords configure it -/
theorem validatorTable_eq : validatorTable = [
    ⟨"AdditionalItems", some [.list], ["items", "additionalItems"]⟩,
    ⟨"AdditionalProperties", some [.dict], ["__properties__"]⟩,
    ⟨"Const", none, ["const"]⟩,
    ⟨"Contains", some [.list], ["contains"]⟩,
    ⟨"Dependencies", some [.dict], ["dependencies"]⟩,
    ⟨"Enum", none, ["enum"]⟩,
    ⟨"ExclusiveMaximum", some [.int, .float], ["exclusiveMaximum"]⟩,
    ⟨"ExclusiveMinimum", some [.int, .float], ["exclusiveMinimum"]⟩,
    ⟨"Format", some [.str], ["format"]⟩,
    ⟨"InstanceOf", none, []⟩,
    ⟨"MaxItems", some [.list], ["maxItems"]⟩,
    ⟨"MaxLength", some [.str], ["maxLength"]⟩,
    ⟨"MaxProperties", some [.dict], ["maxProperties"]⟩,
    ⟨"Maximum", some [.int, .float], ["maximum"]⟩,
    ⟨"MinItems", some [.list], ["minItems"]⟩,
    ⟨"MinLength", some [.str], ["minLength"]⟩,
    ⟨"MinProperties", some [.dict], ["minProperties"]⟩,
    ⟨"Minimum", some [.int, .float], ["minimum"]⟩,
    ⟨"MultipleOf", some [.int, .float], ["multipleOf"]⟩,
    ⟨"NoMatch", none, []⟩,
    ⟨"Pattern", some [.str], ["pattern"]⟩,
    ⟨"PropertyNames", some [.dict], ["propertyNames"]⟩,
    ⟨"Required", some [.dict], ["required"]⟩,
    ⟨"UniqueItems", some [.list], ["uniqueItems"]⟩] := by decide

/-! ### constructor signatures (what `_keyword_filter`, `custom_repr` and the serializers read) -/
theorem sigElement_names : Param.names sigElement =
    ["default", "const", "enum", "items", "additionalItems", "minItems", "maxItems", "uniqueItems",
     "contains", "minimum", "maximum", "exclusiveMinimum", "exclusiveMaximum", "multipleOf", "format",
     "pattern", "minLength", "maxLength", "required", "properties", "patternProperties",
     "additionalProperties", "minProperties", "maxProperties", "propertyNames", "dependencies",
     "description"] := by decide
theorem sigElement_kinds : sigElement.all (fun p => p.kind == .keywordOnly) = true := by decide
theorem sigElement_defaults : sigElement.map (·.default) =
    [.notPassed, .notPassed, .notPassed, .notPassed, .true_, .notPassed, .notPassed, .false_,
     .notPassed, .notPassed, .notPassed, .notPassed, .notPassed, .notPassed, .notPassed,
     .notPassed, .notPassed, .notPassed, .notPassed, .notPassed, .notPassed,
     .true_, .notPassed, .notPassed, .notPassed, .notPassed, .notPassed] := by decide
theorem sigNothing_eq : sigNothing = [] := by decide
theorem sigArray_eq : sigArray = [
    ⟨"items", .positional, .required⟩, ⟨"default", .keywordOnly, .notPassed⟩,
    ⟨"const", .keywordOnly, .notPassed⟩, ⟨"enum", .keywordOnly, .notPassed⟩,
    ⟨"additionalItems", .keywordOnly, .true_⟩, ⟨"minItems", .keywordOnly, .notPassed⟩,
    ⟨"maxItems", .keywordOnly, .notPassed⟩, ⟨"uniqueItems", .keywordOnly, .false_⟩,
    ⟨"contains", .keywordOnly, .notPassed⟩, ⟨"description", .keywordOnly, .notPassed⟩] := by decide
theorem sigString_names : Param.names sigString =
    ["default", "const", "enum", "format", "pattern", "minLength", "maxLength", "description"] := by decide
theorem sigNumeric_names : Param.names sigNumeric =
    ["default", "const", "enum", "minimum", "maximum", "exclusiveMinimum", "exclusiveMaximum",
     "multipleOf", "description"] := by decide
theorem sigBoolean_names : Param.names sigBoolean = ["default", "const", "enum", "description"] := by decide
theorem sigNull_names : Param.names sigNull = ["default", "const", "enum", "description"] := by decide
theorem sigLeaf_allNotPassed :
    (sigString ++ sigNumeric ++ sigBoolean ++ sigNull).all
      (fun p => p.kind == .keywordOnly && p.default == .notPassed) = true := by decide
theorem sigNot_eq : sigNot = [⟨"element", .positional, .required⟩, ⟨"default", .keywordOnly, .notPassed⟩] := by decide
theorem sigComposition_eq : sigComposition =
    [⟨"elements", .varPositional, .required⟩, ⟨"default", .keywordOnly, .notPassed⟩] := by decide
theorem sigObjectMeta_names : Param.names sigObjectMeta =
    ["default", "const", "enum", "required", "minProperties", "maxProperties", "patternProperties",
     "additionalProperties", "propertyNames", "dependencies", "description"] := by decide
theorem sigObjectMeta_allNotPassed :
    sigObjectMeta.all (fun p => p.kind == .keywordOnly && p.default == .notPassed) = true := by decide
theorem sigProperty_eq : sigProperty = [⟨"element", .positional, .required⟩,
    ⟨"required", .keywordOnly, .false_⟩, ⟨"source", .keywordOnly, .none_⟩] := by decide

/-! ### constants -/
theorem compositionKeywords_eq : compositionKeywords = ["anyOf", "oneOf", "allOf", "not"] := by decide
theorem compositionKeywords_ordered : compositionKeywordsOrdered = true := rfl
/-- the loop that parses the list-valued composition keywords iterates the ordered tuple -/
theorem compositionLoop_ordered :
    compositionLoopIter = "(key for key in COMPOSITION_KEYWORDS if key != 'not')" := by decide
theorem unsupportedKeywords_eq : unsupportedKeywords =
    ["$defs", "else", "if", "then", "unevaluatedItems", "unevaluatedProperties"] := by decide
theorem parserTypeMapping_eq : parserTypeMapping =
    [("array", "Array"), ("boolean", "Boolean"), ("integer", "Integer"), ("null", "Null"),
     ("number", "Number"), ("string", "String")] := by decide
theorem jsonTypeMapping_eq : jsonTypeMapping =
    [("Array", "array"), ("Boolean", "boolean"), ("Integer", "integer"), ("Null", "null"),
     ("ObjectMeta", "object"), ("Number", "number"), ("String", "string")] := by decide
theorem literalKeys_eq : literalKeys = ["default", "const", "enum"] := by decide
theorem subParsers_eq : subParsers =
    [("properties", "_parse_properties"), ("items", "_parse_items"),
     ("patternProperties", "_parse_pattern_properties"), ("propertyNames", "_parse_property_names"),
     ("contains", "_parse_contains"), ("dependencies", "_parse_dependencies")] := by decide
theorem objectClassArgs_eq : objectClassArgs =
    ["patternProperties", "minProperties", "maxProperties", "propertyNames", "dependencies", "const",
     "enum", "default", "description"] := by decide
theorem ordererPaths_eq : ordererPaths =
    ["items", "additionalItems", "contains", "properties.*.element", "additionalProperties",
     "patternProperties.*", "propertyNames", "dependencies.*", "elements", "element"] := by decide
theorem typingImportCandidates_eq : typingImportCandidates = ["Any", "List", "Union"] := by decide
theorem attrNameKeptChars_eq : attrNameKeptChars = ["_", "-", " "] := by decide
theorem reserved_has_keywords :
    ["class", "def", "None", "True", "False", "__dict__", "__weakref__", "_dict", "__class__", "__init__"].all
      (fun n => reservedProperties.contains n) = true := by decide

end Statham.Tie
