/-
  The element tree (`statham.schema.elements`).

  One inductive `Elem` stands for every element class; `Cls` says which Python class it
  is.  An attribute that a class does not define reads as the `Element.__init__` default
  (that is how the Python reads them too: `getattr(element, kw, NotPassed())`).

  To keep the nested-inductive shapes few (see DESIGN §4), "not passed" for container
  keywords is a flag in `Kw` and the container is then empty:
    items            : `kw.itemsKind` ∈ none | single | tuple, `items : List Elem`
    additionalItems  : `addItems = some e` (element) else the boolean `kw.addItemsB`
    properties       : `kw.hasProps`, `props : List (Key × Elem)` (key = attribute name,
                       with the `_Property`'s `required` and `source`)
    patternProperties: `kw.hasPatProps`, `patProps` (key.name = the pattern)
    dependencies     : `kw.hasDeps`, `deps` (key.name = trigger; `key.names = some l` for the
                       array form, in which case the paired element is ignored)
    elements         : members of AnyOf/OneOf/AllOf, or the single operand of Not
-/
import StathamModel.Json
namespace Statham

inductive Cls where
  | element | nothing | boolean | integer | null | number | string | array
  | object (name : String)
  | anyOf | oneOf | allOf | not
deriving DecidableEq, Repr, Inhabited

inductive ItemsKind where
  | none | single | tuple
deriving DecidableEq, Repr, Inhabited

/-- Every keyword of `Element.__init__` that does not hold elements. -/
structure Kw where
  default : Option JVal := none
  const : Option JVal := none
  enum : Option (List JVal) := none
  itemsKind : ItemsKind := .none
  addItemsB : Bool := true
  minItems : Option Num := none
  maxItems : Option Num := none
  uniqueItems : Bool := false
  minimum : Option Num := none
  maximum : Option Num := none
  exclusiveMinimum : Option Num := none
  exclusiveMaximum : Option Num := none
  multipleOf : Option Num := none
  format : Option String := none
  pattern : Option String := none
  minLength : Option Num := none
  maxLength : Option Num := none
  required : Option (List String) := none
  hasProps : Bool := false
  hasPatProps : Bool := false
  addPropsB : Bool := true
  minProperties : Option Num := none
  maxProperties : Option Num := none
  hasDeps : Bool := false
  description : Option String := none
deriving Repr, Inhabited

/-- Key of a keyed container. For `properties`: attribute name + the `_Property` flags. -/
structure Key where
  name : String
  required : Bool := false
  source : Option String := none
  names : Option (List String) := none
deriving DecidableEq, Repr, Inhabited

/-- the JSON name a bound property answers to: `bind` does `if not self.source: self.source = name`,
    so a missing *or empty* source is replaced by the attribute name -/
def Key.src (k : Key) : String :=
  match k.source with
  | some s => if s = "" then k.name else s
  | none => k.name

inductive Elem where
  | mk (cls : Cls) (kw : Kw)
       (items : List Elem) (addItems : Option Elem) (contains : Option Elem)
       (props : List (Key × Elem)) (patProps : List (Key × Elem)) (addProps : Option Elem)
       (propNames : Option Elem) (deps : List (Key × Elem)) (elements : List Elem)
deriving Repr, Inhabited

namespace Elem
def cls : Elem → Cls | mk c .. => c
def kw : Elem → Kw | mk _ k .. => k
def items : Elem → List Elem | mk _ _ i .. => i
def addItems : Elem → Option Elem | mk _ _ _ a .. => a
def contains : Elem → Option Elem | mk _ _ _ _ c .. => c
def props : Elem → List (Key × Elem) | mk _ _ _ _ _ p .. => p
def patProps : Elem → List (Key × Elem) | mk _ _ _ _ _ _ p .. => p
def addProps : Elem → Option Elem | mk _ _ _ _ _ _ _ a .. => a
def propNames : Elem → Option Elem | mk _ _ _ _ _ _ _ _ p .. => p
def deps : Elem → List (Key × Elem) | mk _ _ _ _ _ _ _ _ _ d _ => d
def elements : Elem → List Elem | mk _ _ _ _ _ _ _ _ _ _ e => e

/-- an element of class `c` with keywords `k` and no sub-elements -/
def leaf (c : Cls) (k : Kw := {}) : Elem := mk c k [] none none [] [] none none [] []
/-- `Element()` -/
def trivial : Elem := leaf .element
/-- `Nothing()` -/
def nothing : Elem := leaf .nothing
def compose (c : Cls) (es : List Elem) (default : Option JVal := none) : Elem :=
  mk c { default := default } [] none none [] [] none none [] es
end Elem

end Statham
