/-
  `Element.__eq__` / `_Property.__eq__`.

  Two elements are equal when they have the same Python class (for object classes: both
  are object classes — the class *name* is not compared), and every public attribute
  (plus `_properties`) is `==`.  Literals are compared with plain Python `==`
  (`True == 1`), numbers by value, dict-valued keywords as mappings (order-insensitive).
-/
import StathamModel.Elem
namespace Statham

def Cls.sameClass : Cls → Cls → Bool
  | .object _, .object _ => true
  | a, b => a == b

def optEq {α} (f : α → α → Bool) : Option α → Option α → Bool
  | none, none => true
  | some a, some b => f a b
  | _, _ => false

def listEq {α} (f : α → α → Bool) : List α → List α → Bool
  | [], [] => true
  | a :: as, b :: bs => f a b && listEq f as bs
  | _, _ => false

def Kw.eq (a b : Kw) : Bool :=
  optEq JVal.pyEq a.default b.default &&
  optEq JVal.pyEq a.const b.const &&
  optEq (listEq JVal.pyEq) a.enum b.enum &&
  a.itemsKind == b.itemsKind &&
  a.addItemsB == b.addItemsB &&
  optEq Num.eqv a.minItems b.minItems &&
  optEq Num.eqv a.maxItems b.maxItems &&
  a.uniqueItems == b.uniqueItems &&
  optEq Num.eqv a.minimum b.minimum &&
  optEq Num.eqv a.maximum b.maximum &&
  optEq Num.eqv a.exclusiveMinimum b.exclusiveMinimum &&
  optEq Num.eqv a.exclusiveMaximum b.exclusiveMaximum &&
  optEq Num.eqv a.multipleOf b.multipleOf &&
  a.format == b.format &&
  a.pattern == b.pattern &&
  optEq Num.eqv a.minLength b.minLength &&
  optEq Num.eqv a.maxLength b.maxLength &&
  a.required == b.required &&
  a.hasProps == b.hasProps &&
  a.hasPatProps == b.hasPatProps &&
  a.addPropsB == b.addPropsB &&
  optEq Num.eqv a.minProperties b.minProperties &&
  optEq Num.eqv a.maxProperties b.maxProperties &&
  a.hasDeps == b.hasDeps &&
  a.description == b.description

/-- is this `Element()` with every keyword at its default (what `op.ne(Element(), ·)` filters) -/
def Kw.isDefault (k : Kw) : Bool := Kw.eq k {}

def keyedFind {α} (name : String) : List (Key × α) → Option (Key × α)
  | [] => none
  | (k, a) :: r => if k.name = name then some (k, a) else keyedFind name r

mutual
def elemEq : Elem → Elem → Bool
  | .mk c kw items addI cont props pats addP pn deps els, b =>
    Cls.sameClass c b.cls && Kw.eq kw b.kw &&
    eqList items b.items && eqOpt addI b.addItems && eqOpt cont b.contains &&
    (props.length == b.props.length && eqProps props b.props) &&
    (pats.length == b.patProps.length && eqKeyed pats b.patProps) &&
    eqOpt addP b.addProps && eqOpt pn b.propNames &&
    (deps.length == b.deps.length && eqDeps deps b.deps) &&
    eqList els b.elements
def eqOpt : Option Elem → Option Elem → Bool
  | none, o => o.isNone
  | some e, o => match o with
    | some e' => elemEq e e'
    | none => false
def eqList : List Elem → List Elem → Bool
  | [], l => l.isEmpty
  | e :: es, l => match l with
    | [] => false
    | e' :: es' => elemEq e e' && eqList es es'
/-- every property of the left dict has an equal property under the same name on the right -/
def eqProps : List (Key × Elem) → List (Key × Elem) → Bool
  | [], _ => true
  | (k, e) :: r, other => (match keyedFind k.name other with
      | some (k', e') => elemEq e e' && k.required == k'.required && k.src == k'.src
      | none => false) && eqProps r other
def eqKeyed : List (Key × Elem) → List (Key × Elem) → Bool
  | [], _ => true
  | (k, e) :: r, other => (match keyedFind k.name other with
      | some (_, e') => elemEq e e'
      | none => false) && eqKeyed r other
def eqDeps : List (Key × Elem) → List (Key × Elem) → Bool
  | [], _ => true
  | (k, e) :: r, other => (match keyedFind k.name other with
      | some (k', e') => (match k.names, k'.names with
          | some l, some l' => l == l'
          | none, none => elemEq e e'
          | _, _ => false)
      | none => false) && eqDeps r other
end

/-- `element == Element()` for the composition filter -/
def Elem.isTrivial (e : Elem) : Bool :=
  e.cls == .element && e.kw.isDefault &&
  e.items.isEmpty && e.addItems.isNone && e.contains.isNone && e.props.isEmpty &&
  e.patProps.isEmpty && e.addProps.isNone && e.propNames.isNone && e.deps.isEmpty &&
  e.elements.isEmpty

end Statham
