/-
  `_parse_attribute_name` and `_title_format` (statham/schema/parser.py), character by
  character.  Unicode facts are a parameter (`CharInfo`): the harness fills them from the
  running interpreter, the theorems quantify over them.
-/
import StathamModel.Json
namespace Statham

structure CharInfo where
  /-- `str.isalnum()` of the single character -/
  isalnum : Char → Bool
  /-- `unicodedata.name(c, "unknown").lower()` -/
  uname : Char → String

/-- `string.whitespace` -/
def pyWhitespace : List Char := [' ', '\t', '\n', '\r', '\x0b', '\x0c']

/-- `string.ascii_letters` ∪ {"_"} -/
def isFirstChar (c : Char) : Bool :=
  (c ≥ 'a' && c ≤ 'z') || (c ≥ 'A' && c ≤ 'Z') || c == '_'

/-- `_char_map(idx, char)` given the previous and next characters of the name -/
def charMap (ci : CharInfo) (prev : Option Char) (c : Char) (next : Option Char) : List Char :=
  if ci.isalnum c || c == '_' || c == '-' || c == ' ' then [c]
  else if pyWhitespace.contains c then ['_']
  else
    let label := (ci.uname c).toList
    let label := match prev with
      | some p => if p != '_' then '_' :: label else label
      | none => label
    match next with
    | some n => if n != '_' then label ++ ['_'] else label
    | none => label

def mapChars (ci : CharInfo) : Option Char → List Char → List Char
  | _, [] => []
  | prev, c :: rest => charMap ci prev c rest.head? ++ mapChars ci (some c) rest

def replaceSpaceHyphen (cs : List Char) : List Char :=
  cs.map fun c => if c == ' ' || c == '-' then '_' else c

/-- the last three steps of `_parse_attribute_name`: empty → "blank"; a first character outside
    `ascii_letters + "_"` gets a `_` in front; a reserved name gets a `_` behind -/
def finishName (reserved : List String) (cs : List Char) : List Char :=
  match cs with
  | [] => "blank".toList
  | c :: rest =>
    let cs' := if isFirstChar c then c :: rest else '_' :: c :: rest
    if reserved.contains (String.ofList cs') then cs' ++ ['_'] else cs'

/-- `_parse_attribute_name(name)`; `reserved` is `RESERVED_PROPERTIES`. -/
def attrNameChars (ci : CharInfo) (reserved : List String) (name : List Char) : List Char :=
  finishName reserved (replaceSpaceHyphen (mapChars ci none name))

def attrName (ci : CharInfo) (reserved : List String) (name : String) : String :=
  String.ofList (attrNameChars ci reserved name.toList)

/-! ### `_title_format` -/

def isAsciiAlnum (c : Char) : Bool :=
  (c ≥ 'a' && c ≤ 'z') || (c ≥ 'A' && c ≤ 'Z') || (c ≥ '0' && c ≤ '9')
def isAsciiUpper (c : Char) : Bool := c ≥ 'A' && c ≤ 'Z'
def isAsciiLower (c : Char) : Bool := c ≥ 'a' && c ≤ 'z'
def isAsciiAlpha (c : Char) : Bool := isAsciiUpper c || isAsciiLower c
def asciiUpper (c : Char) : Char := if isAsciiLower c then Char.ofNat (c.toNat - 32) else c
def asciiLower (c : Char) : Char := if isAsciiUpper c then Char.ofNat (c.toNat + 32) else c

/-- `re.split("[^a-zA-Z0-9]", name)` with empty words removed -/
def splitWords (cs : List Char) : List (List Char) :=
  let (cur, acc) := cs.foldl (fun (st : List Char × List (List Char)) c =>
    if isAsciiAlnum c then (st.1 ++ [c], st.2)
    else (if st.1.isEmpty then ([], st.2) else ([], st.2 ++ [st.1]))) ([], [])
  if cur.isEmpty then acc else acc ++ [cur]

/-- `re.findall("[A-Z][^A-Z]*", word)`: drop everything before the first upper-case letter,
    then cut before every upper-case letter -/
def segments (word : List Char) : List (List Char) :=
  let w := word.dropWhile (fun c => !isAsciiUpper c)
  let (cur, acc) := w.foldl (fun (st : List Char × List (List Char)) c =>
    if isAsciiUpper c then (if st.1.isEmpty then ([c], st.2) else ([c], st.2 ++ [st.1]))
    else (st.1 ++ [c], st.2)) ([], [])
  if cur.isEmpty then acc else acc ++ [cur]

/-- `str.title()` on ASCII alphanumerics: upper-case a letter that follows a non-letter,
    lower-case a letter that follows a letter -/
def pyTitle (seg : List Char) : List Char :=
  (seg.foldl (fun (st : Bool × List Char) c =>
    if isAsciiAlpha c then (true, st.2 ++ [if st.1 then asciiLower c else asciiUpper c])
    else (false, st.2 ++ [c])) (false, [])).2

def titleFormatChars (name : List Char) : List Char :=
  ((splitWords name).flatMap fun w =>
    match w with
    | [] => []
    | c :: rest => (segments (asciiUpper c :: rest)).flatMap pyTitle)

def titleFormat (name : String) : String := String.ofList (titleFormatChars name.toList)

end Statham
