/-
  Histories of reconfiguration steps and validation calls on one element.

  A reconfiguration step is any function on the element's configuration (assigning a keyword
  attribute, adding / replacing / removing a property, flipping a property flag, replacing a
  sub-element); a call step validates a value against the configuration of that moment.
-/
import StathamModel.Validate
namespace Statham

inductive Step where
  | reconfig (f : Elem → Elem)
  | call (a : Arg)

/-- run a history: the outputs of the call steps in order, and the final configuration -/
def runHistory (env : Env) : Elem → List Step → List Res × Elem
  | e, [] => ([], e)
  | e, .reconfig f :: rest => runHistory env (f e) rest
  | e, .call a :: rest =>
    let (outs, e') := runHistory env e rest
    (e.call env a :: outs, e')

/-- the configuration after a prefix of the history -/
def configAfter : Elem → List Step → Elem
  | e, [] => e
  | e, .reconfig f :: rest => configAfter (f e) rest
  | e, .call _ :: rest => configAfter e rest

/-- what a fresh element with the configuration of that moment answers, for every call step -/
def freshAnswers (env : Env) : Elem → List Step → List Res
  | _, [] => []
  | e, .reconfig f :: rest => freshAnswers env (f e) rest
  | e, .call a :: rest => (configAfter e []).call env a :: freshAnswers env e rest

end Statham
