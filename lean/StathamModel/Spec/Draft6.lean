/-
  JSON Schema Draft 6 validation, written from the specification
  (draft-wright-json-schema-validation-01) keyword by keyword, with no reference to
  elements, the parser or the validators.

  The three deviations the library documents are part of the relation, visibly:
    * `integer` is decided by representation (`1.0` is not an integer)       — `typeMatch`
    * `format` only constrains when a checker is registered                   — `env.fmt`
    * a required property whose schema declares a default may be omitted      — `lenient`
      (`D6.valid true` waives such names, `D6.valid false` does not; `D6.allowed` accepts a
       verdict that agrees with either reading at every object schema — see `Props/C01`).
-/
import StathamModel.Schema
import StathamModel.Env
namespace Statham.D6

/-- what the specification leaves to the environment (shared with the model) -/
abbrev SEnv := Statham.Env

def typeMatch (t : String) (v : JVal) : Bool :=
  match v with
  | .null => t == "null"
  | .bool _ => t == "boolean"
  | .num n => t == "number" || (t == "integer" && n.isInt)
  | .str _ => t == "string"
  | .arr _ => t == "array"
  | .obj _ => t == "object"

def typeOk (ts : TypeSpec) (v : JVal) : Bool :=
  match ts with
  | .none => true
  | .single t => typeMatch t v
  | .list l => l.any fun t => typeMatch t v

/-- `x` is an integer multiple of `m` (`m > 0`), exactly: `x / m = (xn·md) / (xd·mn)` is an integer -/
def isMultiple (x m : Num) : Bool :=
  (x.numer * m.denom) % ((x.denom : Int) * m.numer) == 0

def optB {α} (o : Option α) (f : α → Bool) : Bool :=
  match o with
  | none => true
  | some a => f a

def hasDupJ : List JVal → Bool
  | [] => false
  | x :: r => r.any (fun y => JVal.jeq x y) || hasDupJ r

def numOk (k : SKw) (x : Num) : Bool :=
  optB k.minimum (fun p => Num.le p x) &&
  optB k.maximum (fun p => Num.le x p) &&
  optB k.exclusiveMinimum (fun p => Num.lt p x) &&
  optB k.exclusiveMaximum (fun p => Num.lt x p) &&
  optB k.multipleOf (fun m => isMultiple x m)

def strOk (env : SEnv) (k : SKw) (s : String) : Bool :=
  optB k.minLength (fun p => Num.le p (Num.ofNat s.length)) &&
  optB k.maxLength (fun p => Num.le (Num.ofNat s.length) p) &&
  optB k.pattern (fun p => env.re p s) &&
  optB k.format (fun f => match env.fmt f with
    | none => true
    | some c => c s)

def arrOk (k : SKw) (xs : List JVal) : Bool :=
  optB k.minItems (fun p => Num.le p (Num.ofNat xs.length)) &&
  optB k.maxItems (fun p => Num.le (Num.ofNat xs.length) p) &&
  !(k.uniqueItems.getD false && hasDupJ xs)

def objSizeOk (k : SKw) (kvs : List (String × JVal)) : Bool :=
  optB k.minProperties (fun p => Num.le p (Num.ofNat kvs.length)) &&
  optB k.maxProperties (fun p => Num.le (Num.ofNat kvs.length) p)

def literalOk (k : SKw) (v : JVal) : Bool :=
  optB k.const (fun c => JVal.jeq v c) &&
  optB k.enum (fun l => l.any fun c => JVal.jeq v c)

/-- keywords that look at the instance only -/
def scalarOk (env : SEnv) (k : SKw) (v : JVal) : Bool :=
  typeOk k.type v && literalOk k v &&
  (match v with
   | .num x => numOk k x
   | .str s => strOk env k s
   | .arr xs => arrOk k xs
   | .obj kvs => objSizeOk k kvs
   | _ => true)

/-- sub-schema validity as closures (`V v` = "instance `v` is valid against that sub-schema") -/
abbrev VF := JVal → Bool

structure SSub where
  items : List VF := []
  addItems : Option VF := none
  contains : Option VF := none
  props : List (String × Bool × VF) := []      -- name, "its schema declares a default", validity
  patProps : List (String × VF) := []
  addProps : Option VF := none
  propNames : Option VF := none
  deps : List (Key × VF) := []
  anyOf : List VF := []
  oneOf : List VF := []
  allOf : List VF := []
  not : Option VF := none

def itemsOk (k : SKw) (sub : SSub) (xs : List JVal) : Bool :=
  match k.itemsKind with
  | .none => true
  | .single => match sub.items with
    | f :: _ => xs.all f
    | [] => true
  | .tuple =>
    let rec go : List VF → List JVal → Bool
      | _, [] => true
      | [], rest => (match sub.addItems with
        | some f => rest.all f
        | none => true)
      | f :: fs, x :: rest => f x && go fs rest
    go sub.items xs

def containsOk (sub : SSub) (xs : List JVal) : Bool :=
  optB sub.contains fun f => xs.any f

def lookupProp (props : List (String × Bool × VF)) (k : String) : Option VF :=
  match props with
  | [] => none
  | (n, _, f) :: r => if n = k then some f else lookupProp r k

/-- `properties` / `patternProperties` / `additionalProperties` for one member -/
def memberOk (env : SEnv) (sub : SSub) (k : String) (x : JVal) : Bool :=
  let declared := lookupProp sub.props k
  let pats := sub.patProps.filter fun p => env.re p.1 k
  optB declared (fun f => f x) &&
  pats.all (fun p => p.2 x) &&
  (if declared.isNone && pats.isEmpty then optB sub.addProps (fun f => f x) else true)

/-- `required`; with `lenient`, names whose property schema declares a default are waived -/
def requiredOk (lenient : Bool) (k : SKw) (sub : SSub) (kvs : List (String × JVal)) : Bool :=
  (k.required.getD []).all fun n =>
    (JVal.keys kvs).contains n ||
      (lenient && sub.props.any fun p => p.1 == n && p.2.1)

def depsOk (sub : SSub) (kvs : List (String × JVal)) : Bool :=
  sub.deps.all fun d =>
    !(JVal.keys kvs).contains d.1.name ||
      (match d.1.names with
       | some l => l.all fun n => (JVal.keys kvs).contains n
       | none => d.2 (.obj kvs))

def objectOk (env : SEnv) (lenient : SKw → Bool) (k : SKw) (sub : SSub) (kvs : List (String × JVal)) : Bool :=
  requiredOk (lenient k) k sub kvs &&
  kvs.all (fun kv => memberOk env sub kv.1 kv.2) &&
  optB sub.propNames (fun f => kvs.all fun kv => f (.str kv.1)) &&
  depsOk sub kvs

def countTrue (fs : List VF) (v : JVal) : Nat := (fs.filter fun f => f v).length

def compositionOk (k : SKw) (sub : SSub) (v : JVal) : Bool :=
  (!k.hasAnyOf || sub.anyOf.any fun f => f v) &&
  (!k.hasOneOf || countTrue sub.oneOf v == 1) &&
  (!k.hasAllOf || sub.allOf.all fun f => f v) &&
  optB sub.not (fun f => !f v)

def validCore (env : SEnv) (lenient : SKw → Bool) (k : SKw) (sub : SSub) (v : JVal) : Bool :=
  scalarOk env k v &&
  (match v with
   | .arr xs => itemsOk k sub xs && containsOk sub xs
   | .obj kvs => objectOk env lenient k sub kvs
   | _ => true) &&
  compositionOk k sub v

def declaresDefault : Schema → Bool
  | .bool _ => false
  | .mk k .. => k.default.isSome

mutual
/-- `valid lenient s v`: instance `v` is valid against schema `s` -/
def valid (env : SEnv) (lenient : SKw → Bool) : Schema → JVal → Bool
  | .bool b => fun _ => b
  | .mk k items addI cont props pats addP pn deps anyOf oneOf allOf not =>
    validCore env lenient k
      { items := vList env lenient items
        addItems := vOpt env lenient addI
        contains := vOpt env lenient cont
        props := vProps env lenient props
        patProps := vNamed env lenient pats
        addProps := vOpt env lenient addP
        propNames := vOpt env lenient pn
        deps := vDeps env lenient deps
        anyOf := vList env lenient anyOf
        oneOf := vList env lenient oneOf
        allOf := vList env lenient allOf
        not := vOpt env lenient not }
def vOpt (env : SEnv) (lenient : SKw → Bool) : Option Schema → Option VF
  | none => none
  | some s => some (valid env lenient s)
def vList (env : SEnv) (lenient : SKw → Bool) : List Schema → List VF
  | [] => []
  | s :: ss => valid env lenient s :: vList env lenient ss
def vNamed (env : SEnv) (lenient : SKw → Bool) : List (String × Schema) → List (String × VF)
  | [] => []
  | (k, s) :: r => (k, valid env lenient s) :: vNamed env lenient r
def vProps (env : SEnv) (lenient : SKw → Bool) : List (String × Schema) → List (String × Bool × VF)
  | [] => []
  | (k, s) :: r => (k, declaresDefault s, valid env lenient s) :: vProps env lenient r
def vDeps (env : SEnv) (lenient : SKw → Bool) : List (Key × Schema) → List (Key × VF)
  | [] => []
  | (k, s) :: r => (k, valid env lenient s) :: vDeps env lenient r
end

end Statham.D6
