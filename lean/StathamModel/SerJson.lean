/-
  `statham.serializers.json.serialize_json` and `statham.serializers.orderer.get_children` /
  `get_object_classes`.

  The keyword part of an element's schema is produced by walking the *generated* signature of
  `Element.__init__` (`Gen.sigElement`), the way the Python walks `inspect.signature`.
-/
import StathamModel.Elem
import StathamModel.Eq
import StathamModel.Gen.Signatures
import StathamModel.Gen.Constants
namespace Statham

def refTo (name : String) : JVal := .obj [("$ref", .str ("#/definitions/" ++ name))]

def numJ (n : Num) : JVal := .num n

def isObjectClass : Cls → Bool
  | .object _ => true
  | _ => false

def objName : Cls → String
  | .object n => n
  | _ => ""

/-- is this class occurrence "the primary" (`object_class is not primary`, `data is root`) — by name and equality -/
def isPrimary (primary e : Elem) : Bool :=
  isObjectClass primary.cls && objName primary.cls == objName e.cls && elemEq primary e

/-- `data is root`; `root = None` outside `serialize_json` -/
def isRoot : Option Elem → Elem → Bool
  | none, _ => false
  | some p, e => isPrimary p e

/-- the top-level schema is not a member of `definitions`: it is referred to as `#` -/
def refRoot : JVal := .obj [("$ref", .str "#")]

/-- `_serialize_recursive` on an element in a child position: a class becomes a `$ref` (`#` for the top-level class), an element equal
    to one of the caller's definitions becomes a `$ref` to it, anything else its own schema `body` -/
def childRef (root : Option Elem) (defs : List (String × Elem)) (e : Elem) (body : JVal) : JVal :=
  if isObjectClass e.cls then (if isRoot root e then refRoot else refTo (objName e.cls))
  else match defs.find? (fun d => elemEq d.2 e) with
    | some d => refTo d.1
    | none => body

/-- serialized children of one element -/
structure SerKids where
  items : List JVal := []
  addItems : Option JVal := none
  contains : Option JVal := none
  props : List (Key × JVal) := []
  patProps : List (Key × JVal) := []
  addProps : Option JVal := none
  propNames : Option JVal := none
  deps : List (Key × JVal) := []
  elements : List JVal := []

/-- explicit `required` merged with the names of required properties (explicit first, no duplicates) -/
def mergedRequired (kw : Kw) (props : List (Key × JVal)) : List String :=
  let explicit := kw.required.getD []
  explicit ++ ((props.filter fun p => p.1.required).map fun p => p.1.src).foldl
    (fun acc n => if explicit.contains n || acc.contains n then acc else acc ++ [n]) []

/-- the value a keyword contributes to the schema dict, if it differs from the constructor default -/
def kwField (kw : Kw) (k : SerKids) (name : String) : Option JVal :=
  match name with
  | "default" => kw.default
  | "const" => kw.const
  | "enum" => kw.enum.map JVal.arr
  | "items" => (match kw.itemsKind with
    | .none => none
    | .single => k.items.head?
    | .tuple => some (.arr k.items))
  | "additionalItems" => (match k.addItems with
    | some j => some j
    | none => if kw.addItemsB then none else some (.bool false))
  | "minItems" => kw.minItems.map numJ
  | "maxItems" => kw.maxItems.map numJ
  | "uniqueItems" => if kw.uniqueItems then some (.bool true) else none
  | "contains" => k.contains
  | "minimum" => kw.minimum.map numJ
  | "maximum" => kw.maximum.map numJ
  | "exclusiveMinimum" => kw.exclusiveMinimum.map numJ
  | "exclusiveMaximum" => kw.exclusiveMaximum.map numJ
  | "multipleOf" => kw.multipleOf.map numJ
  | "format" => kw.format.map JVal.str
  | "pattern" => kw.pattern.map JVal.str
  | "minLength" => kw.minLength.map numJ
  | "maxLength" => kw.maxLength.map numJ
  | "required" =>
    -- an explicit list is kept here only to hold the position; the final value is `mergedRequired`
    (match kw.required with
     | some l => some (.arr (l.map JVal.str))
     | none => none)
  | "properties" =>
    if kw.hasProps && !k.props.isEmpty then
      some (.obj (dictOfList (k.props.map fun p => (p.1.src, p.2))))
    else none
  | "patternProperties" => if kw.hasPatProps then some (.obj (k.patProps.map fun p => (p.1.name, p.2))) else none
  | "additionalProperties" => (match k.addProps with
    | some j => some j
    | none => if kw.addPropsB then none else some (.bool false))
  | "minProperties" => kw.minProperties.map numJ
  | "maxProperties" => kw.maxProperties.map numJ
  | "propertyNames" => k.propNames
  | "dependencies" =>
    if kw.hasDeps then
      some (.obj (k.deps.map fun d => (d.1.name, match d.1.names with
        | some l => .arr (l.map JVal.str)
        | none => d.2)))
    else none
  | "description" => kw.description.map JVal.str
  | _ => none

def typeNameOf (c : Cls) : Option String :=
  let pyName := match c with
    | .array => "Array" | .boolean => "Boolean" | .integer => "Integer" | .null => "Null"
    | .object _ => "ObjectMeta" | .number => "Number" | .string => "String" | _ => ""
  Gen.jsonTypeMapping.lookup pyName

def modeKey : Cls → Option String
  | .anyOf => some "anyOf"
  | .oneOf => some "oneOf"
  | .allOf => some "allOf"
  | _ => none

/-- `_serialize_element` given the serialized children -/
def serCore (c : Cls) (kw : Kw) (k : SerKids) : JVal :=
  if c == .nothing then .bool false else
  let base : List (String × JVal) :=
    ((Gen.sigElement.filter fun p => p.kind == .keywordOnly).filterMap fun p =>
      (kwField kw k p.name).map fun v => (p.name, v))
  -- `if "properties" in schema: schema["required"] = merged`; `if not schema.get("required", True): del`
  let withReq :=
    if base.any (fun f => f.1 == "properties") then dictSet base "required" (.arr ((mergedRequired kw k.props).map JVal.str))
    else base
  let withReq := withReq.filter fun f => !(f.1 == "required" && (match f.2 with | .arr [] => true | _ => false))
  let comp := match modeKey c with
    | some m => [(m, JVal.arr k.elements)]
    | none => []
  let notP := if c == .not then (match k.elements with | e :: _ => [("not", e)] | [] => []) else []
  let typ := match typeNameOf c with
    | some t => [("type", JVal.str t)]
    | none => []
  let title := if isObjectClass c then [("title", JVal.str (objName c))] else []
  .obj (((withReq.foldl (fun d f => dictSet d f.1 f.2) []) ++ []) |> fun d =>
    (comp ++ notP ++ typ ++ title).foldl (fun d f => dictSet d f.1 f.2) d)

mutual
def serElem (root : Option Elem) (defs : List (String × Elem)) : Elem → JVal
  | .mk c kw items addI cont props pats addP pn deps els =>
    serCore c kw
      { items := serList root defs items
        addItems := serOpt root defs addI
        contains := serOpt root defs cont
        props := serKeyed root defs props
        patProps := serKeyed root defs pats
        addProps := serOpt root defs addP
        propNames := serOpt root defs pn
        deps := serKeyed root defs deps
        elements := serList root defs els }
def serOpt (root : Option Elem) (defs : List (String × Elem)) : Option Elem → Option JVal
  | none => none
  | some e => some (childRef root defs e (serElem root defs e))
def serList (root : Option Elem) (defs : List (String × Elem)) : List Elem → List JVal
  | [] => []
  | e :: es => childRef root defs e (serElem root defs e) :: serList root defs es
def serKeyed (root : Option Elem) (defs : List (String × Elem)) : List (Key × Elem) → List (Key × JVal)
  | [] => []
  | (k, e) :: r => (k, childRef root defs e (serElem root defs e)) :: serKeyed root defs r
end

/-! ### `get_children` (pre-order, in the order of the generated `paths`) -/

mutual
def descendants : Elem → List Elem
  | .mk _ _ items addI cont props pats addP pn deps els =>
    descL items ++ descO addI ++ descO cont ++ descK props ++ descO addP ++ descK pats ++ descO pn ++
      descD deps ++ descL els
def descO : Option Elem → List Elem
  | none => []
  | some e => e :: descendants e
def descL : List Elem → List Elem
  | [] => []
  | e :: es => (e :: descendants e) ++ descL es
def descK : List (Key × Elem) → List Elem
  | [] => []
  | (_, e) :: r => (e :: descendants e) ++ descK r
/-- `dependencies.*`: only element-valued entries -/
def descD : List (Key × Elem) → List Elem
  | [] => []
  | (k, e) :: r => (if k.names.isSome then [] else e :: descendants e) ++ descD r
end

/-- `get_object_classes(*elements)` -/
def objectClasses (elements : List Elem) : List Elem :=
  (elements ++ (elements.map descendants).flatten).filter fun e => isObjectClass e.cls

inductive SerErr where
  | primaryIsFalse      -- `{**False, …}`: TypeError when the first element is `Nothing`
  | noElements
deriving DecidableEq, Repr

/-- `serialize_json(*elements, definitions=defs)` -/
def serializeJson (elements : List Elem) (defs : List (String × Elem)) : Except SerErr JVal :=
  match elements with
  | [] => .error .noElements
  | primary :: _ =>
    match serElem (some primary) defs primary with
    | .obj body =>
      let classDefs := (objectClasses elements).foldl (fun d oc =>
        if isPrimary primary oc then d else dictSet d (objName oc.cls) (serElem (some primary) defs oc)) ([] : List (String × JVal))
      let allDefs := defs.foldl (fun d kv => dictSet d kv.1 (serElem (some primary) defs kv.2)) classDefs
      .ok (.obj (if allDefs.isEmpty then body else dictSet body "definitions" (.obj allDefs)))
    | _ => .error .primaryIsFalse

end Statham
