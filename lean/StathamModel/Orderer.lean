/-
  `statham.serializers.orderer.orderer`: declaration order of object classes.

  The Python builds `object_dependencies : name → [names of all descendant classes]`, refuses
  if some class is among its own descendants, and then repeatedly emits the first class (in
  dictionary order) whose dependency list is empty, striking it from every list.

  `Elem` trees are acyclic by construction, so cyclic class graphs are modelled on an abstract
  finite graph (`ClassGraph`): the classes in first-occurrence order and, per class, its direct
  class children.  `ordererTree` instantiates it with `objectClasses` / `descendants`.
-/
import StathamModel.SerJson
namespace Statham

structure ClassGraph where
  /-- class names in the order `get_object_classes` first meets them -/
  order : List String
  /-- direct class children (nearest descendant classes through any keyword position) -/
  edges : String → List String

inductive OrdErr where
  | unresolvable     -- SchemaParseError.unresolvable_declaration
deriving DecidableEq, Repr

/-- all classes reachable from `start` (its descendants), by DFS with a visited list; `fuel` bounds the
    number of expansions (the number of classes suffices) -/
def reach (g : ClassGraph) : Nat → List String → List String → List String
  | 0, _, seen => seen
  | _, [], seen => seen
  | fuel + 1, n :: todo, seen =>
    if seen.contains n then reach g fuel todo seen
    else reach g fuel (g.edges n ++ todo) (seen ++ [n])

def descendantsOf (g : ClassGraph) (n : String) : List String :=
  reach g (g.order.length * (g.order.length + 1) + 1) (g.edges n) []

/-- one round of the emission loop over the remaining `(name, deps)` table -/
def popNext (table : List (String × List String)) : Option (String × List (String × List String)) :=
  match table.find? (fun e => e.2.isEmpty) with
  | none => none
  | some e =>
    some (e.1, (table.filter fun x => x.1 != e.1).map fun x => (x.1, x.2.filter fun d => d != e.1))

def emitAll : Nat → List (String × List String) → List String × List (String × List String)
  | 0, table => ([], table)
  | fuel + 1, table =>
    match popNext table with
    | none => ([], table)
    | some (n, table') =>
      let (rest, final) := emitAll fuel table'
      (n :: rest, final)

/-- the dependency table as the Python builds it (dictionary keyed by name: first occurrence wins the
    position, later duplicates overwrite with the same value) -/
def depTable (g : ClassGraph) : List (String × List String) :=
  (removeDups g.order).map fun n => (n, descendantsOf g n)

/-- `orderer` on a class graph -/
def ordererGraph (g : ClassGraph) : Except OrdErr (List String) :=
  let table := depTable g
  if table.any (fun e => e.2.contains e.1) then .error .unresolvable
  else
    let (out, _) := emitAll table.length table
    .ok out

/-- nearest descendant classes of an element, in traversal order -/
def directClasses (e : Elem) : List String :=
  -- descendants in pre-order; a class hides what is below it only for *direct* edges, which does not
  -- change reachability, so all descendant classes are used (as the Python does)
  ((descendants e).filter fun d => isObjectClass d.cls).map fun d => objName d.cls

/-- the class graph of element trees: classes in first-occurrence order, each with its descendant classes
    (each name once: the Python's lists may repeat a name, which changes neither emptiness nor striking) -/
def treeGraph (elements : List Elem) : ClassGraph :=
  let classes := objectClasses elements
  { order := classes.map fun c => objName c.cls
    edges := fun n => match classes.find? (fun c => objName c.cls == n) with
      | some c => removeDups (directClasses c)
      | none => [] }

/-- `orderer(*elements)` on element trees (unique class names assumed, as the Python documents) -/
def ordererTree (elements : List Elem) : Except OrdErr (List String) := ordererGraph (treeGraph elements)

end Statham
