/-
  What neither the model nor the specification interprets: regular expressions and the
  registered format checkers.  Theorems quantify over every `Env`; the driver fills it with
  tables computed by the running interpreter.
-/
namespace Statham

structure Env where
  /-- `re.search(pattern, text) is not None` -/
  re : String → String → Bool
  /-- the checker registered for a format name, if any -/
  fmt : String → Option (String → Bool)

end Statham
