/-
  The format registry (`statham.schema.validation.format._FormatString`) and the `Format`
  validator: a dictionary from format names to checkers; registering a name again replaces the
  earlier checker; an unregistered name warns and accepts; non-strings never reach a checker.
-/
import StathamModel.Json
namespace Statham

abbrev Checker := String → Bool

/-- the registry: insertion-ordered dictionary -/
abbrev Registry := List (String × Checker)

inductive RegOp where
  | register (name : String) (c : Checker)
  | check (name : String) (v : JVal)

inductive FmtOut where
  | accept              -- validator passes silently
  | acceptWarn          -- no checker registered: RuntimeWarning, value accepted
  | reject              -- ValidationError
deriving DecidableEq, Repr

def Registry.register (r : Registry) (name : String) (c : Checker) : Registry := dictSet r name c

def Registry.lookup (r : Registry) (name : String) : Option Checker := dictGet? r name

/-- `Format(format=name)(value)`: `types = (str,)`, then `format_checker(name, value)` -/
def Registry.check (r : Registry) (name : String) (v : JVal) : FmtOut :=
  match v with
  | .str s =>
    match r.lookup name with
    | none => .acceptWarn
    | some c => if c s then .accept else .reject
  | _ => .accept

def stepReg (r : Registry) : RegOp → Registry × Option FmtOut
  | .register n c => (r.register n c, none)
  | .check n v => (r, some (r.check n v))

def runReg (r : Registry) : List RegOp → Registry × List FmtOut
  | [] => (r, [])
  | op :: rest =>
    let (r', o) := stepReg r op
    let (rf, outs) := runReg r' rest
    (rf, (match o with | some x => [x] | none => []) ++ outs)

end Statham
