/-
  Shared state touched by concurrent validation calls, and interleavings.

  By the write-site inventory (Props/C08: `writeSites_accounted`, `callPath_harmless`) the only stores a
  validation call makes to objects that other calls can see are those of `_Property.bind`
  (`name`, `source`, `parent` of a `_Property` that sits in the tree).  Everything else a call writes is
  a local container or the fresh result.  So the shared state is one record per `_Property` object,
  and a call is, as far as other calls can tell, a sequence of atomic `bind`s and reads of those records.
-/
import StathamModel.Json
namespace Statham

/-- the mutable fields of one `_Property` object -/
structure PState where
  name : Option String := none
  source : Option String := none
  parent : Option Nat := none        -- identity of the element it is bound to
deriving DecidableEq, Repr, Inhabited

abbrev Shared := List PState

/-- what a call reads back from a shared `_Property` (`self[key].name or key`, `prop.source`, `prop.parent`) -/
structure Obs where
  name : Option String
  source : Option String
  parent : Option Nat
deriving DecidableEq, Repr

inductive Act where
  /-- `prop.bind(name=name, parent=parent)` on the `_Property` with identity `p` -/
  | bind (p : Nat) (name : String) (parent : Nat)
  /-- read the fields of `p` -/
  | read (p : Nat)
deriving DecidableEq, Repr

/-- `_Property.bind`: `if parent: self.parent = parent; if not name: return; if not self.source: self.source = name;
    self.name = name` -/
def PState.bind (s : PState) (name : String) (parent : Nat) : PState :=
  if name = "" then { s with parent := some parent }
  else { name := some name
         source := (match s.source with
           | some x => if x = "" then some name else some x
           | none => some name)
         parent := some parent }

/-- one atomic step on the shared state: new state and what the step observed -/
def Act.run (s : Shared) : Act → Shared × Option Obs
  | .bind p name parent =>
    match s[p]? with
    | some ps => (s.set p (ps.bind name parent), none)
    | none => (s, none)
  | .read p => (s, (s[p]?).map fun ps => { name := ps.name, source := ps.source, parent := ps.parent })

/-- an execution: the atomic steps of all threads in the order they happened, tagged with the thread -/
abbrev Trace := List (Nat × Act)

def runTrace (s : Shared) : Trace → Shared × List (Nat × Option Obs)
  | [] => (s, [])
  | (t, a) :: r =>
    let (s', o) := a.run s
    let (sf, os) := runTrace s' r
    (sf, (t, o) :: os)

/-- the steps of thread `t` within a trace, in order -/
def Trace.ofThread (tr : Trace) (t : Nat) : List Act := (tr.filter (·.1 == t)).map (·.2)

/-- what thread `t` observed during an execution -/
def obsOf (os : List (Nat × Option Obs)) (t : Nat) : List (Option Obs) := (os.filter (·.1 == t)).map (·.2)

/-- a thread run alone -/
def runAlone (s : Shared) (prog : List Act) : Shared × List (Option Obs) :=
  let r := runTrace s (prog.map fun a => (0, a))
  (r.1, r.2.map (·.2))

end Statham
