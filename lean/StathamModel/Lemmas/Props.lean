/-
  Objects: `Properties.__getitem__` / `__call__`, `Required`, `PropertyNames`,
  `Dependencies` against `properties` / `patternProperties` / `additionalProperties` /
  `required` / `propertyNames` / `dependencies` of Draft 6.
-/
import StathamModel.Lemmas.Items
import StathamModel.Lemmas.ListAux
namespace Statham

abbrev VProp := Key × Option JVal × CallG V
abbrev SProp := String × Bool × D6.VF

def srcs (vp : List VProp) : List String := vp.map (·.1.src)

/-- with distinct sources, "last property whose source is `k`" is "the property whose source is `k`" -/
theorem findDeclared_find (vp : List VProp) (k : String) (hd : distinct (srcs vp) = true) :
    findDeclared vp k = (vp.find? fun p => p.1.src == k).map fun p => (p.1, p.2.2) := by
  unfold findDeclared
  suffices h : ∀ acc, vp.foldl (fun acc p => if p.1.src == k then some (p.1, p.2.2) else acc) acc =
      match vp.find? (fun p => p.1.src == k) with
      | some p => some (p.1, p.2.2)
      | none => acc by
    rw [h none]; cases vp.find? (fun p => p.1.src == k) <;> rfl
  induction vp with
  | nil => intro acc; rfl
  | cons p ps ih =>
    intro acc
    simp only [srcs, List.map_cons, distinct_cons] at hd
    simp only [List.foldl_cons, List.find?_cons]
    by_cases hk : p.1.src == k
    · simp only [hk, if_true]
      rw [ih hd.2]
      have : ps.find? (fun p => p.1.src == k) = none := by
        rw [List.find?_eq_none]
        intro q hq hqk
        apply hd.1
        have e1 : p.1.src = k := by simpa using hk
        have e2 : q.1.src = k := by simpa using hqk
        rw [e1, ← e2]
        exact List.mem_map.mpr ⟨q, hq, rfl⟩
      rw [this]
    · simp only [hk]
      exact ih hd.2 acc

structure PropRel (p : VProp) (q : SProp) : Prop where
  src : p.1.src = q.1
  rc : RC p.2.2 q.2.2
  dflt : q.2.1 = p.2.1.isSome

theorem find_lookup {vd : List VProp} {sp : List SProp} (h : All2 PropRel vd sp) (k : String) :
    OptRel (fun (p : VProp) (g : D6.VF) => RC p.2.2 g) (vd.find? fun p => p.1.src == k) (D6.lookupProp sp k) := by
  induction h with
  | nil => exact OptRel.none
  | @cons p q ps qs hr _ ih =>
    obtain ⟨n, dd, g⟩ := q
    simp only [List.find?_cons, D6.lookupProp]
    have hs : p.1.src = n := hr.src
    by_cases e : n = k
    · subst e; simp only [hs, beq_self_eq_true, if_true]; exact OptRel.some hr.rc
    · have : (p.1.src == k) = false := by simp [hs, e]
      simp only [this, e, if_false]
      exact ih

/-! ### patternProperties, additionalProperties -/

def PatRel (p : Key × CallG V) (q : String × D6.VF) : Prop := p.1.name = q.1 ∧ RC p.2 q.2

theorem matchingPats_rel {env : Env} {vpats : List (Key × CallG V)} {spats : List (String × D6.VF)}
    (h : All2 PatRel vpats spats) (k : String) :
    All2 RC (matchingPats env vpats k) ((spats.filter fun p => env.re p.1 k).map (·.2)) := by
  unfold matchingPats
  induction h with
  | nil => exact All2.nil
  | @cons p q ps qs hr _ ih =>
    have e : p.1.name = q.1 := hr.1
    by_cases hm : env.re q.1 k = true
    · simp only [List.filter, e, hm, List.map_cons]; exact All2.cons hr.2 ih
    · have hm' : env.re q.1 k = false := by simpa using hm
      simp only [List.filter, e, hm']; exact ih

inductive AddlRelP : Option (CallG V) → Bool → Option D6.VF → Prop
  | absent : AddlRelP none true none
  | lit (b : Bool) : AddlRelP none b (some fun _ => b)
  | elem {f : CallG V} {g : D6.VF} : RC f g → AddlRelP (some f) true (some g)

theorem additionalPropCall_rel {kw : Kw} {sub : VSub} {σ : D6.SSub}
    (h : AddlRelP sub.addProps kw.addPropsB σ.addProps) :
    RC (additionalPropCall vAlg kw sub) (fun x => D6.optB σ.addProps fun f => f x) := by
  unfold additionalPropCall
  generalize sub.addProps = sa at h
  generalize kw.addPropsB = kb at h
  generalize σ.addProps = σa at h
  cases h with
  | absent => exact ⟨fun x _ => R.pass, by simp [vAlg, trivialV]⟩
  | lit =>
    cases kb
    · exact ⟨fun x _ => R.reject, by simp [vAlg, nothingV]⟩
    · exact ⟨fun x _ => R.pass, by simp [vAlg, trivialV]⟩
  | elem hr => exact hr

theorem All2.vals {fs : List (CallG V)} {gs : List D6.VF} (h : All2 RC fs gs) (x : JVal)
    (hx : distinctKeys x = true) :
    All2 R (fs.map fun f => f (.val x)) (gs.map fun g => g x) := by
  induction h with
  | nil => exact All2.nil
  | cons hr _ ih => exact All2.cons (hr.1 x hx) ih

theorem R_allOfV {fs : List (CallG V)} {gs : List D6.VF} (h : All2 RC fs gs) (hne : gs ≠ []) (x : JVal)
    (hx : distinctKeys x = true) :
    R (allOfV fs (.val x)) (gs.all fun g => g x) := by
  simp only [allOfV]
  rw [← all_map_id]
  exact R_attempt_allOf (h.vals x hx) (by simpa using hne)

theorem allOfV_np (fs : List (CallG V)) : allOfV fs .notPassed = .pass := rfl

/-! ### one member -/

/-- what the proofs need to know about how an object element was set up -/
structure ObjSetup (env : Env) (kw : Kw) (sub : VSub) (σ : D6.SSub) (vd vs : List VProp) : Prop where
  split : sub.props = vd ++ vs
  decl : All2 PropRel vd σ.props
  dist : distinct (srcs (vd ++ vs)) = true
  synth : ∀ p ∈ vs, ∀ a, p.2.2 a = .pass
  perm : vs ≠ [] → ∀ x, (D6.optB σ.addProps fun f => f x) = true
  pats : All2 PatRel sub.patProps σ.patProps
  addl : AddlRelP sub.addProps kw.addPropsB σ.addProps

theorem find_none_of_lookup_none {vd : List VProp} {sp : List SProp} (h : All2 PropRel vd sp) (k : String)
    (hn : (vd.find? fun p => p.1.src == k) = none) : D6.lookupProp sp k = none := by
  have := find_lookup h k
  rw [hn] at this
  generalize D6.lookupProp sp k = o at this
  cases this; rfl

theorem all_snd_map (l : List (String × D6.VF)) (y : JVal) :
    (l.all fun p => p.2 y) = ((l.map (·.2)).all fun g => g y) := by
  induction l with
  | nil => rfl
  | cons a l ih => simp only [List.all_cons, List.map_cons, ih]

theorem R_resolve_val {env : Env} {kw : Kw} {sub : VSub} {σ : D6.SSub} {vd vs : List VProp}
    (S : ObjSetup env kw sub σ vd vs) (k : String) (x : JVal) (hx : distinctKeys x = true) :
    R (resolveCall vAlg env kw sub k (.val x)).2 (D6.memberOk env σ k x) := by
  unfold resolveCall D6.memberOk
  rw [S.split, findDeclared_find _ _ S.dist, List.find?_append]
  have hp := matchingPats_rel (env := env) S.pats k
  generalize matchingPats env sub.patProps k = fs at hp
  generalize hgs : (σ.patProps.filter fun p => env.re p.1 k) = gps at hp
  have hpall : ∀ y, (gps.all fun p => p.2 y) = ((gps.map (·.2)).all fun g => g y) := by
    intro y; exact all_snd_map gps y
  have hpe : gps.isEmpty = (gps.map (·.2)).isEmpty := by cases gps <;> rfl
  simp only [hpall, hpe]
  generalize gps.map (·.2) = gs at hp
  have hlk := find_lookup S.decl k
  cases hvd : vd.find? (fun p => p.1.src == k) with
  | some p =>
    rw [hvd] at hlk
    cases hsp : D6.lookupProp σ.props k with
    | none => rw [hsp] at hlk; cases hlk
    | some g =>
      rw [hsp] at hlk
      cases hlk with
      | some hr =>
        simp only [Option.or_some, Option.map_some, D6.optB, Option.isNone_some, Bool.false_and,
          Bool.false_eq_true, if_false, Bool.and_true]
        cases hp with
        | nil => simpa using hr.1 x hx
        | @cons f g' fs' gs' hr1 ht =>
          have := R_allOfV (All2.cons hr (All2.cons hr1 ht)) (by simp) x hx
          simpa [vAlg] using this
  | none =>
    rw [hvd] at hlk
    have hsp : D6.lookupProp σ.props k = none := find_none_of_lookup_none S.decl k hvd
    simp only [hsp, Option.none_or, D6.optB, Option.isNone_none, Bool.true_and]
    cases hvs : vs.find? (fun p => p.1.src == k) with
    | some p =>
      have hmem : p ∈ vs := List.mem_of_find?_eq_some hvs
      have hpass := S.synth p hmem
      have hperm := S.perm (List.ne_nil_of_mem hmem) x
      simp only [D6.optB] at hperm
      simp only [Option.map_some]
      cases hp with
      | nil =>
        simp only [hpass, List.all_nil, List.isEmpty_nil, if_true, Bool.true_and]
        rw [hperm]
        exact R.pass
      | @cons f g' fs' gs' hr1 ht =>
        have hrp : RC p.2.2 (fun _ => true) := ⟨fun y _ => by rw [hpass]; exact R.pass, by rw [hpass]; simp⟩
        have := R_allOfV (All2.cons hrp (All2.cons hr1 ht)) (by simp) x hx
        simpa [vAlg] using this
    | none =>
      simp only [Option.map_none]
      cases hp with
      | nil =>
        simp only [List.all_nil, List.isEmpty_nil, if_true, Bool.true_and]
        exact (additionalPropCall_rel S.addl).1 x hx
      | @cons f g' fs' gs' hr1 ht =>
        cases ht with
        | nil => simpa using hr1.1 x hx
        | @cons f2 g2 fs2 gs2 hr2 ht2 =>
          have := R_allOfV (All2.cons hr1 (All2.cons hr2 ht2)) (by simp) x hx
          simpa [vAlg] using this

theorem resolve_np_ne_reject {env : Env} {kw : Kw} {sub : VSub} {σ : D6.SSub} {vd vs : List VProp}
    (S : ObjSetup env kw sub σ vd vs) (k : String) (hk : k ∈ srcs (vd ++ vs)) :
    (resolveCall vAlg env kw sub k .notPassed).2 ≠ .reject := by
  unfold resolveCall
  rw [S.split, findDeclared_find _ _ S.dist]
  obtain ⟨p, hp, hpk⟩ := List.mem_map.mp hk
  have hfind : ((vd ++ vs).find? fun p => p.1.src == k).isSome := by
    rw [List.find?_isSome]; exact ⟨p, hp, by simpa using hpk⟩
  cases hf : (vd ++ vs).find? (fun p => p.1.src == k) with
  | none => rw [hf] at hfind; cases hfind
  | some q =>
    simp only [Option.map_some]
    have hq : q ∈ vd ++ vs := List.mem_of_find?_eq_some hf
    cases matchingPats env sub.patProps k with
    | nil =>
      simp only
      rcases List.mem_append.mp hq with hq | hq
      · -- a declared property: its call on not-passed never rejects
        obtain ⟨sq, _, hrel⟩ := S.decl.exists_right hq
        exact hrel.rc.2
      · rw [S.synth q hq]; simp
    | cons f fs => simp [vAlg, allOfV_np]

/-! ### all members -/

theorem R_of_iff {a : V} {b : Bool} (h : a ≠ .crash → (a = .pass ↔ b = true)) : R a b := by
  cases a with
  | crash => exact R.crash _
  | pass => have := (h (by simp)).mp rfl; rw [this]; exact R.pass
  | reject =>
    cases b with
    | false => exact R.reject
    | true => have := (h (by simp)).mpr rfl; cases this

theorem srcs_sub {env : Env} {kw : Kw} {sub : VSub} {σ : D6.SSub} {vd vs : List VProp}
    (S : ObjSetup env kw sub σ vd vs) : sub.props.map (·.1.src) = srcs (vd ++ vs) := by
  rw [S.split]; rfl

theorem mem_visitKeys {sub : VSub} {kvs : List (String × JVal)} {k : String} :
    k ∈ visitKeys sub kvs ↔ k ∈ sub.props.map (·.1.src) ∨ k ∈ kvs.map (·.1) := by
  unfold visitKeys JVal.keys
  simp only [List.mem_append, mem_removeDups, List.mem_filter, Bool.not_eq_true', List.contains_eq_mem,
    decide_eq_false_iff_not]
  constructor
  · rintro (h | ⟨h, _⟩)
    · exact Or.inl h
    · exact Or.inr h
  · rintro (h | h)
    · exact Or.inl h
    · by_cases hk : k ∈ sub.props.map (·.1.src)
      · exact Or.inl hk
      · exact Or.inr ⟨h, hk⟩

theorem R_propsOuts {env : Env} {kw : Kw} {sub : VSub} {σ : D6.SSub} {vd vs : List VProp}
    (S : ObjSetup env kw sub σ vd vs) (kvs : List (String × JVal))
    (hdk : distinct (kvs.map (·.1)) = true) (hvals : ∀ kv ∈ kvs, distinctKeys kv.2 = true) :
    R (V.all (fun o => o.2) (propsOuts vAlg env kw sub kvs))
      (kvs.all fun kv => D6.memberOk env σ kv.1 kv.2) := by
  unfold propsOuts
  rw [V.all_map]
  apply R_of_iff
  intro hnc
  have hnc' : ∀ k ∈ visitKeys sub kvs, (resolveCall vAlg env kw sub k (argOf kvs k)).2 ≠ .crash := by
    intro k hk hc
    exact hnc (V.all_eq_crash.mpr ⟨k, hk, hc⟩)
  rw [V.all_eq_pass, List.all_eq_true]
  constructor
  · intro hall kv hkv
    obtain ⟨k, x⟩ := kv
    have hk : k ∈ visitKeys sub kvs := mem_visitKeys.mpr (Or.inr (List.mem_map.mpr ⟨(k, x), hkv, rfl⟩))
    have harg : argOf kvs k = .val x := by simp [argOf, lookup_of_mem hdk hkv]
    have hp := hall k hk
    rw [harg] at hp
    have hr := R_resolve_val S k x (hvals (k, x) hkv)
    rw [hp] at hr
    rcases hr with hr | hr
    · cases hr
    · exact V.ofBool_eq_pass.mp hr.symm
  · intro hall k hk
    have hncK := hnc' k hk
    by_cases hkv : k ∈ kvs.map (·.1)
    · obtain ⟨kv, hmem, rfl⟩ := List.mem_map.mp hkv
      obtain ⟨k, x⟩ := kv
      have harg : argOf kvs k = .val x := by simp [argOf, lookup_of_mem hdk hmem]
      rw [harg] at hncK ⊢
      have hr := R_resolve_val S k x (hvals (k, x) hmem)
      have hm := hall (k, x) hmem
      simp only at hm
      rw [hm] at hr
      exact hr.eq_of_ne_crash hncK
    · have harg : argOf kvs k = .notPassed := by simp [argOf, lookup_none hkv]
      rw [harg] at hncK ⊢
      have hsrc : k ∈ srcs (vd ++ vs) := by
        rw [← srcs_sub S]
        rcases mem_visitKeys.mp hk with h | h
        · exact h
        · exact absurd h hkv
      have hnr := resolve_np_ne_reject S k hsrc
      cases hv : (resolveCall vAlg env kw sub k .notPassed).2 with
      | pass => rfl
      | reject => exact absurd hv hnr
      | crash => exact absurd hv hncK

/-! ### propertyNames, dependencies -/

theorem R_propNames {sub : VSub} {σ : D6.SSub} (h : OptRel RC sub.propNames σ.propNames)
    (kvs : List (String × JVal)) :
    R (propNamesCheck id sub kvs) (D6.optB σ.propNames fun f => kvs.all fun kv => f (.str kv.1)) := by
  unfold propNamesCheck
  generalize sub.propNames = a at h
  generalize σ.propNames = b at h
  cases h with
  | none => exact R.pass
  | some hr => exact R.all fun kv _ => hr.1 (.str kv.1) (distinctKeys_str _)

def DepRel (p : Key × CallG V) (q : Key × D6.VF) : Prop := p.1 = q.1 ∧ RC p.2 q.2

def isNamesDep {α} (d : Key × α) : Bool := d.1.names.isSome

/-- the array-form half of `dependencies` (a Boolean) -/
def depNamesOk {α} (l : List (Key × α)) (ks : List String) : Bool :=
  l.all fun d => match d.1.names with
    | some ns => !ks.contains d.1.name || ns.all fun n => ks.contains n
    | none => true

def depNameOk {α} (ks : List String) (d : Key × α) : Bool :=
  match d.1.names with
  | some ns => !ks.contains d.1.name || ns.all fun n => ks.contains n
  | none => true

theorem depNamesOk_eq {α} (l : List (Key × α)) (ks : List String) :
    depNamesOk l ks = l.all (depNameOk ks) := rfl

theorem depNamesOf_all {ρ} (l : List (Key × CallG ρ)) (ks : List String) :
    ((l.filterMap fun d => d.1.names.map fun ns => (d.1.name, ns)).all
        fun d => !ks.contains d.1 || d.2.all fun n => ks.contains n) = l.all (depNameOk ks) := by
  induction l with
  | nil => rfl
  | cons d l ih =>
    cases hn : d.1.names with
    | none =>
      rw [List.filterMap_cons, hn, Option.map_none, ih, List.all_cons]
      simp only [depNameOk, hn, Bool.true_and]
    | some ns =>
      rw [List.filterMap_cons, hn, Option.map_some, List.all_cons, ih, List.all_cons]
      simp only [depNameOk, hn]

def depElemV (kvs : List (String × JVal)) (d : Key × CallG V) : V :=
  if d.1.names.isSome || !(JVal.keys kvs).contains d.1.name then .pass else d.2 (.val (.obj kvs))

def depSpec (kvs : List (String × JVal)) (d : Key × D6.VF) : Bool :=
  !(JVal.keys kvs).contains d.1.name ||
    match d.1.names with
    | some l => l.all fun n => (JVal.keys kvs).contains n
    | none => d.2 (.obj kvs)

theorem R_dep_one {p : Key × CallG V} {q : Key × D6.VF} (h : DepRel p q) (kvs : List (String × JVal))
    (hkvs : distinctKeys (.obj kvs) = true) :
    R ((V.ofBool (depNameOk (JVal.keys kvs) p)).and (depElemV kvs p)) (depSpec kvs q) := by
  obtain ⟨hk, hrc⟩ := h
  unfold depNameOk depElemV depSpec
  rw [← hk]
  cases hn : p.1.names with
  | some ns => simp only [Option.isSome_some, Bool.true_or, if_true, V.and_pass_right]; exact R.ofBool _
  | none =>
    simp only [Option.isSome_none, Bool.false_or, V.ofBool_true, V.and_pass_left]
    by_cases hc : (JVal.keys kvs).contains p.1.name = true
    · simp only [hc, Bool.not_true, Bool.false_eq_true, if_false, Bool.false_or]; exact hrc.1 _ hkvs
    · have hc' : (JVal.keys kvs).contains p.1.name = false := by simpa using hc
      simp only [hc', Bool.not_false, if_true, Bool.true_or]; exact R.pass

theorem all_filter_split {α} (f : α → Bool) (p : α → Bool) (l : List α) :
    (l.filter p ++ l.filter fun x => !p x).all f = l.all f := by
  induction l with
  | nil => rfl
  | cons a l ih =>
    by_cases h : p a = true
    · simp only [List.filter, h, Bool.not_true, List.cons_append, List.all_cons, ih]
    · have h' : p a = false := by simpa using h
      simp only [List.filter, h', Bool.not_false, List.all_append, List.all_cons] at ih ⊢
      rw [← ih]
      cases f a <;> cases (l.filter p).all f <;> simp

theorem R_deps {sub : VSub} {σ : D6.SSub} {l : List (Key × CallG V)}
    (hsplit : sub.deps = l.filter isNamesDep ++ l.filter fun d => !isNamesDep d)
    (hrel : All2 DepRel l σ.deps) (kvs : List (String × JVal)) (hkvs : distinctKeys (.obj kvs) = true) :
    R ((V.ofBool (sub.deps.all (depNameOk (JVal.keys kvs)))).and (depElemsCheck id sub kvs)) (D6.depsOk σ kvs) := by
  have he : depElemsCheck id sub kvs = V.all (depElemV kvs) sub.deps := rfl
  have hs : D6.depsOk σ kvs = σ.deps.all (depSpec kvs) := rfl
  rw [he, hs, hsplit, all_filter_split, V.all_filter_split, V.ofBool_all_and]
  apply R.all2
  clear hsplit he hs
  generalize σ.deps = sd at hrel
  induction hrel with
  | nil => exact All2.nil
  | cons hr _ ih => exact All2.cons (R_dep_one hr kvs hkvs) ih

/-! ### the whole object -/

theorem objChecks_eq (kw : Kw) (info : List (Key × Option JVal)) (dn : List (String × List String))
    (kvs : List (String × JVal)) (k : SKw) (hmin : kw.minProperties = k.minProperties)
    (hmax : kw.maxProperties = k.maxProperties) :
    objChecks kw info dn kvs =
      (V.ofBool ((requiredNames kw info).all fun n => (JVal.keys kvs).contains n)).and
        ((V.ofBool (D6.objSizeOk k kvs)).and
          (V.ofBool (dn.all fun d => !(JVal.keys kvs).contains d.1 || d.2.all fun n => (JVal.keys kvs).contains n))) := by
  unfold objChecks D6.objSizeOk
  simp only [Gen.MinProperties.fails, Gen.MaxProperties.fails, Num.not_lt, optCheck_ofBool, hmin, hmax,
    V.ofBool_and, Bool.and_assoc]

theorem R_object {env : Env} {kw : Kw} {k : SKw} {sub : VSub} {σ : D6.SSub} {vd vs : List VProp}
    {l : List (Key × CallG V)} (lenient : SKw → Bool) (kvs : List (String × JVal))
    (S : ObjSetup env kw sub σ vd vs)
    (hkvs : distinctKeys (.obj kvs) = true)
    (hmin : kw.minProperties = k.minProperties) (hmax : kw.maxProperties = k.maxProperties)
    (hreq : ((requiredNames kw (sub.props.map fun p => (p.1, p.2.1))).all fun n => (JVal.keys kvs).contains n) =
      D6.requiredOk (lenient k) k σ kvs)
    (hpn : OptRel RC sub.propNames σ.propNames)
    (hsplit : sub.deps = l.filter isNamesDep ++ l.filter fun d => !isNamesDep d)
    (hrel : All2 DepRel l σ.deps) :
    R (((objChecks kw (sub.props.map fun p => (p.1, p.2.1)) (depNamesOf sub) kvs).and
          ((propNamesCheck id sub kvs).and (depElemsCheck id sub kvs))).and
        (V.all (fun o => o.2) (propsOuts vAlg env kw sub kvs)))
      (D6.objSizeOk k kvs && D6.objectOk env lenient k σ kvs) := by
  rw [objChecks_eq kw _ _ kvs k hmin hmax, hreq]
  have hdn : ((depNamesOf sub).all fun d => !(JVal.keys kvs).contains d.1 || d.2.all fun n => (JVal.keys kvs).contains n) =
      sub.deps.all (depNameOk (JVal.keys kvs)) := depNamesOf_all sub.deps _
  rw [hdn]
  have hA : R (V.ofBool (D6.requiredOk (lenient k) k σ kvs)) (D6.requiredOk (lenient k) k σ kvs) := R.ofBool _
  have hB : R (V.ofBool (D6.objSizeOk k kvs)) (D6.objSizeOk k kvs) := R.ofBool _
  have hC := R_deps hsplit hrel kvs hkvs
  have hD := R_propNames hpn kvs
  have hE := R_propsOuts S kvs (distinctKeys_obj hkvs).1 (distinctKeys_obj hkvs).2
  have := R.and hA (R.and hB (R.and hC (R.and hD hE)))
  refine this.congr2 ?_ ?_
  · ac_rfl
  · unfold D6.objectOk; ac_rfl

end Statham
