/-
  `(e.call env a).verdict = e.acc env a`: the verdict-only semantics is exactly the verdict
  of the full call.
-/
import StathamModel.Acc
namespace Statham

open Res in
theorem verdict_guard (g : V) (r : Res) : (Res.guard g r).verdict = g.and r.verdict := by
  cases g <;> cases r <;> rfl

theorem verdict_trivialCall (a : Arg) : (trivialCall a).verdict = trivialV a := by
  cases a <;> rfl

theorem verdict_nothingCall (a : Arg) : (nothingCall a).verdict = nothingV a := by
  cases a <;> rfl

/-! ### attempt -/

theorem anyCrash_map (rs : List Res) : anyCrash rs = (rs.map Res.verdict).any isCrash := by
  induction rs with
  | nil => rfl
  | cons r rs ih =>
    simp only [anyCrash, List.any_cons, List.map_cons] at *
    rw [ih]; cases r <;> rfl

theorem anyReject_map (rs : List Res) : anyReject rs = (rs.map Res.verdict).any isReject := by
  induction rs with
  | nil => rfl
  | cons r rs ih =>
    simp only [anyReject, List.any_cons, List.map_cons] at *
    rw [ih]; cases r <;> rfl

theorem firstOk_isSome (rs : List Res) : (firstOk rs).isSome = (rs.map Res.verdict).any isPass := by
  induction rs with
  | nil => rfl
  | cons r rs ih =>
    cases r with
    | ok x => simp [firstOk, Res.verdict, isPass]
    | reject => simp [firstOk, Res.verdict, isPass, ih]
    | crash => simp [firstOk, Res.verdict, isPass, ih]

theorem countOk_map (rs : List Res) : countOk rs = ((rs.map Res.verdict).filter isPass).length := by
  induction rs with
  | nil => rfl
  | cons r rs ih =>
    simp only [countOk] at *
    cases r <;> simp [List.filter, Res.isOk, Res.verdict, isPass, ih]

theorem verdict_attempt (mode : Cls) (rs : List Res) :
    (attempt mode rs).verdict = attemptV mode (rs.map Res.verdict) := by
  unfold attempt attemptV
  rw [← anyCrash_map]
  cases hc : anyCrash rs
  · simp only [Bool.false_eq_true, if_false]
    rw [← firstOk_isSome]
    cases hf : firstOk rs with
    | none => simp [Res.verdict]
    | some r =>
      simp only [Option.isSome_some, Bool.not_true, Bool.false_eq_true, if_false]
      rw [← countOk_map, ← anyReject_map]
      cases mode
      case oneOf => by_cases h : countOk rs > 1 <;> simp [h, Res.verdict]
      case allOf => by_cases h : anyReject rs = true <;> simp [h, Res.verdict]
      all_goals rfl
  · simp [Res.verdict]

theorem verdict_allOfCall (fs : List Call) (a : Arg) :
    (allOfCall fs a).verdict = allOfV (fs.map fun f a => (f a).verdict) a := by
  cases a with
  | notPassed => rfl
  | val v =>
    simp only [allOfCall, allOfV, verdict_attempt, List.map_map]
    rfl

/-! ### collect -/

theorem collect_shape (rs : List Res) :
    collect rs = .crash ∨ collect rs = .reject ∨ ∃ xs, collect rs = .ok (.arr xs) := by
  induction rs with
  | nil => exact Or.inr (Or.inr ⟨[], rfl⟩)
  | cons r rs ih =>
    rcases ih with h | h | ⟨xs, h⟩ <;> cases r <;> simp [collect, h]

theorem verdict_collect (rs : List Res) : (collect rs).verdict = V.all id (rs.map Res.verdict) := by
  induction rs with
  | nil => rfl
  | cons r rs ih =>
    have hs := collect_shape rs
    simp only [V.all, List.map_cons, List.foldr_cons, id] at *
    rw [← ih]
    rcases hs with h | h | ⟨xs, h⟩ <;> cases r <;> simp [collect, h, Res.verdict, V.and]

theorem collectKV_shape (rs : List (String × Res)) :
    collectKV rs = .crash ∨ collectKV rs = .reject ∨ ∃ xs, collectKV rs = .ok (.anon xs) := by
  induction rs with
  | nil => exact Or.inr (Or.inr ⟨[], rfl⟩)
  | cons r rs ih =>
    obtain ⟨k, r⟩ := r
    rcases ih with h | h | ⟨xs, h⟩ <;> cases r <;> simp [collectKV, h]

theorem verdict_collectKV (rs : List (String × Res)) :
    (collectKV rs).verdict = V.all (fun o => o.2) (rs.map fun o => (o.1, o.2.verdict)) := by
  induction rs with
  | nil => rfl
  | cons r rs ih =>
    obtain ⟨k, r⟩ := r
    have hs := collectKV_shape rs
    simp only [V.all, List.map_cons, List.foldr_cons] at *
    rw [← ih]
    rcases hs with h | h | ⟨xs, h⟩ <;> cases r <;> simp [collectKV, h, Res.verdict, V.and]

/-! ### `SubG.map Res.verdict` commutes with the generic helpers -/

/-- post-compose a call with the verdict projection -/
def vd (f : Call) : CallG V := fun a => (f a).verdict

theorem map_items (sub : Sub) : (sub.map Res.verdict).items = sub.items.map vd := rfl
theorem map_elements (sub : Sub) : (sub.map Res.verdict).elements = sub.elements.map vd := rfl

theorem additionalItemCall_map (kw : Kw) (sub : Sub) (a : Arg) :
    (additionalItemCall resAlg kw sub a).verdict = additionalItemCall vAlg kw (sub.map Res.verdict) a := by
  unfold additionalItemCall
  simp only [SubG.map]
  cases h : sub.addItems with
  | none =>
    simp only [Option.map_none]
    cases kw.addItemsB
    · exact verdict_nothingCall a
    · exact verdict_trivialCall a
  | some p => rfl

theorem itemCall_map (kw : Kw) (sub : Sub) (idx : Nat) (a : Arg) :
    (itemCall resAlg kw sub idx a).verdict = itemCall vAlg kw (sub.map Res.verdict) idx a := by
  unfold itemCall
  cases kw.itemsKind with
  | none => exact verdict_trivialCall a
  | single =>
    simp only [map_items, List.head?_map]
    cases sub.items.head? with
    | none => exact verdict_trivialCall a
    | some f => rfl
  | tuple =>
    simp only [map_items, List.getElem?_map]
    cases sub.items[idx]? with
    | none => exact additionalItemCall_map kw sub a
    | some f => rfl

theorem itemsCallFrom_map (kw : Kw) (sub : Sub) (xs : List JVal) (idx : Nat) :
    (itemsCallFrom resAlg kw sub idx xs).map Res.verdict =
      itemsCallFrom vAlg kw (sub.map Res.verdict) idx xs := by
  induction xs generalizing idx with
  | nil => rfl
  | cons x xs ih =>
    simp only [itemsCallFrom, List.map_cons, ih, itemCall_map]

theorem additionalPropCall_map (kw : Kw) (sub : Sub) (a : Arg) :
    (additionalPropCall resAlg kw sub a).verdict = additionalPropCall vAlg kw (sub.map Res.verdict) a := by
  unfold additionalPropCall
  simp only [SubG.map]
  cases h : sub.addProps with
  | none =>
    simp only [Option.map_none]
    cases kw.addPropsB
    · exact verdict_nothingCall a
    · exact verdict_trivialCall a
  | some p => rfl

theorem findDeclared_map_aux (props : List (Key × Option JVal × Call)) (k : String)
    (acc : Option (Key × Call)) :
    (props.map fun p => (p.1, p.2.1, vd p.2.2)).foldl
        (fun acc p => if p.1.src == k then some (p.1, p.2.2) else acc) (acc.map fun q => (q.1, vd q.2)) =
      (props.foldl (fun acc p => if p.1.src == k then some (p.1, p.2.2) else acc) acc).map
        fun q => (q.1, vd q.2) := by
  induction props generalizing acc with
  | nil => rfl
  | cons p ps ih =>
    simp only [List.map_cons, List.foldl_cons]
    by_cases h : p.1.src == k
    · simp only [h, if_true]
      exact ih (some (p.1, p.2.2))
    · simp only [h]
      exact ih acc

theorem findDeclared_map (sub : Sub) (k : String) :
    findDeclared (sub.map Res.verdict).props k = (findDeclared sub.props k).map fun q => (q.1, vd q.2) := by
  unfold findDeclared
  exact findDeclared_map_aux sub.props k none

theorem matchingPats_map (env : Env) (sub : Sub) (k : String) :
    matchingPats env (sub.map Res.verdict).patProps k = (matchingPats env sub.patProps k).map vd := by
  unfold matchingPats
  simp only [SubG.map, List.filter_map, List.map_map]
  rfl

theorem resolveCall_map (env : Env) (kw : Kw) (sub : Sub) (k : String) (a : Arg) :
    ((resolveCall resAlg env kw sub k a).1, (resolveCall resAlg env kw sub k a).2.verdict) =
      resolveCall vAlg env kw (sub.map Res.verdict) k a := by
  unfold resolveCall
  simp only [findDeclared_map, matchingPats_map]
  cases findDeclared sub.props k with
  | none =>
    cases matchingPats env sub.patProps k with
    | nil => simp [additionalPropCall_map]
    | cons f fs =>
      cases fs with
      | nil => simp [vd]
      | cons g gs => simp [resAlg, vAlg, verdict_allOfCall]; rfl
  | some q =>
    obtain ⟨key, f⟩ := q
    cases matchingPats env sub.patProps k with
    | nil => simp [vd]
    | cons g gs => simp [resAlg, vAlg, verdict_allOfCall]; rfl

theorem visitKeys_map (sub : Sub) (kvs : List (String × JVal)) :
    visitKeys (sub.map Res.verdict) kvs = visitKeys sub kvs := by
  unfold visitKeys
  simp only [SubG.map, List.map_map]
  rfl

theorem propsOuts_map (env : Env) (kw : Kw) (sub : Sub) (kvs : List (String × JVal)) :
    (propsOuts resAlg env kw sub kvs).map (fun o => (o.1, o.2.verdict)) =
      propsOuts vAlg env kw (sub.map Res.verdict) kvs := by
  unfold propsOuts
  rw [visitKeys_map, List.map_map]
  apply List.map_congr_left
  intro k _
  exact resolveCall_map env kw sub k (argOf kvs k)

/-! ### validators, construct, create, callCore -/

theorem validators_map (env : Env) (c : Cls) (kw : Kw) (sub : Sub) (v : JVal) :
    validators Res.verdict env c kw sub v = validators id env c kw (sub.map Res.verdict) v := by
  unfold validators
  cases v with
  | arr xs =>
    simp only [additionalItemsCheck, containsCheck, SubG.map, List.length_map]
    cases sub.contains <;> cases sub.addItems <;> rfl
  | obj kvs =>
    have hA : additionalPropsCheck env c kw (sub.map Res.verdict) kvs = additionalPropsCheck env c kw sub kvs := by
      unfold additionalPropsCheck
      cases c <;> simp only [SubG.map, List.any_map, Function.comp_def] <;> cases sub.addProps <;> rfl
    dsimp only
    rw [hA]
    simp only [propNamesCheck, depElemsCheck, depNamesOf, SubG.map, List.map_map, List.filterMap_map]
    cases sub.propNames <;> simp [optCheck, V.all, List.foldr_map, Function.comp_def]
  | _ => rfl

theorem verdict_propsCall (env : Env) (kw : Kw) (sub : Sub) (kvs : List (String × JVal)) :
    (propsCall env kw sub kvs).verdict =
      V.all (fun o => o.2) (propsOuts vAlg env kw (sub.map Res.verdict) kvs) := by
  rw [← propsOuts_map, ← verdict_collectKV]
  unfold propsCall
  rcases collectKV_shape (propsOuts resAlg env kw sub kvs) with h | h | ⟨xs, h⟩ <;> simp [h, Res.verdict]

theorem verdict_itemsCall (kw : Kw) (sub : Sub) (xs : List JVal) :
    (itemsCall kw sub xs).verdict = V.all id (itemsCallFrom vAlg kw (sub.map Res.verdict) 0 xs) := by
  rw [← itemsCallFrom_map, ← verdict_collect]
  rfl

theorem verdict_construct (env : Env) (c : Cls) (kw : Kw) (sub : Sub) (v : JVal) :
    (construct env c kw sub v).verdict = constructV env c kw (sub.map Res.verdict) v := by
  have hel : ∀ (x : JVal), (sub.elements.map fun f => f (.val x)).map Res.verdict =
      (sub.map Res.verdict).elements.map fun f => f (.val x) := by
    intro x; simp [map_elements, List.map_map, vd, Function.comp_def]
  cases c with
  | not =>
    simp only [construct, constructV, map_elements]
    cases sub.elements with
    | nil => rfl
    | cons f fs =>
      cases fs with
      | nil =>
        simp only [List.map_cons, List.map_nil, vd]
        cases f (.val v) <;> rfl
      | cons g gs => rfl
  | anyOf => simp only [construct, constructV, verdict_attempt, hel]
  | oneOf => simp only [construct, constructV, verdict_attempt, hel]
  | allOf => simp only [construct, constructV, verdict_attempt, hel]
  | number =>
    simp only [construct, constructV]
    cases v with
    | num n => cases h : asDouble n <;> simp [h, Res.verdict]
    | _ => rfl
  | object name =>
    simp only [construct, constructV]
    cases v with
    | obj kvs =>
      simp only
      rw [← verdict_propsCall]
      rcases h : propsCall env kw sub kvs with r | _ | _
      · cases r <;> rfl
      · rfl
      · rfl
    | _ => rfl
  | element | nothing | boolean | integer | null | string | array =>
    simp only [construct, constructV]
    cases v with
    | arr xs => exact verdict_itemsCall kw sub xs
    | obj kvs => exact verdict_propsCall env kw sub kvs
    | _ => rfl

theorem verdict_create (env : Env) (c : Cls) (kw : Kw) (sub : Sub) (v : JVal) :
    (create env c kw sub v).verdict = createV env c kw (sub.map Res.verdict) v := by
  unfold create createV
  rw [verdict_guard, validators_map, verdict_construct]

theorem verdict_callCore (env : Env) (c : Cls) (kw : Kw) (sub : Sub) (a : Arg) :
    (callCore env c kw sub a).verdict = accCore env c kw (sub.map Res.verdict) a := by
  unfold callCore accCore
  cases a with
  | val v => exact verdict_create env c kw sub v
  | notPassed =>
    simp only
    cases kw.default with
    | none => rfl
    | some d =>
      simp only
      rw [← verdict_create]
      cases create env c kw sub d <;> rfl

/-! ### the element tree -/

mutual
theorem call_verdict (env : Env) : ∀ (e : Elem) (a : Arg), (e.call env a).verdict = e.acc env a
  | .mk c kw items addI cont props pats addP pn deps els, a => by
    rw [Elem.call, Elem.acc, verdict_callCore]
    congr 1
    simp only [SubG.map]
    rw [callList_vd env items, callList_vd env els, callOpt_vd env cont, callOpt_vd env addP,
      callOpt_vd env pn, callAddl_vd env addI, callProps_vd env props, callKeyed_vd env pats,
      callKeyed_vd env deps]
theorem callOpt_vd (env : Env) : ∀ (o : Option Elem),
    (callOpt env o).map (fun f a => (f a).verdict) = accOpt env o
  | none => by rw [callOpt, accOpt]; rfl
  | some e => by
    rw [callOpt, accOpt, Option.map_some]
    congr 1; funext a; exact call_verdict env e a
theorem callAddl_vd (env : Env) : ∀ (o : Option Elem),
    (callAddl env o).map (fun p => (p.1, fun a => (p.2 a).verdict)) = accAddl env o
  | none => by rw [callAddl, accAddl]; rfl
  | some e => by
    rw [callAddl, accAddl, Option.map_some]
    congr 2; funext a; exact call_verdict env e a
theorem callList_vd (env : Env) : ∀ (l : List Elem),
    (callList env l).map (fun f a => (f a).verdict) = accList env l
  | [] => by rw [callList, accList]; rfl
  | e :: es => by
    rw [callList, accList, List.map_cons, callList_vd env es]
    congr 1; funext a; exact call_verdict env e a
theorem callKeyed_vd (env : Env) : ∀ (l : List (Key × Elem)),
    (callKeyed env l).map (fun p => (p.1, fun a => (p.2 a).verdict)) = accKeyed env l
  | [] => by rw [callKeyed, accKeyed]; rfl
  | (k, e) :: r => by
    rw [callKeyed, accKeyed, List.map_cons, callKeyed_vd env r]
    congr 2; funext a; exact call_verdict env e a
theorem callProps_vd (env : Env) : ∀ (l : List (Key × Elem)),
    (callProps env l).map (fun p => (p.1, p.2.1, fun a => (p.2.2 a).verdict)) = accProps env l
  | [] => by rw [callProps, accProps]; rfl
  | (k, e) :: r => by
    rw [callProps, accProps, List.map_cons, callProps_vd env r]
    congr 3; funext a; exact call_verdict env e a
end

/-- the accepted/rejected verdict of the full call is the verdict-only semantics -/
theorem accepts_eq (env : Env) (e : Elem) (v : JVal) :
    e.accepts env v = (e.accV env v == .pass) := by
  unfold Elem.accepts Elem.accV
  rw [← call_verdict]
  cases e.call env (.val v) <;> rfl

end Statham
