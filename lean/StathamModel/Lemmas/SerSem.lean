/-
  `ser_ok` with the node equation read semantically: all the C03 meaning theorem needs of a node is that the element the
  parser would build from the node's own keywords and children *accepts the same values* as the node, not that it is the
  node.  `NFn` — the node equation up to the attribute names of properties (`forget`) — is a syntactic sufficient
  condition (`NFS_of_NFn`, by `acc_forget`), so the theorem covers trees written in the DSL whose properties are renamed
  freely.
-/
import StathamModel.Lemmas.SerOk
import StathamModel.Lemmas.AccNames
import StathamModel.Lemmas.ElemBeq
namespace Statham

def NFSnode (env : Env) (cx : PCtx) (e : Elem) : Prop :=
  (e.cls = .nothing → e = Elem.nothing) ∧
  (e.cls ≠ .nothing → (assembleK cx (nodeSKw e.cls e.kw e.props) (nodeKids e)).acc env = e.acc env)

mutual
/-- every node of the tree satisfies the node equation *on verdicts* -/
def NFS (env : Env) (cx : PCtx) : Elem → Prop
  | .mk c kw items addI cont props pats addP pn deps els =>
    NFSnode env cx (.mk c kw items addI cont props pats addP pn deps els) ∧
    NFSL env cx items ∧ NFSO env cx addI ∧ NFSO env cx cont ∧ NFSK env cx props ∧ NFSK env cx pats ∧ NFSO env cx addP ∧
    NFSO env cx pn ∧ NFSK env cx deps ∧ NFSL env cx els
def NFSO (env : Env) (cx : PCtx) : Option Elem → Prop
  | none => True
  | some e => NFS env cx e
def NFSL (env : Env) (cx : PCtx) : List Elem → Prop
  | [] => True
  | e :: es => NFS env cx e ∧ NFSL env cx es
def NFSK (env : Env) (cx : PCtx) : List (Key × Elem) → Prop
  | [] => True
  | (_, e) :: r => NFS env cx e ∧ NFSK env cx r
end

/-- the node equation up to attribute names -/
def NFnNode (cx : PCtx) (e : Elem) : Prop :=
  (e.cls = .nothing → e = Elem.nothing) ∧
  (e.cls ≠ .nothing → forget (assembleK cx (nodeSKw e.cls e.kw e.props) (nodeKids e)) = forget e)

mutual
def NFn (cx : PCtx) : Elem → Prop
  | .mk c kw items addI cont props pats addP pn deps els =>
    NFnNode cx (.mk c kw items addI cont props pats addP pn deps els) ∧
    NFnL cx items ∧ NFnO cx addI ∧ NFnO cx cont ∧ NFnK cx props ∧ NFnK cx pats ∧ NFnO cx addP ∧ NFnO cx pn ∧
    NFnK cx deps ∧ NFnL cx els
def NFnO (cx : PCtx) : Option Elem → Prop
  | none => True
  | some e => NFn cx e
def NFnL (cx : PCtx) : List Elem → Prop
  | [] => True
  | e :: es => NFn cx e ∧ NFnL cx es
def NFnK (cx : PCtx) : List (Key × Elem) → Prop
  | [] => True
  | (_, e) :: r => NFn cx e ∧ NFnK cx r
end

theorem NFSnode_of_NFnNode {env : Env} {cx : PCtx} {e : Elem} (h : NFnNode cx e) : NFSnode env cx e := by
  refine ⟨h.1, fun hc => ?_⟩
  rw [← acc_forget env (assembleK cx _ _), h.2 hc, acc_forget]

mutual
theorem NFS_of_NFn (env : Env) (cx : PCtx) : ∀ (e : Elem), NFn cx e → NFS env cx e
  | .mk c kw items addI cont props pats addP pn deps els, h => by
    rw [NFn] at h
    rw [NFS]
    exact ⟨NFSnode_of_NFnNode h.1, NFSL_of_NFnL env cx items h.2.1, NFSO_of_NFnO env cx addI h.2.2.1,
      NFSO_of_NFnO env cx cont h.2.2.2.1, NFSK_of_NFnK env cx props h.2.2.2.2.1, NFSK_of_NFnK env cx pats h.2.2.2.2.2.1,
      NFSO_of_NFnO env cx addP h.2.2.2.2.2.2.1, NFSO_of_NFnO env cx pn h.2.2.2.2.2.2.2.1,
      NFSK_of_NFnK env cx deps h.2.2.2.2.2.2.2.2.1, NFSL_of_NFnL env cx els h.2.2.2.2.2.2.2.2.2⟩
theorem NFSO_of_NFnO (env : Env) (cx : PCtx) : ∀ (o : Option Elem), NFnO cx o → NFSO env cx o
  | none, _ => by rw [NFSO]; trivial
  | some e, h => by rw [NFnO] at h; rw [NFSO]; exact NFS_of_NFn env cx e h
theorem NFSL_of_NFnL (env : Env) (cx : PCtx) : ∀ (l : List Elem), NFnL cx l → NFSL env cx l
  | [], _ => by rw [NFSL]; trivial
  | e :: es, h => by rw [NFnL] at h; rw [NFSL]; exact ⟨NFS_of_NFn env cx e h.1, NFSL_of_NFnL env cx es h.2⟩
theorem NFSK_of_NFnK (env : Env) (cx : PCtx) : ∀ (l : List (Key × Elem)), NFnK cx l → NFSK env cx l
  | [], _ => by rw [NFSK]; trivial
  | (k, e) :: r, h => by rw [NFnK] at h; rw [NFSK]; exact ⟨NFS_of_NFn env cx e h.1, NFSK_of_NFnK env cx r h.2⟩
end


theorem NFS_node {env : Env} {cx : PCtx} {e : Elem} (h : NFS env cx e) : NFSnode env cx e := by
  cases e with
  | mk c kw items addI cont props pats addP pn deps els => rw [NFS] at h; exact h.1

theorem addl_none_true (cx : PCtx) (o : Option Elem) (b : Bool)
    (h : parseAddl cx (addlSchema (tsOpt o) b) = (none, true)) : addlKid o b = (none, true) := by
  cases o with
  | none =>
    cases b
    · simp [addlSchema, tsOpt, parseAddl] at h
    · rfl
  | some a =>
    rw [tsOpt, addlSchema] at h
    by_cases hc : a.cls = .nothing
    · cases a with
      | mk c kw items addI cont props pats addP pn deps els =>
        simp only [Elem.cls] at hc
        subst hc
        rw [toSchema] at h
        simp [parseAddl] at h
    · rw [parseAddl_mk cx (toSchema_isMk hc)] at h
      simp at h

mutual
/-- **The serialized document means what the tree means**, with the node equation required on verdicts only -/
theorem ser_ok_sem (env : Env) (cx : PCtx) : ∀ (e : Elem), NFS env cx e → (flagsOf cx (toSchema e)).all = true →
    ERel env e (D6.valid env ℓ₀ (toSchema e))
  | .mk c kw items addI cont props pats addP pn deps els, h, hg => by
    rw [NFS] at h
    obtain ⟨hn, hi, hai, hco, hp, hpp, hap, hpn, hd, he⟩ := h
    by_cases hc : c = .nothing
    · rw [hn.1 hc, toSchema_nothing, D6.valid]
      exact RC_nothing env
    · rw [toSchema_mk hc] at hg ⊢
      obtain ⟨h0, h1, h2, h3, h4, h5, h6, h7, h8, h9, h10, h11, h12⟩ := good_mk hg
      rw [D6.valid]
      have addl : ∀ (o : Option Elem) (b : Bool),
          (∀ a, o = some a → ERel env a (D6.valid env ℓ₀ (toSchema a))) →
          AddlK env (addlKid o b) (D6.vOpt env ℓ₀ (addlSchema (tsOpt o) b)) := by
        intro o b ha
        cases o with
        | none =>
          cases b
          · simp only [addlSchema, tsOpt, addlKid, Bool.false_eq_true, if_false]
            rw [D6.vOpt, D6.valid]
            exact AddlK.lit false
          · simp only [addlSchema, tsOpt, addlKid, if_true]
            rw [D6.vOpt]
            exact AddlK.absent
        | some a =>
          rw [tsOpt, addlSchema, D6.vOpt]
          exact AddlK.elem (ha a rfl)
      have K : KidsRel env (nodeKids (.mk c kw items addI cont props pats addP pn deps els))
          (ssubOf env (tsList items) (addlSchema (tsOpt addI) kw.addItemsB) (tsOpt cont) (tsProps props) (tsPats pats)
            (addlSchema (tsOpt addP) kw.addPropsB) (tsOpt pn) (tsDeps deps) (membersFor c .anyOf (tsList els))
            (membersFor c .oneOf (tsList els)) (membersFor c .allOf (tsList els)) (notFor c (tsList els))) :=
        { items := semList_ok env cx items hi h1
          addItems := addl addI kw.addItemsB (fun a ha => by
            subst ha
            rw [tsOpt, addlSchema, flagsOpt] at h2
            rw [NFSO] at hai
            exact ser_ok_sem env cx a hai h2)
          contains := semOpt_ok env cx cont hco h3
          props := semProps_ok env cx props hp h4
          patProps := semPats_ok env cx pats hpp h5
          addProps := addl addP kw.addPropsB (fun a ha => by
            subst ha
            rw [tsOpt, addlSchema, flagsOpt] at h6
            rw [NFSO] at hap
            exact ser_ok_sem env cx a hap h6)
          propNames := semOpt_ok env cx pn hpn h7
          deps := semDeps_ok env cx deps hd h8
          anyOf := by
            show All2 (ERel env) (membersFor c .anyOf els) (D6.vList env ℓ₀ (membersFor c .anyOf (tsList els)))
            unfold membersFor at h9 ⊢
            split
            · rename_i hm; rw [if_pos hm] at h9; exact semList_ok env cx els he h9
            · rw [D6.vList]; exact All2.nil
          oneOf := by
            show All2 (ERel env) (membersFor c .oneOf els) (D6.vList env ℓ₀ (membersFor c .oneOf (tsList els)))
            unfold membersFor at h10 ⊢
            split
            · rename_i hm; rw [if_pos hm] at h10; exact semList_ok env cx els he h10
            · rw [D6.vList]; exact All2.nil
          allOf := by
            show All2 (ERel env) (membersFor c .allOf els) (D6.vList env ℓ₀ (membersFor c .allOf (tsList els)))
            unfold membersFor at h11 ⊢
            split
            · rename_i hm; rw [if_pos hm] at h11; exact semList_ok env cx els he h11
            · rw [D6.vList]; exact All2.nil
          not := by
            show OptRel (ERel env) (notFor c els) (D6.vOpt env ℓ₀ (notFor c (tsList els)))
            unfold notFor at h12 ⊢
            split
            · rename_i hm; rw [if_pos hm] at h12; exact semHead_ok env cx els he h12
            · rw [D6.vOpt]; exact OptRel.none }
      -- the node conditions, read off the flags with the parser's view of `additionalProperties`, then carried over
      obtain ⟨N', hwf, hany, hone, hall⟩ := nodeOK_of_flags (env := env)
        ({ nodeKids (.mk c kw items addI cont props pats addP pn deps els) with
            addProps := parseAddl cx (addlSchema (tsOpt addP) kw.addPropsB) } : Kids)
        (ssubOf env (tsList items) (addlSchema (tsOpt addI) kw.addItemsB) (tsOpt cont) (tsProps props) (tsPats pats)
            (addlSchema (tsOpt addP) kw.addPropsB) (tsOpt pn) (tsDeps deps) (membersFor c .anyOf (tsList els))
            (membersFor c .oneOf (tsList els)) (membersFor c .allOf (tsList els)) (notFor c (tsList els))) h0
        (vList_length env ℓ₀ (tsList items)) (tsProps_names props).symm rfl
      have N : NodeOK cx (nodeSKw c kw props) (nodeKids (.mk c kw items addI cont props pats addP pn deps els))
          (ssubOf env (tsList items) (addlSchema (tsOpt addI) kw.addItemsB) (tsOpt cont) (tsProps props) (tsPats pats)
            (addlSchema (tsOpt addP) kw.addPropsB) (tsOpt pn) (tsDeps deps) (membersFor c .anyOf (tsList els))
            (membersFor c .oneOf (tsList els)) (membersFor c .allOf (tsList els)) (notFor c (tsList els))) :=
        { lit := N'.lit, mul := N'.mul, items := N'.items, propNames := N'.propNames, req := N'.req, inj := N'.inj,
          synth := fun ho => (N'.synth ho).imp (fun h => addl_none_true cx addP kw.addPropsB h) id,
          nonempty := N'.nonempty }
      have := RC_assembleK K N hwf
        (by rw [hany]; exact congrArg (!·) (membersFor_isEmpty c .anyOf els))
        (by rw [hone]; exact congrArg (!·) (membersFor_isEmpty c .oneOf els))
        (by rw [hall]; exact congrArg (!·) (membersFor_isEmpty c .allOf els))
      have heq := hn.2 hc
      simp only [Elem.cls, Elem.kw, Elem.props] at heq
      unfold ERel
      rw [← heq]
      exact this
theorem semOpt_ok (env : Env) (cx : PCtx) : ∀ (o : Option Elem), NFSO env cx o → (flagsOpt cx (tsOpt o)).all = true →
    OptRel (ERel env) o (D6.vOpt env ℓ₀ (tsOpt o))
  | none, _, _ => by rw [tsOpt, D6.vOpt]; exact OptRel.none
  | some e, h, hg => by
    rw [NFSO] at h
    rw [tsOpt, flagsOpt] at hg
    rw [tsOpt, D6.vOpt]
    exact OptRel.some (ser_ok_sem env cx e h hg)
theorem semHead_ok (env : Env) (cx : PCtx) : ∀ (l : List Elem), NFSL env cx l → (flagsOpt cx (tsList l).head?).all = true →
    OptRel (ERel env) l.head? (D6.vOpt env ℓ₀ (tsList l).head?)
  | [], _, _ => by rw [tsList]; simp only [List.head?_nil]; rw [D6.vOpt]; exact OptRel.none
  | e :: es, h, hg => by
    rw [NFSL] at h
    rw [tsList] at hg ⊢
    simp only [List.head?_cons] at hg ⊢
    rw [flagsOpt] at hg
    rw [D6.vOpt]
    exact OptRel.some (ser_ok_sem env cx e h.1 hg)
theorem semList_ok (env : Env) (cx : PCtx) : ∀ (l : List Elem), NFSL env cx l → (flagsList cx (tsList l)).all = true →
    All2 (ERel env) l (D6.vList env ℓ₀ (tsList l))
  | [], _, _ => by rw [tsList, D6.vList]; exact All2.nil
  | e :: es, h, hg => by
    rw [NFSL] at h
    rw [tsList] at hg ⊢
    rw [flagsList, Flags.all_and, Bool.and_eq_true] at hg
    rw [D6.vList]
    exact All2.cons (ser_ok_sem env cx e h.1 hg.1) (semList_ok env cx es h.2 hg.2)
theorem semProps_ok (env : Env) (cx : PCtx) : ∀ (l : List (Key × Elem)), NFSK env cx l → (flagsNamed cx (tsProps l)).all = true →
    All2 (fun (a : String × Elem) (b : String × Bool × D6.VF) =>
        a.1 = b.1 ∧ ERel env a.2 b.2.2 ∧ b.2.1 = a.2.kw.default.isSome)
      (l.map fun p => (p.1.src, p.2)) (D6.vProps env ℓ₀ (tsProps l))
  | [], _, _ => by rw [tsProps, D6.vProps]; exact All2.nil
  | (k, e) :: r, h, hg => by
    rw [NFSK] at h
    rw [tsProps] at hg ⊢
    rw [flagsNamed, Flags.all_and, Bool.and_eq_true] at hg
    rw [D6.vProps]
    exact All2.cons ⟨rfl, ser_ok_sem env cx e h.1 hg.1, declaresDefault_ts e (NFS_node h.1).1⟩ (semProps_ok env cx r h.2 hg.2)
theorem semPats_ok (env : Env) (cx : PCtx) : ∀ (l : List (Key × Elem)), NFSK env cx l → (flagsNamed cx (tsPats l)).all = true →
    All2 (fun (a : String × Elem) (b : String × D6.VF) => a.1 = b.1 ∧ ERel env a.2 b.2)
      (l.map fun p => (p.1.name, p.2)) (D6.vNamed env ℓ₀ (tsPats l))
  | [], _, _ => by rw [tsPats, D6.vNamed]; exact All2.nil
  | (k, e) :: r, h, hg => by
    rw [NFSK] at h
    rw [tsPats] at hg ⊢
    rw [flagsNamed, Flags.all_and, Bool.and_eq_true] at hg
    rw [D6.vNamed]
    exact All2.cons ⟨rfl, ser_ok_sem env cx e h.1 hg.1⟩ (semPats_ok env cx r h.2 hg.2)
theorem semDeps_ok (env : Env) (cx : PCtx) : ∀ (l : List (Key × Elem)), NFSK env cx l → (flagsDeps cx (tsDeps l)).all = true →
    All2 (fun (a : Key × Elem) (b : Key × D6.VF) => a.1 = b.1 ∧ ERel env a.2 b.2) l (D6.vDeps env ℓ₀ (tsDeps l))
  | [], _, _ => by rw [tsDeps, D6.vDeps]; exact All2.nil
  | (k, e) :: r, h, hg => by
    rw [NFSK] at h
    rw [tsDeps] at hg ⊢
    rw [flagsDeps, Flags.all_and, Bool.and_eq_true] at hg
    rw [D6.vDeps]
    exact All2.cons ⟨rfl, ser_ok_sem env cx e h.1 hg.1⟩ (semDeps_ok env cx r h.2 hg.2)
end

/-- the meaning theorem for trees in normal form up to attribute names -/
theorem ser_ok_names (env : Env) (cx : PCtx) (e : Elem) (h : NFn cx e) (hg : (flagsOf cx (toSchema e)).all = true) :
    ERel env e (D6.valid env ℓ₀ (toSchema e)) :=
  ser_ok_sem env cx e (NFS_of_NFn env cx e h) hg


/-! ### the executable reading of `NFn`, sound -/

def nfnNodeBool (cx : PCtx) (e : Elem) : Bool :=
  if e.cls = .nothing then Elem.same e Elem.nothing
  else Elem.same (forget (assembleK cx (nodeSKw e.cls e.kw e.props) (nodeKids e))) (forget e)

theorem nfnNodeBool_sound (cx : PCtx) (e : Elem) (h : nfnNodeBool cx e = true) : NFnNode cx e := by
  unfold nfnNodeBool at h
  refine ⟨fun hc => ?_, fun hc => ?_⟩
  · rw [if_pos hc] at h; exact Elem.same_sound _ _ h
  · rw [if_neg hc] at h; exact Elem.same_sound _ _ h

mutual
def nfnBool (cx : PCtx) : Elem → Bool
  | .mk c kw items addI cont props pats addP pn deps els =>
    nfnNodeBool cx (.mk c kw items addI cont props pats addP pn deps els) &&
    nfnBoolL cx items && nfnBoolO cx addI && nfnBoolO cx cont && nfnBoolK cx props && nfnBoolK cx pats && nfnBoolO cx addP &&
    nfnBoolO cx pn && nfnBoolK cx deps && nfnBoolL cx els
def nfnBoolO (cx : PCtx) : Option Elem → Bool
  | none => true
  | some e => nfnBool cx e
def nfnBoolL (cx : PCtx) : List Elem → Bool
  | [] => true
  | e :: es => nfnBool cx e && nfnBoolL cx es
def nfnBoolK (cx : PCtx) : List (Key × Elem) → Bool
  | [] => true
  | (_, e) :: r => nfnBool cx e && nfnBoolK cx r
end

mutual
theorem nfnBool_sound (cx : PCtx) : ∀ (e : Elem), nfnBool cx e = true → NFn cx e
  | .mk c kw items addI cont props pats addP pn deps els, h => by
    rw [nfnBool] at h
    simp only [Bool.and_eq_true] at h
    obtain ⟨⟨⟨⟨⟨⟨⟨⟨⟨h0, h1⟩, h2⟩, h3⟩, h4⟩, h5⟩, h6⟩, h7⟩, h8⟩, h9⟩ := h
    rw [NFn]
    exact ⟨nfnNodeBool_sound cx _ h0, nfnBoolL_sound cx items h1, nfnBoolO_sound cx addI h2, nfnBoolO_sound cx cont h3,
      nfnBoolK_sound cx props h4, nfnBoolK_sound cx pats h5, nfnBoolO_sound cx addP h6, nfnBoolO_sound cx pn h7,
      nfnBoolK_sound cx deps h8, nfnBoolL_sound cx els h9⟩
theorem nfnBoolO_sound (cx : PCtx) : ∀ (o : Option Elem), nfnBoolO cx o = true → NFnO cx o
  | none, _ => by rw [NFnO]; trivial
  | some e, h => by rw [nfnBoolO] at h; rw [NFnO]; exact nfnBool_sound cx e h
theorem nfnBoolL_sound (cx : PCtx) : ∀ (l : List Elem), nfnBoolL cx l = true → NFnL cx l
  | [], _ => by rw [NFnL]; trivial
  | e :: es, h => by
    rw [nfnBoolL, Bool.and_eq_true] at h
    rw [NFnL]
    exact ⟨nfnBool_sound cx e h.1, nfnBoolL_sound cx es h.2⟩
theorem nfnBoolK_sound (cx : PCtx) : ∀ (l : List (Key × Elem)), nfnBoolK cx l = true → NFnK cx l
  | [], _ => by rw [NFnK]; trivial
  | (k, e) :: r, h => by
    rw [nfnBoolK, Bool.and_eq_true] at h
    rw [NFnK]
    exact ⟨nfnBool_sound cx e h.1, nfnBoolK_sound cx r h.2⟩
end

end Statham
