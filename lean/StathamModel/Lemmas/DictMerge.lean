/-
  Algebra of Python dict insertion (`dictSet`) and dict merge (`{**a, **b}` = `dictMerge`), order included.
-/
import StathamModel.Inherit
import StathamModel.Lemmas.Results
namespace Statham


/-! dictSet algebra -/
theorem dictSet_dictSet_same {α} (d : List (String × α)) (k : String) (v v' : α) :
    dictSet (dictSet d k v) k v' = dictSet d k v' := by
  induction d with
  | nil => simp [dictSet]
  | cons p r ih =>
    obtain ⟨k', w⟩ := p
    by_cases e : k = k'
    · simp [dictSet, e]
    · simp [dictSet, e, ih]

def hasKey {α} (d : List (String × α)) (k : String) : Bool := (dictGet? d k).isSome

theorem hasKey_dictSet_self {α} (d : List (String × α)) (k : String) (v : α) : hasKey (dictSet d k v) k = true := by
  induction d with
  | nil => simp [dictSet, hasKey, dictGet?]
  | cons p r ih =>
    obtain ⟨k', w⟩ := p
    by_cases e : k = k'
    · simp [dictSet, hasKey, dictGet?, e]
    · simp only [hasKey] at ih; simp [dictSet, hasKey, dictGet?, e, ih]

theorem hasKey_dictSet_of {α} (d : List (String × α)) (k k' : String) (v : α) (h : hasKey d k = true) :
    hasKey (dictSet d k' v) k = true := by
  induction d with
  | nil => simp [hasKey, dictGet?] at h
  | cons p r ih =>
    obtain ⟨k0, w⟩ := p
    by_cases e : k' = k0
    · by_cases e2 : k = k0
      · simp [dictSet, hasKey, dictGet?, e, e2]
      · simp only [hasKey, dictGet?, e2, if_false] at h; simp [dictSet, hasKey, dictGet?, e, e2, h]
    · by_cases e2 : k = k0
      · simp [dictSet, hasKey, dictGet?, e, e2]
      · simp only [hasKey, dictGet?, e2, if_false] at h
        simp only [hasKey] at ih
        simp [dictSet, hasKey, dictGet?, e, e2, ih h]

/-- setting a key that is already present commutes with setting another key -/
theorem dictSet_comm_of_hasKey {α} (d : List (String × α)) (k k' : String) (v v' : α) (hne : k ≠ k')
    (h : hasKey d k = true) : dictSet (dictSet d k' v') k v = dictSet (dictSet d k v) k' v' := by
  induction d with
  | nil => simp [hasKey, dictGet?] at h
  | cons p r ih =>
    obtain ⟨k0, w⟩ := p
    by_cases e : k = k0
    · subst e
      have : ¬ k' = k := fun x => hne x.symm
      simp [dictSet, this]
    · simp only [hasKey, dictGet?, e, if_false] at h
      by_cases e2 : k' = k0
      · subst e2; simp [dictSet, e]
      · simp only [hasKey] at ih
        simp [dictSet, e, e2, ih h]

theorem dictMerge_nil {α} (a : List (String × α)) : dictMerge a [] = a := rfl
theorem dictMerge_cons {α} (a : List (String × α)) (kv : String × α) (b : List (String × α)) :
    dictMerge a (kv :: b) = dictMerge (dictSet a kv.1 kv.2) b := rfl

theorem hasKey_dictMerge_left {α} (a b : List (String × α)) (k : String) (h : hasKey a k = true) :
    hasKey (dictMerge a b) k = true := by
  induction b generalizing a with
  | nil => exact h
  | cons kv r ih => rw [dictMerge_cons]; exact ih _ (hasKey_dictSet_of a k kv.1 kv.2 h)

/-- a Python dict has each key once -/
def keysDistinct {α} : List (String × α) → Prop
  | [] => True
  | p :: r => (∀ q ∈ r, q.1 ≠ p.1) ∧ keysDistinct r

theorem mem_dictSet {α} (d : List (String × α)) (k : String) (v : α) (q : String × α) (h : q ∈ dictSet d k v) :
    q = (k, v) ∨ q ∈ d := by
  induction d with
  | nil => simp [dictSet] at h; exact Or.inl h
  | cons p r ih =>
    obtain ⟨k0, w⟩ := p
    by_cases e : k = k0
    · simp only [dictSet, e, if_true, List.mem_cons] at h
      rcases h with h | h
      · exact Or.inl (by rw [h, e])
      · exact Or.inr (List.mem_cons_of_mem _ h)
    · simp only [dictSet, e, if_false, List.mem_cons] at h
      rcases h with h | h
      · exact Or.inr (by rw [h]; exact List.mem_cons_self ..)
      · rcases ih h with h | h
        · exact Or.inl h
        · exact Or.inr (List.mem_cons_of_mem _ h)

theorem keysDistinct_dictSet {α} (d : List (String × α)) (k : String) (v : α) (h : keysDistinct d) :
    keysDistinct (dictSet d k v) := by
  induction d with
  | nil => exact ⟨by simp, trivial⟩
  | cons p r ih =>
    obtain ⟨k0, w⟩ := p
    by_cases e : k = k0
    · subst e; simpa [dictSet, keysDistinct] using h
    · simp only [dictSet, e, if_false]
      refine ⟨fun q hq => ?_, ih h.2⟩
      rcases mem_dictSet r k v q hq with rfl | hq
      · exact e
      · exact h.1 q hq

/-- overwriting a present key commutes with merging keys that are all different from it -/
theorem dictSet_dictMerge_of_hasKey {α} (x r : List (String × α)) (k : String) (v : α)
    (hk : hasKey x k = true) (hr : ∀ q ∈ r, q.1 ≠ k) :
    dictSet (dictMerge x r) k v = dictMerge (dictSet x k v) r := by
  induction r generalizing x with
  | nil => rfl
  | cons kv r ih =>
    rw [dictMerge_cons, dictMerge_cons]
    have hne : k ≠ kv.1 := fun e => hr kv (List.mem_cons_self ..) e.symm
    rw [ih _ (hasKey_dictSet_of x k kv.1 kv.2 hk) (fun q hq => hr q (List.mem_cons_of_mem _ hq))]
    rw [dictSet_comm_of_hasKey x k kv.1 v kv.2 hne hk]

theorem dictMerge_dictSet {α} (a b : List (String × α)) (k : String) (v : α) (hb : keysDistinct b) :
    dictMerge a (dictSet b k v) = dictSet (dictMerge a b) k v := by
  induction b generalizing a with
  | nil => rfl
  | cons p r ih =>
    obtain ⟨k0, w⟩ := p
    by_cases e : k = k0
    · subst e
      simp only [dictSet, if_true, dictMerge_cons]
      rw [dictSet_dictMerge_of_hasKey _ r k v (hasKey_dictSet_self a k w) (fun q hq => hb.1 q hq), dictSet_dictSet_same]
    · simp only [dictSet, e, if_false, dictMerge_cons]
      exact ih _ hb.2

/-- `{**{**a, **b}, **c} == {**a, **{**b, **c}}`, order included -/
theorem dictMerge_assoc {α} (a b c : List (String × α)) (hb : keysDistinct b) :
    dictMerge (dictMerge a b) c = dictMerge a (dictMerge b c) := by
  induction c generalizing b with
  | nil => rfl
  | cons kv c ih =>
    rw [dictMerge_cons, dictMerge_cons, ← ih _ (keysDistinct_dictSet b kv.1 kv.2 hb), dictMerge_dictSet a b kv.1 kv.2 hb]

theorem keysDistinct_dictMerge {α} (a b : List (String × α)) (h : keysDistinct a) : keysDistinct (dictMerge a b) := by
  induction b generalizing a with
  | nil => exact h
  | cons kv r ih => rw [dictMerge_cons]; exact ih _ (keysDistinct_dictSet a kv.1 kv.2 h)


theorem mem_dictMerge {α} (a b : List (String × α)) (q : String × α) (h : q ∈ dictMerge a b) : q ∈ a ∨ q ∈ b := by
  induction b generalizing a with
  | nil => exact Or.inl h
  | cons kv r ih =>
    rw [dictMerge_cons] at h
    rcases ih _ h with h | h
    · rcases mem_dictSet a kv.1 kv.2 q h with rfl | h
      · exact Or.inr (List.mem_cons_self ..)
      · exact Or.inl h
    · exact Or.inr (List.mem_cons_of_mem _ h)

theorem dictGet?_mem {α} (d : List (String × α)) (k : String) (v : α) (h : dictGet? d k = some v) : (k, v) ∈ d := by
  induction d with
  | nil => simp [dictGet?] at h
  | cons p r ih =>
    obtain ⟨k0, w⟩ := p
    by_cases e : k = k0
    · simp only [dictGet?, e, if_true, Option.some.injEq] at h
      rw [e, h]; exact List.mem_cons_self ..
    · simp only [dictGet?, e, if_false] at h
      exact List.mem_cons_of_mem _ (ih h)

theorem dictGet?_none_of_keys {α} (d : List (String × α)) (k : String) (h : ∀ q ∈ d, q.1 ≠ k) : dictGet? d k = none := by
  induction d with
  | nil => rfl
  | cons p r ih =>
    obtain ⟨k0, w⟩ := p
    have : ¬ k = k0 := fun e => h (k0, w) (List.mem_cons_self ..) e.symm
    simp only [dictGet?, this, if_false]
    exact ih fun q hq => h q (List.mem_cons_of_mem _ hq)

/-- a name the right-hand dict does not have keeps the left-hand value -/
theorem dictGet?_dictMerge_left {α} (a b : List (String × α)) (k : String) (h : dictGet? b k = none) :
    dictGet? (dictMerge a b) k = dictGet? a k := by
  induction b generalizing a with
  | nil => rfl
  | cons kv r ih =>
    rw [dictMerge_cons]
    by_cases e : k = kv.1
    · simp [dictGet?, e] at h
    · simp only [dictGet?, e, if_false] at h
      rw [ih _ h, dictSet_get_ne _ _ _ _ e]

/-- a name the right-hand dict has takes its value -/
theorem dictGet?_dictMerge_right {α} (a b : List (String × α)) (k : String) (v : α) (hb : keysDistinct b)
    (h : dictGet? b k = some v) : dictGet? (dictMerge a b) k = some v := by
  induction b generalizing a with
  | nil => simp [dictGet?] at h
  | cons kv r ih =>
    rw [dictMerge_cons]
    by_cases e : k = kv.1
    · simp only [dictGet?, e, if_true, Option.some.injEq] at h
      rw [e, dictGet?_dictMerge_left _ r kv.1 (dictGet?_none_of_keys r kv.1 hb.1), dictSet_get, h]
    · simp only [dictGet?, e, if_false] at h
      exact ih _ hb.2 h

end Statham
