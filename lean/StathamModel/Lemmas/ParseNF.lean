/-
  The parser lands in its own normal form: `NF cx (parseE cx s)` for schemas whose nodes meet `nfNode`
  (metaschema-shaped, clean literals, no collapsing names, no empty `required`/`properties`, class titles
  that format to themselves).  Together with `parse_toSchema` this closes the C06 fixpoint without a
  hypothesis on the parsed tree.

  Structure: one "node equation" lemma per shape the parser can build (`rt_…`), each a computation with the
  generated signatures, then the assembly (`nf_base`, `nf_assembleK`) and the induction over schemas.
-/
import StathamModel.Lemmas.SerOk
namespace Statham

/-- the node equation of `NFnode`, as a predicate -/
def RT (cx : PCtx) (e : Elem) : Prop := assembleK cx (nodeSKw e.cls e.kw e.props) (nodeKids e) = e

/-- literals of a keyword record survive `_parse_literal` -/
def Kw.litFix (kw : Kw) : Prop :=
  kw.default.map parseLiteral = kw.default ∧ kw.const.map parseLiteral = kw.const ∧
  kw.enum.map (fun l => l.map parseLiteral) = kw.enum

theorem litFix_baseKw {k : SKw} (p : Parts) {d : Option JVal} (h : litCleanNode k = true)
    (hd : d.map parseLiteral = d) : (baseKw k p d).litFix := by
  unfold litCleanNode at h
  simp only [Bool.and_eq_true] at h
  obtain ⟨⟨h1, h2⟩, _⟩ := h
  refine ⟨hd, ?_, ?_⟩
  · simp only [baseKw]
    cases hc : k.const with
    | none => rfl
    | some c =>
      have : litClean c = true := by simpa [optAll, hc] using h1
      simp [parseLiteral_clean c this]
  · simp only [baseKw]
    cases he : k.enum with
    | none => rfl
    | some l =>
      have : l.all litClean = true := by simpa [optAll, he] using h2
      simp [map_parseLiteral_clean l this]

theorem default_fix {k : SKw} (h : litCleanNode k = true) :
    (k.default.map parseLiteral).map parseLiteral = k.default.map parseLiteral := by
  unfold litCleanNode at h
  simp only [Bool.and_eq_true] at h
  cases hd : k.default with
  | none => rfl
  | some c =>
    have : litClean c = true := by simpa [optAll, hd] using h.2
    simp [parseLiteral_clean c this]

/-! ### typed leaves -/

theorem rt_string (cx : PCtx) (k : SKw) (p : Parts) (d : Option JVal) (hl : (baseKw k p d).litFix) :
    RT cx (mkElem .string (Gen.Param.names Gen.sigString) (baseKw k p d) p) := by
  obtain ⟨h1, h2, h3⟩ := hl
  simp only [baseKw] at h1 h2 h3
  simp [RT, mkElem, filterKw, keep, Gen.sigString, Gen.Param.names, baseKw, assembleK, assemble, hasComposition, nodeSKw,
    nodeKids, notFor, membersFor, Elem.cls, Elem.kw, Elem.props, Elem.items, Elem.addItems, Elem.contains, Elem.patProps,
    Elem.addProps, Elem.propNames, Elem.deps, addlKid, partsOf, assembleBase, typeSpecOf, typeNameOf, Gen.jsonTypeMapping,
    List.lookup, mkTyped, typedLeaf, Gen.parserTypeMapping, isObjectClass, h1, h2, h3]

theorem rt_integer (cx : PCtx) (k : SKw) (p : Parts) (d : Option JVal) (hl : (baseKw k p d).litFix) :
    RT cx (mkElem .integer (Gen.Param.names Gen.sigNumeric) (baseKw k p d) p) := by
  obtain ⟨h1, h2, h3⟩ := hl
  simp only [baseKw] at h1 h2 h3
  simp [RT, mkElem, filterKw, keep, Gen.sigNumeric, Gen.Param.names, baseKw, assembleK, assemble, hasComposition, nodeSKw,
    nodeKids, notFor, membersFor, Elem.cls, Elem.kw, Elem.props, Elem.items, Elem.addItems, Elem.contains, Elem.patProps,
    Elem.addProps, Elem.propNames, Elem.deps, addlKid, partsOf, assembleBase, typeSpecOf, typeNameOf, Gen.jsonTypeMapping,
    List.lookup, mkTyped, typedLeaf, Gen.parserTypeMapping, isObjectClass, h1, h2, h3]

theorem rt_number (cx : PCtx) (k : SKw) (p : Parts) (d : Option JVal) (hl : (baseKw k p d).litFix) :
    RT cx (mkElem .number (Gen.Param.names Gen.sigNumeric) (baseKw k p d) p) := by
  obtain ⟨h1, h2, h3⟩ := hl
  simp only [baseKw] at h1 h2 h3
  simp [RT, mkElem, filterKw, keep, Gen.sigNumeric, Gen.Param.names, baseKw, assembleK, assemble, hasComposition, nodeSKw,
    nodeKids, notFor, membersFor, Elem.cls, Elem.kw, Elem.props, Elem.items, Elem.addItems, Elem.contains, Elem.patProps,
    Elem.addProps, Elem.propNames, Elem.deps, addlKid, partsOf, assembleBase, typeSpecOf, typeNameOf, Gen.jsonTypeMapping,
    List.lookup, mkTyped, typedLeaf, Gen.parserTypeMapping, isObjectClass, h1, h2, h3]

theorem rt_boolean (cx : PCtx) (k : SKw) (p : Parts) (d : Option JVal) (hl : (baseKw k p d).litFix) :
    RT cx (mkElem .boolean (Gen.Param.names Gen.sigBoolean) (baseKw k p d) p) := by
  obtain ⟨h1, h2, h3⟩ := hl
  simp only [baseKw] at h1 h2 h3
  simp [RT, mkElem, filterKw, keep, Gen.sigBoolean, Gen.Param.names, baseKw, assembleK, assemble, hasComposition, nodeSKw,
    nodeKids, notFor, membersFor, Elem.cls, Elem.kw, Elem.props, Elem.items, Elem.addItems, Elem.contains, Elem.patProps,
    Elem.addProps, Elem.propNames, Elem.deps, addlKid, partsOf, assembleBase, typeSpecOf, typeNameOf, Gen.jsonTypeMapping,
    List.lookup, mkTyped, typedLeaf, Gen.parserTypeMapping, isObjectClass, h1, h2, h3]

theorem rt_null (cx : PCtx) (k : SKw) (p : Parts) (d : Option JVal) (hl : (baseKw k p d).litFix) :
    RT cx (mkElem .null (Gen.Param.names Gen.sigNull) (baseKw k p d) p) := by
  obtain ⟨h1, h2, h3⟩ := hl
  simp only [baseKw] at h1 h2 h3
  simp [RT, mkElem, filterKw, keep, Gen.sigNull, Gen.Param.names, baseKw, assembleK, assemble, hasComposition, nodeSKw,
    nodeKids, notFor, membersFor, Elem.cls, Elem.kw, Elem.props, Elem.items, Elem.addItems, Elem.contains, Elem.patProps,
    Elem.addProps, Elem.propNames, Elem.deps, addlKid, partsOf, assembleBase, typeSpecOf, typeNameOf, Gen.jsonTypeMapping,
    List.lookup, mkTyped, typedLeaf, Gen.parserTypeMapping, isObjectClass, h1, h2, h3]


/-! ### list facts -/

theorem orderDeps_idem (l : List (Key × Elem)) : orderDeps (orderDeps l) = orderDeps l := by
  unfold orderDeps
  simp only [List.filter_append, List.filter_filter]
  have h1 : (l.filter fun d => d.1.names.isSome && d.1.names.isSome) = l.filter fun d => d.1.names.isSome := by
    congr 1; funext d; simp
  have h2 : (l.filter fun d => d.1.names.isNone && d.1.names.isSome) = [] := by
    apply List.filter_eq_nil_iff.mpr
    intro d _
    cases d.1.names <;> simp
  have h3 : (l.filter fun d => d.1.names.isSome && d.1.names.isNone) = [] := by
    apply List.filter_eq_nil_iff.mpr
    intro d _
    cases d.1.names <;> simp
  have h4 : (l.filter fun d => d.1.names.isNone && d.1.names.isNone) = l.filter fun d => d.1.names.isNone := by
    congr 1; funext d; simp
  simp [h1, h2, h3, h4]

/-- when every required-flagged property is already named by the explicit list, merging adds nothing -/
theorem mergedRequired_explicit (kw : Kw) (props : List (Key × JVal))
    (h : ∀ p ∈ props, p.1.required = true → (kw.required.getD []).contains p.1.src = true) :
    mergedRequired kw props = kw.required.getD [] := by
  unfold mergedRequired
  simp only
  suffices hs : ∀ (l : List String), (∀ n ∈ l, (kw.required.getD []).contains n = true) →
      l.foldl (fun acc n => if (kw.required.getD []).contains n || acc.contains n then acc else acc ++ [n]) [] = [] by
    rw [hs]
    · simp
    · intro n hn
      obtain ⟨p, hp, rfl⟩ := List.mem_map.mp hn
      have hp' := List.mem_filter.mp hp
      exact h p hp'.1 hp'.2
  intro l
  induction l with
  | nil => intro _; rfl
  | cons x xs ih =>
    intro hx
    simp only [List.foldl_cons, hx x (List.mem_cons_self ..), Bool.true_or, if_true]
    exact ih fun n hn => hx n (List.mem_cons_of_mem _ hn)

/-- the conditions on one schema node under which the parser's result is in normal form -/
structure NodeNF (cx : PCtx) (k : SKw) (kids : Kids) : Prop where
  lit : litCleanNode k = true
  reqNe : k.required ≠ some []
  hasProps : k.hasProps = !kids.props.isEmpty
  names : distinct (kids.props.map (·.1)) = true
  inj : InjOn cx (kids.props.map (·.1) ++ k.required.getD [])
  nonempty : ∀ n ∈ kids.props.map (·.1) ++ k.required.getD [], n ≠ ""
  reqD : distinct (k.required.getD []) = true
  addI : kids.addItems.1.isSome = true → kids.addItems.2 = true
  addP : kids.addProps.1.isSome = true → kids.addProps.2 = true

theorem addlKid_eta (x : Option Elem × Bool) (h : x.1.isSome = true → x.2 = true) : addlKid x.1 x.2 = x := by
  obtain ⟨a, b⟩ := x
  cases a with
  | none => rfl
  | some e =>
    have hb : b = true := h rfl
    subst hb
    rfl

theorem map_src_mkKey (cx : PCtx) (req : List String) (l : List (String × Elem)) (h : ∀ n ∈ l.map (·.1), n ≠ "") :
    (l.map fun kv => (mkKey cx req kv.1, kv.2)).map (fun p => (p.1.src, p.2)) = l := by
  induction l with
  | nil => rfl
  | cons kv r ih =>
    simp only [List.map_cons]
    rw [src_mkKey cx req kv.1 (h kv.1 (by simp))]
    rw [ih fun n hn => h n (by simp only [List.map_cons, List.mem_cons]; exact Or.inr hn)]

theorem map_pat_name (l : List (String × Elem)) :
    (l.map fun kv => (({ name := kv.1 } : Key), kv.2)).map (fun p => (p.1.name, p.2)) = l := by
  induction l with
  | nil => rfl
  | cons kv r ih => simp only [List.map_cons, ih]

/-- the declared properties of an untyped / array / typed node under `NodeNF` -/
theorem props_of_nodeNF {cx : PCtx} {k : SKw} {kids : Kids} (N : NodeNF cx k kids) :
    buildProps cx (k.required.getD []) kids.props = kids.props.map fun kv => (mkKey cx (k.required.getD []) kv.1, kv.2) :=
  buildProps_map cx _ _ N.names fun a ha b hb => N.inj a (List.mem_append_left _ ha) b (List.mem_append_left _ hb)

theorem emittedRequired_untyped {cx : PCtx} {k : SKw} {kids : Kids} (N : NodeNF cx k kids) (kw : Kw)
    (hr : kw.required = k.required) :
    emittedRequired kw (kids.props.map fun kv => (mkKey cx (k.required.getD []) kv.1, kv.2)) = k.required := by
  unfold emittedRequired
  have hm : mergedRequired kw ((kids.props.map fun kv => (mkKey cx (k.required.getD []) kv.1, kv.2)).map fun p => (p.1, JVal.null)) =
      kw.required.getD [] := by
    apply mergedRequired_explicit
    intro p hp hreq
    simp only [List.map_map, List.mem_map, Function.comp_apply] at hp
    obtain ⟨kv, hkv, rfl⟩ := hp
    simp only [mkKey] at hreq ⊢
    rw [hr]
    have hne : kv.1 ≠ "" := N.nonempty kv.1 (List.mem_append_left _ (List.mem_map.mpr ⟨kv, hkv, rfl⟩))
    simpa [Key.src, hne] using hreq
  simp only [hm, ite_self, hr]
  cases hk : k.required with
  | none => rfl
  | some l =>
    cases l with
    | nil => exact absurd hk N.reqNe
    | cons x xs => rfl

/-- what the parser reads back from the keywords the serializer wrote -/
theorem baseKw_nodeSKw (c : Cls) (kw : Kw) (props : List (Key × Elem)) (p' : Parts) (d : Option JVal) (hl : kw.litFix) :
    baseKw (nodeSKw c kw props) p' d =
      { kw with default := d, addItemsB := p'.addItemsB, addPropsB := p'.addPropsB,
                required := emittedRequired kw props, hasProps := kw.hasProps && !props.isEmpty } := by
  obtain ⟨_, h2, h3⟩ := hl
  cases hu : kw.uniqueItems <;> simp [baseKw, nodeSKw, h2, h3, hu]

theorem nodeSKw_flags (c : Cls) (kw : Kw) (props : List (Key × Elem)) :
    (nodeSKw c kw props).hasAnyOf = (c == .anyOf) ∧ (nodeSKw c kw props).hasOneOf = (c == .oneOf) ∧
    (nodeSKw c kw props).hasAllOf = (c == .allOf) ∧ (nodeSKw c kw props).default = kw.default ∧
    (nodeSKw c kw props).required = emittedRequired kw props ∧ (nodeSKw c kw props).type = typeSpecOf c := ⟨rfl, rfl, rfl, rfl, rfl, rfl⟩

/-! ### untyped schema objects -/

theorem rt_untyped (cx : PCtx) (k : SKw) (kids : Kids) (d : Option JVal) (N : NodeNF cx k kids)
    (hd : d.map parseLiteral = d) :
    RT cx (mkElem .element (Gen.Param.names Gen.sigElement) (baseKw k (partsOf cx k kids) d) (partsOf cx k kids)) := by
  rw [mkElem_element]
  have hl := litFix_baseKw (partsOf cx k kids) N.lit hd
  have hp := props_of_nodeNF N
  have her := emittedRequired_untyped N (baseKw k (partsOf cx k kids) d) rfl
  have ha := addlKid_eta kids.addItems N.addI
  have hb := addlKid_eta kids.addProps N.addP
  generalize hkw : baseKw k (partsOf cx k kids) d = kw at hl her
  have f1 : kw.default = d := by rw [← hkw]; rfl
  have f2 : kw.addItemsB = kids.addItems.2 := by rw [← hkw]; rfl
  have f3 : kw.addPropsB = kids.addProps.2 := by rw [← hkw]; rfl
  have f4 : kw.hasProps = k.hasProps := by rw [← hkw]; rfl
  have f5 : kw.required = k.required := by rw [← hkw]; rfl
  unfold RT
  simp only [Elem.cls, Elem.kw, Elem.props, nodeKids, Elem.items, Elem.addItems, Elem.contains, Elem.patProps, Elem.addProps,
    Elem.propNames, Elem.deps, Elem.elements, partsOf, hp] at her ⊢
  rw [map_src_mkKey cx _ _ (fun n hn => N.nonempty n (List.mem_append_left _ hn)), map_pat_name, f2, f3, ha, hb]
  unfold assembleK assemble
  have hcomp : hasComposition (nodeSKw Cls.element kw
      (List.map (fun kv => (mkKey cx (k.required.getD []) kv.fst, kv.snd)) kids.props))
      (notFor Cls.element ([] : List Elem)) = false := by
    simp [hasComposition, nodeSKw, notFor]
  simp only [hcomp, Bool.false_eq_true, if_false]
  unfold assembleBase
  simp only [(nodeSKw_flags _ _ _).2.2.2.2.2, (nodeSKw_flags _ _ _).2.2.2.1, f1, hd]
  have hty : typeSpecOf Cls.element = TypeSpec.none := by decide
  simp only [hty]
  rw [mkElem_element, baseKw_nodeSKw _ _ _ _ _ hl]
  simp only [partsOf, (nodeSKw_flags _ _ _).2.2.2.2.1, her, hp, orderDeps_idem, membersFor]
  have hhp : (kw.hasProps && !(List.map (fun kv => (mkKey cx (k.required.getD []) kv.fst, kv.snd)) kids.props).isEmpty) = kw.hasProps := by
    rw [f4, N.hasProps]
    cases kids.props <;> simp
  congr 1
  rw [hhp]
  cases kw
  simp_all


/-! ### arrays -/

theorem arrKw_litFix {kw : Kw} (ik : ItemsKind) (h : kw.litFix) : (arrKw kw ik).litFix := h

/-- an `Array` node whose keywords are array keywords only -/
theorem rt_array (cx : PCtx) (kw : Kw) (ik : ItemsKind) (items : List Elem) (addI : Option Elem × Bool) (cont : Option Elem)
    (hl : kw.litFix) (hik : ik ≠ .none) (hb : kw.addItemsB = addI.2) (hw : addI.1.isSome = true → addI.2 = true) :
    RT cx (.mk .array (arrKw kw ik) items addI.1 cont [] [] none none [] []) := by
  unfold RT
  simp only [Elem.cls, Elem.kw, Elem.props, nodeKids, Elem.items, Elem.addItems, Elem.contains, Elem.patProps, Elem.addProps,
    Elem.propNames, Elem.deps, Elem.elements]
  have hab : (arrKw kw ik).addItemsB = addI.2 := hb
  rw [hab, addlKid_eta addI hw]
  unfold assembleK assemble
  have hcomp : hasComposition (nodeSKw Cls.array (arrKw kw ik) []) (notFor Cls.array ([] : List Elem)) = false := by
    simp [hasComposition, nodeSKw, notFor]
  simp only [hcomp, Bool.false_eq_true, if_false]
  unfold assembleBase
  have hty : typeSpecOf Cls.array = TypeSpec.single "array" := by decide
  simp only [(nodeSKw_flags _ _ _).2.2.2.2.2, (nodeSKw_flags _ _ _).2.2.2.1, hty]
  have hdef : ((arrKw kw ik).default).map parseLiteral = kw.default := hl.1
  rw [hdef]
  unfold mkTyped
  have h1 : ("array" == "object") = false := by decide
  simp only [h1, Bool.false_eq_true, if_false, beq_self_eq_true, if_true]
  rw [baseKw_nodeSKw _ _ _ _ _ (arrKw_litFix ik hl)]
  rw [mkArray_some]
  · simp only [partsOf, arrKw, addlKid, membersFor, List.map_nil]
    cases hik' : ik <;> simp_all
  · simpa [arrKw] using hik

theorem arrKw_baseKw_addItemsB (k : SKw) (p : Parts) (d : Option JVal) : (baseKw k p d).addItemsB = p.addItemsB := rfl


/-! ### object classes -/

/-- the keywords `_parse_object` keeps -/
def objKw (kw : Kw) : Kw :=
  { default := kw.default, const := kw.const, enum := kw.enum, hasProps := true,
    hasPatProps := kw.hasPatProps, addPropsB := kw.addPropsB, minProperties := kw.minProperties,
    maxProperties := kw.maxProperties, hasDeps := kw.hasDeps, description := kw.description }

theorem mkObject_objKw (cx : PCtx) (k : SKw) (kw : Kw) (p : Parts) :
    mkObject cx k kw p =
      .mk (.object (className k)) (objKw kw) [] none none (withSynthetic cx (k.required.getD []) p.props) p.patProps
        p.addProps p.propNames p.deps [] := mkObject_eq cx k kw p

/-- declared names that are required, then the undeclared required names: the `required` list the serializer writes for
    a class -/
def classRequired (req : List String) (ps : List (String × Elem)) : List String :=
  (ps.map (·.1)).filter (fun n => req.contains n) ++ synthNames req ps

/-- the property table of a class, as pairs of JSON name and element -/
def classPairs (req : List String) (ps : List (String × Elem)) : List (String × Elem) :=
  ps ++ (synthNames req ps).map fun n => (n, Elem.trivial)

theorem foldl_dedupe_distinct (explicit l : List String) (hd : distinct l = true) (he : ∀ n ∈ l, explicit.contains n = false) :
    ∀ (acc : List String), (∀ n ∈ l, n ∉ acc) →
      l.foldl (fun acc n => if explicit.contains n || acc.contains n then acc else acc ++ [n]) acc = acc ++ l := by
  induction l with
  | nil => intro acc _; simp
  | cons x xs ih =>
    intro acc h
    simp only [distinct_cons] at hd
    have hx : acc.contains x = false := by simpa using h x (List.mem_cons_self ..)
    simp only [List.foldl_cons, he x (List.mem_cons_self ..), Bool.false_or, hx, Bool.false_eq_true, if_false]
    rw [ih hd.2 (fun n hn => he n (List.mem_cons_of_mem _ hn))]
    · simp
    · intro n hn hmem
      rcases List.mem_append.mp hmem with hm | hm
      · exact h n (List.mem_cons_of_mem _ hn) hm
      · simp only [List.mem_singleton] at hm
        subst hm
        exact hd.1 hn

theorem mem_synthNames' {req : List String} {ps : List (String × Elem)} {n : String} :
    n ∈ synthNames req ps ↔ n ∈ req ∧ n ∉ ps.map (·.1) := by
  unfold synthNames
  simp [List.mem_filter]

theorem distinct_classRequired {req : List String} {ps : List (String × Elem)}
    (hn : distinct (ps.map (·.1)) = true) (hr : distinct req = true) : distinct (classRequired req ps) = true := by
  unfold classRequired
  apply distinct_append (distinct_filter _ hn) (distinct_filter _ hr)
  intro x hx hy
  exact (mem_synthNames'.mp hy).2 (List.mem_filter.mp hx).1


/-- the class's property table: declared properties, then the synthetic required ones -/
def classProps (cx : PCtx) (req : List String) (ps : List (String × Elem)) : List (Key × Elem) :=
  (ps.map fun kv => (mkKey cx req kv.1, kv.2)) ++ (synthNames req ps).map fun n => (synthKey cx n, Elem.trivial)

theorem classPairs_names (req : List String) (ps : List (String × Elem)) :
    (classPairs req ps).map (·.1) = ps.map (·.1) ++ synthNames req ps := by
  simp [classPairs, List.map_map, Function.comp_def]

theorem classProps_srcs (cx : PCtx) (req : List String) (ps : List (String × Elem))
    (hne : ∀ n ∈ ps.map (·.1) ++ req, n ≠ "") :
    (classProps cx req ps).map (fun p => (p.1.src, p.2)) = classPairs req ps := by
  unfold classProps classPairs
  rw [List.map_append, map_src_mkKey cx req ps (fun n hn => hne n (List.mem_append_left _ hn))]
  congr 1
  rw [List.map_map]
  apply List.map_congr_left
  intro n hn
  simp only [Function.comp_apply]
  rw [src_synthKey cx n (hne n (List.mem_append_right _ (mem_synthNames'.mp hn).1))]

theorem contains_classRequired_declared {req : List String} {ps : List (String × Elem)} {n : String}
    (hn : n ∈ ps.map (·.1)) : (classRequired req ps).contains n = req.contains n := by
  unfold classRequired
  apply Bool.eq_iff_iff.mpr
  simp only [List.contains_eq_mem, List.mem_append, List.mem_filter, decide_eq_true_eq]
  constructor
  · rintro (⟨_, h⟩ | h)
    · exact h
    · exact absurd hn (mem_synthNames'.mp h).2
  · intro h
    exact Or.inl ⟨hn, h⟩

theorem contains_classRequired_synth {req : List String} {ps : List (String × Elem)} {n : String}
    (hn : n ∈ synthNames req ps) : (classRequired req ps).contains n = true := by
  unfold classRequired
  simp only [List.contains_eq_mem, List.mem_append, decide_eq_true_eq]
  exact Or.inr hn

/-- re-deriving the keys from the written `required` list gives the same table -/
theorem classPairs_mkKey (cx : PCtx) (req : List String) (ps : List (String × Elem)) :
    (classPairs req ps).map (fun kv => (mkKey cx (classRequired req ps) kv.1, kv.2)) = classProps cx req ps := by
  unfold classPairs classProps
  rw [List.map_append]
  congr 1
  · apply List.map_congr_left
    intro kv hkv
    simp only [mkKey, contains_classRequired_declared (List.mem_map.mpr ⟨kv, hkv, rfl⟩)]
  · rw [List.map_map]
    apply List.map_congr_left
    intro n hn
    simp only [Function.comp_apply, mkKey, synthKey, contains_classRequired_synth hn]

theorem classRequired_sub {req : List String} {ps : List (String × Elem)} {n : String} (h : n ∈ classRequired req ps) :
    n ∈ (classPairs req ps).map (·.1) := by
  rw [classPairs_names]
  unfold classRequired at h
  rcases List.mem_append.mp h with h | h
  · exact List.mem_append_left _ (List.mem_filter.mp h).1
  · exact List.mem_append_right _ h

theorem classRequired_sub_req {req : List String} {ps : List (String × Elem)} {n : String} (h : n ∈ classRequired req ps) :
    n ∈ ps.map (·.1) ++ req := by
  unfold classRequired at h
  rcases List.mem_append.mp h with h | h
  · exact List.mem_append_left _ (List.mem_filter.mp h).1
  · exact List.mem_append_right _ (mem_synthNames'.mp h).1

theorem distinct_classPairs {req : List String} {ps : List (String × Elem)}
    (hn : distinct (ps.map (·.1)) = true) (hr : distinct req = true) : distinct ((classPairs req ps).map (·.1)) = true := by
  rw [classPairs_names]
  apply distinct_append hn (distinct_filter _ hr)
  intro x hx hy
  exact (mem_synthNames'.mp hy).2 hx

theorem classPairs_sub {req : List String} {ps : List (String × Elem)} {n : String} (h : n ∈ (classPairs req ps).map (·.1)) :
    n ∈ ps.map (·.1) ++ req := by
  rw [classPairs_names] at h
  rcases List.mem_append.mp h with h | h
  · exact List.mem_append_left _ h
  · exact List.mem_append_right _ (mem_synthNames'.mp h).1

/-- parsing the written class again: the same property table, and nothing further to synthesise -/
theorem class_rebuild (cx : PCtx) (req : List String) (ps : List (String × Elem))
    (hn : distinct (ps.map (·.1)) = true) (hr : distinct req = true) (hinj : InjOn cx (ps.map (·.1) ++ req)) :
    withSynthetic cx (classRequired req ps) (buildProps cx (classRequired req ps) (classPairs req ps)) = classProps cx req ps := by
  have hinj' : InjOn cx ((classPairs req ps).map (·.1)) := fun a ha b hb => hinj a (classPairs_sub ha) b (classPairs_sub hb)
  rw [buildProps_map cx _ _ (distinct_classPairs hn hr) hinj']
  rw [withSynthetic_eq cx _ _ (distinct_classRequired hn hr)]
  · have hnil : synthNames (classRequired req ps) (classPairs req ps) = [] := by
      unfold synthNames
      apply List.filter_eq_nil_iff.mpr
      intro n hn'
      simpa using classRequired_sub hn'
    rw [hnil, List.map_nil, List.append_nil, classPairs_mkKey]
  · intro a ha b hb
    apply hinj a _ b _
    · rcases List.mem_append.mp ha with h | h
      · exact classPairs_sub h
      · exact classRequired_sub_req h
    · rcases List.mem_append.mp hb with h | h
      · exact classPairs_sub h
      · exact classRequired_sub_req h

theorem flagged_null (l : List (Key × Elem)) :
    ((l.map fun p => (p.1, JVal.null)).filter fun p => p.1.required).map (fun p => p.1.src) =
      (l.filter fun p => p.1.required).map (fun p => p.1.src) := by
  induction l with
  | nil => rfl
  | cons p r ih =>
    simp only [List.map_cons, List.filter_cons]
    cases hp : p.1.required
    · simpa using ih
    · simp only [if_true, List.map_cons, ih]

theorem flagged_declared (cx : PCtx) (req : List String) (ps : List (String × Elem)) (hne : ∀ n ∈ ps.map (·.1), n ≠ "") :
    ((ps.map fun kv => (mkKey cx req kv.1, kv.2)).filter fun p => p.1.required).map (fun p => p.1.src) =
      (ps.map (·.1)).filter (fun n => req.contains n) := by
  induction ps with
  | nil => rfl
  | cons kv r ih =>
    have hr := ih fun n hn => hne n (by simp only [List.map_cons, List.mem_cons]; exact Or.inr hn)
    have hne' : kv.1 ≠ "" := hne kv.1 (by simp)
    simp only [List.map_cons, List.filter_cons]
    have hreq : (mkKey cx req kv.1).required = req.contains kv.1 := rfl
    rw [hreq]
    cases hc : req.contains kv.1
    · simpa using hr
    · simp only [if_true, List.map_cons, hr, src_mkKey cx req kv.1 hne']

theorem flagged_synth (cx : PCtx) (l : List String) (hne : ∀ n ∈ l, n ≠ "") :
    ((l.map fun n => (synthKey cx n, Elem.trivial)).filter fun p => p.1.required).map (fun p => p.1.src) = l := by
  induction l with
  | nil => rfl
  | cons x xs ih =>
    have hr := ih fun n hn => hne n (List.mem_cons_of_mem _ hn)
    simp only [List.map_cons, List.filter_cons]
    have hreq : (synthKey cx x).required = true := rfl
    rw [hreq]
    simp only [if_true, List.map_cons, hr, src_synthKey cx x (hne x (List.mem_cons_self ..))]

/-- the `required` list the serializer writes for a class -/
theorem mergedRequired_class (cx : PCtx) (kw : Kw) (req : List String) (ps : List (String × Elem)) (hk : kw.required = none)
    (hn : distinct (ps.map (·.1)) = true) (hr : distinct req = true) (hne : ∀ n ∈ ps.map (·.1) ++ req, n ≠ "") :
    mergedRequired kw ((classProps cx req ps).map fun p => (p.1, JVal.null)) = classRequired req ps := by
  unfold mergedRequired
  simp only [hk, Option.getD_none, List.nil_append]
  have hsrc : (((classProps cx req ps).map fun p => (p.1, JVal.null)).filter fun p => p.1.required).map (fun p => p.1.src) =
      classRequired req ps := by
    rw [flagged_null]
    unfold classProps classRequired
    rw [List.filter_append, List.map_append, flagged_declared cx req ps (fun n hn' => hne n (List.mem_append_left _ hn')),
      flagged_synth cx _ (fun n hn' => hne n (List.mem_append_right _ (mem_synthNames'.mp hn').1))]
  rw [hsrc]
  have := foldl_dedupe_distinct [] (classRequired req ps) (distinct_classRequired hn hr) (fun _ _ => rfl) [] (fun _ _ => by simp)
  simpa using this


theorem emitted_class (cx : PCtx) (kw : Kw) (req : List String) (ps : List (String × Elem)) (hk : kw.required = none)
    (hh : kw.hasProps = true)
    (hn : distinct (ps.map (·.1)) = true) (hr : distinct req = true) (hne : ∀ n ∈ ps.map (·.1) ++ req, n ≠ "") :
    (emittedRequired kw (classProps cx req ps)).getD [] = classRequired req ps := by
  unfold emittedRequired
  simp only [hh, Bool.true_and, mergedRequired_class cx kw req ps hk hn hr hne, hk, Option.getD_none]
  cases hc : (classProps cx req ps).isEmpty
  · simp only [Bool.not_false, if_true]
    cases hl : (classRequired req ps).isEmpty
    · simp
    · simp only [if_true, Option.getD_none]
      exact (List.isEmpty_iff.mp hl).symm
  · simp only [Bool.not_true, Bool.false_eq_true, if_false, List.isEmpty_nil, if_true, Option.getD_none]
    have hnil : classProps cx req ps = [] := List.isEmpty_iff.mp hc
    unfold classProps at hnil
    have h1 := List.append_eq_nil_iff.mp hnil
    have hps : ps = [] := List.map_eq_nil_iff.mp h1.1
    have hsy : synthNames req ps = [] := List.map_eq_nil_iff.mp h1.2
    unfold classRequired
    rw [hsy, hps]
    rfl

theorem objKw_idem (kw : Kw) : objKw (objKw kw) = objKw kw := rfl

theorem rt_object (cx : PCtx) (k : SKw) (kids : Kids) (d : Option JVal) (N : NodeNF cx k kids)
    (hd : d.map parseLiteral = d) (ht : titleFormat (className k) = className k) :
    RT cx (mkObject cx k (baseKw k (partsOf cx k kids) d) (partsOf cx k kids)) := by
  rw [mkObject_objKw]
  have hl := litFix_baseKw (partsOf cx k kids) N.lit hd
  have hp := props_of_nodeNF N
  have hb := addlKid_eta kids.addProps N.addP
  have hne := N.nonempty
  generalize hkw : baseKw k (partsOf cx k kids) d = kw at hl
  have f1 : kw.default = d := by rw [← hkw]; rfl
  have f3 : kw.addPropsB = kids.addProps.2 := by rw [← hkw]; rfl
  have hol : (objKw kw).litFix := hl
  have hsyn : withSynthetic cx (k.required.getD []) (partsOf cx k kids).props = classProps cx (k.required.getD []) kids.props := by
    simp only [partsOf, hp]
    exact withSynthetic_eq cx _ _ N.reqD N.inj
  rw [hsyn]
  unfold RT
  simp only [Elem.cls, Elem.kw, Elem.props, nodeKids, Elem.items, Elem.addItems, Elem.contains, Elem.patProps, Elem.addProps,
    Elem.propNames, Elem.deps, Elem.elements, partsOf]
  rw [classProps_srcs cx _ _ hne, map_pat_name]
  have hopb : (objKw kw).addPropsB = kids.addProps.2 := f3
  have hoib : (objKw kw).addItemsB = true := rfl
  rw [hopb, hb, hoib]
  unfold assembleK assemble
  have hcomp : hasComposition (nodeSKw (Cls.object (className k)) (objKw kw) (classProps cx (k.required.getD []) kids.props))
      (notFor (Cls.object (className k)) ([] : List Elem)) = false := by
    simp [hasComposition, nodeSKw, notFor]
  simp only [hcomp, Bool.false_eq_true, if_false]
  unfold assembleBase
  have hty : typeSpecOf (Cls.object (className k)) = TypeSpec.single "object" := by
    simp [typeSpecOf, typeNameOf, Gen.jsonTypeMapping, List.lookup]
  simp only [(nodeSKw_flags _ _ _).2.2.2.2.2, (nodeSKw_flags _ _ _).2.2.2.1, hty]
  have hdef : ((objKw kw).default).map parseLiteral = d := by
    show kw.default.map parseLiteral = d
    rw [f1]; exact hd
  rw [hdef]
  unfold mkTyped
  simp only [beq_self_eq_true, if_true]
  rw [mkObject_objKw, baseKw_nodeSKw _ _ _ _ _ hol]
  have hreq : (nodeSKw (Cls.object (className k)) (objKw kw) (classProps cx (k.required.getD []) kids.props)).required.getD [] =
      classRequired (k.required.getD []) kids.props :=
    emitted_class cx (objKw kw) _ _ rfl rfl N.names N.reqD hne
  have hcn : className (nodeSKw (Cls.object (className k)) (objKw kw) (classProps cx (k.required.getD []) kids.props)) = className k := by
    simp only [className, nodeSKw, isObjectClass, if_true, objName, Option.orElse, Option.getD_some]
    exact ht
  rw [hcn, hreq]
  simp only [partsOf, hreq, orderDeps_idem, membersFor]
  rw [class_rebuild cx _ _ N.names N.reqD N.inj]
  congr 1
  simp only [objKw, f1, f3]


/-! ### from node equations to `NF` -/

theorem NF_intro {cx : PCtx} {c : Cls} {kw : Kw} {items : List Elem} {addI cont : Option Elem} {props pats : List (Key × Elem)}
    {addP pn : Option Elem} {deps : List (Key × Elem)} {els : List Elem}
    (hc : c ≠ .nothing) (hrt : RT cx (.mk c kw items addI cont props pats addP pn deps els))
    (nnI : notNothing addI) (nnP : notNothing addP)
    (h1 : NFL cx items) (h2 : NFO cx addI) (h3 : NFO cx cont) (h4 : NFK cx props) (h5 : NFK cx pats) (h6 : NFO cx addP)
    (h7 : NFO cx pn) (h8 : NFK cx deps) (h9 : NFL cx els) :
    NF cx (.mk c kw items addI cont props pats addP pn deps els) := by
  rw [NF]
  exact ⟨⟨fun h => absurd h hc, fun _ => hrt, nnI, nnP⟩, h1, h2, h3, h4, h5, h6, h7, h8, h9⟩

theorem NFK_of_forall {cx : PCtx} {l : List (Key × Elem)} (h : ∀ p ∈ l, NF cx p.2) : NFK cx l := by
  induction l with
  | nil => rw [NFK]; trivial
  | cons p r ih =>
    obtain ⟨k, e⟩ := p
    rw [NFK]
    exact ⟨h (k, e) (List.mem_cons_self ..), ih fun q hq => h q (List.mem_cons_of_mem _ hq)⟩

theorem NFL_of_forall {cx : PCtx} {l : List Elem} (h : ∀ e ∈ l, NF cx e) : NFL cx l := by
  induction l with
  | nil => rw [NFL]; trivial
  | cons e r ih =>
    rw [NFL]
    exact ⟨h e (List.mem_cons_self ..), ih fun q hq => h q (List.mem_cons_of_mem _ hq)⟩

theorem forall_of_NFL {cx : PCtx} {l : List Elem} (h : NFL cx l) : ∀ e ∈ l, NF cx e := by
  induction l with
  | nil => intro e he; cases he
  | cons x r ih =>
    rw [NFL] at h
    intro e he
    rcases List.mem_cons.mp he with rfl | he
    · exact h.1
    · exact ih h.2 e he

/-- what the induction knows about the parsed children of a schema object -/
structure KidsNF (cx : PCtx) (kids : Kids) : Prop where
  items : NFL cx kids.items
  addItems : NFO cx kids.addItems.1
  contains : NFO cx kids.contains
  props : ∀ p ∈ kids.props, NF cx p.2
  patProps : ∀ p ∈ kids.patProps, NF cx p.2
  addProps : NFO cx kids.addProps.1
  propNames : NFO cx kids.propNames
  deps : ∀ p ∈ kids.deps, NF cx p.2
  anyOf : NFL cx kids.anyOf
  oneOf : NFL cx kids.oneOf
  allOf : NFL cx kids.allOf
  not : NFO cx kids.not
  nnI : notNothing kids.addItems.1
  nnP : notNothing kids.addProps.1

theorem nil_NFL (cx : PCtx) : NFL cx [] := by rw [NFL]; trivial
theorem nil_NFK (cx : PCtx) : NFK cx [] := by rw [NFK]; trivial
theorem none_NFO (cx : PCtx) : NFO cx none := by rw [NFO]; trivial

/-- `Element()` is in normal form -/
theorem NF_trivial (cx : PCtx) : NF cx Elem.trivial := by
  unfold Elem.trivial Elem.leaf
  refine NF_intro (by decide) ?_ trivial trivial (nil_NFL cx) (none_NFO cx) (none_NFO cx) (nil_NFK cx) (nil_NFK cx) (none_NFO cx)
    (none_NFO cx) (nil_NFK cx) (nil_NFL cx)
  have N : NodeNF cx {} {} :=
    { lit := rfl
      reqNe := nofun
      hasProps := rfl
      names := rfl
      inj := fun a ha => by cases ha
      nonempty := fun n hn => by cases hn
      reqD := rfl
      addI := nofun
      addP := nofun }
  have := rt_untyped cx {} {} none N rfl
  rw [mkElem_element] at this
  exact this

theorem NFK_props {cx : PCtx} {kids : Kids} (K : KidsNF cx kids) (req : List String) :
    NFK cx (kids.props.map fun kv => (mkKey cx req kv.1, kv.2)) := by
  apply NFK_of_forall
  intro p hp
  obtain ⟨kv, hkv, rfl⟩ := List.mem_map.mp hp
  exact K.props kv hkv

theorem NFK_pats {cx : PCtx} {kids : Kids} (K : KidsNF cx kids) :
    NFK cx (kids.patProps.map fun kv => (({ name := kv.1 } : Key), kv.2)) := by
  apply NFK_of_forall
  intro p hp
  obtain ⟨kv, hkv, rfl⟩ := List.mem_map.mp hp
  exact K.patProps kv hkv

theorem NFK_deps {cx : PCtx} {kids : Kids} (K : KidsNF cx kids) : NFK cx (orderDeps kids.deps) := by
  apply NFK_of_forall
  intro p hp
  unfold orderDeps at hp
  rcases List.mem_append.mp hp with h | h
  · exact K.deps p (List.mem_filter.mp h).1
  · exact K.deps p (List.mem_filter.mp h).1

theorem nf_untyped {cx : PCtx} {k : SKw} {kids : Kids} (d : Option JVal) (N : NodeNF cx k kids) (K : KidsNF cx kids)
    (hd : d.map parseLiteral = d) :
    NF cx (mkElem .element (Gen.Param.names Gen.sigElement) (baseKw k (partsOf cx k kids) d) (partsOf cx k kids)) := by
  have hrt := rt_untyped cx k kids d N hd
  rw [mkElem_element] at hrt ⊢
  refine NF_intro (by decide) hrt K.nnI K.nnP K.items K.addItems K.contains ?_ (NFK_pats K) K.addProps K.propNames (NFK_deps K) (nil_NFL cx)
  simp only [partsOf, props_of_nodeNF N]
  exact NFK_props K _


/-! ### typed leaves, arrays, classes as trees -/

theorem nf_string (cx : PCtx) (k : SKw) (p : Parts) (d : Option JVal) (hl : (baseKw k p d).litFix) :
    NF cx (mkElem .string (Gen.Param.names Gen.sigString) (baseKw k p d) p) := by
  have hrt := rt_string cx k p d hl
  have hshape : ∃ kw', mkElem .string (Gen.Param.names Gen.sigString) (baseKw k p d) p =
      .mk .string kw' [] none none [] [] none none [] [] := by
    refine ⟨filterKw (Gen.Param.names Gen.sigString) (baseKw k p d), ?_⟩
    simp [mkElem, keep, Gen.sigString, Gen.Param.names]
  obtain ⟨kw', hs⟩ := hshape
  rw [hs] at hrt ⊢
  exact NF_intro (by decide) hrt trivial trivial (nil_NFL cx) (none_NFO cx) (none_NFO cx) (nil_NFK cx) (nil_NFK cx) (none_NFO cx)
    (none_NFO cx) (nil_NFK cx) (nil_NFL cx)

theorem nf_integer (cx : PCtx) (k : SKw) (p : Parts) (d : Option JVal) (hl : (baseKw k p d).litFix) :
    NF cx (mkElem .integer (Gen.Param.names Gen.sigNumeric) (baseKw k p d) p) := by
  have hrt := rt_integer cx k p d hl
  have hshape : ∃ kw', mkElem .integer (Gen.Param.names Gen.sigNumeric) (baseKw k p d) p =
      .mk .integer kw' [] none none [] [] none none [] [] := by
    refine ⟨filterKw (Gen.Param.names Gen.sigNumeric) (baseKw k p d), ?_⟩
    simp [mkElem, keep, Gen.sigNumeric, Gen.Param.names]
  obtain ⟨kw', hs⟩ := hshape
  rw [hs] at hrt ⊢
  exact NF_intro (by decide) hrt trivial trivial (nil_NFL cx) (none_NFO cx) (none_NFO cx) (nil_NFK cx) (nil_NFK cx) (none_NFO cx)
    (none_NFO cx) (nil_NFK cx) (nil_NFL cx)

theorem nf_number (cx : PCtx) (k : SKw) (p : Parts) (d : Option JVal) (hl : (baseKw k p d).litFix) :
    NF cx (mkElem .number (Gen.Param.names Gen.sigNumeric) (baseKw k p d) p) := by
  have hrt := rt_number cx k p d hl
  have hshape : ∃ kw', mkElem .number (Gen.Param.names Gen.sigNumeric) (baseKw k p d) p =
      .mk .number kw' [] none none [] [] none none [] [] := by
    refine ⟨filterKw (Gen.Param.names Gen.sigNumeric) (baseKw k p d), ?_⟩
    simp [mkElem, keep, Gen.sigNumeric, Gen.Param.names]
  obtain ⟨kw', hs⟩ := hshape
  rw [hs] at hrt ⊢
  exact NF_intro (by decide) hrt trivial trivial (nil_NFL cx) (none_NFO cx) (none_NFO cx) (nil_NFK cx) (nil_NFK cx) (none_NFO cx)
    (none_NFO cx) (nil_NFK cx) (nil_NFL cx)

theorem nf_boolean (cx : PCtx) (k : SKw) (p : Parts) (d : Option JVal) (hl : (baseKw k p d).litFix) :
    NF cx (mkElem .boolean (Gen.Param.names Gen.sigBoolean) (baseKw k p d) p) := by
  have hrt := rt_boolean cx k p d hl
  have hshape : ∃ kw', mkElem .boolean (Gen.Param.names Gen.sigBoolean) (baseKw k p d) p =
      .mk .boolean kw' [] none none [] [] none none [] [] := by
    refine ⟨filterKw (Gen.Param.names Gen.sigBoolean) (baseKw k p d), ?_⟩
    simp [mkElem, keep, Gen.sigBoolean, Gen.Param.names]
  obtain ⟨kw', hs⟩ := hshape
  rw [hs] at hrt ⊢
  exact NF_intro (by decide) hrt trivial trivial (nil_NFL cx) (none_NFO cx) (none_NFO cx) (nil_NFK cx) (nil_NFK cx) (none_NFO cx)
    (none_NFO cx) (nil_NFK cx) (nil_NFL cx)

theorem nf_null (cx : PCtx) (k : SKw) (p : Parts) (d : Option JVal) (hl : (baseKw k p d).litFix) :
    NF cx (mkElem .null (Gen.Param.names Gen.sigNull) (baseKw k p d) p) := by
  have hrt := rt_null cx k p d hl
  have hshape : ∃ kw', mkElem .null (Gen.Param.names Gen.sigNull) (baseKw k p d) p =
      .mk .null kw' [] none none [] [] none none [] [] := by
    refine ⟨filterKw (Gen.Param.names Gen.sigNull) (baseKw k p d), ?_⟩
    simp [mkElem, keep, Gen.sigNull, Gen.Param.names]
  obtain ⟨kw', hs⟩ := hshape
  rw [hs] at hrt ⊢
  exact NF_intro (by decide) hrt trivial trivial (nil_NFL cx) (none_NFO cx) (none_NFO cx) (nil_NFK cx) (nil_NFK cx) (none_NFO cx)
    (none_NFO cx) (nil_NFK cx) (nil_NFL cx)

theorem nf_array {cx : PCtx} {k : SKw} {kids : Kids} (d : Option JVal) (N : NodeNF cx k kids) (K : KidsNF cx kids)
    (hd : d.map parseLiteral = d) :
    NF cx (mkArray (baseKw k (partsOf cx k kids) d) (partsOf cx k kids)) := by
  have hl := litFix_baseKw (partsOf cx k kids) N.lit hd
  by_cases hik : (baseKw k (partsOf cx k kids) d).itemsKind = .none
  · rw [mkArray_none _ _ hik]
    have hrt := rt_array cx (baseKw k (partsOf cx k kids) d) .single [Elem.trivial] kids.addItems kids.contains hl (by decide) rfl N.addI
    refine NF_intro (by decide) hrt K.nnI trivial ?_ K.addItems K.contains (nil_NFK cx) (nil_NFK cx) (none_NFO cx)
      (none_NFO cx) (nil_NFK cx) (nil_NFL cx)
    rw [NFL]
    exact ⟨NF_trivial cx, nil_NFL cx⟩
  · rw [mkArray_some _ _ hik]
    have hrt := rt_array cx (baseKw k (partsOf cx k kids) d) (baseKw k (partsOf cx k kids) d).itemsKind kids.items kids.addItems
      kids.contains hl hik rfl N.addI
    exact NF_intro (by decide) hrt K.nnI trivial K.items K.addItems K.contains (nil_NFK cx) (nil_NFK cx) (none_NFO cx)
      (none_NFO cx) (nil_NFK cx) (nil_NFL cx)

theorem NFK_classProps {cx : PCtx} {kids : Kids} (K : KidsNF cx kids) (req : List String) :
    NFK cx (classProps cx req kids.props) := by
  apply NFK_of_forall
  intro p hp
  unfold classProps at hp
  rcases List.mem_append.mp hp with h | h
  · obtain ⟨kv, hkv, rfl⟩ := List.mem_map.mp h
    exact K.props kv hkv
  · obtain ⟨n, _, rfl⟩ := List.mem_map.mp h
    exact NF_trivial cx

theorem nf_object {cx : PCtx} {k : SKw} {kids : Kids} (d : Option JVal) (N : NodeNF cx k kids) (K : KidsNF cx kids)
    (hd : d.map parseLiteral = d) (ht : titleFormat (className k) = className k) :
    NF cx (mkObject cx k (baseKw k (partsOf cx k kids) d) (partsOf cx k kids)) := by
  have hrt := rt_object cx k kids d N hd ht
  rw [mkObject_objKw] at hrt ⊢
  have hsyn : withSynthetic cx (k.required.getD []) (partsOf cx k kids).props = classProps cx (k.required.getD []) kids.props := by
    simp only [partsOf, props_of_nodeNF N]
    exact withSynthetic_eq cx _ _ N.reqD N.inj
  rw [hsyn] at hrt ⊢
  exact NF_intro (by simp) hrt trivial K.nnP (nil_NFL cx) (none_NFO cx) (none_NFO cx) (NFK_classProps K _) (NFK_pats K) K.addProps
    K.propNames (NFK_deps K) (nil_NFL cx)


/-! ### composition nodes -/

theorem isTrivial_trivial : Elem.trivial.isTrivial = true := by decide

/-- the base element of a schema object that holds nothing but composition keywords and a default -/
theorem base_of_composition (cx : PCtx) (c : Cls) (d : Option JVal) (kids : Kids)
    (hc : c = .anyOf ∨ c = .oneOf ∨ c = .allOf ∨ c = .not)
    (h1 : kids.items = []) (h2 : kids.addItems = (none, true)) (h3 : kids.contains = none) (h4 : kids.props = [])
    (h5 : kids.patProps = []) (h6 : kids.addProps = (none, true)) (h7 : kids.propNames = none) (h8 : kids.deps = []) :
    assembleBase cx (nodeSKw c { default := d } []) (partsOf cx (nodeSKw c { default := d } []) kids) none = Elem.trivial := by
  have hty : typeSpecOf c = TypeSpec.none := by
    rcases hc with rfl | rfl | rfl | rfl <;> decide
  unfold assembleBase
  simp only [(nodeSKw_flags _ _ _).2.2.2.2.2, hty]
  rw [mkElem_element]
  simp only [partsOf, h1, h2, h3, h4, h5, h6, h7, h8, buildProps, List.foldl_nil, List.map_nil, orderDeps, List.filter_nil,
    List.append_nil]
  rfl

theorem composeElements_two (c : Cls) (a b : Elem) (r : List Elem) : composeElements c (a :: b :: r) = Elem.compose c (a :: b :: r) := rfl

theorem isTrivial_compose {c : Cls} (ms : List Elem) (d : Option JVal) (hc : c ≠ .element) : (Elem.compose c ms d).isTrivial = false := by
  simp only [Elem.isTrivial, Elem.compose, Elem.cls]
  have : (c == Cls.element) = false := by simpa using hc
  simp [this]

theorem finish_compose (c : Cls) (ms : List Elem) (d : Option JVal) (hc : isObjectCls c = false) :
    finishComposition (Elem.compose c ms) d = Elem.compose c ms d := by
  unfold finishComposition
  simp only [Elem.compose, Elem.cls, hc, Bool.false_eq_true, if_false]
  cases d <;> rfl

theorem rt_anyOf (cx : PCtx) (a b : Elem) (r : List Elem) (d : Option JVal) (hd : d.map parseLiteral = d) :
    RT cx (Elem.compose .anyOf (a :: b :: r) d) := by
  unfold RT
  simp only [Elem.compose, Elem.cls, Elem.kw, Elem.props, nodeKids, Elem.items, Elem.addItems, Elem.contains, Elem.patProps,
    Elem.addProps, Elem.propNames, Elem.deps, Elem.elements, addlKid, List.map_nil, membersFor, notFor]
  unfold assembleK assemble
  simp only [(nodeSKw_flags _ _ _).2.2.2.1, hd]
  have hcomp : hasComposition (nodeSKw Cls.anyOf { default := d } []) none = true := by simp [hasComposition, nodeSKw]
  simp only [beq_self_eq_true, if_true, hcomp, show (Cls.anyOf == Cls.oneOf) = false by decide, show (Cls.anyOf == Cls.allOf) = false by decide,
    show (Cls.anyOf == Cls.not) = false by decide, Bool.false_eq_true, if_false]
  unfold assembleComposition
  rw [base_of_composition cx .anyOf d _ (Or.inl rfl) rfl rfl rfl rfl rfl rfl rfl rfl]
  simp only [compositionMembers, composeElements, List.nil_append, List.cons_append, List.append_nil]
  simp only [List.filter_cons, isTrivial_trivial, Bool.not_true, Bool.false_eq_true, if_false,
    isTrivial_compose (c := .anyOf) (a :: b :: r) none (by decide), Bool.not_false, if_true, List.filter_nil]
  exact finish_compose .anyOf _ d rfl

theorem rt_oneOf (cx : PCtx) (a b : Elem) (r : List Elem) (d : Option JVal) (hd : d.map parseLiteral = d) :
    RT cx (Elem.compose .oneOf (a :: b :: r) d) := by
  unfold RT
  simp only [Elem.compose, Elem.cls, Elem.kw, Elem.props, nodeKids, Elem.items, Elem.addItems, Elem.contains, Elem.patProps,
    Elem.addProps, Elem.propNames, Elem.deps, Elem.elements, addlKid, List.map_nil, membersFor, notFor]
  unfold assembleK assemble
  simp only [(nodeSKw_flags _ _ _).2.2.2.1, hd]
  have hcomp : hasComposition (nodeSKw Cls.oneOf { default := d } []) none = true := by simp [hasComposition, nodeSKw]
  simp only [beq_self_eq_true, if_true, hcomp, show (Cls.oneOf == Cls.anyOf) = false by decide, show (Cls.oneOf == Cls.allOf) = false by decide,
    show (Cls.oneOf == Cls.not) = false by decide, Bool.false_eq_true, if_false]
  unfold assembleComposition
  rw [base_of_composition cx .oneOf d _ (Or.inr (Or.inl rfl)) rfl rfl rfl rfl rfl rfl rfl rfl]
  simp only [compositionMembers, composeElements, List.nil_append, List.cons_append, List.append_nil]
  simp only [List.filter_cons, isTrivial_trivial, Bool.not_true, Bool.false_eq_true, if_false,
    isTrivial_compose (c := .oneOf) (a :: b :: r) none (by decide), Bool.not_false, if_true, List.filter_nil]
  exact finish_compose .oneOf _ d rfl


theorem filter_nontrivial_self (ms : List Elem) (h : ∀ m ∈ ms, m.isTrivial = false) :
    ms.filter (fun e => !e.isTrivial) = ms := by
  apply List.filter_eq_self.mpr
  intro m hm
  simp [h m hm]

theorem rt_allOf (cx : PCtx) (a b : Elem) (r : List Elem) (d : Option JVal) (hd : d.map parseLiteral = d)
    (hnt : ∀ m ∈ a :: b :: r, m.isTrivial = false) :
    RT cx (Elem.compose .allOf (a :: b :: r) d) := by
  unfold RT
  simp only [Elem.compose, Elem.cls, Elem.kw, Elem.props, nodeKids, Elem.items, Elem.addItems, Elem.contains, Elem.patProps,
    Elem.addProps, Elem.propNames, Elem.deps, Elem.elements, addlKid, List.map_nil, membersFor, notFor]
  unfold assembleK assemble
  simp only [(nodeSKw_flags _ _ _).2.2.2.1, hd]
  have hcomp : hasComposition (nodeSKw Cls.allOf { default := d } []) none = true := by simp [hasComposition, nodeSKw]
  simp only [beq_self_eq_true, if_true, hcomp, show (Cls.allOf == Cls.anyOf) = false by decide, show (Cls.allOf == Cls.oneOf) = false by decide,
    show (Cls.allOf == Cls.not) = false by decide, Bool.false_eq_true, if_false]
  unfold assembleComposition
  rw [base_of_composition cx .allOf d _ (Or.inr (Or.inr (Or.inl rfl))) rfl rfl rfl rfl rfl rfl rfl rfl]
  simp only [compositionMembers, composeElements, List.nil_append, List.append_nil]
  have hf : ([Elem.trivial] ++ (a :: b :: r) ++ [Elem.trivial] ++ [Elem.trivial]).filter (fun e => !e.isTrivial) = a :: b :: r := by
    simp only [List.filter_append, filter_nontrivial_self _ hnt]
    simp [List.filter_cons, isTrivial_trivial]
  rw [hf]
  exact finish_compose .allOf _ d rfl

theorem isTrivial_of_cls {e : Elem} (h : e.cls ≠ .element) : e.isTrivial = false := by
  unfold Elem.isTrivial
  have : (e.cls == Cls.element) = false := by simpa using h
  simp [this]

/-- an object class under `allOf` alone: the wrapper `AllOf(cls, default=…)` the parser builds to hold the default -/
theorem rt_allOf_single (cx : PCtx) (x : Elem) (d : Option JVal) (hd : d.map parseLiteral = d) (hx : isObjectCls x.cls = true) :
    RT cx (Elem.compose .allOf [x] d) := by
  have hxne : x.cls ≠ .element := by
    intro h; rw [h] at hx; cases hx
  unfold RT
  simp only [Elem.compose, Elem.cls, Elem.kw, Elem.props, nodeKids, Elem.items, Elem.addItems, Elem.contains, Elem.patProps,
    Elem.addProps, Elem.propNames, Elem.deps, Elem.elements, addlKid, List.map_nil, membersFor, notFor]
  unfold assembleK assemble
  simp only [(nodeSKw_flags _ _ _).2.2.2.1, hd]
  have hcomp : hasComposition (nodeSKw Cls.allOf { default := d } []) none = true := by simp [hasComposition, nodeSKw]
  simp only [beq_self_eq_true, if_true, hcomp, show (Cls.allOf == Cls.anyOf) = false by decide, show (Cls.allOf == Cls.oneOf) = false by decide,
    show (Cls.allOf == Cls.not) = false by decide, Bool.false_eq_true, if_false]
  unfold assembleComposition
  rw [base_of_composition cx .allOf d _ (Or.inr (Or.inr (Or.inl rfl))) rfl rfl rfl rfl rfl rfl rfl rfl]
  simp only [compositionMembers, composeElements, List.nil_append, List.append_nil]
  have hf : ([Elem.trivial] ++ [x] ++ [Elem.trivial] ++ [Elem.trivial]).filter (fun e => !e.isTrivial) = [x] := by
    simp [List.filter_cons, isTrivial_trivial, isTrivial_of_cls hxne]
  rw [hf]
  unfold finishComposition
  simp only [hx, if_true]
  rfl

def notNode (x : Elem) (d : Option JVal) : Elem := .mk .not { default := d } [] none none [] [] none none [] [x]

theorem rt_not (cx : PCtx) (x : Elem) (d : Option JVal) (hd : d.map parseLiteral = d) : RT cx (notNode x d) := by
  unfold RT notNode
  simp only [Elem.cls, Elem.kw, Elem.props, nodeKids, Elem.items, Elem.addItems, Elem.contains, Elem.patProps,
    Elem.addProps, Elem.propNames, Elem.deps, Elem.elements, addlKid, List.map_nil, membersFor, notFor]
  unfold assembleK assemble
  simp only [(nodeSKw_flags _ _ _).2.2.2.1, hd]
  simp only [beq_self_eq_true, if_true, show (Cls.not == Cls.anyOf) = false by decide, show (Cls.not == Cls.oneOf) = false by decide,
    show (Cls.not == Cls.allOf) = false by decide, Bool.false_eq_true, if_false, List.head?_cons]
  have hcomp : hasComposition (nodeSKw Cls.not { default := d } []) (some x) = true := by simp [hasComposition]
  simp only [hcomp, if_true]
  unfold assembleComposition
  rw [base_of_composition cx .not d _ (Or.inr (Or.inr (Or.inr rfl))) rfl rfl rfl rfl rfl rfl rfl rfl]
  simp only [compositionMembers, composeElements, List.nil_append, List.append_nil]
  have hf : ([Elem.trivial] ++ [Elem.trivial] ++ [Elem.trivial] ++ [Elem.mk .not {} [] none none [] [] none none [] [x]]).filter
      (fun e => !e.isTrivial) = [Elem.mk .not {} [] none none [] [] none none [] [x]] := by
    have hn : (Elem.mk .not {} [] none none [] [] none none [] [x]).isTrivial = false := isTrivial_of_cls (by simp [Elem.cls])
    simp only [List.filter_append, List.filter_cons, isTrivial_trivial, hn, Bool.not_true, Bool.false_eq_true, if_false, Bool.not_false,
      if_true, List.filter_nil, List.nil_append]
  rw [hf]
  unfold finishComposition
  simp only [Elem.cls, isObjectCls, Bool.false_eq_true, if_false]
  cases d <;> rfl


/-! ### where the default goes: replacing a schema's default replaces the default of what is built -/

theorem withDefault_withDefault (e : Elem) (a b : Option JVal) : (e.withDefault a).withDefault b = e.withDefault b := by
  cases e; rfl

theorem withDefault_cls (e : Elem) (a : Option JVal) : (e.withDefault a).cls = e.cls := by
  cases e; rfl

theorem finish_setDefault (x : Elem) (d0 : Option JVal) (d : JVal) :
    finishComposition x (some d) = (finishComposition x d0).withDefault (some d) := by
  unfold finishComposition
  cases hx : isObjectCls x.cls
  · simp only [Bool.false_eq_true, if_false]
    cases d0 with
    | none => rfl
    | some d0 => simp only [withDefault_withDefault]
  · simp only [if_true]
    rfl

def SKw.setDefault (k : SKw) (d : JVal) : SKw := { k with default := some d }

theorem mkElem_withDefault (c : Cls) (al : List String) (kw : Kw) (p : Parts) (d : JVal) (h : al.contains "default" = true) :
    mkElem c al { kw with default := some d } p = (mkElem c al kw p).withDefault (some d) := by
  have h' : "default" ∈ al := by simpa using h
  simp [mkElem, filterKw, keep, h', Elem.withDefault]

theorem baseKw_setDefault (k : SKw) (p : Parts) (d0 : Option JVal) (d : JVal) :
    baseKw (k.setDefault d) p (some d) = { baseKw k p d0 with default := some d } := rfl

theorem assembleBase_setDefault (cx : PCtx) (k : SKw) (p : Parts) (d0 : Option JVal) (d : JVal)
    (hty : match k.type with
      | .none => True
      | .single t => t ∈ knownTypes
      | .list ts => ∀ t ∈ ts, t ∈ knownTypes) :
    assembleBase cx (k.setDefault d) p (some d) = (assembleBase cx k p d0).withDefault (some d) := by
  have typed : ∀ t, t ∈ knownTypes → mkTyped cx t (k.setDefault d) p (some d) = (mkTyped cx t k p d0).withDefault (some d) := by
    intro t ht
    simp only [knownTypes, List.mem_cons, List.mem_nil_iff, or_false] at ht
    unfold mkTyped
    rw [baseKw_setDefault k p d0 d]
    rcases ht with rfl | rfl | rfl | rfl | rfl | rfl | rfl
    · simp [typedLeaf, Gen.parserTypeMapping, List.lookup, mkElem_withDefault, Gen.sigString, Gen.Param.names]
    · simp [typedLeaf, Gen.parserTypeMapping, List.lookup, mkElem_withDefault, Gen.sigNumeric, Gen.Param.names]
    · simp [typedLeaf, Gen.parserTypeMapping, List.lookup, mkElem_withDefault, Gen.sigNumeric, Gen.Param.names]
    · simp [typedLeaf, Gen.parserTypeMapping, List.lookup, mkElem_withDefault, Gen.sigBoolean, Gen.Param.names]
    · simp [typedLeaf, Gen.parserTypeMapping, List.lookup, mkElem_withDefault, Gen.sigNull, Gen.Param.names]
    · simp only [show ("array" == "object") = false by decide, Bool.false_eq_true, if_false, beq_self_eq_true, if_true]
      unfold mkArray
      cases hik : (baseKw k p d0).itemsKind <;>
        simp [hik, mkElem, filterKw, keep, Gen.sigArray, Gen.Param.names, Elem.withDefault]
    · simp only [beq_self_eq_true, if_true]
      rw [mkObject_objKw, mkObject_objKw]
      rfl
  unfold assembleBase
  have ht : (k.setDefault d).type = k.type := rfl
  rw [ht]
  cases hk : k.type with
  | none =>
    simp only
    rw [baseKw_setDefault k p d0 d]
    exact mkElem_withDefault _ _ _ _ _ (by decide)
  | single t =>
    simp only
    rw [hk] at hty
    exact typed t hty
  | list ts =>
    rw [hk] at hty
    match ts, hty with
    | [], _ => rfl
    | [t], hty => exact typed t (hty t (List.mem_cons_self ..))
    | t1 :: t2 :: r, _ => rfl


theorem assembleBase_ignores_default (cx : PCtx) (k : SKw) (p : Parts) (d : JVal) (x : Option JVal) :
    assembleBase cx (k.setDefault d) p x = assembleBase cx k p x := rfl

theorem assembleK_setDefault (cx : PCtx) (k : SKw) (kids : Kids) (d : JVal) (hd : parseLiteral d = d)
    (hty : match k.type with
      | .none => True
      | .single t => t ∈ knownTypes
      | .list ts => ∀ t ∈ ts, t ∈ knownTypes) :
    assembleK cx (k.setDefault d) kids = (assembleK cx k kids).withDefault (some d) := by
  unfold assembleK assemble
  have hp : partsOf cx (k.setDefault d) kids = partsOf cx k kids := rfl
  have hc : hasComposition (k.setDefault d) kids.not = hasComposition k kids.not := rfl
  have hdd : (k.setDefault d).default.map parseLiteral = some d := by
    show (some d).map parseLiteral = some d
    simp [hd]
  simp only [hp, hc, hdd]
  cases hcomp : hasComposition k kids.not
  · simp only [Bool.false_eq_true, if_false]
    exact assembleBase_setDefault cx k _ _ d hty
  · simp only [if_true]
    unfold assembleComposition
    rw [assembleBase_ignores_default]
    exact finish_setDefault _ _ d

/-- `NF` survives replacing the default by a clean literal -/
theorem NF_withDefault {cx : PCtx} {x : Elem} (h : NF cx x) (hc : x.cls ≠ .nothing) (d : JVal) (hd : parseLiteral d = d)
    (hty : match typeSpecOf x.cls with
      | .none => True
      | .single t => t ∈ knownTypes
      | .list ts => ∀ t ∈ ts, t ∈ knownTypes) :
    NF cx (x.withDefault (some d)) := by
  cases x with
  | mk c kw items addI cont props pats addP pn deps els =>
    rw [NF] at h
    obtain ⟨hn, h1, h2, h3, h4, h5, h6, h7, h8, h9⟩ := h
    have hrt : RT cx (.mk c kw items addI cont props pats addP pn deps els) := hn.2.1 hc
    refine NF_intro hc ?_ hn.2.2.1 hn.2.2.2 h1 h2 h3 h4 h5 h6 h7 h8 h9
    unfold RT at hrt ⊢
    simp only [Elem.cls, Elem.kw, Elem.props] at hrt ⊢
    have hk : nodeSKw c { kw with default := some d } props = (nodeSKw c kw props).setDefault d := rfl
    have hkids : nodeKids (.mk c { kw with default := some d } items addI cont props pats addP pn deps els) =
        nodeKids (.mk c kw items addI cont props pats addP pn deps els) := rfl
    rw [hk, hkids, assembleK_setDefault cx _ _ d hd hty, hrt]
    rfl


theorem typeSpecOf_known (c : Cls) : match typeSpecOf c with
    | .none => True
    | .single t => t ∈ knownTypes
    | .list ts => ∀ t ∈ ts, t ∈ knownTypes := by
  cases c <;> simp [typeSpecOf, typeNameOf, Gen.jsonTypeMapping, List.lookup, knownTypes]

theorem NF_withDefault' {cx : PCtx} {x : Elem} (h : NF cx x) (hc : x.cls ≠ .nothing) (d : JVal) (hd : parseLiteral d = d) :
    NF cx (x.withDefault (some d)) := NF_withDefault h hc d hd (typeSpecOf_known x.cls)

/-! ### one schema object without composition keywords -/

theorem nf_typed {cx : PCtx} {k : SKw} {kids : Kids} (t : String) (d : Option JVal) (N : NodeNF cx k kids) (K : KidsNF cx kids)
    (hd : d.map parseLiteral = d) (ht : t ∈ knownTypes) (htitle : t = "object" → titleFormat (className k) = className k) :
    NF cx (mkTyped cx t k (partsOf cx k kids) d) := by
  have hl := litFix_baseKw (partsOf cx k kids) N.lit hd
  simp only [knownTypes, List.mem_cons, List.mem_nil_iff, or_false] at ht
  unfold mkTyped
  rcases ht with rfl | rfl | rfl | rfl | rfl | rfl | rfl
  · simp only [show ("string" == "object") = false by decide, show ("string" == "array") = false by decide, Bool.false_eq_true, if_false]
    have : typedLeaf "string" = some (.string, Gen.Param.names Gen.sigString) := by decide
    rw [this]
    exact nf_string cx k _ d hl
  · simp only [show ("integer" == "object") = false by decide, show ("integer" == "array") = false by decide, Bool.false_eq_true, if_false]
    have : typedLeaf "integer" = some (.integer, Gen.Param.names Gen.sigNumeric) := by decide
    rw [this]
    exact nf_integer cx k _ d hl
  · simp only [show ("number" == "object") = false by decide, show ("number" == "array") = false by decide, Bool.false_eq_true, if_false]
    have : typedLeaf "number" = some (.number, Gen.Param.names Gen.sigNumeric) := by decide
    rw [this]
    exact nf_number cx k _ d hl
  · simp only [show ("boolean" == "object") = false by decide, show ("boolean" == "array") = false by decide, Bool.false_eq_true, if_false]
    have : typedLeaf "boolean" = some (.boolean, Gen.Param.names Gen.sigBoolean) := by decide
    rw [this]
    exact nf_boolean cx k _ d hl
  · simp only [show ("null" == "object") = false by decide, show ("null" == "array") = false by decide, Bool.false_eq_true, if_false]
    have : typedLeaf "null" = some (.null, Gen.Param.names Gen.sigNull) := by decide
    rw [this]
    exact nf_null cx k _ d hl
  · simp only [show ("array" == "object") = false by decide, Bool.false_eq_true, if_false, beq_self_eq_true, if_true]
    exact nf_array d N K hd
  · simp only [beq_self_eq_true, if_true]
    exact nf_object d N K hd (htitle rfl)

theorem mkTyped_cls_ne_element (cx : PCtx) (t : String) (k : SKw) (p : Parts) (d : Option JVal) (ht : t ∈ knownTypes) :
    (mkTyped cx t k p d).cls ≠ .element ∧ (mkTyped cx t k p d).cls ≠ .nothing := by
  simp only [knownTypes, List.mem_cons, List.mem_nil_iff, or_false] at ht
  unfold mkTyped
  rcases ht with rfl | rfl | rfl | rfl | rfl | rfl | rfl
  · simp [typedLeaf, Gen.parserTypeMapping, List.lookup, mkElem, Elem.cls]
  · simp [typedLeaf, Gen.parserTypeMapping, List.lookup, mkElem, Elem.cls]
  · simp [typedLeaf, Gen.parserTypeMapping, List.lookup, mkElem, Elem.cls]
  · simp [typedLeaf, Gen.parserTypeMapping, List.lookup, mkElem, Elem.cls]
  · simp [typedLeaf, Gen.parserTypeMapping, List.lookup, mkElem, Elem.cls]
  · simp only [show ("array" == "object") = false by decide, Bool.false_eq_true, if_false, beq_self_eq_true, if_true]
    unfold mkArray
    cases (baseKw k p d).itemsKind <;> simp [mkElem, Elem.cls]
  · simp only [beq_self_eq_true, if_true]
    rw [mkObject_objKw]
    simp [Elem.cls]

/-- conditions on `type` -/
def typeOK (k : SKw) : Prop :=
  match k.type with
  | .none => True
  | .single t => t ∈ knownTypes
  | .list ts => ts ≠ [] ∧ ∀ t ∈ ts, t ∈ knownTypes

def titleOK (k : SKw) : Prop := typeHasObject k = true → titleFormat (className k) = className k

theorem nf_base {cx : PCtx} {k : SKw} {kids : Kids} (d : Option JVal) (N : NodeNF cx k kids) (K : KidsNF cx kids)
    (hd : d.map parseLiteral = d) (hty : typeOK k) (hti : titleOK k) :
    NF cx (assembleBase cx k (partsOf cx k kids) d) := by
  unfold assembleBase
  unfold typeOK at hty
  unfold titleOK typeHasObject at hti
  cases hk : k.type with
  | none => exact nf_untyped d N K hd
  | single t =>
    rw [hk] at hty hti
    exact nf_typed t d N K hd hty (fun h => hti (by simp [h]))
  | list ts =>
    rw [hk] at hty hti
    match ts, hty, hti with
    | [], hty, _ => exact absurd rfl hty.1
    | [t], hty, hti =>
      exact nf_typed t d N K hd (hty.2 t (List.mem_cons_self ..)) (fun h => hti (by simp [h]))
    | t1 :: t2 :: r, hty, hti =>
      simp only
      have hmem : ∀ m ∈ (t1 :: t2 :: r).map (fun t => mkTyped cx t k (partsOf cx k kids) none), NF cx m := by
        intro m hm
        obtain ⟨t, ht, rfl⟩ := List.mem_map.mp hm
        exact nf_typed t none N K rfl (hty.2 t ht) (fun h => hti (by
          subst h
          simpa using ht))
      have hrt := rt_anyOf cx (mkTyped cx t1 k (partsOf cx k kids) none) (mkTyped cx t2 k (partsOf cx k kids) none)
        (r.map fun t => mkTyped cx t k (partsOf cx k kids) none) d hd
      simp only [List.map_cons]
      unfold Elem.compose at hrt ⊢
      refine NF_intro (by decide) hrt trivial trivial (nil_NFL cx) (none_NFO cx) (none_NFO cx) (nil_NFK cx) (nil_NFK cx)
        (none_NFO cx) (none_NFO cx) (nil_NFK cx) ?_
      apply NFL_of_forall
      intro e he
      exact hmem e (by simpa using he)


/-! ### composition keywords -/

theorem optFix_cases {d : Option JVal} (hd : d.map parseLiteral = d) : ∀ x, d = some x → parseLiteral x = x := by
  intro x hx
  subst hx
  simpa using hd

theorem nf_finish {cx : PCtx} {x : Elem} (d : Option JVal) (hx : NF cx x) (hnn : d.isSome = true → x.cls ≠ .nothing)
    (hd : d.map parseLiteral = d) : NF cx (finishComposition x d) := by
  unfold finishComposition
  cases ho : isObjectCls x.cls
  · simp only [Bool.false_eq_true, if_false]
    cases d with
    | none => exact hx
    | some v => exact NF_withDefault' hx (hnn rfl) v (optFix_cases hd v rfl)
  · simp only [if_true]
    have hrt := rt_allOf_single cx x d hd ho
    unfold Elem.compose at hrt ⊢
    refine NF_intro (by decide) hrt trivial trivial (nil_NFL cx) (none_NFO cx) (none_NFO cx) (nil_NFK cx) (nil_NFK cx)
      (none_NFO cx) (none_NFO cx) (nil_NFK cx) ?_
    rw [NFL]
    exact ⟨hx, nil_NFL cx⟩

theorem nf_composeAll {cx : PCtx} (ms : List Elem) (d : Option JVal) (hm : ∀ m ∈ ms, NF cx m) (hnt : ∀ m ∈ ms, m.isTrivial = false)
    (hnn : d.isSome = true → ∀ m ∈ ms, m.cls ≠ .nothing) (hd : d.map parseLiteral = d) :
    NF cx (finishComposition (composeElements .allOf ms) d) := by
  match ms, hm, hnt, hnn with
  | [], _, _, _ =>
    exact nf_finish d (NF_trivial cx) (fun _ => by decide) hd
  | [x], hm, _, hnn =>
    exact nf_finish d (hm x (List.mem_cons_self ..)) (fun h => hnn h x (List.mem_cons_self ..)) hd
  | a :: b :: r, hm, hnt, _ =>
    rw [composeElements_two, finish_compose .allOf _ d rfl]
    have hrt := rt_allOf cx a b r d hd hnt
    unfold Elem.compose at hrt ⊢
    exact NF_intro (by decide) hrt trivial trivial (nil_NFL cx) (none_NFO cx) (none_NFO cx) (nil_NFK cx) (nil_NFK cx)
      (none_NFO cx) (none_NFO cx) (nil_NFK cx) (NFL_of_forall hm)

theorem nf_composeMode {cx : PCtx} (c : Cls) (hc : c = .anyOf ∨ c = .oneOf) (ms : List Elem) (hm : NFL cx ms) :
    NF cx (composeElements c ms) := by
  match ms, hm with
  | [], _ => exact NF_trivial cx
  | [x], hm => exact forall_of_NFL hm x (List.mem_cons_self ..)
  | a :: b :: r, hm =>
    rw [composeElements_two]
    rcases hc with rfl | rfl
    · have hrt := rt_anyOf cx a b r none rfl
      unfold Elem.compose at hrt ⊢
      exact NF_intro (by decide) hrt trivial trivial (nil_NFL cx) (none_NFO cx) (none_NFO cx) (nil_NFK cx) (nil_NFK cx)
        (none_NFO cx) (none_NFO cx) (nil_NFK cx) hm
    · have hrt := rt_oneOf cx a b r none rfl
      unfold Elem.compose at hrt ⊢
      exact NF_intro (by decide) hrt trivial trivial (nil_NFL cx) (none_NFO cx) (none_NFO cx) (nil_NFK cx) (nil_NFK cx)
        (none_NFO cx) (none_NFO cx) (nil_NFK cx) hm

theorem composeMode_cls {c : Cls} (ms : List Elem) (h : ∀ m ∈ ms, m.cls ≠ .nothing) (hc : c ≠ .nothing) :
    (composeElements c ms).cls ≠ .nothing := by
  match ms, h with
  | [], _ => simp [composeElements, Elem.trivial, Elem.leaf, Elem.cls]
  | [x], h => exact h x (List.mem_cons_self ..)
  | a :: b :: r, _ => rw [composeElements_two]; exact hc

theorem assembleBase_cls (cx : PCtx) (k : SKw) (p : Parts) (d : Option JVal) (hty : typeOK k) :
    (assembleBase cx k p d).cls ≠ .nothing := by
  unfold assembleBase
  unfold typeOK at hty
  cases hk : k.type with
  | none => simp [mkElem, Elem.cls]
  | single t =>
    rw [hk] at hty
    exact (mkTyped_cls_ne_element cx t k p d hty).2
  | list ts =>
    rw [hk] at hty
    match ts, hty with
    | [], hty => exact absurd rfl hty.1
    | [t], hty => exact (mkTyped_cls_ne_element cx t k p d (hty.2 t (List.mem_cons_self ..))).2
    | t1 :: t2 :: r, _ => simp [Elem.compose, Elem.cls]

/-- `_parse_composition` lands in normal form -/
theorem nf_composition {cx : PCtx} {k : SKw} {kids : Kids} (N : NodeNF cx k kids) (K : KidsNF cx kids) (hty : typeOK k)
    (hti : titleOK k)
    (hnn : k.default.isSome = true → ∀ m ∈ kids.anyOf ++ kids.oneOf ++ kids.allOf, m.cls ≠ .nothing) :
    NF cx (assembleComposition cx k (partsOf cx k kids) (k.default.map parseLiteral) kids.anyOf kids.oneOf kids.allOf kids.not) := by
  unfold assembleComposition
  have hd := default_fix N.lit
  have hbase : NF cx (assembleBase cx k (partsOf cx k kids) none) := nf_base none N K rfl hty hti
  have hmem : ∀ m ∈ compositionMembers (assembleBase cx k (partsOf cx k kids) none) kids.anyOf kids.oneOf kids.allOf kids.not,
      NF cx m ∧ (k.default.isSome = true → m.cls ≠ .nothing) := by
    intro m hm
    unfold compositionMembers at hm
    simp only [List.mem_append, List.mem_singleton] at hm
    rcases hm with (((rfl | hm) | rfl) | rfl) | hm
    · exact ⟨hbase, fun _ => assembleBase_cls cx k _ none hty⟩
    · exact ⟨forall_of_NFL K.allOf m hm, fun h => hnn h m (by simp [hm])⟩
    · exact ⟨nf_composeMode .oneOf (Or.inr rfl) _ K.oneOf,
        fun h => composeMode_cls _ (fun e he => hnn h e (by simp [he])) (by decide)⟩
    · exact ⟨nf_composeMode .anyOf (Or.inl rfl) _ K.anyOf,
        fun h => composeMode_cls _ (fun e he => hnn h e (by simp [he])) (by decide)⟩
    · cases hn : kids.not with
      | none => rw [hn] at hm; cases hm
      | some e =>
        rw [hn] at hm
        simp only [List.mem_singleton] at hm
        subst hm
        have hrt := rt_not cx e none rfl
        have he : NF cx e := by have := K.not; rw [hn, NFO] at this; exact this
        unfold notNode at hrt
        refine ⟨NF_intro (by decide) hrt trivial trivial (nil_NFL cx) (none_NFO cx) (none_NFO cx) (nil_NFK cx) (nil_NFK cx)
          (none_NFO cx) (none_NFO cx) (nil_NFK cx) ?_, fun _ => by simp [Elem.cls]⟩
        rw [NFL]
        exact ⟨he, nil_NFL cx⟩
  apply nf_composeAll
  · intro m hm
    exact (hmem m (List.mem_filter.mp hm).1).1
  · intro m hm
    simpa using (List.mem_filter.mp hm).2
  · intro h m hm
    have : k.default.isSome = true := by
      cases hk : k.default with
      | none => rw [hk] at h; cases h
      | some _ => rfl
    exact (hmem m (List.mem_filter.mp hm).1).2 this
  · exact hd


/-! ### the induction over schemas -/

/-- `additionalItems` / `additionalProperties` given as a schema object does not parse to `Nothing()` (the boolean `false` is
    kept as a boolean; `Nothing()` there would be written back as `false`) -/
def addlOK (cx : PCtx) : Option Schema → Bool
  | some (.bool _) => true
  | some s => (parseE cx s).cls != .nothing
  | none => true

/-- the conditions on one schema object under which the parser lands in its normal form -/
def nfNodeB (cx : PCtx) (k : SKw) (props : List (String × Schema)) (addI addP : Option Schema)
    (anyOf oneOf allOf : List Schema) : Bool :=
  litCleanNode k &&
  (match k.required with
   | some [] => false
   | _ => true) &&
  (k.hasProps == !props.isEmpty) &&
  distinct (props.map (·.1)) &&
  noCollapse cx k props &&
  optAll k.required distinct &&
  (match k.type with
   | .none => true
   | .single t => knownTypes.contains t
   | .list ts => !ts.isEmpty && ts.all (knownTypes.contains ·)) &&
  (!typeHasObject k || titleFormat (className k) == className k) &&
  addlOK cx addI && addlOK cx addP &&
  (k.default.isNone || (anyOf ++ oneOf ++ allOf).all fun m => (parseE cx m).cls != .nothing)

mutual
/-- every node of the schema meets `nfNodeB` -/
def nfGood (cx : PCtx) : Schema → Bool
  | .bool _ => true
  | .mk k items addI cont props pats addP pn deps anyOf oneOf allOf not =>
    nfNodeB cx k props addI addP anyOf oneOf allOf &&
    nfGoodL cx items && nfGoodO cx addI && nfGoodO cx cont && nfGoodN cx props && nfGoodN cx pats && nfGoodO cx addP &&
    nfGoodO cx pn && nfGoodD cx deps && nfGoodL cx anyOf && nfGoodL cx oneOf && nfGoodL cx allOf && nfGoodO cx not
def nfGoodO (cx : PCtx) : Option Schema → Bool
  | none => true
  | some s => nfGood cx s
def nfGoodL (cx : PCtx) : List Schema → Bool
  | [] => true
  | s :: ss => nfGood cx s && nfGoodL cx ss
def nfGoodN (cx : PCtx) : List (String × Schema) → Bool
  | [] => true
  | (_, s) :: r => nfGood cx s && nfGoodN cx r
def nfGoodD (cx : PCtx) : List (Key × Schema) → Bool
  | [] => true
  | (_, s) :: r => nfGood cx s && nfGoodD cx r
end

theorem NF_nothing (cx : PCtx) : NF cx Elem.nothing := by
  unfold Elem.nothing Elem.leaf
  rw [NF]
  exact ⟨⟨fun _ => rfl, fun h => absurd rfl h, trivial, trivial⟩, nil_NFL cx, none_NFO cx, none_NFO cx, nil_NFK cx, nil_NFK cx,
    none_NFO cx, none_NFO cx, nil_NFK cx, nil_NFL cx⟩

theorem parseAddl_wf (cx : PCtx) (o : Option Schema) : (parseAddl cx o).1.isSome = true → (parseAddl cx o).2 = true := by
  cases o with
  | none => rw [parseAddl]; intro h; cases h
  | some s =>
    cases s with
    | bool b => rw [parseAddl]; intro h; cases h
    | mk => rw [parseAddl]; intro _; rfl

theorem parseAddl_nn (cx : PCtx) (o : Option Schema) (h : addlOK cx o = true) : notNothing (parseAddl cx o).1 := by
  cases o with
  | none => rw [parseAddl]; trivial
  | some s =>
    cases s with
    | bool b => rw [parseAddl]; trivial
    | mk k a b c d e f g h' i j l m =>
      rw [parseAddl]
      unfold addlOK at h
      simpa [notNothing] using h

theorem nodeNF_of_flags {cx : PCtx} {k : SKw} {props : List (String × Schema)} {addI addP : Option Schema}
    {anyOf oneOf allOf : List Schema} (kids : Kids)
    (hf : nfNodeB cx k props addI addP anyOf oneOf allOf = true)
    (hnames : kids.props.map (·.1) = props.map (·.1))
    (hI : kids.addItems = parseAddl cx addI) (hP : kids.addProps = parseAddl cx addP) :
    NodeNF cx k kids ∧ typeOK k ∧ titleOK k := by
  unfold nfNodeB at hf
  simp only [Bool.and_eq_true] at hf
  obtain ⟨⟨⟨⟨⟨⟨⟨⟨⟨⟨hlit, hreq⟩, hhp⟩, hdn⟩, hcol⟩, hrd⟩, hty⟩, hti⟩, _⟩, _⟩, _⟩ := hf
  have hempty : kids.props.isEmpty = props.isEmpty := by
    have := congrArg List.isEmpty hnames
    simpa using this
  refine ⟨⟨hlit, ?_, ?_, ?_, ?_, ?_, ?_, ?_, ?_⟩, ?_, ?_⟩
  · intro h; rw [h] at hreq; cases hreq
  · rw [hempty]; simpa using hhp
  · rw [hnames]; exact hdn
  · rw [hnames]; exact injOn_of_flag hcol
  · rw [hnames]; exact nonempty_of_flag hcol
  · cases hr : k.required with
    | none => rfl
    | some l => simpa [optAll, hr] using hrd
  · rw [hI]; exact parseAddl_wf cx addI
  · rw [hP]; exact parseAddl_wf cx addP
  · unfold typeOK
    cases ht : k.type with
    | none => trivial
    | single t => simpa [ht] using hty
    | list ts =>
      rw [ht] at hty
      simp only [Bool.and_eq_true, Bool.not_eq_true', List.all_eq_true] at hty
      refine ⟨?_, fun t htm => by simpa using hty.2 t htm⟩
      intro h; subst h; simp at hty
  · unfold titleOK
    intro ho
    simpa [ho] using hti

theorem mem_parseList {cx : PCtx} {l : List Schema} {m : Elem} (h : m ∈ parseList cx l) : ∃ s ∈ l, m = parseE cx s := by
  induction l with
  | nil => rw [parseList] at h; cases h
  | cons s ss ih =>
    rw [parseList] at h
    rcases List.mem_cons.mp h with rfl | h
    · exact ⟨s, List.mem_cons_self .., rfl⟩
    · obtain ⟨s', hs', rfl⟩ := ih h
      exact ⟨s', List.mem_cons_of_mem _ hs', rfl⟩

mutual
/-- **The parser lands in its own normal form.** -/
theorem parse_NF (cx : PCtx) : ∀ (s : Schema), nfGood cx s = true → NF cx (parseE cx s)
  | .bool b, _ => by
    rw [parseE]
    cases b
    · exact NF_nothing cx
    · exact NF_trivial cx
  | .mk k items addI cont props pats addP pn deps anyOf oneOf allOf not, h => by
    rw [nfGood] at h
    simp only [Bool.and_eq_true] at h
    obtain ⟨⟨⟨⟨⟨⟨⟨⟨⟨⟨⟨⟨h0, h1⟩, h2⟩, h3⟩, h4⟩, h5⟩, h6⟩, h7⟩, h8⟩, h9⟩, h10⟩, h11⟩, h12⟩ := h
    rw [parseE]
    have hflags := h0
    unfold nfNodeB at hflags
    simp only [Bool.and_eq_true] at hflags
    obtain ⟨⟨⟨_, haI⟩, haP⟩, hnnB⟩ := hflags
    have K : KidsNF cx (kidsOf cx items addI cont props pats addP pn deps anyOf oneOf allOf not) :=
      { items := parseList_NF cx items h1
        addItems := parseAddl_NF cx addI h2
        contains := parseOpt_NF cx cont h3
        props := parseNamed_NF cx props h4
        patProps := parseNamed_NF cx pats h5
        addProps := parseAddl_NF cx addP h6
        propNames := parseOpt_NF cx pn h7
        deps := parseDeps_NF cx deps h8
        anyOf := parseList_NF cx anyOf h9
        oneOf := parseList_NF cx oneOf h10
        allOf := parseList_NF cx allOf h11
        not := parseOpt_NF cx not h12
        nnI := parseAddl_nn cx addI haI
        nnP := parseAddl_nn cx addP haP }
    obtain ⟨N, hty, hti⟩ := nodeNF_of_flags (kidsOf cx items addI cont props pats addP pn deps anyOf oneOf allOf not) h0
      (parseNamed_names cx props) rfl rfl
    show NF cx (assembleK cx k (kidsOf cx items addI cont props pats addP pn deps anyOf oneOf allOf not))
    unfold assembleK assemble
    simp only
    split
    · apply nf_composition N K hty hti
      intro hd m hm
      have hall : (anyOf ++ oneOf ++ allOf).all (fun m => (parseE cx m).cls != .nothing) = true := by
        cases hk : k.default with
        | none => rw [hk] at hd; cases hd
        | some _ => simpa [hk] using hnnB
      simp only [kidsOf, List.mem_append] at hm
      have hmem : ∃ sch ∈ anyOf ++ oneOf ++ allOf, m = parseE cx sch := by
        rcases hm with (hm | hm) | hm
        · obtain ⟨sch, hs, rfl⟩ := mem_parseList hm
          exact ⟨sch, by simp [hs], rfl⟩
        · obtain ⟨sch, hs, rfl⟩ := mem_parseList hm
          exact ⟨sch, by simp [hs], rfl⟩
        · obtain ⟨sch, hs, rfl⟩ := mem_parseList hm
          exact ⟨sch, by simp [hs], rfl⟩
      obtain ⟨sch, hs, rfl⟩ := hmem
      simpa using List.all_eq_true.mp hall sch hs
    · exact nf_base _ N K (default_fix N.lit) hty hti
theorem parseOpt_NF (cx : PCtx) : ∀ (o : Option Schema), nfGoodO cx o = true → NFO cx (parseOpt cx o)
  | none, _ => by rw [parseOpt]; exact none_NFO cx
  | some s, h => by
    rw [nfGoodO] at h
    rw [parseOpt, NFO]
    exact parse_NF cx s h
theorem parseAddl_NF (cx : PCtx) : ∀ (o : Option Schema), nfGoodO cx o = true → NFO cx (parseAddl cx o).1
  | none, _ => by rw [parseAddl]; exact none_NFO cx
  | some (.bool b), _ => by rw [parseAddl]; exact none_NFO cx
  | some (.mk k items addI cont props pats addP pn deps anyOf oneOf allOf not), h => by
    rw [nfGoodO] at h
    rw [parseAddl]
    show NFO cx (some _)
    rw [NFO]
    exact parse_NF cx _ h
theorem parseList_NF (cx : PCtx) : ∀ (l : List Schema), nfGoodL cx l = true → NFL cx (parseList cx l)
  | [], _ => by rw [parseList]; exact nil_NFL cx
  | s :: ss, h => by
    rw [nfGoodL, Bool.and_eq_true] at h
    rw [parseList, NFL]
    exact ⟨parse_NF cx s h.1, parseList_NF cx ss h.2⟩
theorem parseNamed_NF (cx : PCtx) : ∀ (l : List (String × Schema)), nfGoodN cx l = true → ∀ p ∈ parseNamed cx l, NF cx p.2
  | [], _ => by rw [parseNamed]; intro p hp; cases hp
  | (k, s) :: r, h => by
    rw [nfGoodN, Bool.and_eq_true] at h
    rw [parseNamed]
    intro p hp
    rcases List.mem_cons.mp hp with rfl | hp
    · exact parse_NF cx s h.1
    · exact parseNamed_NF cx r h.2 p hp
theorem parseDeps_NF (cx : PCtx) : ∀ (l : List (Key × Schema)), nfGoodD cx l = true → ∀ p ∈ parseDeps cx l, NF cx p.2
  | [], _ => by rw [parseDeps]; intro p hp; cases hp
  | (k, s) :: r, h => by
    rw [nfGoodD, Bool.and_eq_true] at h
    rw [parseDeps]
    intro p hp
    rcases List.mem_cons.mp hp with rfl | hp
    · exact parse_NF cx s h.1
    · exact parseDeps_NF cx r h.2 p hp
end

end Statham
