/-
  The induction over schemas: for every schema all of whose nodes meet the `Good`
  conditions, the parsed element refines Draft-6 validity (with the library's reading of
  the required-with-default deviation, `typeHasObject`).
-/
import StathamModel.Lemmas.Assemble2
namespace Statham

theorem Flags.all_and (a b : Flags) : (a.and b).all = (a.all && b.all) := by
  unfold Flags.and Flags.all
  simp only
  ac_rfl

theorem Flags.all_default : ({} : Flags).all = true := rfl

theorem vList_length (env : Env) (ℓ : SKw → Bool) (l : List Schema) : (D6.vList env ℓ l).length = l.length := by
  induction l with
  | nil => rw [D6.vList]; rfl
  | cons s l ih => rw [D6.vList]; simp [ih]

theorem parseNamed_names (cx : PCtx) (l : List (String × Schema)) : (parseNamed cx l).map (·.1) = l.map (·.1) := by
  induction l with
  | nil => rw [parseNamed]; rfl
  | cons p l ih => obtain ⟨k, s⟩ := p; rw [parseNamed]; simp [ih]

theorem parseList_isEmpty (cx : PCtx) (l : List Schema) : (parseList cx l).isEmpty = l.isEmpty := by
  cases l with
  | nil => rw [parseList]; rfl
  | cons s l => rw [parseList]; rfl

theorem declaresDefault_eq (s : Schema) : D6.declaresDefault s = declaresDefaultS s := by
  cases s <;> rfl

theorem injOn_of_flag {cx : PCtx} {k : SKw} {props : List (String × Schema)} (h : noCollapse cx k props = true) :
    InjOn cx (props.map (·.1) ++ k.required.getD []) := by
  unfold noCollapse at h
  simp only [Bool.and_eq_true, List.all_eq_true, Bool.or_eq_true, bne_iff_ne, ne_eq, beq_iff_eq] at h
  intro a ha b hb hab
  rcases h.2 a ha b hb with h1 | h1
  · exact absurd hab h1
  · exact h1

theorem nonempty_of_flag {cx : PCtx} {k : SKw} {props : List (String × Schema)} (h : noCollapse cx k props = true) :
    ∀ n ∈ props.map (·.1) ++ k.required.getD [], n ≠ "" := by
  unfold noCollapse at h
  simp only [Bool.and_eq_true, List.all_eq_true, bne_iff_ne, ne_eq] at h
  exact h.1

/-- everything the node-level lemma needs, read off the node's flags -/
theorem nodeOK_of_flags {env : Env} {cx : PCtx} {k : SKw} {items : List Schema} {props pats : List (String × Schema)}
    {addP : Option Schema} {deps : List (Key × Schema)} {anyOf oneOf allOf : List Schema} (kids : Kids) (σ : D6.SSub)
    (hf : (nodeFlags cx k items props pats addP deps anyOf oneOf allOf).all = true)
    (hitems : σ.items.length = items.length)
    (hnames : kids.props.map (·.1) = props.map (·.1))
    (haddp : kids.addProps = parseAddl cx addP) :
    NodeOK cx k kids σ ∧
      (match k.type with
        | .none => True
        | .single t => t ∈ knownTypes
        | .list ts => ts ≠ [] ∧ ∀ t ∈ ts, t ∈ knownTypes) ∧
      k.hasAnyOf = !anyOf.isEmpty ∧ k.hasOneOf = !oneOf.isEmpty ∧ k.hasAllOf = !allOf.isEmpty := by
  unfold Flags.all nodeFlags at hf
  simp only [Bool.and_eq_true] at hf
  obtain ⟨⟨⟨⟨⟨hwf, hlit⟩, hmul⟩, hcol⟩, hsyn⟩, _⟩ := hf
  unfold wfNode at hwf
  simp only [Bool.and_eq_true] at hwf
  obtain ⟨⟨⟨⟨⟨⟨⟨⟨⟨⟨⟨⟨⟨⟨⟨⟨⟨⟨⟨⟨hty, hik⟩, _⟩, _⟩, _⟩, hany⟩, hone⟩, hall⟩, hpd⟩, _⟩, _⟩, hreq⟩, _⟩, _⟩, _⟩, _⟩, _⟩, _⟩, _⟩, _⟩, _⟩ := hwf
  refine ⟨⟨hlit, hmul, ?_, ?_, ?_, ?_, ?_, by rw [hnames]; exact nonempty_of_flag hcol⟩, ?_, by simpa using hany,
    by simpa using hone, by simpa using hall⟩
  · cases hk : k.itemsKind <;> simp_all
  · rw [hnames]; exact hpd
  · cases hr : k.required with
    | none => rfl
    | some l => simpa [optAll, hr] using hreq
  · rw [hnames]; exact injOn_of_flag hcol
  · intro hobj
    unfold noSynthetic at hsyn
    rw [hobj] at hsyn
    simp only [Bool.not_true, Bool.false_or, Bool.or_eq_true] at hsyn
    rcases hsyn with h | h
    · left
      rw [haddp]
      cases addP with
      | none => rw [parseAddl]
      | some s =>
        cases s with
        | bool b => cases b <;> simp_all [parseAddl]
        | mk => simp at h
    · right
      intro n hn
      rw [hnames]
      have := List.all_eq_true.mp h n hn
      obtain ⟨p, hp, hpn⟩ := List.any_eq_true.mp this
      have : p.1 = n := by simpa using hpn
      exact List.mem_map.mpr ⟨p, hp, this⟩
  · cases ht : k.type with
    | none => trivial
    | single t => simpa [ht] using hty
    | list ts =>
      rw [ht] at hty
      simp only [Bool.and_eq_true, Bool.not_eq_true', List.all_eq_true] at hty
      refine ⟨?_, fun t htm => by simpa using hty.1.2 t htm⟩
      intro h; subst h; simp at hty

abbrev ℓ₀ : SKw → Bool := typeHasObject

theorem good_mk {cx : PCtx} {k : SKw} {items : List Schema} {addI cont : Option Schema}
    {props pats : List (String × Schema)} {addP pn : Option Schema} {deps : List (Key × Schema)}
    {anyOf oneOf allOf : List Schema} {not : Option Schema}
    (h : (flagsOf cx (.mk k items addI cont props pats addP pn deps anyOf oneOf allOf not)).all = true) :
    (nodeFlags cx k items props pats addP deps anyOf oneOf allOf).all = true ∧
    (flagsList cx items).all = true ∧ (flagsOpt cx addI).all = true ∧ (flagsOpt cx cont).all = true ∧
    (flagsNamed cx props).all = true ∧ (flagsNamed cx pats).all = true ∧ (flagsOpt cx addP).all = true ∧
    (flagsOpt cx pn).all = true ∧ (flagsDeps cx deps).all = true ∧ (flagsList cx anyOf).all = true ∧
    (flagsList cx oneOf).all = true ∧ (flagsList cx allOf).all = true ∧ (flagsOpt cx not).all = true := by
  rw [flagsOf] at h
  simp only [Flags.all_and, Bool.and_eq_true] at h
  obtain ⟨h0, h1, h2, h3, h4, h5, h6, h7, h8, h9, h10, h11, h12⟩ := h
  exact ⟨h0, h1, h2, h3, h4, h5, h6, h7, h8, h9, h10, h11, h12⟩

/-- the parsed children of a schema object -/
def kidsOf (cx : PCtx) (items : List Schema) (addI cont : Option Schema) (props pats : List (String × Schema))
    (addP pn : Option Schema) (deps : List (Key × Schema)) (anyOf oneOf allOf : List Schema)
    (not : Option Schema) : Kids :=
  { items := parseList cx items, addItems := parseAddl cx addI, contains := parseOpt cx cont,
    props := parseNamed cx props, patProps := parseNamed cx pats, addProps := parseAddl cx addP,
    propNames := parseOpt cx pn, deps := parseDeps cx deps, anyOf := parseList cx anyOf,
    oneOf := parseList cx oneOf, allOf := parseList cx allOf, not := parseOpt cx not }

/-- the validity functions of the sub-schemas of a schema object -/
def ssubOf (env : Env) (items : List Schema) (addI cont : Option Schema) (props pats : List (String × Schema))
    (addP pn : Option Schema) (deps : List (Key × Schema)) (anyOf oneOf allOf : List Schema)
    (not : Option Schema) : D6.SSub :=
  { items := D6.vList env ℓ₀ items, addItems := D6.vOpt env ℓ₀ addI, contains := D6.vOpt env ℓ₀ cont,
    props := D6.vProps env ℓ₀ props, patProps := D6.vNamed env ℓ₀ pats, addProps := D6.vOpt env ℓ₀ addP,
    propNames := D6.vOpt env ℓ₀ pn, deps := D6.vDeps env ℓ₀ deps, anyOf := D6.vList env ℓ₀ anyOf,
    oneOf := D6.vList env ℓ₀ oneOf, allOf := D6.vList env ℓ₀ allOf, not := D6.vOpt env ℓ₀ not }

mutual
theorem parse_ok (env : Env) (cx : PCtx) : ∀ (s : Schema), (flagsOf cx s).all = true →
    ERel env (parseE cx s) (D6.valid env ℓ₀ s)
  | .bool b, _ => by
    rw [parseE, D6.valid]
    cases b
    · exact RC_nothing env
    · exact RC_trivial env
  | .mk k items addI cont props pats addP pn deps anyOf oneOf allOf not, h => by
    obtain ⟨h0, h1, h2, h3, h4, h5, h6, h7, h8, h9, h10, h11, h12⟩ := good_mk h
    rw [parseE, D6.valid]
    have hfaith : ∀ p ∈ props, (parseE cx p.2).kw.default.isSome = declaresDefaultS p.2 := by
      have : defaultFaithful cx props = true := by
        unfold Flags.all nodeFlags at h0
        simp only [Bool.and_eq_true] at h0
        exact h0.2
      unfold defaultFaithful at this
      intro p hp
      simpa using List.all_eq_true.mp this p hp
    have K : KidsRel env (kidsOf cx items addI cont props pats addP pn deps anyOf oneOf allOf not)
        (ssubOf env items addI cont props pats addP pn deps anyOf oneOf allOf not) :=
      { items := parseList_ok env cx items h1
        addItems := parseAddl_ok env cx addI h2
        contains := parseOpt_ok env cx cont h3
        props := parseProps_ok env cx props h4 hfaith
        patProps := parseNamed_ok env cx pats h5
        addProps := parseAddl_ok env cx addP h6
        propNames := parseOpt_ok env cx pn h7
        deps := parseDeps_ok env cx deps h8
        anyOf := parseList_ok env cx anyOf h9
        oneOf := parseList_ok env cx oneOf h10
        allOf := parseList_ok env cx allOf h11
        not := parseOpt_ok env cx not h12 }
    obtain ⟨N, hwf, hany, hone, hall⟩ := nodeOK_of_flags (env := env)
      (kidsOf cx items addI cont props pats addP pn deps anyOf oneOf allOf not)
      (ssubOf env items addI cont props pats addP pn deps anyOf oneOf allOf not) h0
      (vList_length env ℓ₀ items) (parseNamed_names cx props) rfl
    exact RC_assembleK K N hwf (by rw [hany]; exact (congrArg (!·) (parseList_isEmpty cx anyOf)).symm)
      (by rw [hone]; exact (congrArg (!·) (parseList_isEmpty cx oneOf)).symm)
      (by rw [hall]; exact (congrArg (!·) (parseList_isEmpty cx allOf)).symm)
theorem parseOpt_ok (env : Env) (cx : PCtx) : ∀ (o : Option Schema), (flagsOpt cx o).all = true →
    OptRel (ERel env) (parseOpt cx o) (D6.vOpt env ℓ₀ o)
  | none, _ => by rw [parseOpt, D6.vOpt]; exact OptRel.none
  | some s, h => by
    rw [parseOpt, D6.vOpt]
    rw [flagsOpt] at h
    exact OptRel.some (parse_ok env cx s h)
theorem parseAddl_ok (env : Env) (cx : PCtx) : ∀ (o : Option Schema), (flagsOpt cx o).all = true →
    AddlK env (parseAddl cx o) (D6.vOpt env ℓ₀ o)
  | none, _ => by rw [parseAddl, D6.vOpt]; exact AddlK.absent
  | some (.bool b), _ => by
    rw [parseAddl, D6.vOpt, D6.valid]
    exact AddlK.lit b
  | some (.mk k items addI cont props pats addP pn deps anyOf oneOf allOf not), h => by
    rw [parseAddl, D6.vOpt]
    rw [flagsOpt] at h
    exact AddlK.elem (parse_ok env cx _ h)
theorem parseList_ok (env : Env) (cx : PCtx) : ∀ (l : List Schema), (flagsList cx l).all = true →
    All2 (ERel env) (parseList cx l) (D6.vList env ℓ₀ l)
  | [], _ => by rw [parseList, D6.vList]; exact All2.nil
  | s :: ss, h => by
    rw [parseList, D6.vList]
    rw [flagsList, Flags.all_and, Bool.and_eq_true] at h
    exact All2.cons (parse_ok env cx s h.1) (parseList_ok env cx ss h.2)
theorem parseNamed_ok (env : Env) (cx : PCtx) : ∀ (l : List (String × Schema)), (flagsNamed cx l).all = true →
    All2 (fun (a : String × Elem) (b : String × D6.VF) => a.1 = b.1 ∧ ERel env a.2 b.2)
      (parseNamed cx l) (D6.vNamed env ℓ₀ l)
  | [], _ => by rw [parseNamed, D6.vNamed]; exact All2.nil
  | (k, s) :: r, h => by
    rw [parseNamed, D6.vNamed]
    rw [flagsNamed, Flags.all_and, Bool.and_eq_true] at h
    exact All2.cons ⟨rfl, parse_ok env cx s h.1⟩ (parseNamed_ok env cx r h.2)
theorem parseProps_ok (env : Env) (cx : PCtx) : ∀ (l : List (String × Schema)), (flagsNamed cx l).all = true →
    (∀ p ∈ l, (parseE cx p.2).kw.default.isSome = declaresDefaultS p.2) →
    All2 (fun (a : String × Elem) (b : String × Bool × D6.VF) =>
        a.1 = b.1 ∧ ERel env a.2 b.2.2 ∧ b.2.1 = a.2.kw.default.isSome)
      (parseNamed cx l) (D6.vProps env ℓ₀ l)
  | [], _, _ => by rw [parseNamed, D6.vProps]; exact All2.nil
  | (k, s) :: r, h, hf => by
    rw [parseNamed, D6.vProps]
    rw [flagsNamed, Flags.all_and, Bool.and_eq_true] at h
    refine All2.cons ⟨rfl, parse_ok env cx s h.1, ?_⟩
      (parseProps_ok env cx r h.2 fun p hp => hf p (List.mem_cons_of_mem _ hp))
    rw [declaresDefault_eq]
    exact (hf (k, s) (List.mem_cons_self ..)).symm
theorem parseDeps_ok (env : Env) (cx : PCtx) : ∀ (l : List (Key × Schema)), (flagsDeps cx l).all = true →
    All2 (fun (a : Key × Elem) (b : Key × D6.VF) => a.1 = b.1 ∧ ERel env a.2 b.2)
      (parseDeps cx l) (D6.vDeps env ℓ₀ l)
  | [], _ => by rw [parseDeps, D6.vDeps]; exact All2.nil
  | (k, s) :: r, h => by
    rw [parseDeps, D6.vDeps]
    rw [flagsDeps, Flags.all_and, Bool.and_eq_true] at h
    exact All2.cons ⟨rfl, parse_ok env cx s h.1⟩ (parseDeps_ok env cx r h.2)
end

end Statham
