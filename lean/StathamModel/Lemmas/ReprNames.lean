/-
  Which names the printed form of an element refers to: the constructor names of the element classes in the
  tree, `Property`, and the names of the model classes it reaches.
-/
import StathamModel.Py.Module
namespace Statham

/-- the name an element is printed with: its constructor, or the class name for a model class -/
def printedName (e : Elem) : String := pyClassName e.cls

def Allowed (pool : List Elem) (n : String) : Prop := n = "Property" ∨ ∃ d ∈ pool, printedName d = n

theorem Allowed.mono {pool pool' : List Elem} {n : String} (h : Allowed pool n) (hs : ∀ d ∈ pool, d ∈ pool') :
    Allowed pool' n := by
  rcases h with h | ⟨d, hd, hn⟩
  · exact Or.inl h
  · exact Or.inr ⟨d, hs d hd, hn⟩

/-! arrays always have `items` (the constructor requires it; otherwise the repr prints `NotPassed`) -/
mutual
def ArraysOK : Elem → Prop
  | .mk c kw items addI cont props pats addP pn deps els =>
    (c = .array → kw.itemsKind ≠ .none) ∧ (kw.itemsKind = .single → items ≠ []) ∧
    ArraysOKL items ∧ ArraysOKO addI ∧ ArraysOKO cont ∧ ArraysOKK props ∧ ArraysOKK pats ∧ ArraysOKO addP ∧ ArraysOKO pn ∧
    ArraysOKK deps ∧ ArraysOKL els
def ArraysOKO : Option Elem → Prop
  | none => True
  | some e => ArraysOK e
def ArraysOKL : List Elem → Prop
  | [] => True
  | e :: es => ArraysOK e ∧ ArraysOKL es
def ArraysOKK : List (Key × Elem) → Prop
  | [] => True
  | (_, e) :: r => ArraysOK e ∧ ArraysOKK r
end

/-! names of the rendered kids -/

def kidsNames (k : ReprKids) : List String :=
  PyExpr.namesList k.items ++ (k.addItems.map PyExpr.names).getD [] ++ (k.contains.map PyExpr.names).getD [] ++
  (k.props.map fun p => "Property" :: p.2.names).flatten ++ (k.patProps.map fun p => p.2.names).flatten ++
  (k.addProps.map PyExpr.names).getD [] ++ (k.propNames.map PyExpr.names).getD [] ++
  (k.deps.map fun p => if p.1.names.isSome then [] else p.2.names).flatten ++ PyExpr.namesList k.elements

theorem namesKw_map_lit {α} (l : List α) (f : α → String) (g : α → JVal) :
    PyExpr.namesKw (l.map fun a => (f a, PyExpr.lit (g a))) = [] := by
  induction l with
  | nil => rfl
  | cons a r ih => simp [PyExpr.namesKw, PyExpr.names, ih]

theorem propExpr_names (k : Key) (e : PyExpr) : (propExpr k e).names = "Property" :: e.names := by
  unfold propExpr
  by_cases h1 : k.required = true <;> by_cases h2 : (k.src == k.name) = true <;>
    simp [h1, h2, PyExpr.names, PyExpr.namesList, PyExpr.namesKw]

theorem namesKw_props (l : List (Key × PyExpr)) :
    PyExpr.namesKw (l.map fun p => (p.1.name, propExpr p.1 p.2)) = (l.map fun p => "Property" :: p.2.names).flatten := by
  induction l with
  | nil => rfl
  | cons a r ih => simp [PyExpr.namesKw, propExpr_names, ih]

theorem namesKw_keyed (l : List (Key × PyExpr)) :
    PyExpr.namesKw (l.map fun p => (p.1.name, p.2)) = (l.map fun p => p.2.names).flatten := by
  induction l with
  | nil => rfl
  | cons a r ih => simp [PyExpr.namesKw, ih]

theorem namesKw_deps (l : List (Key × PyExpr)) :
    PyExpr.namesKw (l.map fun d => (d.1.name, match d.1.names with
        | some l => PyExpr.lit (.arr (l.map JVal.str))
        | none => d.2)) = (l.map fun p => if p.1.names.isSome then [] else p.2.names).flatten := by
  induction l with
  | nil => rfl
  | cons a r ih =>
    cases hn : a.1.names <;> simp [PyExpr.namesKw, PyExpr.names, hn, ih]

theorem mem_namesList_of_mem {e : PyExpr} {l : List PyExpr} (he : e ∈ l) {n : String} (hn : n ∈ e.names) :
    n ∈ PyExpr.namesList l := by
  induction l with
  | nil => cases he
  | cons a r ih =>
    rw [PyExpr.namesList]
    rcases List.mem_cons.mp he with rfl | he
    · exact List.mem_append_left _ hn
    · exact List.mem_append_right _ (ih he)

/-- a printed keyword only refers to names of the rendered kids -/
theorem kwExpr_names (kw : Kw) (k : ReprKids) (name : String) (x : PyExpr) (h : kwExpr kw k name = some x) :
    ∀ n ∈ x.names, n ∈ kidsNames k := by
  intro n hn
  unfold kwExpr at h
  unfold kidsNames
  split at h
  all_goals first
    | (cases h; done)
    | (simp only [Option.map_eq_some_iff] at h; obtain ⟨_, _, rfl⟩ := h; simp [PyExpr.names, numE] at hn; done)
    | skip
  -- items
  · cases hk : kw.itemsKind with
    | none => rw [hk] at h; cases h
    | single =>
      rw [hk] at h
      simp only at h
      have hm : x ∈ k.items := List.mem_of_head? h
      have := mem_namesList_of_mem hm hn
      simp [List.mem_append, this]
    | tuple =>
      rw [hk] at h
      simp only [Option.some.injEq] at h
      subst h
      simp only [PyExpr.names] at hn
      simp [List.mem_append, hn]
  -- additionalItems
  · cases ha : k.addItems with
    | some e =>
      rw [ha] at h
      simp only [Option.some.injEq] at h
      subst h
      simp [List.mem_append, hn]
    | none =>
      rw [ha] at h
      simp only at h
      by_cases hb : kw.addItemsB = true
      · simp [hb] at h
      · simp only [hb, Bool.false_eq_true, if_false, Option.some.injEq] at h
        subst h
        simp [PyExpr.names] at hn
  -- uniqueItems
  · by_cases hb : kw.uniqueItems = true
    · simp only [hb, if_true, Option.some.injEq] at h; subst h; simp [PyExpr.names] at hn
    · simp [hb] at h
  -- contains
  · simp [List.mem_append, h, hn]
  -- properties
  · by_cases hb : kw.hasProps = true
    · simp only [hb, if_true, Option.some.injEq] at h
      subst h
      simp only [PyExpr.names, namesKw_props] at hn
      simp [List.mem_append, hn]
    · simp [hb] at h
  -- patternProperties
  · by_cases hb : kw.hasPatProps = true
    · simp only [hb, if_true, Option.some.injEq] at h
      subst h
      simp only [PyExpr.names, namesKw_keyed] at hn
      simp [List.mem_append, hn]
    · simp [hb] at h
  -- additionalProperties
  · cases ha : k.addProps with
    | some e =>
      rw [ha] at h
      simp only [Option.some.injEq] at h
      subst h
      simp [List.mem_append, hn]
    | none =>
      rw [ha] at h
      simp only at h
      by_cases hb : kw.addPropsB = true
      · simp [hb] at h
      · simp only [hb, Bool.false_eq_true, if_false, Option.some.injEq] at h
        subst h
        simp [PyExpr.names] at hn
  -- propertyNames
  · simp [List.mem_append, h, hn]
  -- dependencies
  · by_cases hb : kw.hasDeps = true
    · simp only [hb, if_true, Option.some.injEq] at h
      subst h
      simp only [PyExpr.names] at hn
      have hd := namesKw_deps k.deps
      have hn' : n ∈ (k.deps.map fun p => if p.1.names.isSome then [] else p.2.names).flatten := hd ▸ hn
      simp only [List.mem_append]
      exact Or.inl (Or.inr hn')
    · simp [hb] at h

theorem kwargsOf_names (sig : List Gen.Param) (kw : Kw) (k : ReprKids) :
    ∀ n ∈ PyExpr.namesKw (kwargsOf sig kw k), n ∈ kidsNames k := by
  unfold kwargsOf
  generalize sig.filter (fun p => p.kind == .keywordOnly) = ps
  induction ps with
  | nil => intro n hn; simp [PyExpr.namesKw] at hn
  | cons p r ih =>
    intro n hn
    simp only [List.filterMap_cons] at hn
    cases hk : kwExpr kw k p.name with
    | none => rw [hk] at hn; exact ih n hn
    | some x =>
      rw [hk] at hn
      simp only [Option.map_some, PyExpr.namesKw, List.mem_append] at hn
      rcases hn with hn | hn
      · exact kwExpr_names kw k p.name x hk n hn
      · exact ih n hn

theorem mem_namesList_take {l : List PyExpr} {m : Nat} {n : String} (h : n ∈ PyExpr.namesList (l.take m)) :
    n ∈ PyExpr.namesList l := by
  induction l generalizing m with
  | nil => simpa using h
  | cons a r ih =>
    cases m with
    | zero => simp [PyExpr.namesList] at h
    | succ m =>
      simp only [List.take_succ_cons, PyExpr.namesList, List.mem_append] at h ⊢
      rcases h with h | h
      · exact Or.inl h
      · exact Or.inr (ih h)

/-- the printed form of one node refers to its own printed name and to names of its rendered kids -/
theorem reprCore_names (c : Cls) (kw : Kw) (k : ReprKids) (harr : c = .array → kw.itemsKind ≠ .none)
    (hsingle : kw.itemsKind = .single → k.items ≠ []) :
    ∀ n ∈ (reprCore c kw k).names, n = pyClassName c ∨ n ∈ kidsNames k := by
  intro n hn
  have items_in : ∀ m, m ∈ PyExpr.namesList k.items → m ∈ kidsNames k := by
    intro m hm; unfold kidsNames; simp [List.mem_append, hm]
  have els_in : ∀ m, m ∈ PyExpr.namesList k.elements → m ∈ kidsNames k := by
    intro m hm; unfold kidsNames; simp [List.mem_append, hm]
  cases c with
  | object nm => simp only [reprCore, PyExpr.names, List.mem_singleton] at hn; exact Or.inl (by rw [hn]; rfl)
  | array =>
    simp only [reprCore, PyExpr.names, PyExpr.namesList, List.mem_cons, List.mem_append, List.append_nil] at hn
    rcases hn with rfl | hn | hn
    · exact Or.inl rfl
    · right
      cases hk : kwExpr kw k "items" with
      | some x => rw [hk] at hn; exact kwExpr_names kw k "items" x hk n (by simpa using hn)
      | none =>
        exfalso
        simp only [kwExpr] at hk
        cases hkind : kw.itemsKind with
        | none => exact harr rfl hkind
        | single =>
          rw [hkind] at hk
          simp only at hk
          cases hi : k.items with
          | nil => exact hsingle hkind hi
          | cons a r => rw [hi] at hk; cases hk
        | tuple => rw [hkind] at hk; cases hk
    · exact Or.inr (kwargsOf_names _ kw k n hn)
  | not =>
    simp only [reprCore, PyExpr.names, List.mem_cons, List.mem_append] at hn
    rcases hn with rfl | hn | hn
    · exact Or.inl rfl
    · exact Or.inr (els_in n (mem_namesList_take hn))
    · exact Or.inr (kwargsOf_names _ kw k n hn)
  | anyOf =>
    simp only [reprCore, PyExpr.names, List.mem_cons, List.mem_append] at hn
    rcases hn with rfl | hn | hn
    · exact Or.inl rfl
    · exact Or.inr (els_in n hn)
    · exact Or.inr (kwargsOf_names _ kw k n hn)
  | oneOf =>
    simp only [reprCore, PyExpr.names, List.mem_cons, List.mem_append] at hn
    rcases hn with rfl | hn | hn
    · exact Or.inl rfl
    · exact Or.inr (els_in n hn)
    · exact Or.inr (kwargsOf_names _ kw k n hn)
  | allOf =>
    simp only [reprCore, PyExpr.names, List.mem_cons, List.mem_append] at hn
    rcases hn with rfl | hn | hn
    · exact Or.inl rfl
    · exact Or.inr (els_in n hn)
    · exact Or.inr (kwargsOf_names _ kw k n hn)
  | element | nothing | boolean | integer | null | number | string =>
    simp only [reprCore, PyExpr.names, PyExpr.namesList, List.mem_cons, List.mem_append, List.not_mem_nil, false_or] at hn
    rcases hn with rfl | hn
    · exact Or.inl rfl
    · exact Or.inr (kwargsOf_names _ kw k n hn)

theorem reprList_ne_nil {es : List Elem} (h : es ≠ []) : reprList es ≠ [] := by
  cases es with
  | nil => exact absurd rfl h
  | cons e r => rw [reprList]; exact List.cons_ne_nil _ _

mutual
theorem reprExpr_names : ∀ (e : Elem), ArraysOK e → ∀ n ∈ (reprExpr e).names, Allowed (e :: descendants e) n
  | .mk c kw items addI cont props pats addP pn deps els, h => by
    rw [ArraysOK] at h
    obtain ⟨harr, hsingle, hi, ha, hc, hp, hpt, hap, hpn, hd, he⟩ := h
    intro n hn
    rw [reprExpr] at hn
    rcases reprCore_names c kw _ harr (fun hk => reprList_ne_nil (hsingle hk)) n hn with hn | hn
    · exact Or.inr ⟨_, List.mem_cons_self .., by rw [hn]; rfl⟩
    · have sub : ∀ (pool : List Elem), (∀ d ∈ pool, d ∈ descendants (.mk c kw items addI cont props pats addP pn deps els)) →
          Allowed pool n → Allowed ((Elem.mk c kw items addI cont props pats addP pn deps els) ::
            descendants (.mk c kw items addI cont props pats addP pn deps els)) n :=
        fun pool hs ha => ha.mono fun d hd => List.mem_cons_of_mem _ (hs d hd)
      unfold kidsNames at hn
      simp only [List.mem_append] at hn
      rcases hn with ((((((((hn | hn) | hn) | hn) | hn) | hn) | hn) | hn) | hn)
      · exact sub _ (fun d hd => by rw [descendants]; simp [List.mem_append, hd]) (reprList_names items hi n hn)
      · exact sub _ (fun d hd => by rw [descendants]; simp [List.mem_append, hd]) (reprOpt_names addI ha n hn)
      · exact sub _ (fun d hd => by rw [descendants]; simp [List.mem_append, hd]) (reprOpt_names cont hc n hn)
      · exact sub _ (fun d hd => by rw [descendants]; simp [List.mem_append, hd]) (reprProps_names props hp n hn)
      · exact sub _ (fun d hd => by rw [descendants]; simp [List.mem_append, hd]) (reprKeyed_names pats hpt n hn)
      · exact sub _ (fun d hd => by rw [descendants]; simp [List.mem_append, hd]) (reprOpt_names addP hap n hn)
      · exact sub _ (fun d hd => by rw [descendants]; simp [List.mem_append, hd]) (reprOpt_names pn hpn n hn)
      · exact sub _ (fun d hd => by rw [descendants]; simp [List.mem_append, hd]) (reprDeps_names deps hd n hn)
      · exact sub _ (fun d hd => by rw [descendants]; simp [List.mem_append, hd]) (reprList_names els he n hn)
theorem reprOpt_names : ∀ (o : Option Elem), ArraysOKO o →
    ∀ n ∈ ((reprOpt o).map PyExpr.names).getD [], Allowed (descO o) n
  | none, _ => by intro n hn; simp [reprOpt] at hn
  | some e, h => by
    rw [ArraysOKO] at h
    intro n hn
    simp only [reprOpt, Option.map_some, Option.getD_some] at hn
    rw [descO]
    exact reprExpr_names e h n hn
theorem reprList_names : ∀ (es : List Elem), ArraysOKL es → ∀ n ∈ PyExpr.namesList (reprList es), Allowed (descL es) n
  | [], _ => by intro n hn; simp [reprList, PyExpr.namesList] at hn
  | e :: es, h => by
    rw [ArraysOKL] at h
    intro n hn
    simp only [reprList, PyExpr.namesList, List.mem_append] at hn
    rw [descL]
    rcases hn with hn | hn
    · exact (reprExpr_names e h.1 n hn).mono fun d hd => List.mem_append_left _ hd
    · exact (reprList_names es h.2 n hn).mono fun d hd => List.mem_append_right _ hd
theorem reprProps_names : ∀ (l : List (Key × Elem)), ArraysOKK l →
    ∀ n ∈ ((reprKeyed l).map fun p => "Property" :: p.2.names).flatten, Allowed (descK l) n
  | [], _ => by intro n hn; simp [reprKeyed] at hn
  | (k, e) :: r, h => by
    rw [ArraysOKK] at h
    intro n hn
    simp only [reprKeyed, List.map_cons, List.flatten_cons, List.mem_append, List.mem_cons] at hn
    rw [descK]
    rcases hn with (hn | hn) | hn
    · exact Or.inl hn
    · exact (reprExpr_names e h.1 n hn).mono fun d hd => List.mem_append_left _ hd
    · exact (reprProps_names r h.2 n hn).mono fun d hd => List.mem_append_right _ hd
theorem reprKeyed_names : ∀ (l : List (Key × Elem)), ArraysOKK l →
    ∀ n ∈ ((reprKeyed l).map fun p => p.2.names).flatten, Allowed (descK l) n
  | [], _ => by intro n hn; simp [reprKeyed] at hn
  | (k, e) :: r, h => by
    rw [ArraysOKK] at h
    intro n hn
    simp only [reprKeyed, List.map_cons, List.flatten_cons, List.mem_append] at hn
    rw [descK]
    rcases hn with hn | hn
    · exact (reprExpr_names e h.1 n hn).mono fun d hd => List.mem_append_left _ hd
    · exact (reprKeyed_names r h.2 n hn).mono fun d hd => List.mem_append_right _ hd
theorem reprDeps_names : ∀ (l : List (Key × Elem)), ArraysOKK l →
    ∀ n ∈ ((reprKeyed l).map fun p => if p.1.names.isSome then [] else p.2.names).flatten, Allowed (descD l) n
  | [], _ => by intro n hn; simp [reprKeyed] at hn
  | (k, e) :: r, h => by
    rw [ArraysOKK] at h
    intro n hn
    simp only [reprKeyed, List.map_cons, List.flatten_cons, List.mem_append] at hn
    rw [descD]
    rcases hn with hn | hn
    · by_cases hk : k.names.isSome = true
      · simp [hk] at hn
      · simp only [hk, Bool.false_eq_true, if_false] at hn ⊢
        exact (reprExpr_names e h.1 n hn).mono fun d hd => List.mem_append_left _ hd
    · exact (reprDeps_names r h.2 n hn).mono fun d hd => List.mem_append_right _ hd
end

/-- the rendered kids of an element only refer to `Property` and to printed names of its descendants -/
theorem kids_allowed : ∀ (e : Elem), ArraysOK e → ∀ n ∈ kidsNames (reprKidsOf e), Allowed (descendants e) n
  | .mk c kw items addI cont props pats addP pn deps els, h => by
    rw [ArraysOK] at h
    obtain ⟨_, _, hi, ha, hc, hp, hpt, hap, hpn, hd, he⟩ := h
    intro n hn
    unfold kidsNames reprKidsOf at hn
    simp only [List.mem_append, Elem.items, Elem.addItems, Elem.contains, Elem.props, Elem.patProps, Elem.addProps,
      Elem.propNames, Elem.deps, Elem.elements] at hn
    rw [descendants]
    rcases hn with ((((((((hn | hn) | hn) | hn) | hn) | hn) | hn) | hn) | hn)
    · exact (reprList_names items hi n hn).mono fun d hd => by simp [List.mem_append, hd]
    · exact (reprOpt_names addI ha n hn).mono fun d hd => by simp [List.mem_append, hd]
    · exact (reprOpt_names cont hc n hn).mono fun d hd => by simp [List.mem_append, hd]
    · exact (reprProps_names props hp n hn).mono fun d hd => by simp [List.mem_append, hd]
    · exact (reprKeyed_names pats hpt n hn).mono fun d hd => by simp [List.mem_append, hd]
    · exact (reprOpt_names addP hap n hn).mono fun d hd => by simp [List.mem_append, hd]
    · exact (reprOpt_names pn hpn n hn).mono fun d hd => by simp [List.mem_append, hd]
    · exact (reprDeps_names deps hd n hn).mono fun d hd => by simp [List.mem_append, hd]
    · exact (reprList_names els he n hn).mono fun d hd => by simp [List.mem_append, hd]

theorem mem_descK {l : List (Key × Elem)} {k : Key} {e : Elem} (h : (k, e) ∈ l) :
    e ∈ descK l ∧ ∀ x ∈ descendants e, x ∈ descK l := by
  induction l with
  | nil => cases h
  | cons a r ih =>
    obtain ⟨k', e'⟩ := a
    rw [descK]
    rcases List.mem_cons.mp h with he | h
    · simp only [Prod.mk.injEq] at he
      obtain ⟨_, rfl⟩ := he
      exact ⟨List.mem_append_left _ (List.mem_cons_self ..),
        fun x hx => List.mem_append_left _ (List.mem_cons_of_mem _ hx)⟩
    · exact ⟨List.mem_append_right _ (ih h).1, fun x hx => List.mem_append_right _ ((ih h).2 x hx)⟩

theorem arraysOKK_mem {l : List (Key × Elem)} (h : ArraysOKK l) {k : Key} {e : Elem} (hm : (k, e) ∈ l) : ArraysOK e := by
  induction l with
  | nil => cases hm
  | cons a r ih =>
    obtain ⟨k', e'⟩ := a
    rw [ArraysOKK] at h
    rcases List.mem_cons.mp hm with he | hm
    · simp only [Prod.mk.injEq] at he; rw [he.2]; exact h.1
    · exact ih h.2 hm

theorem arraysOK_prop {c : Elem} (h : ArraysOK c) {k : Key} {e : Elem} (hm : (k, e) ∈ c.props) : ArraysOK e := by
  cases c with
  | mk cl kw items addI cont props pats addP pn deps es =>
    rw [ArraysOK] at h
    exact arraysOKK_mem h.2.2.2.2.2.1 hm

/-- a property's element and everything below it are descendants of the class -/
theorem prop_in_descendants (c : Elem) {k : Key} {e : Elem} (h : (k, e) ∈ c.props) :
    ∀ x ∈ e :: descendants e, x ∈ descendants c := by
  cases c with
  | mk cl kw items addI cont props pats addP pn deps els =>
    simp only [Elem.props] at h
    intro x hx
    rw [descendants]
    have := mem_descK h
    rcases List.mem_cons.mp hx with rfl | hx
    · simp [List.mem_append, this.1]
    · simp [List.mem_append, this.2 x hx]

end Statham
