/-
  A structural, executable equality test on element trees with its soundness proof, and the executable reading of the normal
  form `NF` built on it: `nfBool cx e = true → NF cx e`.  The driver classifies trees with `nfBool`; because of the soundness
  theorem a tree it reports as normal-form *is* in the hypothesis of `C03_partial_meaning` / `C06_partial_round_trip`.
-/
import StathamModel.ToSchema
namespace Statham

mutual
def JVal.same : JVal → JVal → Bool
  | .null, .null => true
  | .bool a, .bool b => a == b
  | .num a, .num b => decide (a = b)
  | .str a, .str b => a == b
  | .arr xs, .arr ys => sameL xs ys
  | .obj xs, .obj ys => sameKV xs ys
  | _, _ => false
def sameL : List JVal → List JVal → Bool
  | [], [] => true
  | x :: xs, y :: ys => JVal.same x y && sameL xs ys
  | _, _ => false
def sameKV : List (String × JVal) → List (String × JVal) → Bool
  | [], [] => true
  | (k, x) :: xs, (k', y) :: ys => k == k' && JVal.same x y && sameKV xs ys
  | _, _ => false
end

mutual
theorem JVal.same_sound : ∀ (a b : JVal), JVal.same a b = true → a = b
  | .null, b, h => by cases b <;> simp_all [JVal.same]
  | .bool x, b, h => by cases b <;> simp_all [JVal.same]
  | .num x, b, h => by cases b <;> simp_all [JVal.same]
  | .str x, b, h => by cases b <;> simp_all [JVal.same]
  | .arr xs, b, h => by
    cases b with
    | arr ys => rw [JVal.same] at h; rw [sameL_sound xs ys h]
    | _ => simp [JVal.same] at h
  | .obj xs, b, h => by
    cases b with
    | obj ys => rw [JVal.same] at h; rw [sameKV_sound xs ys h]
    | _ => simp [JVal.same] at h
theorem sameL_sound : ∀ (xs ys : List JVal), sameL xs ys = true → xs = ys
  | [], ys, h => by cases ys <;> simp_all [sameL]
  | x :: xs, ys, h => by
    cases ys with
    | nil => simp [sameL] at h
    | cons y ys =>
      rw [sameL, Bool.and_eq_true] at h
      rw [JVal.same_sound x y h.1, sameL_sound xs ys h.2]
theorem sameKV_sound : ∀ (xs ys : List (String × JVal)), sameKV xs ys = true → xs = ys
  | [], ys, h => by cases ys <;> simp_all [sameKV]
  | (k, x) :: xs, ys, h => by
    cases ys with
    | nil => simp [sameKV] at h
    | cons p ys =>
      obtain ⟨k', y⟩ := p
      rw [sameKV, Bool.and_eq_true, Bool.and_eq_true] at h
      have hk : k = k' := by simpa using h.1.1
      rw [hk, JVal.same_sound x y h.1.2, sameKV_sound xs ys h.2]
end

def optSame {α} (f : α → α → Bool) : Option α → Option α → Bool
  | none, none => true
  | some a, some b => f a b
  | _, _ => false

theorem optSame_sound {α} {f : α → α → Bool} (hf : ∀ a b, f a b = true → a = b) :
    ∀ (a b : Option α), optSame f a b = true → a = b
  | none, none, _ => rfl
  | some a, some b, h => by rw [hf a b h]
  | none, some _, h => by simp [optSame] at h
  | some _, none, h => by simp [optSame] at h

def Kw.same (a b : Kw) : Bool :=
  optSame JVal.same a.default b.default && optSame JVal.same a.const b.const && optSame sameL a.enum b.enum &&
  decide (a.itemsKind = b.itemsKind) && a.addItemsB == b.addItemsB && decide (a.minItems = b.minItems) &&
  decide (a.maxItems = b.maxItems) && a.uniqueItems == b.uniqueItems && decide (a.minimum = b.minimum) &&
  decide (a.maximum = b.maximum) && decide (a.exclusiveMinimum = b.exclusiveMinimum) &&
  decide (a.exclusiveMaximum = b.exclusiveMaximum) && decide (a.multipleOf = b.multipleOf) && decide (a.format = b.format) &&
  decide (a.pattern = b.pattern) && decide (a.minLength = b.minLength) && decide (a.maxLength = b.maxLength) &&
  decide (a.required = b.required) && a.hasProps == b.hasProps && a.hasPatProps == b.hasPatProps &&
  a.addPropsB == b.addPropsB && decide (a.minProperties = b.minProperties) && decide (a.maxProperties = b.maxProperties) &&
  a.hasDeps == b.hasDeps && decide (a.description = b.description)

theorem Kw.same_sound (a b : Kw) (h : Kw.same a b = true) : a = b := by
  unfold Kw.same at h
  simp only [Bool.and_eq_true, decide_eq_true_eq, beq_iff_eq] at h
  obtain ⟨⟨⟨⟨⟨⟨⟨⟨⟨⟨⟨⟨⟨⟨⟨⟨⟨⟨⟨⟨⟨⟨⟨⟨h1, h2⟩, h3⟩, h4⟩, h5⟩, h6⟩, h7⟩, h8⟩, h9⟩, h10⟩, h11⟩, h12⟩, h13⟩, h14⟩, h15⟩, h16⟩, h17⟩, h18⟩,
    h19⟩, h20⟩, h21⟩, h22⟩, h23⟩, h24⟩, h25⟩ := h
  have e1 := optSame_sound JVal.same_sound _ _ h1
  have e2 := optSame_sound JVal.same_sound _ _ h2
  have e3 := optSame_sound sameL_sound _ _ h3
  cases a; cases b
  simp_all

mutual
def Elem.same : Elem → Elem → Bool
  | .mk c kw items addI cont props pats addP pn deps els, .mk c' kw' items' addI' cont' props' pats' addP' pn' deps' els' =>
    decide (c = c') && Kw.same kw kw' && sameEL items items' && sameEO addI addI' && sameEO cont cont' && sameEK props props' &&
    sameEK pats pats' && sameEO addP addP' && sameEO pn pn' && sameEK deps deps' && sameEL els els'
def sameEO : Option Elem → Option Elem → Bool
  | none, none => true
  | some a, some b => Elem.same a b
  | _, _ => false
def sameEL : List Elem → List Elem → Bool
  | [], [] => true
  | a :: as, b :: bs => Elem.same a b && sameEL as bs
  | _, _ => false
def sameEK : List (Key × Elem) → List (Key × Elem) → Bool
  | [], [] => true
  | (k, a) :: as, (k', b) :: bs => decide (k = k') && Elem.same a b && sameEK as bs
  | _, _ => false
end

mutual
theorem Elem.same_sound : ∀ (a b : Elem), Elem.same a b = true → a = b
  | .mk c kw items addI cont props pats addP pn deps els, .mk c' kw' items' addI' cont' props' pats' addP' pn' deps' els', h => by
    rw [Elem.same] at h
    simp only [Bool.and_eq_true, decide_eq_true_eq] at h
    obtain ⟨⟨⟨⟨⟨⟨⟨⟨⟨⟨h1, h2⟩, h3⟩, h4⟩, h5⟩, h6⟩, h7⟩, h8⟩, h9⟩, h10⟩, h11⟩ := h
    rw [h1, Kw.same_sound kw kw' h2, sameEL_sound items items' h3, sameEO_sound addI addI' h4, sameEO_sound cont cont' h5,
      sameEK_sound props props' h6, sameEK_sound pats pats' h7, sameEO_sound addP addP' h8, sameEO_sound pn pn' h9,
      sameEK_sound deps deps' h10, sameEL_sound els els' h11]
theorem sameEO_sound : ∀ (a b : Option Elem), sameEO a b = true → a = b
  | none, none, _ => rfl
  | some a, some b, h => by rw [sameEO] at h; rw [Elem.same_sound a b h]
  | none, some _, h => by simp [sameEO] at h
  | some _, none, h => by simp [sameEO] at h
theorem sameEL_sound : ∀ (a b : List Elem), sameEL a b = true → a = b
  | [], [], _ => rfl
  | a :: as, b :: bs, h => by
    rw [sameEL, Bool.and_eq_true] at h
    rw [Elem.same_sound a b h.1, sameEL_sound as bs h.2]
  | [], _ :: _, h => by simp [sameEL] at h
  | _ :: _, [], h => by simp [sameEL] at h
theorem sameEK_sound : ∀ (a b : List (Key × Elem)), sameEK a b = true → a = b
  | [], [], _ => rfl
  | (k, a) :: as, (k', b) :: bs, h => by
    rw [sameEK, Bool.and_eq_true, Bool.and_eq_true] at h
    have hk : k = k' := by simpa using h.1.1
    rw [hk, Elem.same_sound a b h.1.2, sameEK_sound as bs h.2]
  | [], _ :: _, h => by simp [sameEK] at h
  | _ :: _, [], h => by simp [sameEK] at h
end

/-! ### the executable normal form -/

def nnB : Option Elem → Bool
  | some e => decide (e.cls ≠ .nothing)
  | none => true

def nfNodeBool (cx : PCtx) (e : Elem) : Bool :=
  (if e.cls = .nothing then Elem.same e Elem.nothing
   else Elem.same (assembleK cx (nodeSKw e.cls e.kw e.props) (nodeKids e)) e) &&
  nnB e.addItems && nnB e.addProps

theorem nfNodeBool_sound (cx : PCtx) (e : Elem) (h : nfNodeBool cx e = true) : NFnode cx e := by
  unfold nfNodeBool at h
  simp only [Bool.and_eq_true] at h
  obtain ⟨⟨h1, h2⟩, h3⟩ := h
  refine ⟨fun hc => ?_, fun hc => ?_, ?_, ?_⟩
  · rw [if_pos hc] at h1; exact Elem.same_sound _ _ h1
  · rw [if_neg hc] at h1; exact Elem.same_sound _ _ h1
  · cases ha : e.addItems with
    | none => trivial
    | some a => rw [ha] at h2; simpa [nnB, notNothing] using h2
  · cases ha : e.addProps with
    | none => trivial
    | some a => rw [ha] at h3; simpa [nnB, notNothing] using h3

mutual
def nfBool (cx : PCtx) : Elem → Bool
  | .mk c kw items addI cont props pats addP pn deps els =>
    nfNodeBool cx (.mk c kw items addI cont props pats addP pn deps els) &&
    nfBoolL cx items && nfBoolO cx addI && nfBoolO cx cont && nfBoolK cx props && nfBoolK cx pats && nfBoolO cx addP &&
    nfBoolO cx pn && nfBoolK cx deps && nfBoolL cx els
def nfBoolO (cx : PCtx) : Option Elem → Bool
  | none => true
  | some e => nfBool cx e
def nfBoolL (cx : PCtx) : List Elem → Bool
  | [] => true
  | e :: es => nfBool cx e && nfBoolL cx es
def nfBoolK (cx : PCtx) : List (Key × Elem) → Bool
  | [] => true
  | (_, e) :: r => nfBool cx e && nfBoolK cx r
end

mutual
/-- **the executable normal form is sound** -/
theorem nfBool_sound (cx : PCtx) : ∀ (e : Elem), nfBool cx e = true → NF cx e
  | .mk c kw items addI cont props pats addP pn deps els, h => by
    rw [nfBool] at h
    simp only [Bool.and_eq_true] at h
    obtain ⟨⟨⟨⟨⟨⟨⟨⟨⟨h0, h1⟩, h2⟩, h3⟩, h4⟩, h5⟩, h6⟩, h7⟩, h8⟩, h9⟩ := h
    rw [NF]
    exact ⟨nfNodeBool_sound cx _ h0, nfBoolL_sound cx items h1, nfBoolO_sound cx addI h2, nfBoolO_sound cx cont h3,
      nfBoolK_sound cx props h4, nfBoolK_sound cx pats h5, nfBoolO_sound cx addP h6, nfBoolO_sound cx pn h7,
      nfBoolK_sound cx deps h8, nfBoolL_sound cx els h9⟩
theorem nfBoolO_sound (cx : PCtx) : ∀ (o : Option Elem), nfBoolO cx o = true → NFO cx o
  | none, _ => by rw [NFO]; trivial
  | some e, h => by rw [nfBoolO] at h; rw [NFO]; exact nfBool_sound cx e h
theorem nfBoolL_sound (cx : PCtx) : ∀ (l : List Elem), nfBoolL cx l = true → NFL cx l
  | [], _ => by rw [NFL]; trivial
  | e :: es, h => by
    rw [nfBoolL, Bool.and_eq_true] at h
    rw [NFL]
    exact ⟨nfBool_sound cx e h.1, nfBoolL_sound cx es h.2⟩
theorem nfBoolK_sound (cx : PCtx) : ∀ (l : List (Key × Elem)), nfBoolK cx l = true → NFK cx l
  | [], _ => by rw [NFK]; trivial
  | (k, e) :: r, h => by
    rw [nfBoolK, Bool.and_eq_true] at h
    rw [NFK]
    exact ⟨nfBool_sound cx e h.1, nfBoolK_sound cx r h.2⟩
end

end Statham
