/-
  On a metaschema-valid schema `parse_element` raises nothing outside the schema-parse family.
-/
import StathamModel.Good
namespace Statham

theorem Flags.and_wf (a b : Flags) : (a.and b).wf = (a.wf && b.wf) := rfl

/-- no error, or one of the library's schema-parse errors -/
def LibErr (o : Option PErr) : Prop := o = none ∨ o = some .notImplemented ∨ o = some .missingTitle

theorem LibErr.none : LibErr none := Or.inl rfl

theorem firstErr_lib {l : List (Option PErr)} (h : ∀ o ∈ l, LibErr o) : LibErr (firstErr l) := by
  induction l with
  | nil => exact LibErr.none
  | cons o l ih =>
    cases o with
    | none => rw [firstErr]; exact ih fun x hx => h x (List.mem_cons_of_mem _ hx)
    | some e => rw [firstErr]; exact h (some e) (List.mem_cons_self ..)

theorem typeNameErr_lib (k : SKw) (t : String) (ht : knownTypes.contains t = true) : LibErr (typeNameErr k t) := by
  unfold typeNameErr
  split
  · split
    · exact Or.inr (Or.inr rfl)
    · exact LibErr.none
  · split
    · exact LibErr.none
    · have : (typedLeaf t).isSome = true := by
        simp only [knownTypes, List.contains_cons, List.contains_nil, Bool.or_false, Bool.or_eq_true, beq_iff_eq] at ht
        rcases ht with rfl | rfl | rfl | rfl | rfl | rfl | rfl <;> first | rfl | simp_all
      simp only [this, if_true]
      exact LibErr.none

theorem ownErr_lib (k : SKw)
    (h : (match k.type with
      | .none => true
      | .single t => knownTypes.contains t
      | .list ts => !ts.isEmpty && ts.all (knownTypes.contains ·) && distinct ts) = true) : LibErr (ownErr k) := by
  unfold ownErr
  cases ht : k.type with
  | none => exact LibErr.none
  | single t => rw [ht] at h; exact typeNameErr_lib k t h
  | list ts =>
    rw [ht] at h
    simp only [Bool.and_eq_true, Bool.not_eq_true', List.all_eq_true] at h
    cases ts with
    | nil => simp at h
    | cons t rest =>
      simp only
      apply firstErr_lib
      intro o ho
      obtain ⟨x, hx, rfl⟩ := List.mem_map.mp ho
      exact typeNameErr_lib k x (h.1.2 x hx)

mutual
theorem parseErr_lib (cx : PCtx) : ∀ (s : Schema), (flagsOf cx s).wf = true → LibErr (parseErr s)
  | .bool _, _ => by rw [parseErr]; exact LibErr.none
  | .mk k items addI cont props pats addP pn deps anyOf oneOf allOf not, h => by
    rw [flagsOf] at h
    simp only [Flags.and_wf, Bool.and_eq_true] at h
    obtain ⟨h0, h1, h2, h3, h4, h5, h6, h7, h8, h9, h10, h11, h12⟩ := h
    rw [parseErr]
    have hwf : wfNode k items props pats deps anyOf oneOf allOf = true := by
      simpa [nodeFlags] using h0
    unfold wfNode at hwf
    simp only [Bool.and_eq_true] at hwf
    have hty := hwf.1.1.1.1.1.1.1.1.1.1.1.1.1.1.1.1.1.1.1.1
    have huns : k.unsupported.isEmpty = true := hwf.2
    simp only [huns, Bool.not_true, Bool.false_eq_true, if_false]
    apply firstErr_lib
    intro o ho
    simp only [List.mem_cons, List.mem_nil_iff, or_false] at ho
    rcases ho with rfl | rfl | rfl | rfl | rfl | rfl | rfl | rfl | rfl | rfl | rfl | rfl | rfl
    · exact errNamed_lib cx props h4
    · exact errList_lib cx items h1
    · exact errNamed_lib cx pats h5
    · exact errOpt_lib cx pn h7
    · exact errOpt_lib cx cont h3
    · exact errDeps_lib cx deps h8
    · exact errOpt_lib cx addP h6
    · exact errOpt_lib cx addI h2
    · exact ownErr_lib k hty
    · exact errList_lib cx anyOf h9
    · exact errList_lib cx oneOf h10
    · exact errList_lib cx allOf h11
    · exact errOpt_lib cx not h12
theorem errOpt_lib (cx : PCtx) : ∀ (o : Option Schema), (flagsOpt cx o).wf = true → LibErr (errOpt o)
  | none, _ => by rw [errOpt]; exact LibErr.none
  | some s, h => by rw [errOpt]; rw [flagsOpt] at h; exact parseErr_lib cx s h
theorem errList_lib (cx : PCtx) : ∀ (l : List Schema), (flagsList cx l).wf = true → LibErr (errList l)
  | [], _ => by rw [errList]; exact LibErr.none
  | s :: ss, h => by
    rw [flagsList] at h
    simp only [Flags.and_wf, Bool.and_eq_true] at h
    rw [errList]
    have := parseErr_lib cx s h.1
    cases hp : parseErr s with
    | none => exact errList_lib cx ss h.2
    | some e => rw [hp] at this; exact this
theorem errNamed_lib (cx : PCtx) : ∀ (l : List (String × Schema)), (flagsNamed cx l).wf = true → LibErr (errNamed l)
  | [], _ => by rw [errNamed]; exact LibErr.none
  | (_, s) :: r, h => by
    rw [flagsNamed] at h
    simp only [Flags.and_wf, Bool.and_eq_true] at h
    rw [errNamed]
    have := parseErr_lib cx s h.1
    cases hp : parseErr s with
    | none => exact errNamed_lib cx r h.2
    | some e => rw [hp] at this; exact this
theorem errDeps_lib (cx : PCtx) : ∀ (l : List (Key × Schema)), (flagsDeps cx l).wf = true → LibErr (errDeps l)
  | [], _ => by rw [errDeps]; exact LibErr.none
  | (k, s) :: r, h => by
    rw [flagsDeps] at h
    simp only [Flags.and_wf, Bool.and_eq_true] at h
    rw [errDeps]
    have := parseErr_lib cx s h.1
    cases hk : k.names.isSome with
    | true => simp only [if_true]; exact errDeps_lib cx r h.2
    | false =>
      simp only [Bool.false_eq_true, if_false]
      cases hp : parseErr s with
      | none => exact errDeps_lib cx r h.2
      | some e => rw [hp] at this; exact this
end

end Statham
