/-
  `_parse_typed`, `_parse_multi_typed`, `_parse_composition`: the element assembled for one
  schema object refines `D6.validCore`.
-/
import StathamModel.Lemmas.AssembleLeaf
namespace Statham

theorem RC.congr' {f : CallG V} {g g' : JVal → Bool} (h : RC f g)
    (e : ∀ x, distinctKeys x = true → g x = g' x) : RC f g' :=
  ⟨fun x hx => (h.1 x hx).congr (e x hx), h.2⟩

theorem RC_typed {env : Env} {cx : PCtx} {k : SKw} {kids : Kids} {σ : D6.SSub} (t : String) (d : Option JVal)
    (K : KidsRel env kids σ) (N : NodeOK cx k kids σ) (ht : t ∈ knownTypes)
    (hobj : t = "object" → typeHasObject k = true) :
    RC ((mkTyped cx t k (partsOf cx k kids) d).acc env)
      (fun v => D6.typeMatch t v && restOk env (typeHasObject k) k σ v) := by
  simp only [knownTypes, List.mem_cons, List.mem_nil_iff, or_false] at ht
  rcases ht with rfl | rfl | rfl | rfl | rfl | rfl | rfl
  · simpa [mkTyped, typedLeaf, Gen.parserTypeMapping, List.lookup] using RC_string d N _
  · simpa [mkTyped, typedLeaf, Gen.parserTypeMapping, List.lookup] using RC_integer d N _
  · simpa [mkTyped, typedLeaf, Gen.parserTypeMapping, List.lookup] using RC_number d N _
  · simpa [mkTyped, typedLeaf, Gen.parserTypeMapping, List.lookup] using RC_boolean d N _
  · simpa [mkTyped, typedLeaf, Gen.parserTypeMapping, List.lookup] using RC_null d N _
  · simpa [mkTyped] using RC_array d K N _
  · have := RC_class d K N (hobj rfl)
    rw [hobj rfl]
    simpa [mkTyped] using this

theorem any_and_right {α} (l : List α) (p : α → Bool) (c : Bool) :
    (l.any fun t => p t && c) = (l.any p && c) := by
  induction l with
  | nil => simp
  | cons a l ih => simp only [List.any_cons, ih]; cases p a <;> cases c <;> simp

/-- a schema object without composition keywords -/
theorem RC_base {env : Env} {cx : PCtx} {k : SKw} {kids : Kids} {σ : D6.SSub} (d : Option JVal)
    (K : KidsRel env kids σ) (N : NodeOK cx k kids σ)
    (hwf : match k.type with
      | .none => True
      | .single t => t ∈ knownTypes
      | .list ts => ts ≠ [] ∧ ∀ t ∈ ts, t ∈ knownTypes) :
    RC ((assembleBase cx k (partsOf cx k kids) d).acc env)
      (fun v => D6.typeOk k.type v && restOk env (typeHasObject k) k σ v) := by
  unfold assembleBase
  cases hty : k.type with
  | none =>
    have : typeHasObject k = false := by simp [typeHasObject, hty]
    simp only [D6.typeOk, Bool.true_and, this]
    exact RC_untyped d K N
  | single t =>
    rw [hty] at hwf
    simp only [D6.typeOk]
    exact RC_typed t d K N hwf (fun h => by simp [typeHasObject, hty, h])
  | list ts =>
    rw [hty] at hwf
    obtain ⟨hne, hkn⟩ := hwf
    have hmem : ∀ t ∈ ts, RC ((mkTyped cx t k (partsOf cx k kids) none).acc env)
        (fun v => D6.typeMatch t v && restOk env (typeHasObject k) k σ v) ∧
        RC ((mkTyped cx t k (partsOf cx k kids) d).acc env)
        (fun v => D6.typeMatch t v && restOk env (typeHasObject k) k σ v) := by
      intro t htm
      have ho : t = "object" → typeHasObject k = true := by
        intro h; subst h; simp [typeHasObject, hty, htm]
      exact ⟨RC_typed t none K N (hkn t htm) ho, RC_typed t d K N (hkn t htm) ho⟩
    cases ts with
    | nil => exact absurd rfl hne
    | cons t rest =>
      cases rest with
      | nil =>
        simp only [D6.typeOk, List.any_cons, List.any_nil, Bool.or_false]
        exact (hmem t (List.mem_cons_self ..)).2
      | cons t2 rest2 =>
        simp only
        refine ⟨fun v hv => ?_, acc_notPassed_ne_reject env _⟩
        rw [acc_compose_val env .anyOf rfl]
        simp only [D6.typeOk]
        rw [← any_and_right]
        have hrcs : RCs env ((t :: t2 :: rest2).map fun t => mkTyped cx t k (partsOf cx k kids) none)
            ((t :: t2 :: rest2).map fun t v => D6.typeMatch t v && restOk env (typeHasObject k) k σ v) := by
          generalize t :: t2 :: rest2 = l at hmem
          induction l with
          | nil => exact All2.nil
          | cons a l ih =>
            exact All2.cons (hmem a (List.mem_cons_self ..)).1
              (ih fun x hx => hmem x (List.mem_cons_of_mem _ hx))
        have := R_attempt_anyOf (hrcs.vals v hv)
        rw [any_map_id, List.any_map] at this
        exact this

theorem RCs_append {env : Env} {e1 e2 : List Elem} {g1 g2 : List D6.VF} (h1 : RCs env e1 g1) (h2 : RCs env e2 g2) :
    RCs env (e1 ++ e2) (g1 ++ g2) := by
  induction h1 with
  | nil => exact h2
  | cons hr _ ih => exact All2.cons hr ih

theorem RCs_of_ERel {env : Env} {es : List Elem} {gs : List D6.VF} (h : All2 (ERel env) es gs) : RCs env es gs := h

theorem RC_not {env : Env} {e : Elem} {g : D6.VF} (h : RC (e.acc env) g) :
    RC ((Elem.mk .not {} [] none none [] [] none none [] [e]).acc env) (fun v => !g v) :=
  ⟨fun v hv => by rw [acc_not_val]; exact (h.1 v hv).not, acc_notPassed_ne_reject env _⟩

theorem RC_finish {env : Env} {el : Elem} {g : D6.VF} (d : Option JVal) (h : RC (el.acc env) g) :
    RC ((finishComposition el d).acc env) g := by
  unfold finishComposition
  split
  · refine ⟨fun v hv => ?_, acc_notPassed_ne_reject env _⟩
    rw [acc_compose_val env .allOf rfl]
    have := R_attempt_allOf (All2.cons (h.1 v hv) All2.nil) (by simp)
    simpa [accList] using this
  · cases d with
    | some dv => exact RC_withDefault h _
    | none => exact h

/-- `_parse_composition` -/
theorem RC_composition {env : Env} {cx : PCtx} {k : SKw} {kids : Kids} {σ : D6.SSub} (d : Option JVal)
    (K : KidsRel env kids σ) (N : NodeOK cx k kids σ)
    (hwf : match k.type with
      | .none => True
      | .single t => t ∈ knownTypes
      | .list ts => ts ≠ [] ∧ ∀ t ∈ ts, t ∈ knownTypes)
    (hany : k.hasAnyOf = !kids.anyOf.isEmpty) (hone : k.hasOneOf = !kids.oneOf.isEmpty)
    (hall : k.hasAllOf = !kids.allOf.isEmpty) :
    RC ((assembleComposition cx k (partsOf cx k kids) d kids.anyOf kids.oneOf kids.allOf kids.not).acc env)
      (D6.validCore env typeHasObject k σ) := by
  unfold assembleComposition compositionMembers
  -- the members of the outer allOf and their validity functions
  have hbase := RC_base none K N hwf
  have hone' : RC ((composeElements .oneOf kids.oneOf).acc env)
      (fun v => !k.hasOneOf || D6.countTrue σ.oneOf v == 1) := by
    cases ho : kids.oneOf with
    | nil =>
      have : k.hasOneOf = false := by simp [hone, ho]
      simp only [composeElements, this, Bool.not_false, Bool.true_or]
      exact RC_trivial env
    | cons a l =>
      have : k.hasOneOf = true := by simp [hone, ho]
      simp only [this, Bool.not_true, Bool.false_or]
      have h := K.oneOf
      rw [ho] at h
      exact RC_composeOne (RCs_of_ERel h) (by simp)
  have hany' : RC ((composeElements .anyOf kids.anyOf).acc env)
      (fun v => !k.hasAnyOf || σ.anyOf.any fun f => f v) := by
    cases ho : kids.anyOf with
    | nil =>
      have : k.hasAnyOf = false := by simp [hany, ho]
      simp only [composeElements, this, Bool.not_false, Bool.true_or]
      exact RC_trivial env
    | cons a l =>
      have : k.hasAnyOf = true := by simp [hany, ho]
      simp only [this, Bool.not_true, Bool.false_or]
      have h := K.anyOf
      rw [ho] at h
      exact RC_composeAny (RCs_of_ERel h) (by simp)
  have hnot : ∃ gn : List D6.VF,
      RCs env (match kids.not with
        | some e => [Elem.mk .not {} [] none none [] [] none none [] [e]]
        | none => []) gn ∧ ∀ v, (gn.all fun g => g v) = D6.optB σ.not (fun f => !f v) := by
    have h := K.not
    generalize kids.not = kn at h
    generalize σ.not = sn at h
    cases h with
    | none => exact ⟨[], All2.nil, fun _ => rfl⟩
    | some hr => exact ⟨[_], All2.cons (RC_not hr) All2.nil, fun v => by simp [D6.optB]⟩
  obtain ⟨gn, hgn, hgnall⟩ := hnot
  have hL : RCs env
      ([assembleBase cx k (partsOf cx k kids) none] ++ kids.allOf ++ [composeElements .oneOf kids.oneOf] ++
        [composeElements .anyOf kids.anyOf] ++
        (match kids.not with
          | some e => [Elem.mk .not {} [] none none [] [] none none [] [e]]
          | none => []))
      ([fun v => D6.typeOk k.type v && restOk env (typeHasObject k) k σ v] ++ σ.allOf ++
        [fun v => !k.hasOneOf || D6.countTrue σ.oneOf v == 1] ++
        [fun v => !k.hasAnyOf || σ.anyOf.any fun f => f v] ++ gn) :=
    RCs_append (RCs_append (RCs_append (RCs_append (All2.cons hbase All2.nil) (RCs_of_ERel K.allOf))
      (All2.cons hone' All2.nil)) (All2.cons hany' All2.nil)) hgn
  obtain ⟨gs', hfilt, hgs'⟩ := RCs_filter_trivial hL
  have hall' : ∀ v, (!k.hasAllOf || σ.allOf.all fun f => f v) = σ.allOf.all fun f => f v := by
    intro v
    cases ha : k.hasAllOf with
    | true => rfl
    | false =>
      have : kids.allOf = [] := by
        have h0 := hall; rw [ha] at h0
        cases hk : kids.allOf with
        | nil => rfl
        | cons a l => rw [hk] at h0; simp at h0
      have h := K.allOf
      rw [this] at h
      generalize σ.allOf = sa at h
      cases h; rfl
  have hcore : RC ((composeElements .allOf
      (([assembleBase cx k (partsOf cx k kids) none] ++ kids.allOf ++ [composeElements .oneOf kids.oneOf] ++
        [composeElements .anyOf kids.anyOf] ++
        (match kids.not with
          | some e => [Elem.mk .not {} [] none none [] [] none none [] [e]]
          | none => [])).filter fun e => !e.isTrivial)).acc env) (D6.validCore env typeHasObject k σ) := by
    refine (RC_composeAll hfilt).congr' ?_
    intro v hv
    rw [hgs' v hv, validCore_split]
    simp only [D6.compositionOk, D6.countTrue, hall' v, List.all_append, List.all_cons, List.all_nil,
      Bool.and_true, hgnall]
    ac_rfl
  exact RC_finish d hcore

/-- `parse_element` on one schema object, given its parsed sub-schemas -/
theorem RC_assembleK {env : Env} {cx : PCtx} {k : SKw} {kids : Kids} {σ : D6.SSub}
    (K : KidsRel env kids σ) (N : NodeOK cx k kids σ)
    (hwf : match k.type with
      | .none => True
      | .single t => t ∈ knownTypes
      | .list ts => ts ≠ [] ∧ ∀ t ∈ ts, t ∈ knownTypes)
    (hany : k.hasAnyOf = !kids.anyOf.isEmpty) (hone : k.hasOneOf = !kids.oneOf.isEmpty)
    (hall : k.hasAllOf = !kids.allOf.isEmpty) :
    RC ((assembleK cx k kids).acc env) (D6.validCore env typeHasObject k σ) := by
  unfold assembleK assemble
  simp only
  by_cases hc : hasComposition k kids.not = true
  · simp only [hc, if_true]
    exact RC_composition _ K N hwf hany hone hall
  · simp only [hc]
    refine (RC_base _ K N hwf).congr ?_
    intro v
    rw [validCore_split]
    have hc' : hasComposition k kids.not = false := by simpa using hc
    simp only [hasComposition, Bool.or_eq_false_iff] at hc'
    obtain ⟨⟨⟨h1, h2⟩, h3⟩, h4⟩ := hc'
    have hn : σ.not = none := by
      have hk := K.not
      have : kids.not = none := by cases h : kids.not <;> simp_all
      rw [this] at hk
      generalize σ.not = sn at hk
      cases hk; rfl
    simp [D6.compositionOk, h1, h2, h3, hn, D6.optB]

end Statham
