/-
  What a successful call returns (for C04, C05, C19): shape lemmas at the level of `Res`.
-/
import StathamModel.Lemmas.CallVerdict
import StathamModel.Lemmas.ListAux
namespace Statham

theorem collect_ok {rs : List Res} {xs : List RVal} (h : collect rs = .ok (.arr xs)) :
    rs = xs.map Res.ok := by
  induction rs generalizing xs with
  | nil => simp [collect] at h; subst h; rfl
  | cons r rs ih =>
    rcases collect_shape rs with hs | hs | ⟨ys, hs⟩
    · cases r <;> simp [collect, hs] at h
    · cases r <;> simp [collect, hs] at h
    · cases r with
      | ok x =>
        simp only [collect, hs, Res.ok.injEq, RVal.arr.injEq] at h
        subst h
        rw [ih hs]; rfl
      | reject => simp [collect, hs] at h
      | crash => simp [collect, hs] at h

theorem collectKV_ok {rs : List (String × Res)} {xs : List (String × RVal)} (h : collectKV rs = .ok (.anon xs)) :
    rs = xs.map fun kr => (kr.1, Res.ok kr.2) := by
  induction rs generalizing xs with
  | nil => simp [collectKV] at h; subst h; rfl
  | cons r rs ih =>
    obtain ⟨k, r⟩ := r
    rcases collectKV_shape rs with hs | hs | ⟨ys, hs⟩
    · cases r <;> simp [collectKV, hs] at h
    · cases r <;> simp [collectKV, hs] at h
    · cases r with
      | ok x =>
        simp only [collectKV, hs, Res.ok.injEq, RVal.anon.injEq] at h
        subst h
        rw [ih hs]; rfl
      | reject => simp [collectKV, hs] at h
      | crash => simp [collectKV, hs] at h

/-- an array result has one entry per input item, each the result of calling that item's element -/
theorem itemsCall_ok {kw : Kw} {sub : Sub} {xs : List JVal} {rs : List RVal}
    (h : itemsCall kw sub xs = .ok (.arr rs)) :
    itemsCallFrom resAlg kw sub 0 xs = rs.map Res.ok := collect_ok h

theorem itemsCallFrom_length {ρ} (alg : Alg ρ) (kw : Kw) (sub : SubG ρ) (xs : List JVal) (i : Nat) :
    (itemsCallFrom alg kw sub i xs).length = xs.length := by
  induction xs generalizing i with
  | nil => rfl
  | cons x xs ih => simp [itemsCallFrom, ih]

theorem itemsCall_length {kw : Kw} {sub : Sub} {xs : List JVal} {rs : List RVal}
    (h : itemsCall kw sub xs = .ok (.arr rs)) : rs.length = xs.length := by
  have := congrArg List.length (itemsCall_ok h)
  simpa [itemsCallFrom_length] using this.symm

/-! ### dictionaries -/

theorem dictSet_get {α} (d : List (String × α)) (k : String) (v : α) : dictGet? (dictSet d k v) k = some v := by
  induction d with
  | nil => simp [dictSet, dictGet?]
  | cons p d ih =>
    obtain ⟨k', v'⟩ := p
    by_cases e : k = k'
    · simp [dictSet, dictGet?, e]
    · simp [dictSet, dictGet?, e, ih]

theorem dictSet_get_ne {α} (d : List (String × α)) (k k' : String) (v : α) (h : k' ≠ k) :
    dictGet? (dictSet d k v) k' = dictGet? d k' := by
  induction d with
  | nil => simp [dictSet, dictGet?, h]
  | cons p d ih =>
    obtain ⟨k2, v2⟩ := p
    by_cases e : k = k2
    · subst e; simp [dictSet, dictGet?, h]
    · by_cases e2 : k' = k2
      · simp [dictSet, dictGet?, e, e2]
      · simp [dictSet, dictGet?, e, e2, ih]

/-- the value a Python dict built by successive insertion holds under `k`: the last one inserted -/
theorem dictOfList_get {α} (l : List (String × α)) (k : String) :
    dictGet? (dictOfList l) k = ((l.reverse.find? fun p => p.1 == k).map (·.2)) := by
  unfold dictOfList
  suffices h : ∀ (acc : List (String × α)),
      dictGet? (l.foldl (fun d kv => dictSet d kv.1 kv.2) acc) k =
        ((l.reverse.find? fun p => p.1 == k).map (·.2)).orElse fun _ => dictGet? acc k by
    simpa [dictGet?] using h []
  induction l with
  | nil => intro acc; simp
  | cons p l ih =>
    intro acc
    simp only [List.foldl_cons, List.reverse_cons, List.find?_append]
    rw [ih]
    cases hf : l.reverse.find? (fun q => q.1 == k) with
    | some q => simp
    | none =>
      simp only [Option.none_or, Option.map_none, Option.orElse_none]
      by_cases e : p.1 = k
      · subst e; simp [dictSet_get]
      · have : (p.1 == k) = false := by simpa using e
        simp [List.find?, this, dictSet_get_ne _ _ _ _ (Ne.symm e)]

/-- with pairwise distinct keys, every pair of the list is in the dictionary -/
theorem dictOfList_get_mem {α} (l : List (String × α)) (hd : distinct (l.map (·.1)) = true) {k : String} {v : α}
    (h : (k, v) ∈ l) : dictGet? (dictOfList l) k = some v := by
  rw [dictOfList_get]
  have : l.reverse.find? (fun p => p.1 == k) = some (k, v) := by
    induction l with
    | nil => cases h
    | cons p l ih =>
      simp only [List.map_cons, distinct_cons] at hd
      simp only [List.reverse_cons, List.find?_append]
      rcases List.mem_cons.mp h with e | e
      · subst e
        have : l.reverse.find? (fun p => p.1 == k) = none := by
          rw [List.find?_eq_none]
          intro q hq hqk
          apply hd.1
          have : q.1 = k := by simpa using hqk
          rw [← this]
          exact List.mem_map.mpr ⟨q, List.mem_reverse.mp hq, rfl⟩
        simp [this]
      · rw [ih hd.2 e]; rfl
  rw [this]; rfl

/-! ### objects -/

/-- A successful object construction: the list of (result key, result) pairs before the dictionary is
    formed is exactly one entry per visited key, each the outcome of resolving and calling that key. -/
theorem propsCall_ok {env : Env} {kw : Kw} {sub : Sub} {kvs : List (String × JVal)} {L : List (String × RVal)}
    (h : propsCall env kw sub kvs = .ok (.anon L)) :
    ∃ l, propsOuts resAlg env kw sub kvs = l.map (fun kr => (kr.1, Res.ok kr.2)) ∧ L = dictOfList l := by
  unfold propsCall at h
  rcases collectKV_shape (propsOuts resAlg env kw sub kvs) with hs | hs | ⟨xs, hs⟩
  · simp [hs] at h
  · simp [hs] at h
  · simp only [hs, Res.ok.injEq, RVal.anon.injEq] at h
    exact ⟨xs, collectKV_ok hs, h.symm⟩

/-- every visited key's outcome is in the result under its resolved name (no two visited keys
    resolving to one name) -/
theorem propsCall_member {env : Env} {kw : Kw} {sub : Sub} {kvs : List (String × JVal)} {L : List (String × RVal)}
    (h : propsCall env kw sub kvs = .ok (.anon L))
    (hd : distinct ((propsOuts resAlg env kw sub kvs).map (·.1)) = true)
    {k : String} (hk : k ∈ visitKeys sub kvs) :
    ∃ r, (resolveCall resAlg env kw sub k (argOf kvs k)).2 = .ok r ∧
      dictGet? L (resolveCall resAlg env kw sub k (argOf kvs k)).1 = some r := by
  obtain ⟨l, hl, rfl⟩ := propsCall_ok h
  have hmem : resolveCall resAlg env kw sub k (argOf kvs k) ∈ propsOuts resAlg env kw sub kvs := by
    unfold propsOuts; exact List.mem_map.mpr ⟨k, hk, rfl⟩
  rw [hl] at hmem
  obtain ⟨kr, hkr, he⟩ := List.mem_map.mp hmem
  refine ⟨kr.2, by rw [← he], ?_⟩
  have hd' : distinct (l.map (·.1)) = true := by
    rw [hl, List.map_map] at hd
    exact hd
  rw [← he]
  exact dictOfList_get_mem l hd' (by cases kr; exact hkr)

end Statham
