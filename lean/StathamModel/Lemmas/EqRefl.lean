/-
  `Element.__eq__` is reflexive on well-formed trees (dictionaries — literal objects and keyed
  containers — have distinct keys, which is what a Python `dict` is).
-/
import StathamModel.Eq
import StathamModel.Lemmas.ListAux
namespace Statham

theorem Num.eqv_refl (n : Num) : Num.eqv n n = true := by simp [Num.eqv]

theorem lookup_mem_distinct {k : String} {x : JVal} {kvs : List (String × JVal)}
    (hd : distinct (kvs.map (·.1)) = true) (h : (k, x) ∈ kvs) : JVal.lookup k kvs = some x :=
  lookup_of_mem hd h

mutual
theorem pyEq_refl : ∀ (v : JVal), distinctKeys v = true → JVal.pyEq v v = true
  | .null, _ => by simp [JVal.pyEq]
  | .bool b, _ => by simp [JVal.pyEq]
  | .num n, _ => by simp [JVal.pyEq, Num.eqv_refl]
  | .str s, _ => by simp [JVal.pyEq]
  | .arr xs, h => by
    rw [JVal.pyEq]
    exact pyEqList_refl xs (by simpa [distinctKeys] using h)
  | .obj kvs, h => by
    rw [JVal.pyEq]
    simp only [distinctKeys, Bool.and_eq_true] at h
    simp only [beq_self_eq_true, Bool.true_and]
    exact pyEqObj_refl kvs kvs h.2 (fun kv hkv => hkv) h.1
theorem pyEqList_refl : ∀ (xs : List JVal), distinctKeys.dkL xs = true → JVal.pyEqList xs xs = true
  | [], _ => by simp [JVal.pyEqList]
  | x :: xs, h => by
    simp only [distinctKeys.dkL, Bool.and_eq_true] at h
    rw [JVal.pyEqList]
    simp only [Bool.and_eq_true]
    exact ⟨pyEq_refl x h.1, pyEqList_refl xs h.2⟩
theorem pyEqObj_refl : ∀ (xs ys : List (String × JVal)), distinctKeys.dkKV xs = true →
    (∀ kv ∈ xs, kv ∈ ys) → distinct (ys.map (·.1)) = true → JVal.pyEqObj xs ys = true
  | [], _, _, _, _ => by simp [JVal.pyEqObj]
  | (k, v) :: r, ys, h, hsub, hd => by
    simp only [distinctKeys.dkKV, Bool.and_eq_true] at h
    rw [JVal.pyEqObj]
    have hl : JVal.lookup k ys = some v := lookup_of_mem hd (hsub (k, v) (List.mem_cons_self ..))
    simp only [hl, Bool.and_eq_true]
    exact ⟨pyEq_refl v h.1, pyEqObj_refl r ys h.2 (fun kv hkv => hsub kv (List.mem_cons_of_mem _ hkv)) hd⟩
end

theorem optEq_refl {α} (f : α → α → Bool) (o : Option α) (h : ∀ a, o = some a → f a a = true) : optEq f o o = true := by
  cases o with
  | none => rfl
  | some a => exact h a rfl

theorem listEq_refl {α} (f : α → α → Bool) (l : List α) (h : ∀ a ∈ l, f a a = true) : listEq f l l = true := by
  induction l with
  | nil => rfl
  | cons a l ih =>
    simp only [listEq, Bool.and_eq_true]
    exact ⟨h a (List.mem_cons_self ..), ih fun x hx => h x (List.mem_cons_of_mem _ hx)⟩

/-- literals of a keyword record are dictionaries with distinct keys -/
def Kw.litsOk (kw : Kw) : Bool :=
  optAll kw.default distinctKeys && optAll kw.const distinctKeys && optAll kw.enum (fun l => l.all distinctKeys)

theorem Kw.eq_refl (kw : Kw) (h : kw.litsOk = true) : Kw.eq kw kw = true := by
  unfold Kw.litsOk at h
  simp only [Bool.and_eq_true] at h
  obtain ⟨⟨h1, h2⟩, h3⟩ := h
  have e1 : optEq JVal.pyEq kw.default kw.default = true :=
    optEq_refl _ _ fun a ha => pyEq_refl a (by rw [ha] at h1; exact h1)
  have e2 : optEq JVal.pyEq kw.const kw.const = true :=
    optEq_refl _ _ fun a ha => pyEq_refl a (by rw [ha] at h2; exact h2)
  have e3 : optEq (listEq JVal.pyEq) kw.enum kw.enum = true :=
    optEq_refl _ _ fun l hl => listEq_refl _ l fun a ha => pyEq_refl a (by
      rw [hl] at h3; simp only [optAll, List.all_eq_true] at h3; exact h3 a ha)
  have en : ∀ o : Option Num, optEq Num.eqv o o = true := fun o => optEq_refl _ _ fun a _ => Num.eqv_refl a
  unfold Kw.eq
  simp [e1, e2, e3, en]

theorem Cls.sameClass_refl (c : Cls) : Cls.sameClass c c = true := by
  cases c <;> simp [Cls.sameClass]

theorem keyedFind_mem {α} {l : List (Key × α)} {k : Key} {a : α}
    (hd : distinct (l.map (·.1.name)) = true) (h : (k, a) ∈ l) : keyedFind k.name l = some (k, a) := by
  induction l with
  | nil => cases h
  | cons p l ih =>
    obtain ⟨k', a'⟩ := p
    simp only [List.map_cons, distinct_cons] at hd
    rcases List.mem_cons.mp h with e | e
    · cases e; simp [keyedFind]
    · have hne : k'.name ≠ k.name := by
        intro he
        apply hd.1
        rw [he]
        exact List.mem_map.mpr ⟨(k, a), e, rfl⟩
      simp [keyedFind, hne, ih hd.2 e]

mutual
/-- well-formed tree: literals and keyed containers are dictionaries (distinct keys), at every node -/
def wfElem : Elem → Bool
  | .mk _ kw items addI cont props pats addP pn deps els =>
    kw.litsOk && distinct (props.map (·.1.name)) && distinct (pats.map (·.1.name)) &&
      distinct (deps.map (·.1.name)) &&
      wfL items && wfO addI && wfO cont && wfK props && wfK pats && wfO addP && wfO pn && wfK deps && wfL els
def wfO : Option Elem → Bool
  | none => true
  | some e => wfElem e
def wfL : List Elem → Bool
  | [] => true
  | e :: es => wfElem e && wfL es
def wfK : List (Key × Elem) → Bool
  | [] => true
  | (_, e) :: r => wfElem e && wfK r
end

mutual
theorem elemEq_refl : ∀ (e : Elem), wfElem e = true → elemEq e e = true
  | .mk c kw items addI cont props pats addP pn deps els, h => by
    rw [wfElem] at h
    simp only [Bool.and_eq_true] at h
    obtain ⟨⟨⟨⟨⟨⟨⟨⟨⟨⟨⟨⟨hk, hdp⟩, hdq⟩, hdd⟩, h1⟩, h2⟩, h3⟩, h4⟩, h5⟩, h6⟩, h7⟩, h8⟩, h9⟩ := h
    rw [elemEq]
    simp only [Elem.cls, Elem.kw, Elem.items, Elem.addItems, Elem.contains, Elem.props, Elem.patProps,
      Elem.addProps, Elem.propNames, Elem.deps, Elem.elements, Cls.sameClass_refl, Kw.eq_refl kw hk,
      eqList_refl items h1, eqOpt_refl addI h2, eqOpt_refl cont h3, eqOpt_refl addP h6, eqOpt_refl pn h7,
      eqList_refl els h9, beq_self_eq_true, Bool.true_and, Bool.and_true,
      eqProps_refl props props h4 (fun p hp => hp) hdp, eqKeyed_refl pats pats h5 (fun p hp => hp) hdq,
      eqDeps_refl deps deps h8 (fun p hp => hp) hdd]
theorem eqOpt_refl : ∀ (o : Option Elem), wfO o = true → eqOpt o o = true
  | none, _ => by rw [eqOpt]; rfl
  | some e, h => by rw [wfO] at h; rw [eqOpt]; exact elemEq_refl e h
theorem eqList_refl : ∀ (l : List Elem), wfL l = true → eqList l l = true
  | [], _ => by rw [eqList]; rfl
  | e :: es, h => by
    rw [wfL, Bool.and_eq_true] at h
    rw [eqList]
    simp only [Bool.and_eq_true]
    exact ⟨elemEq_refl e h.1, eqList_refl es h.2⟩
theorem eqProps_refl : ∀ (l other : List (Key × Elem)), wfK l = true → (∀ p ∈ l, p ∈ other) →
    distinct (other.map (·.1.name)) = true → eqProps l other = true
  | [], _, _, _, _ => by rw [eqProps]
  | (k, e) :: r, other, h, hsub, hd => by
    rw [wfK, Bool.and_eq_true] at h
    rw [eqProps, keyedFind_mem hd (hsub (k, e) (List.mem_cons_self ..))]
    simp only [elemEq_refl e h.1, beq_self_eq_true, Bool.and_self, Bool.true_and]
    exact eqProps_refl r other h.2 (fun p hp => hsub p (List.mem_cons_of_mem _ hp)) hd
theorem eqKeyed_refl : ∀ (l other : List (Key × Elem)), wfK l = true → (∀ p ∈ l, p ∈ other) →
    distinct (other.map (·.1.name)) = true → eqKeyed l other = true
  | [], _, _, _, _ => by rw [eqKeyed]
  | (k, e) :: r, other, h, hsub, hd => by
    rw [wfK, Bool.and_eq_true] at h
    rw [eqKeyed, keyedFind_mem hd (hsub (k, e) (List.mem_cons_self ..))]
    simp only [elemEq_refl e h.1, Bool.true_and]
    exact eqKeyed_refl r other h.2 (fun p hp => hsub p (List.mem_cons_of_mem _ hp)) hd
theorem eqDeps_refl : ∀ (l other : List (Key × Elem)), wfK l = true → (∀ p ∈ l, p ∈ other) →
    distinct (other.map (·.1.name)) = true → eqDeps l other = true
  | [], _, _, _, _ => by rw [eqDeps]
  | (k, e) :: r, other, h, hsub, hd => by
    rw [wfK, Bool.and_eq_true] at h
    rw [eqDeps, keyedFind_mem hd (hsub (k, e) (List.mem_cons_self ..))]
    have : (match k.names, k.names with
        | some l, some l' => l == l'
        | none, none => elemEq e e
        | _, _ => false) = true := by
      cases k.names with
      | none => exact elemEq_refl e h.1
      | some l => simp
    rw [Bool.and_eq_true]
    exact ⟨this, eqDeps_refl r other h.2 (fun p hp => hsub p (List.mem_cons_of_mem _ hp)) hd⟩
end

end Statham
