/-
  The relation between the parsed sub-schemas of a schema object (`Kids`) and the
  specification's validity functions for the same sub-schemas (`D6.SSub`), and what it
  gives for the closures (`VSub`) of the element the parser assembles.
-/
import StathamModel.Lemmas.Props
import StathamModel.Lemmas.Build
namespace Statham

/-- the element's verdicts refine the validity function -/
def ERel (env : Env) (e : Elem) (g : D6.VF) : Prop := RC (e.acc env) g

inductive AddlK (env : Env) : Option Elem × Bool → Option D6.VF → Prop
  | absent : AddlK env (none, true) none
  | lit (b : Bool) : AddlK env (none, b) (some fun _ => b)
  | elem {e : Elem} {g : D6.VF} : ERel env e g → AddlK env (some e, true) (some g)

structure KidsRel (env : Env) (kids : Kids) (σ : D6.SSub) : Prop where
  items : All2 (ERel env) kids.items σ.items
  addItems : AddlK env kids.addItems σ.addItems
  contains : OptRel (ERel env) kids.contains σ.contains
  props : All2 (fun (a : String × Elem) (b : String × Bool × D6.VF) =>
      a.1 = b.1 ∧ ERel env a.2 b.2.2 ∧ b.2.1 = a.2.kw.default.isSome) kids.props σ.props
  patProps : All2 (fun (a : String × Elem) (b : String × D6.VF) => a.1 = b.1 ∧ ERel env a.2 b.2)
      kids.patProps σ.patProps
  addProps : AddlK env kids.addProps σ.addProps
  propNames : OptRel (ERel env) kids.propNames σ.propNames
  deps : All2 (fun (a : Key × Elem) (b : Key × D6.VF) => a.1 = b.1 ∧ ERel env a.2 b.2) kids.deps σ.deps
  anyOf : All2 (ERel env) kids.anyOf σ.anyOf
  oneOf : All2 (ERel env) kids.oneOf σ.oneOf
  allOf : All2 (ERel env) kids.allOf σ.allOf
  not : OptRel (ERel env) kids.not σ.not

theorem accList_rel {env : Env} {es : List Elem} {gs : List D6.VF} (h : All2 (ERel env) es gs) :
    All2 RC (accList env es) gs := by
  induction h with
  | nil => rw [accList]; exact All2.nil
  | cons hr _ ih => rw [accList]; exact All2.cons hr ih

theorem accOpt_rel {env : Env} {o : Option Elem} {so : Option D6.VF} (h : OptRel (ERel env) o so) :
    OptRel RC (accOpt env o) so := by
  cases h with
  | none => rw [accOpt]; exact OptRel.none
  | some hr => rw [accOpt]; exact OptRel.some hr

theorem acc_nothing_cls (env : Env) (e : Elem) (h : e.cls = .nothing) (x : JVal) :
    e.acc env (.val x) ≠ .pass := by
  cases e with
  | mk c kw items addI cont props pats addP pn deps els =>
    simp only [Elem.cls] at h
    subst h
    rw [Elem.acc]
    simp only [accCore, createV, validators, typeOk, V.ofBool_false]
    intro hp
    have := (V.and_eq_pass.mp hp).1
    have := (V.and_eq_pass.mp this).1
    cases this

theorem accAddl_rel {env : Env} {eo : Option Elem} {b : Bool} {so : Option D6.VF}
    (h : AddlK env (eo, b) so) : AddlRel (accAddl env eo) b so := by
  cases h with
  | absent => rw [accAddl]; exact AddlRel.absent
  | lit => rw [accAddl]; exact AddlRel.lit b
  | @elem e g hr =>
    rw [accAddl]
    refine AddlRel.elem hr ?_
    intro ht x
    have : e.cls = .nothing := by simpa using ht
    exact acc_nothing_cls env e this x

theorem accAddlP_rel {env : Env} {eo : Option Elem} {b : Bool} {so : Option D6.VF}
    (h : AddlK env (eo, b) so) : AddlRelP (accOpt env eo) b so := by
  cases h with
  | absent => rw [accOpt]; exact AddlRelP.absent
  | lit => rw [accOpt]; exact AddlRelP.lit b
  | elem hr => rw [accOpt]; exact AddlRelP.elem hr

theorem accProps_map (env : Env) (f : String → Key) (ps : List (String × Elem)) :
    accProps env (ps.map fun kv => (f kv.1, kv.2)) =
      ps.map fun kv => (f kv.1, kv.2.kw.default, kv.2.acc env) := by
  induction ps with
  | nil => rw [List.map_nil, accProps]; rfl
  | cons kv ps ih => rw [List.map_cons, accProps, ih]; rfl

theorem accProps_append (env : Env) (a b : List (Key × Elem)) :
    accProps env (a ++ b) = accProps env a ++ accProps env b := by
  induction a with
  | nil => rw [List.nil_append, accProps]; rfl
  | cons p a ih => obtain ⟨k, e⟩ := p; rw [List.cons_append, accProps, accProps, ih]; rfl

theorem accKeyed_map (env : Env) (f : String → Key) (ps : List (String × Elem)) :
    accKeyed env (ps.map fun kv => (f kv.1, kv.2)) = ps.map fun kv => (f kv.1, kv.2.acc env) := by
  induction ps with
  | nil => rw [List.map_nil, accKeyed]; rfl
  | cons kv ps ih => rw [List.map_cons, accKeyed, ih]; rfl

theorem accKeyed_eq_map (env : Env) (l : List (Key × Elem)) :
    accKeyed env l = l.map fun p => (p.1, p.2.acc env) := by
  induction l with
  | nil => rw [accKeyed]; rfl
  | cons p l ih => obtain ⟨k, e⟩ := p; rw [accKeyed, ih]; rfl

theorem props_rel {env : Env} {cx : PCtx} {req : List String} {ps : List (String × Elem)} {sp : List SProp}
    (h : All2 (fun (a : String × Elem) (b : SProp) =>
      a.1 = b.1 ∧ ERel env a.2 b.2.2 ∧ b.2.1 = a.2.kw.default.isSome) ps sp)
    (hne : ∀ kv ∈ ps, kv.1 ≠ "") :
    All2 PropRel (ps.map fun kv => (mkKey cx req kv.1, kv.2.kw.default, kv.2.acc env)) sp := by
  induction h with
  | nil => exact All2.nil
  | @cons a b as bs hr _ ih =>
    refine All2.cons ⟨?_, hr.2.1, hr.2.2⟩ (ih fun kv hkv => hne kv (List.mem_cons_of_mem _ hkv))
    show (mkKey cx req a.1).src = b.1
    rw [src_mkKey cx req a.1 (hne a (List.mem_cons_self ..))]
    exact hr.1

theorem props_names {env : Env} {ps : List (String × Elem)} {sp : List SProp}
    (h : All2 (fun (a : String × Elem) (b : SProp) =>
      a.1 = b.1 ∧ ERel env a.2 b.2.2 ∧ b.2.1 = a.2.kw.default.isSome) ps sp) :
    ps.map (·.1) = sp.map (·.1) := by
  induction h with
  | nil => rfl
  | cons hr _ ih => simp [hr.1, ih]

theorem pats_rel {env : Env} {ps : List (String × Elem)} {sp : List (String × D6.VF)}
    (h : All2 (fun (a : String × Elem) (b : String × D6.VF) => a.1 = b.1 ∧ ERel env a.2 b.2) ps sp) :
    All2 PatRel (ps.map fun kv => (({ name := kv.1 } : Key), kv.2.acc env)) sp := by
  induction h with
  | nil => exact All2.nil
  | cons hr _ ih => exact All2.cons ⟨hr.1, hr.2⟩ ih

theorem deps_rel {env : Env} {ds : List (Key × Elem)} {sd : List (Key × D6.VF)}
    (h : All2 (fun (a : Key × Elem) (b : Key × D6.VF) => a.1 = b.1 ∧ ERel env a.2 b.2) ds sd) :
    All2 DepRel (ds.map fun p => (p.1, p.2.acc env)) sd := by
  induction h with
  | nil => exact All2.nil
  | cons hr _ ih => exact All2.cons ⟨hr.1, hr.2⟩ ih

theorem orderDeps_acc (env : Env) (ds : List (Key × Elem)) :
    accKeyed env (orderDeps ds) =
      ((ds.map fun p => (p.1, p.2.acc env)).filter isNamesDep) ++
        ((ds.map fun p => (p.1, p.2.acc env)).filter fun d => !isNamesDep d) := by
  rw [accKeyed_eq_map, orderDeps, List.map_append]
  congr 1
  · induction ds with
    | nil => rfl
    | cons p ds ih =>
      by_cases h : p.1.names.isSome = true
      · simp [List.filter, isNamesDep, h, ih]
      · have h' : p.1.names.isSome = false := by simpa using h
        simp only [List.filter, isNamesDep, h', List.map_cons] at ih ⊢
        exact ih
  · induction ds with
    | nil => rfl
    | cons p ds ih =>
      by_cases h : p.1.names.isNone = true
      · have h2 : p.1.names.isSome = false := by cases hh : p.1.names <;> simp_all
        simp [List.filter, isNamesDep, h, h2, ih]
      · have h' : p.1.names.isNone = false := by cases hh : p.1.names <;> simp_all
        have h2 : p.1.names.isSome = true := by cases hh : p.1.names <;> simp_all
        simp only [List.filter, isNamesDep, h', h2, List.map_cons, Bool.not_true] at ih ⊢
        exact ih

end Statham
