/-
  `_parse_typed` for the scalar types and arrays.
-/
import StathamModel.Lemmas.AssembleObj
namespace Statham

theorem literalChecks_congr {kw kw' : Kw} (v : JVal) (h1 : kw'.const = kw.const) (h2 : kw'.enum = kw.enum) :
    literalChecks kw' v = literalChecks kw v := by unfold literalChecks; rw [h1, h2]

theorem strChecks_congr {kw kw' : Kw} (env : Env) (s : String) (h1 : kw'.minLength = kw.minLength)
    (h2 : kw'.maxLength = kw.maxLength) (h3 : kw'.pattern = kw.pattern) (h4 : kw'.format = kw.format) :
    strChecks env kw' s = strChecks env kw s := by unfold strChecks; rw [h1, h2, h3, h4]

theorem numChecks_congr {kw kw' : Kw} (x : Num) (h1 : kw'.minimum = kw.minimum) (h2 : kw'.maximum = kw.maximum)
    (h3 : kw'.exclusiveMinimum = kw.exclusiveMinimum) (h4 : kw'.exclusiveMaximum = kw.exclusiveMaximum)
    (h5 : kw'.multipleOf = kw.multipleOf) : numChecks kw' x = numChecks kw x := by
  unfold numChecks; rw [h1, h2, h3, h4, h5]

theorem arrChecks_congr {kw kw' : Kw} (xs : List JVal) (h1 : kw'.minItems = kw.minItems)
    (h2 : kw'.maxItems = kw.maxItems) (h3 : kw'.uniqueItems = kw.uniqueItems) :
    arrChecks kw' xs = arrChecks kw xs := by unfold arrChecks; rw [h1, h2, h3]

theorem RC_string {env : Env} {cx : PCtx} {k : SKw} {kids : Kids} {σ : D6.SSub} (d : Option JVal)
    (N : NodeOK cx k kids σ) (len : Bool) :
    RC ((mkElem .string (Gen.Param.names Gen.sigString) (baseKw k (partsOf cx k kids) d) (partsOf cx k kids)).acc env)
      (fun v => D6.typeMatch "string" v && restOk env len k σ v) := by
  refine ⟨fun v _ => ?_, acc_notPassed_ne_reject env _⟩
  simp only [mkElem, filterKw, keep, Gen.sigString, Gen.Param.names, List.map, List.contains_cons, List.contains_nil]
  rw [Elem.acc]
  simp only [accCore]
  cases v with
  | str s =>
    have htm : D6.typeMatch "string" (.str s) = true := by simp [D6.typeMatch]
    rw [htm, Bool.true_and]
    unfold createV validators restOk
    simp only [typeOk, V.ofBool_true, V.and_pass_left, constructV]
    rw [literalChecks_congr (kw := baseKw k (partsOf cx k kids) d) _ (by simp) (by simp),
      strChecks_congr (kw := baseKw k (partsOf cx k kids) d) env s (by simp) (by simp) (by simp) (by simp),
      literalChecks_spec k _ d _ N.lit, strChecks_spec]
    simp only [V.ofBool_and, V.and_pass_right]
    exact R.ofBool _
  | null => exact R_of_ne_pass (createV_type_fail _ _ _ _ _ rfl)
  | bool b => exact R_of_ne_pass (createV_type_fail _ _ _ _ _ rfl)
  | num n => exact R_of_ne_pass (createV_type_fail _ _ _ _ _ rfl)
  | obj s => exact R_of_ne_pass (createV_type_fail _ _ _ _ _ rfl)
  | arr xs => exact R_of_ne_pass (createV_type_fail _ _ _ _ _ rfl)

theorem RC_integer {env : Env} {cx : PCtx} {k : SKw} {kids : Kids} {σ : D6.SSub} (d : Option JVal)
    (N : NodeOK cx k kids σ) (len : Bool) :
    RC ((mkElem .integer (Gen.Param.names Gen.sigNumeric) (baseKw k (partsOf cx k kids) d) (partsOf cx k kids)).acc env)
      (fun v => D6.typeMatch "integer" v && restOk env len k σ v) := by
  refine ⟨fun v _ => ?_, acc_notPassed_ne_reject env _⟩
  simp only [mkElem, filterKw, keep, Gen.sigNumeric, Gen.Param.names, List.map, List.contains_cons, List.contains_nil]
  rw [Elem.acc]
  simp only [accCore]
  cases v with
  | num n =>
    cases n with
    | int i =>
      have htm : D6.typeMatch "integer" (.num (.int i)) = true := by simp [D6.typeMatch, Num.isInt]
      rw [htm, Bool.true_and]
      unfold createV validators restOk
      simp only [typeOk, V.ofBool_true, V.and_pass_left, constructV]
      rw [literalChecks_congr (kw := baseKw k (partsOf cx k kids) d) _ (by simp) (by simp),
        numChecks_congr (kw := baseKw k (partsOf cx k kids) d) _ (by simp) (by simp) (by simp) (by simp) (by simp),
        literalChecks_spec k _ d _ N.lit, numChecks_spec k _ d _ N.mul]
      simp only [V.ofBool_and, V.and_pass_right]
      exact R.ofBool _
    | flt a b =>
      have htm : D6.typeMatch "integer" (.num (.flt a b)) = false := by simp [D6.typeMatch, Num.isInt]
      rw [htm, Bool.false_and]
      exact R_of_ne_pass (createV_type_fail _ _ _ _ _ rfl)
  | null => exact R_of_ne_pass (createV_type_fail _ _ _ _ _ rfl)
  | bool b => exact R_of_ne_pass (createV_type_fail _ _ _ _ _ rfl)
  | str n => exact R_of_ne_pass (createV_type_fail _ _ _ _ _ rfl)
  | obj s => exact R_of_ne_pass (createV_type_fail _ _ _ _ _ rfl)
  | arr xs => exact R_of_ne_pass (createV_type_fail _ _ _ _ _ rfl)

theorem RC_number {env : Env} {cx : PCtx} {k : SKw} {kids : Kids} {σ : D6.SSub} (d : Option JVal)
    (N : NodeOK cx k kids σ) (len : Bool) :
    RC ((mkElem .number (Gen.Param.names Gen.sigNumeric) (baseKw k (partsOf cx k kids) d) (partsOf cx k kids)).acc env)
      (fun v => D6.typeMatch "number" v && restOk env len k σ v) := by
  refine ⟨fun v _ => ?_, acc_notPassed_ne_reject env _⟩
  simp only [mkElem, filterKw, keep, Gen.sigNumeric, Gen.Param.names, List.map, List.contains_cons, List.contains_nil]
  rw [Elem.acc]
  simp only [accCore]
  cases v with
  | num n =>
    have htm : D6.typeMatch "number" (.num n) = true := by simp [D6.typeMatch]
    rw [htm, Bool.true_and]
    unfold createV validators restOk
    simp only [typeOk, V.ofBool_true, V.and_pass_left, constructV]
    rw [literalChecks_congr (kw := baseKw k (partsOf cx k kids) d) _ (by simp) (by simp),
      numChecks_congr (kw := baseKw k (partsOf cx k kids) d) _ (by simp) (by simp) (by simp) (by simp) (by simp),
      literalChecks_spec k _ d _ N.lit, numChecks_spec k _ d _ N.mul]
    simp only [V.ofBool_and]
    cases asDouble n with
    | none => simp only [V.and_crash_right]; exact R.crash _
    | some _ => simp only [V.and_pass_right]; exact R.ofBool _
  | null => exact R_of_ne_pass (createV_type_fail _ _ _ _ _ rfl)
  | bool b => exact R_of_ne_pass (createV_type_fail _ _ _ _ _ rfl)
  | str n => exact R_of_ne_pass (createV_type_fail _ _ _ _ _ rfl)
  | obj s => exact R_of_ne_pass (createV_type_fail _ _ _ _ _ rfl)
  | arr xs => exact R_of_ne_pass (createV_type_fail _ _ _ _ _ rfl)

theorem RC_boolean {env : Env} {cx : PCtx} {k : SKw} {kids : Kids} {σ : D6.SSub} (d : Option JVal)
    (N : NodeOK cx k kids σ) (len : Bool) :
    RC ((mkElem .boolean (Gen.Param.names Gen.sigBoolean) (baseKw k (partsOf cx k kids) d) (partsOf cx k kids)).acc env)
      (fun v => D6.typeMatch "boolean" v && restOk env len k σ v) := by
  refine ⟨fun v _ => ?_, acc_notPassed_ne_reject env _⟩
  simp only [mkElem, filterKw, keep, Gen.sigBoolean, Gen.Param.names, List.map, List.contains_cons, List.contains_nil]
  rw [Elem.acc]
  simp only [accCore]
  cases v with
  | bool b =>
    have htm : D6.typeMatch "boolean" (.bool b) = true := by simp [D6.typeMatch]
    rw [htm, Bool.true_and]
    unfold createV validators restOk
    simp only [typeOk, V.ofBool_true, V.and_pass_left, constructV]
    rw [literalChecks_congr (kw := baseKw k (partsOf cx k kids) d) _ (by simp) (by simp),
      literalChecks_spec k _ d _ N.lit]
    simp only [V.and_pass_right, Bool.and_true]
    exact R.ofBool _
  | null => exact R_of_ne_pass (createV_type_fail _ _ _ _ _ rfl)
  | num b => exact R_of_ne_pass (createV_type_fail _ _ _ _ _ rfl)
  | str n => exact R_of_ne_pass (createV_type_fail _ _ _ _ _ rfl)
  | obj s => exact R_of_ne_pass (createV_type_fail _ _ _ _ _ rfl)
  | arr xs => exact R_of_ne_pass (createV_type_fail _ _ _ _ _ rfl)

theorem RC_null {env : Env} {cx : PCtx} {k : SKw} {kids : Kids} {σ : D6.SSub} (d : Option JVal)
    (N : NodeOK cx k kids σ) (len : Bool) :
    RC ((mkElem .null (Gen.Param.names Gen.sigNull) (baseKw k (partsOf cx k kids) d) (partsOf cx k kids)).acc env)
      (fun v => D6.typeMatch "null" v && restOk env len k σ v) := by
  refine ⟨fun v _ => ?_, acc_notPassed_ne_reject env _⟩
  simp only [mkElem, filterKw, keep, Gen.sigNull, Gen.Param.names, List.map, List.contains_cons, List.contains_nil]
  rw [Elem.acc]
  simp only [accCore]
  cases v with
  | null =>
    have htm : D6.typeMatch "null" .null = true := by simp [D6.typeMatch]
    rw [htm, Bool.true_and]
    unfold createV validators restOk
    simp only [typeOk, V.ofBool_true, V.and_pass_left, constructV]
    rw [literalChecks_congr (kw := baseKw k (partsOf cx k kids) d) _ (by simp) (by simp),
      literalChecks_spec k _ d _ N.lit]
    simp only [V.and_pass_right, Bool.and_true]
    exact R.ofBool _
  | bool b => exact R_of_ne_pass (createV_type_fail _ _ _ _ _ rfl)
  | num b => exact R_of_ne_pass (createV_type_fail _ _ _ _ _ rfl)
  | str n => exact R_of_ne_pass (createV_type_fail _ _ _ _ _ rfl)
  | obj s => exact R_of_ne_pass (createV_type_fail _ _ _ _ _ rfl)
  | arr xs => exact R_of_ne_pass (createV_type_fail _ _ _ _ _ rfl)

theorem R_contains {sub : VSub} {σ : D6.SSub} (hcont : OptRel RC sub.contains σ.contains) (xs : List JVal)
    (hxs : ∀ x ∈ xs, distinctKeys x = true) : R (containsCheck id sub xs) (D6.containsOk σ xs) := by
  unfold containsCheck D6.containsOk
  generalize sub.contains = sc at hcont
  generalize σ.contains = σc at hcont
  cases hcont with
  | none => exact R.pass
  | some hr => exact R.any fun x hx => hr.1 x (hxs x hx)

def arrKw (kw : Kw) (ik : ItemsKind) : Kw :=
  { default := kw.default, const := kw.const, enum := kw.enum, itemsKind := ik, addItemsB := kw.addItemsB,
    minItems := kw.minItems, maxItems := kw.maxItems, uniqueItems := kw.uniqueItems, description := kw.description }

theorem mkArray_none (kw : Kw) (p : Parts) (h : kw.itemsKind = .none) :
    mkArray kw p = .mk .array (arrKw kw .single) [Elem.trivial] p.addItems p.contains [] [] none none [] [] := by
  simp [mkArray, h, mkElem, filterKw, keep, Gen.sigArray, Gen.Param.names, arrKw]

theorem mkArray_some (kw : Kw) (p : Parts) (h : kw.itemsKind ≠ .none) :
    mkArray kw p = .mk .array (arrKw kw kw.itemsKind) p.items p.addItems p.contains [] [] none none [] [] := by
  unfold mkArray
  cases hk : kw.itemsKind <;> simp_all [mkElem, filterKw, keep, Gen.sigArray, Gen.Param.names, arrKw]

/-- the closures of an `Array` element -/
def arrSub (env : Env) (items : List Elem) (p : Parts) : VSub :=
  { items := accList env items, addItems := accAddl env p.addItems, contains := accOpt env p.contains,
    props := accProps env [], patProps := accKeyed env [], addProps := accOpt env none,
    propNames := accOpt env none, deps := accKeyed env [], elements := accList env [] }

theorem acc_array (env : Env) (kw : Kw) (items : List Elem) (p : Parts) (a : Arg) :
    (Elem.mk .array kw items p.addItems p.contains [] [] none none [] []).acc env a =
      accCore env .array kw (arrSub env items p) a := by
  rw [Elem.acc]; rfl

theorem createV_array (env : Env) (k : SKw) (p : Parts) (d : Option JVal) (ik : ItemsKind) (sub : VSub)
    (xs : List JVal) (hl : litCleanNode k = true) :
    createV env .array (arrKw (baseKw k p d) ik) sub (.arr xs) =
      (V.ofBool (D6.literalOk k (.arr xs))).and ((V.ofBool (D6.arrOk k xs)).and
        ((additionalItemsCheck (arrKw (baseKw k p d) ik) sub xs).and
          ((containsCheck id sub xs).and (V.all id (itemsCallFrom vAlg (arrKw (baseKw k p d) ik) sub 0 xs))))) := by
  unfold createV validators
  simp only [typeOk, V.ofBool_true, V.and_pass_left, constructV]
  rw [literalChecks_congr (kw := baseKw k p d) (kw' := arrKw (baseKw k p d) ik) _ rfl rfl,
    arrChecks_congr (kw := baseKw k p d) (kw' := arrKw (baseKw k p d) ik) _ rfl rfl rfl,
    literalChecks_spec k _ d _ hl, arrChecks_spec]
  ac_rfl

theorem RC_array {env : Env} {cx : PCtx} {k : SKw} {kids : Kids} {σ : D6.SSub} (d : Option JVal)
    (K : KidsRel env kids σ) (N : NodeOK cx k kids σ) (len : Bool) :
    RC ((mkArray (baseKw k (partsOf cx k kids) d) (partsOf cx k kids)).acc env)
      (fun v => D6.typeMatch "array" v && restOk env len k σ v) := by
  refine ⟨fun v hv => ?_, acc_notPassed_ne_reject env _⟩
  have hkind : (baseKw k (partsOf cx k kids) d).itemsKind = k.itemsKind := rfl
  cases v with
  | arr xs =>
    have htm : D6.typeMatch "array" (.arr xs) = true := by simp [D6.typeMatch]
    simp only [htm, Bool.true_and]
    have hxs := distinctKeys_arr hv
    unfold restOk
    simp only
    by_cases hk : k.itemsKind = .none
    · rw [mkArray_none _ _ (hkind.trans hk), acc_array]
      simp only [accCore]
      rw [createV_array env k _ d _ _ xs N.lit]
      have h1 : additionalItemsCheck (arrKw (baseKw k (partsOf cx k kids) d) .single)
          (arrSub env [Elem.trivial] (partsOf cx k kids)) xs = .pass := by simp [additionalItemsCheck, arrKw]
      have h2 : V.all id (itemsCallFrom vAlg (arrKw (baseKw k (partsOf cx k kids) d) .single)
          (arrSub env [Elem.trivial] (partsOf cx k kids)) 0 xs) = .pass := by
        rw [itemsCallFrom_single _ _ rfl (Elem.trivial.acc env) [] (by simp [arrSub, accList]) xs 0,
          V.all_map, V.all_eq_pass]
        intro x _
        exact acc_trivial env _
      have h3 : D6.itemsOk k σ xs = true := by simp [D6.itemsOk, hk]
      rw [h1, h2, h3]
      have hc : R (containsCheck id (arrSub env [Elem.trivial] (partsOf cx k kids)) xs) (D6.containsOk σ xs) :=
        R_contains (accOpt_rel K.contains) xs hxs
      have := R.and (R.ofBool (D6.literalOk k (.arr xs))) (R.and (R.ofBool (D6.arrOk k xs)) hc)
      refine this.congr2 ?_ ?_
      · simp only [V.and_pass_left, V.and_pass_right]
      · simp only [Bool.true_and]
    · rw [mkArray_some _ _ (by rw [hkind]; exact hk), acc_array]
      simp only [accCore]
      rw [createV_array env k _ d _ _ xs N.lit]
      have hA := R_array (arrKw (baseKw k (partsOf cx k kids) d) (baseKw k (partsOf cx k kids) d).itemsKind) k
        (arrSub env (partsOf cx k kids).items (partsOf cx k kids)) σ xs rfl
        (accList_rel K.items) (by have := N.items; cases h : k.itemsKind <;> simp_all)
        (addl_of_kids K _ rfl) (accOpt_rel K.contains) hxs
      exact R.and (R.ofBool (D6.literalOk k (.arr xs))) (R.and (R.ofBool (D6.arrOk k xs)) hA)
  | null => exact R_of_ne_pass (by
      by_cases hk : k.itemsKind = .none
      · rw [mkArray_none _ _ (hkind.trans hk), acc_array]; exact createV_type_fail _ _ _ _ _ rfl
      · rw [mkArray_some _ _ (by rw [hkind]; exact hk), acc_array]; exact createV_type_fail _ _ _ _ _ rfl)
  | bool b => exact R_of_ne_pass (by
      by_cases hk : k.itemsKind = .none
      · rw [mkArray_none _ _ (hkind.trans hk), acc_array]; exact createV_type_fail _ _ _ _ _ rfl
      · rw [mkArray_some _ _ (by rw [hkind]; exact hk), acc_array]; exact createV_type_fail _ _ _ _ _ rfl)
  | num b => exact R_of_ne_pass (by
      by_cases hk : k.itemsKind = .none
      · rw [mkArray_none _ _ (hkind.trans hk), acc_array]; exact createV_type_fail _ _ _ _ _ rfl
      · rw [mkArray_some _ _ (by rw [hkind]; exact hk), acc_array]; exact createV_type_fail _ _ _ _ _ rfl)
  | str n => exact R_of_ne_pass (by
      by_cases hk : k.itemsKind = .none
      · rw [mkArray_none _ _ (hkind.trans hk), acc_array]; exact createV_type_fail _ _ _ _ _ rfl
      · rw [mkArray_some _ _ (by rw [hkind]; exact hk), acc_array]; exact createV_type_fail _ _ _ _ _ rfl)
  | obj s => exact R_of_ne_pass (by
      by_cases hk : k.itemsKind = .none
      · rw [mkArray_none _ _ (hkind.trans hk), acc_array]; exact createV_type_fail _ _ _ _ _ rfl
      · rw [mkArray_some _ _ (by rw [hkind]; exact hk), acc_array]; exact createV_type_fail _ _ _ _ _ rfl)

end Statham
