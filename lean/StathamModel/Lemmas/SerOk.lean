/-
  The serializer composed with the parser and with the Draft-6 specification.

  * `parse_toSchema`  — for every tree in the parser's normal form, parsing the serialized document gives the
                        tree back (the C06 round trip, one structural induction on top of the node equation);
  * `ser_ok`          — for every such tree whose serialization meets the `Good` conditions, the serialized
                        document, read by Draft 6, accepts what the tree accepts (the C03 meaning clause):
                        the children relate by induction, `RC_assembleK` (the node lemma of C01) relates the
                        node the parser would build from them, and the node equation says that node is this one.
-/
import StathamModel.ToSchema
import StathamModel.Lemmas.ParseOk
namespace Statham

theorem toSchema_nothing : toSchema Elem.nothing = .bool false := by
  rw [Elem.nothing, Elem.leaf, toSchema]; rfl

theorem toSchema_mk {c : Cls} {kw : Kw} {items : List Elem} {addI cont : Option Elem} {props pats : List (Key × Elem)}
    {addP pn : Option Elem} {deps : List (Key × Elem)} {els : List Elem} (hc : c ≠ .nothing) :
    toSchema (.mk c kw items addI cont props pats addP pn deps els) =
      .mk (nodeSKw c kw props) (tsList items) (addlSchema (tsOpt addI) kw.addItemsB) (tsOpt cont) (tsProps props)
        (tsPats pats) (addlSchema (tsOpt addP) kw.addPropsB) (tsOpt pn) (tsDeps deps)
        (membersFor c .anyOf (tsList els)) (membersFor c .oneOf (tsList els)) (membersFor c .allOf (tsList els))
        (notFor c (tsList els)) := by
  rw [toSchema]
  have : (c == Cls.nothing) = false := by simpa using hc
  simp only [this, Bool.false_eq_true, if_false]

theorem toSchema_isMk {e : Elem} (hc : e.cls ≠ .nothing) : ∃ k a b c d f g h i j l m n, toSchema e = .mk k a b c d f g h i j l m n := by
  cases e with
  | mk c kw items addI cont props pats addP pn deps els =>
    exact ⟨_, _, _, _, _, _, _, _, _, _, _, _, _, toSchema_mk hc⟩

theorem parseAddl_mk (cx : PCtx) {s : Schema} (h : ∃ k a b c d f g h i j l m n, s = .mk k a b c d f g h i j l m n) :
    parseAddl cx (some s) = (some (parseE cx s), true) := by
  obtain ⟨k, a, b, c, d, f, g, h, i, j, l, m, n, rfl⟩ := h
  rw [parseAddl]

mutual
/-- **Parsing the serialized document gives the tree back** (trees in normal form) -/
theorem parse_toSchema (cx : PCtx) : ∀ (e : Elem), NF cx e → parseE cx (toSchema e) = e
  | .mk c kw items addI cont props pats addP pn deps els, h => by
    rw [NF] at h
    obtain ⟨hn, hi, hai, hco, hp, hpp, hap, hpn, hd, he⟩ := h
    by_cases hc : c = .nothing
    · have := hn.1 hc
      rw [this, toSchema_nothing, parseE]
      rfl
    · rw [toSchema_mk hc, parseE]
      have e1 := parseList_ts cx items hi
      have e2 : parseAddl cx (addlSchema (tsOpt addI) kw.addItemsB) = addlKid addI kw.addItemsB := by
        cases addI with
        | none => cases hb : kw.addItemsB <;> simp [addlSchema, tsOpt, addlKid, parseAddl]
        | some a =>
          have hnn : a.cls ≠ .nothing := hn.2.2.1
          rw [tsOpt, addlSchema, parseAddl_mk cx (toSchema_isMk hnn), parse_toSchema cx a hai]
          rfl
      have e3 := parseOpt_ts cx cont hco
      have e4 := parseProps_ts cx props hp
      have e5 := parsePats_ts cx pats hpp
      have e6 : parseAddl cx (addlSchema (tsOpt addP) kw.addPropsB) = addlKid addP kw.addPropsB := by
        cases addP with
        | none => cases hb : kw.addPropsB <;> simp [addlSchema, tsOpt, addlKid, parseAddl]
        | some a =>
          have hnn : a.cls ≠ .nothing := hn.2.2.2
          rw [tsOpt, addlSchema, parseAddl_mk cx (toSchema_isMk hnn), parse_toSchema cx a hap]
          rfl
      have e7 := parseOpt_ts cx pn hpn
      have e8 := parseDeps_ts cx deps hd
      have e9 := parseList_ts cx els he
      have m1 : ∀ m, parseList cx (membersFor c m (tsList els)) = membersFor c m els := by
        intro m
        unfold membersFor
        split
        · exact e9
        · rw [parseList]
      have m2 : parseOpt cx (notFor c (tsList els)) = notFor c els := by
        unfold notFor
        split
        · cases els with
          | nil => rw [tsList]; simp only [List.head?_nil]; rw [parseOpt]
          | cons x xs =>
            rw [tsList] at e9 ⊢
            rw [parseList] at e9
            simp only [List.head?_cons]
            rw [parseOpt]
            injection e9 with e9 _
            rw [e9]
        · rw [parseOpt]
      rw [e1, e2, e3, e4, e5, e6, e7, e8, m1, m1, m1, m2]
      exact hn.2.1 hc
theorem parseOpt_ts (cx : PCtx) : ∀ (o : Option Elem), NFO cx o → parseOpt cx (tsOpt o) = o
  | none, _ => by rw [tsOpt, parseOpt]
  | some e, h => by
    rw [NFO] at h
    rw [tsOpt, parseOpt, parse_toSchema cx e h]
theorem parseList_ts (cx : PCtx) : ∀ (l : List Elem), NFL cx l → parseList cx (tsList l) = l
  | [], _ => by rw [tsList, parseList]
  | e :: es, h => by
    rw [NFL] at h
    rw [tsList, parseList, parse_toSchema cx e h.1, parseList_ts cx es h.2]
theorem parseProps_ts (cx : PCtx) : ∀ (l : List (Key × Elem)), NFK cx l →
    parseNamed cx (tsProps l) = l.map fun p => (p.1.src, p.2)
  | [], _ => by rw [tsProps, parseNamed]; rfl
  | (k, e) :: r, h => by
    rw [NFK] at h
    rw [tsProps, parseNamed, parse_toSchema cx e h.1, parseProps_ts cx r h.2]
    rfl
theorem parsePats_ts (cx : PCtx) : ∀ (l : List (Key × Elem)), NFK cx l →
    parseNamed cx (tsPats l) = l.map fun p => (p.1.name, p.2)
  | [], _ => by rw [tsPats, parseNamed]; rfl
  | (k, e) :: r, h => by
    rw [NFK] at h
    rw [tsPats, parseNamed, parse_toSchema cx e h.1, parsePats_ts cx r h.2]
    rfl
theorem parseDeps_ts (cx : PCtx) : ∀ (l : List (Key × Elem)), NFK cx l → parseDeps cx (tsDeps l) = l
  | [], _ => by rw [tsDeps, parseDeps]
  | (k, e) :: r, h => by
    rw [NFK] at h
    rw [tsDeps, parseDeps, parse_toSchema cx e h.1, parseDeps_ts cx r h.2]
end


theorem parseAddl_addl (cx : PCtx) (o : Option Elem) (b : Bool) (hnn : notNothing o) (hnf : NFO cx o) :
    parseAddl cx (addlSchema (tsOpt o) b) = addlKid o b := by
  cases o with
  | none => cases b <;> simp [addlSchema, tsOpt, addlKid, parseAddl]
  | some a =>
    have hnn : a.cls ≠ .nothing := hnn
    rw [NFO] at hnf
    rw [tsOpt, addlSchema, parseAddl_mk cx (toSchema_isMk hnn), parse_toSchema cx a hnf]
    rfl

theorem declaresDefault_ts (e : Elem) (h : e.cls = .nothing → e = Elem.nothing) :
    D6.declaresDefault (toSchema e) = e.kw.default.isSome := by
  cases e with
  | mk c kw items addI cont props pats addP pn deps els =>
    by_cases hc : c = .nothing
    · rw [h hc, toSchema_nothing]; rfl
    · rw [toSchema_mk hc]; rfl

theorem NF_node {cx : PCtx} {e : Elem} (h : NF cx e) : NFnode cx e := by
  cases e with
  | mk c kw items addI cont props pats addP pn deps els => rw [NF] at h; exact h.1

theorem tsProps_names (l : List (Key × Elem)) : (tsProps l).map (·.1) = (l.map fun p => (p.1.src, p.2)).map (·.1) := by
  induction l with
  | nil => rw [tsProps]; rfl
  | cons p l ih => obtain ⟨k, e⟩ := p; rw [tsProps]; simp [ih]

theorem tsList_isEmpty (l : List Elem) : (tsList l).isEmpty = l.isEmpty := by
  cases l with
  | nil => rw [tsList]; rfl
  | cons e es => rw [tsList]; rfl

theorem membersFor_isEmpty (c m : Cls) (l : List Elem) :
    (membersFor c m (tsList l)).isEmpty = (membersFor c m l).isEmpty := by
  unfold membersFor
  split
  · exact tsList_isEmpty l
  · rfl

mutual
/-- **The serialized document means what the tree means**: read by Draft 6 (with the library's reading of the
    required-with-default deviation) it refines the tree's verdicts, for every tree in normal form whose
    serialization meets the `Good` conditions. -/
theorem ser_ok (env : Env) (cx : PCtx) : ∀ (e : Elem), NF cx e → (flagsOf cx (toSchema e)).all = true →
    ERel env e (D6.valid env ℓ₀ (toSchema e))
  | .mk c kw items addI cont props pats addP pn deps els, h, hg => by
    rw [NF] at h
    obtain ⟨hn, hi, hai, hco, hp, hpp, hap, hpn, hd, he⟩ := h
    by_cases hc : c = .nothing
    · rw [hn.1 hc, toSchema_nothing, D6.valid]
      exact RC_nothing env
    · rw [toSchema_mk hc] at hg ⊢
      obtain ⟨h0, h1, h2, h3, h4, h5, h6, h7, h8, h9, h10, h11, h12⟩ := good_mk hg
      rw [D6.valid]
      have addl : ∀ (o : Option Elem) (b : Bool), NFO cx o → (flagsOpt cx (addlSchema (tsOpt o) b)).all = true →
          (∀ a, o = some a → ERel env a (D6.valid env ℓ₀ (toSchema a))) →
          AddlK env (addlKid o b) (D6.vOpt env ℓ₀ (addlSchema (tsOpt o) b)) := by
        intro o b _ _ ha
        cases o with
        | none =>
          cases b
          · simp only [addlSchema, tsOpt, addlKid, Bool.false_eq_true, if_false]
            rw [D6.vOpt, D6.valid]
            exact AddlK.lit false
          · simp only [addlSchema, tsOpt, addlKid, if_true]
            rw [D6.vOpt]
            exact AddlK.absent
        | some a =>
          rw [tsOpt, addlSchema, D6.vOpt]
          exact AddlK.elem (ha a rfl)
      have K : KidsRel env (nodeKids (.mk c kw items addI cont props pats addP pn deps els))
          (ssubOf env (tsList items) (addlSchema (tsOpt addI) kw.addItemsB) (tsOpt cont) (tsProps props) (tsPats pats)
            (addlSchema (tsOpt addP) kw.addPropsB) (tsOpt pn) (tsDeps deps) (membersFor c .anyOf (tsList els))
            (membersFor c .oneOf (tsList els)) (membersFor c .allOf (tsList els)) (notFor c (tsList els))) :=
        { items := serList_ok env cx items hi h1
          addItems := addl addI kw.addItemsB hai h2 (fun a ha => by
            subst ha
            rw [tsOpt, addlSchema, flagsOpt] at h2
            rw [NFO] at hai
            exact ser_ok env cx a hai h2)
          contains := serOpt_ok env cx cont hco h3
          props := serProps_ok env cx props hp h4
          patProps := serPats_ok env cx pats hpp h5
          addProps := addl addP kw.addPropsB hap h6 (fun a ha => by
            subst ha
            rw [tsOpt, addlSchema, flagsOpt] at h6
            rw [NFO] at hap
            exact ser_ok env cx a hap h6)
          propNames := serOpt_ok env cx pn hpn h7
          deps := serDeps_ok env cx deps hd h8
          anyOf := by
            show All2 (ERel env) (membersFor c .anyOf els) (D6.vList env ℓ₀ (membersFor c .anyOf (tsList els)))
            unfold membersFor at h9 ⊢
            split
            · rename_i hm; rw [if_pos hm] at h9; exact serList_ok env cx els he h9
            · rw [D6.vList]; exact All2.nil
          oneOf := by
            show All2 (ERel env) (membersFor c .oneOf els) (D6.vList env ℓ₀ (membersFor c .oneOf (tsList els)))
            unfold membersFor at h10 ⊢
            split
            · rename_i hm; rw [if_pos hm] at h10; exact serList_ok env cx els he h10
            · rw [D6.vList]; exact All2.nil
          allOf := by
            show All2 (ERel env) (membersFor c .allOf els) (D6.vList env ℓ₀ (membersFor c .allOf (tsList els)))
            unfold membersFor at h11 ⊢
            split
            · rename_i hm; rw [if_pos hm] at h11; exact serList_ok env cx els he h11
            · rw [D6.vList]; exact All2.nil
          not := by
            show OptRel (ERel env) (notFor c els) (D6.vOpt env ℓ₀ (notFor c (tsList els)))
            unfold notFor at h12 ⊢
            split
            · rename_i hm; rw [if_pos hm] at h12; exact serHead_ok env cx els he h12
            · rw [D6.vOpt]; exact OptRel.none }
      obtain ⟨N, hwf, hany, hone, hall⟩ := nodeOK_of_flags (env := env)
        (nodeKids (.mk c kw items addI cont props pats addP pn deps els))
        (ssubOf env (tsList items) (addlSchema (tsOpt addI) kw.addItemsB) (tsOpt cont) (tsProps props) (tsPats pats)
            (addlSchema (tsOpt addP) kw.addPropsB) (tsOpt pn) (tsDeps deps) (membersFor c .anyOf (tsList els))
            (membersFor c .oneOf (tsList els)) (membersFor c .allOf (tsList els)) (notFor c (tsList els))) h0
        (vList_length env ℓ₀ (tsList items)) (tsProps_names props).symm
        (parseAddl_addl cx addP kw.addPropsB hn.2.2.2 hap).symm
      have := RC_assembleK K N hwf
        (by rw [hany]; exact congrArg (!·) (membersFor_isEmpty c .anyOf els))
        (by rw [hone]; exact congrArg (!·) (membersFor_isEmpty c .oneOf els))
        (by rw [hall]; exact congrArg (!·) (membersFor_isEmpty c .allOf els))
      have heq := hn.2.1 hc
      simp only [Elem.cls, Elem.kw, Elem.props] at heq
      rw [heq] at this
      exact this
theorem serOpt_ok (env : Env) (cx : PCtx) : ∀ (o : Option Elem), NFO cx o → (flagsOpt cx (tsOpt o)).all = true →
    OptRel (ERel env) o (D6.vOpt env ℓ₀ (tsOpt o))
  | none, _, _ => by rw [tsOpt, D6.vOpt]; exact OptRel.none
  | some e, h, hg => by
    rw [NFO] at h
    rw [tsOpt, flagsOpt] at hg
    rw [tsOpt, D6.vOpt]
    exact OptRel.some (ser_ok env cx e h hg)
theorem serHead_ok (env : Env) (cx : PCtx) : ∀ (l : List Elem), NFL cx l → (flagsOpt cx (tsList l).head?).all = true →
    OptRel (ERel env) l.head? (D6.vOpt env ℓ₀ (tsList l).head?)
  | [], _, _ => by rw [tsList]; simp only [List.head?_nil]; rw [D6.vOpt]; exact OptRel.none
  | e :: es, h, hg => by
    rw [NFL] at h
    rw [tsList] at hg ⊢
    simp only [List.head?_cons] at hg ⊢
    rw [flagsOpt] at hg
    rw [D6.vOpt]
    exact OptRel.some (ser_ok env cx e h.1 hg)
theorem serList_ok (env : Env) (cx : PCtx) : ∀ (l : List Elem), NFL cx l → (flagsList cx (tsList l)).all = true →
    All2 (ERel env) l (D6.vList env ℓ₀ (tsList l))
  | [], _, _ => by rw [tsList, D6.vList]; exact All2.nil
  | e :: es, h, hg => by
    rw [NFL] at h
    rw [tsList] at hg ⊢
    rw [flagsList, Flags.all_and, Bool.and_eq_true] at hg
    rw [D6.vList]
    exact All2.cons (ser_ok env cx e h.1 hg.1) (serList_ok env cx es h.2 hg.2)
theorem serProps_ok (env : Env) (cx : PCtx) : ∀ (l : List (Key × Elem)), NFK cx l → (flagsNamed cx (tsProps l)).all = true →
    All2 (fun (a : String × Elem) (b : String × Bool × D6.VF) =>
        a.1 = b.1 ∧ ERel env a.2 b.2.2 ∧ b.2.1 = a.2.kw.default.isSome)
      (l.map fun p => (p.1.src, p.2)) (D6.vProps env ℓ₀ (tsProps l))
  | [], _, _ => by rw [tsProps, D6.vProps]; exact All2.nil
  | (k, e) :: r, h, hg => by
    rw [NFK] at h
    rw [tsProps] at hg ⊢
    rw [flagsNamed, Flags.all_and, Bool.and_eq_true] at hg
    rw [D6.vProps]
    exact All2.cons ⟨rfl, ser_ok env cx e h.1 hg.1, declaresDefault_ts e (NF_node h.1).1⟩ (serProps_ok env cx r h.2 hg.2)
theorem serPats_ok (env : Env) (cx : PCtx) : ∀ (l : List (Key × Elem)), NFK cx l → (flagsNamed cx (tsPats l)).all = true →
    All2 (fun (a : String × Elem) (b : String × D6.VF) => a.1 = b.1 ∧ ERel env a.2 b.2)
      (l.map fun p => (p.1.name, p.2)) (D6.vNamed env ℓ₀ (tsPats l))
  | [], _, _ => by rw [tsPats, D6.vNamed]; exact All2.nil
  | (k, e) :: r, h, hg => by
    rw [NFK] at h
    rw [tsPats] at hg ⊢
    rw [flagsNamed, Flags.all_and, Bool.and_eq_true] at hg
    rw [D6.vNamed]
    exact All2.cons ⟨rfl, ser_ok env cx e h.1 hg.1⟩ (serPats_ok env cx r h.2 hg.2)
theorem serDeps_ok (env : Env) (cx : PCtx) : ∀ (l : List (Key × Elem)), NFK cx l → (flagsDeps cx (tsDeps l)).all = true →
    All2 (fun (a : Key × Elem) (b : Key × D6.VF) => a.1 = b.1 ∧ ERel env a.2 b.2) l (D6.vDeps env ℓ₀ (tsDeps l))
  | [], _, _ => by rw [tsDeps, D6.vDeps]; exact All2.nil
  | (k, e) :: r, h, hg => by
    rw [NFK] at h
    rw [tsDeps] at hg ⊢
    rw [flagsDeps, Flags.all_and, Bool.and_eq_true] at hg
    rw [D6.vDeps]
    exact All2.cons ⟨rfl, ser_ok env cx e h.1 hg.1⟩ (serDeps_ok env cx r h.2 hg.2)
end

end Statham
