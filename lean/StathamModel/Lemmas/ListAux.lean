/-
  Small facts about association lists, `distinct`, `removeDups`.
-/
import StathamModel.Good
namespace Statham

theorem distinct_cons {x : String} {xs : List String} :
    distinct (x :: xs) = true ↔ x ∉ xs ∧ distinct xs = true := by
  simp [distinct]

theorem lookup_of_mem {k : String} {x : JVal} {kvs : List (String × JVal)}
    (hd : distinct (kvs.map (·.1)) = true) (h : (k, x) ∈ kvs) : JVal.lookup k kvs = some x := by
  induction kvs with
  | nil => cases h
  | cons kv r ih =>
    obtain ⟨k', x'⟩ := kv
    simp only [List.map_cons, distinct_cons] at hd
    rcases List.mem_cons.mp h with h1 | h1
    · cases h1; simp [JVal.lookup]
    · have hne : k ≠ k' := by
        intro e; subst e
        exact hd.1 (List.mem_map.mpr ⟨(k, x), h1, rfl⟩)
      simp [JVal.lookup, hne, ih hd.2 h1]

theorem lookup_none {k : String} {kvs : List (String × JVal)} (h : k ∉ kvs.map (·.1)) :
    JVal.lookup k kvs = none := by
  induction kvs with
  | nil => rfl
  | cons kv r ih =>
    obtain ⟨k', x'⟩ := kv
    simp only [List.map_cons, List.mem_cons, not_or] at h
    simp [JVal.lookup, h.1, ih h.2]

theorem lookup_some_mem {k : String} {x : JVal} {kvs : List (String × JVal)}
    (h : JVal.lookup k kvs = some x) : (k, x) ∈ kvs := by
  induction kvs with
  | nil => cases h
  | cons kv r ih =>
    obtain ⟨k', x'⟩ := kv
    simp only [JVal.lookup] at h
    by_cases e : k = k'
    · simp only [e, if_true, Option.some.injEq] at h; subst h; subst e; exact List.mem_cons_self ..
    · simp only [e, if_false] at h; exact List.mem_cons_of_mem _ (ih h)

theorem mem_removeDups {x : String} {l : List String} : x ∈ removeDups l ↔ x ∈ l := by
  induction l with
  | nil => simp [removeDups]
  | cons a l ih =>
    simp only [removeDups, List.mem_cons, List.mem_filter, ih]
    constructor
    · rintro (h | ⟨h, _⟩)
      · exact Or.inl h
      · exact Or.inr h
    · rintro (h | h)
      · exact Or.inl h
      · by_cases e : x = a
        · exact Or.inl e
        · exact Or.inr ⟨h, by simpa using e⟩

theorem contains_iff_mem {x : String} {l : List String} : l.contains x = true ↔ x ∈ l := by
  simp

theorem distinctKeys_arr {xs : List JVal} (h : distinctKeys (.arr xs) = true) :
    ∀ x ∈ xs, distinctKeys x = true := by
  simp only [distinctKeys] at h
  induction xs with
  | nil => intro x hx; cases hx
  | cons a l ih =>
    simp only [distinctKeys.dkL, Bool.and_eq_true] at h
    intro x hx
    rcases List.mem_cons.mp hx with e | e
    · subst e; exact h.1
    · exact ih h.2 x e

theorem distinctKeys_obj {kvs : List (String × JVal)} (h : distinctKeys (.obj kvs) = true) :
    distinct (kvs.map (·.1)) = true ∧ ∀ kv ∈ kvs, distinctKeys kv.2 = true := by
  simp only [distinctKeys, Bool.and_eq_true] at h
  refine ⟨h.1, ?_⟩
  have h2 := h.2
  clear h
  induction kvs with
  | nil => intro x hx; cases hx
  | cons a l ih =>
    obtain ⟨k, v⟩ := a
    simp only [distinctKeys.dkKV, Bool.and_eq_true] at h2
    intro x hx
    rcases List.mem_cons.mp hx with e | e
    · subst e; exact h2.1
    · exact ih h2.2 x e

theorem distinctKeys_str (s : String) : distinctKeys (.str s) = true := by simp [distinctKeys]

end Statham
