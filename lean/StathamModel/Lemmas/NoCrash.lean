/-
  Inside the arithmetic domain the model never says `crash`: integers below 2^53 in the
  value and in every default, `multipleOf` a non-zero integer below 2^53.
-/
import StathamModel.Lemmas.CallVerdict
import StathamModel.Lemmas.VAlg
import StathamModel.Good
import StathamModel.Lemmas.ListAux
namespace Statham

theorem ite_pass_ne_crash (b : Bool) (x : Bool) : (if b = true then V.pass else V.ofBool x) ≠ V.crash := by
  cases b
  · simpa using V.ofBool_ne_crash x
  · simp

theorem additionalPropsCheck_ne_crash {ρ} (env : Env) (c : Cls) (kw : Kw) (sub : SubG ρ) (kvs : List (String × JVal)) :
    additionalPropsCheck env c kw sub kvs ≠ .crash := by
  unfold additionalPropsCheck
  cases c <;> simp only [] <;> first
    | (intro h; cases h)
    | exact ite_pass_ne_crash _ _

def safeNum : Num → Bool
  | .int i => i.natAbs < 9007199254740992
  | .flt _ _ => true

def safeVal : JVal → Bool
  | .num n => safeNum n
  | .arr xs => svL xs
  | .obj kvs => svKV kvs
  | _ => true
where
  svL : List JVal → Bool
    | [] => true
    | x :: xs => safeVal x && svL xs
  svKV : List (String × JVal) → Bool
    | [] => true
    | (_, v) :: r => safeVal v && svKV r

def safeArg : Arg → Bool
  | .notPassed => true
  | .val v => safeVal v

def safeMul (kw : Kw) : Bool :=
  optAll kw.multipleOf fun m =>
    match m with
    | .int i => i != 0 && i.natAbs < 9007199254740992
    | .flt _ _ => false

def safeKw (kw : Kw) : Bool := safeMul kw && optAll kw.default safeVal

mutual
def safeElem : Elem → Bool
  | .mk _ kw items addI cont props pats addP pn deps els =>
    safeKw kw && seL items && seO addI && seO cont && seK props && seK pats && seO addP && seO pn &&
      seK deps && seL els
def seO : Option Elem → Bool
  | none => true
  | some e => safeElem e
def seL : List Elem → Bool
  | [] => true
  | e :: es => safeElem e && seL es
def seK : List (Key × Elem) → Bool
  | [] => true
  | (_, e) :: r => safeElem e && seK r
end

/-- a closure that never crashes on arguments inside the domain -/
def NC (f : CallG V) : Prop := ∀ a, safeArg a = true → f a ≠ .crash

theorem safeVal_arr {xs : List JVal} (h : safeVal (.arr xs) = true) : ∀ x ∈ xs, safeVal x = true := by
  simp only [safeVal] at h
  induction xs with
  | nil => intro x hx; cases hx
  | cons a l ih =>
    simp only [safeVal.svL, Bool.and_eq_true] at h
    intro x hx
    rcases List.mem_cons.mp hx with e | e
    · subst e; exact h.1
    · exact ih h.2 x e

theorem safeVal_obj {kvs : List (String × JVal)} (h : safeVal (.obj kvs) = true) :
    ∀ kv ∈ kvs, safeVal kv.2 = true := by
  simp only [safeVal] at h
  induction kvs with
  | nil => intro x hx; cases hx
  | cons a l ih =>
    obtain ⟨k, v⟩ := a
    simp only [safeVal.svKV, Bool.and_eq_true] at h
    intro x hx
    rcases List.mem_cons.mp hx with e | e
    · subst e; exact h.1
    · exact ih h.2 x e

namespace V
theorem and_ne_crash {a b : V} (ha : a ≠ .crash) (hb : b ≠ .crash) : V.and a b ≠ .crash := by
  cases a <;> cases b <;> simp_all [V.and]
theorem all_ne_crash {α} {f : α → V} {l : List α} (h : ∀ x ∈ l, f x ≠ .crash) : V.all f l ≠ .crash := by
  intro hc
  obtain ⟨x, hx, hxc⟩ := V.all_eq_crash.mp hc
  exact h x hx hxc
theorem any_ne_crash {α} {f : α → V} {l : List α} (h : ∀ x ∈ l, f x ≠ .crash) : V.any f l ≠ .crash := by
  unfold V.any
  have : l.any (fun a => f a == .crash) = false := by
    simp only [List.any_eq_false, beq_iff_eq]; exact h
  rw [this]
  exact V.ofBool_ne_crash _
theorem optCheck_ne_crash {α} {o : Option α} {f : α → V} (h : ∀ a, f a ≠ .crash) : optCheck o f ≠ .crash := by
  cases o with
  | none => simp [optCheck]
  | some a => exact h a
end V

theorem attemptV_ne_crash {mode : Cls} {vs : List V} (h : ∀ v ∈ vs, v ≠ .crash) : attemptV mode vs ≠ .crash := by
  unfold attemptV
  have : vs.any isCrash = false := by
    simp only [List.any_eq_false]
    intro v hv hc
    cases v with
    | crash => exact h _ hv rfl
    | pass => simp [isCrash] at hc
    | reject => simp [isCrash] at hc
  rw [this]
  simp only [Bool.false_eq_true, if_false]
  split
  · simp
  · cases mode <;> simp only <;> (try split) <;> simp

theorem multipleOfCheck_safe (x : Num) (i : Int) (h0 : i ≠ 0) (h1 : i.natAbs < 9007199254740992) :
    multipleOfCheck x (.int i) ≠ .crash := by
  unfold multipleOfCheck
  have hne : (i == 0) = false := by simpa using h0
  simp only [hne, Bool.false_eq_true, if_false]
  cases x with
  | int xi => exact V.ofBool_ne_crash _
  | flt n d =>
    have hs : i.natAbs < pow2 53 := by
      have : pow2 53 = 9007199254740992 := by decide
      omega
    simp only [toDouble, hs, if_true]
    exact V.ofBool_ne_crash _

theorem asDouble_safe (n : Num) (h : safeNum n = true) : asDouble n ≠ none := by
  cases n with
  | int i =>
    have hs : i.natAbs < pow2 53 := by
      have : pow2 53 = 9007199254740992 := by decide
      simp only [safeNum, decide_eq_true_eq] at h
      omega
    simp [asDouble, toDouble, hs]
  | flt a b => simp [asDouble]

theorem numChecks_safe (kw : Kw) (x : Num) (h : safeMul kw = true) : numChecks kw x ≠ .crash := by
  unfold numChecks
  refine V.and_ne_crash (V.optCheck_ne_crash fun _ => V.ofBool_ne_crash _) <|
    V.and_ne_crash (V.optCheck_ne_crash fun _ => V.ofBool_ne_crash _) <|
    V.and_ne_crash (V.optCheck_ne_crash fun _ => V.ofBool_ne_crash _) <|
    V.and_ne_crash (V.optCheck_ne_crash fun _ => V.ofBool_ne_crash _) ?_
  unfold safeMul optAll at h
  cases hm : kw.multipleOf with
  | none => simp [optCheck]
  | some m =>
    rw [hm] at h
    cases m with
    | int i =>
      simp only [Bool.and_eq_true, bne_iff_ne, ne_eq, decide_eq_true_eq] at h
      exact multipleOfCheck_safe x i h.1 h.2
    | flt _ _ => simp at h

/-- all closures of an element stay inside the domain -/
structure SubNC (sub : VSub) : Prop where
  items : ∀ f ∈ sub.items, NC f
  addItems : ∀ p, sub.addItems = some p → NC p.2
  contains : ∀ f, sub.contains = some f → NC f
  props : ∀ p ∈ sub.props, NC p.2.2
  patProps : ∀ p ∈ sub.patProps, NC p.2
  addProps : ∀ f, sub.addProps = some f → NC f
  propNames : ∀ f, sub.propNames = some f → NC f
  deps : ∀ p ∈ sub.deps, NC p.2
  elements : ∀ f ∈ sub.elements, NC f

theorem NC_trivialV : NC trivialV := fun _ _ => by simp [trivialV]
theorem NC_nothingV : NC nothingV := fun a _ => by cases a <;> simp [nothingV]

theorem NC_allOfV {fs : List (CallG V)} (h : ∀ f ∈ fs, NC f) : NC (allOfV fs) := by
  intro a ha
  cases a with
  | notPassed => simp [allOfV]
  | val v =>
    simp only [allOfV]
    apply attemptV_ne_crash
    intro x hx
    obtain ⟨f, hf, rfl⟩ := List.mem_map.mp hx
    exact h f hf _ ha

theorem NC_additionalItemCall {kw : Kw} {sub : VSub} (S : SubNC sub) : NC (additionalItemCall vAlg kw sub) := by
  unfold additionalItemCall
  cases h : sub.addItems with
  | none => simp only; cases kw.addItemsB <;> simp [vAlg, NC_trivialV, NC_nothingV]
  | some p => exact S.addItems p h

theorem NC_itemCall {kw : Kw} {sub : VSub} (S : SubNC sub) (idx : Nat) : NC (itemCall vAlg kw sub idx) := by
  unfold itemCall
  cases kw.itemsKind with
  | none => exact NC_trivialV
  | single =>
    simp only
    cases h : sub.items.head? with
    | none => exact NC_trivialV
    | some f => exact S.items f (List.mem_of_mem_head? h)
  | tuple =>
    simp only
    cases h : sub.items[idx]? with
    | none => exact NC_additionalItemCall S
    | some f => exact S.items f (List.mem_of_getElem? h)

theorem itemsCallFrom_nc {kw : Kw} {sub : VSub} (S : SubNC sub) (xs : List JVal) (idx : Nat)
    (hxs : ∀ x ∈ xs, safeVal x = true) : ∀ v ∈ itemsCallFrom vAlg kw sub idx xs, v ≠ .crash := by
  induction xs generalizing idx with
  | nil => intro v hv; cases hv
  | cons x xs ih =>
    intro v hv
    rw [itemsCallFrom] at hv
    rcases List.mem_cons.mp hv with e | e
    · rw [e]; exact NC_itemCall S idx _ (hxs x (List.mem_cons_self ..))
    · exact ih (idx + 1) (fun y hy => hxs y (List.mem_cons_of_mem _ hy)) v e

theorem findDeclared_mem {props : List (Key × Option JVal × CallG V)} {k : String} {key : Key} {f : CallG V}
    (h : findDeclared props k = some (key, f)) : ∃ p ∈ props, p.2.2 = f := by
  unfold findDeclared at h
  suffices hs : ∀ (acc : Option (Key × CallG V)) (l : List (Key × Option JVal × CallG V)),
      l.foldl (fun acc p => if p.1.src == k then some (p.1, p.2.2) else acc) acc = some (key, f) →
      acc = some (key, f) ∨ ∃ p ∈ l, p.2.2 = f by
    rcases hs none props h with h0 | h0
    · cases h0
    · exact h0
  intro acc l
  induction l generalizing acc with
  | nil => intro h; exact Or.inl h
  | cons p ps ih =>
    intro h
    simp only [List.foldl_cons] at h
    rcases ih _ h with h1 | ⟨q, hq, hqf⟩
    · by_cases hk : p.1.src == k
      · simp only [hk, if_true, Option.some.injEq, Prod.mk.injEq] at h1
        exact Or.inr ⟨p, List.mem_cons_self .., h1.2⟩
      · simp only [hk] at h1
        exact Or.inl h1
    · exact Or.inr ⟨q, List.mem_cons_of_mem _ hq, hqf⟩

theorem NC_resolve {env : Env} {kw : Kw} {sub : VSub} (S : SubNC sub) (k : String) (a : Arg)
    (ha : safeArg a = true) : (resolveCall vAlg env kw sub k a).2 ≠ .crash := by
  unfold resolveCall
  have hp : ∀ f ∈ matchingPats env sub.patProps k, NC f := by
    intro f hf
    unfold matchingPats at hf
    obtain ⟨p, hp, rfl⟩ := List.mem_map.mp hf
    exact S.patProps p (List.mem_filter.mp hp).1
  have hadd : NC (additionalPropCall vAlg kw sub) := by
    unfold additionalPropCall
    cases h : sub.addProps with
    | none => simp only; cases kw.addPropsB <;> simp [vAlg, NC_trivialV, NC_nothingV]
    | some f => exact S.addProps f h
  cases hd : findDeclared sub.props k with
  | none =>
    cases hm : matchingPats env sub.patProps k with
    | nil => exact hadd a ha
    | cons f fs =>
      rw [hm] at hp
      cases fs with
      | nil => exact hp f (List.mem_cons_self ..) a ha
      | cons g gs => exact NC_allOfV hp a ha
  | some q =>
    obtain ⟨key, f⟩ := q
    obtain ⟨p, hpm, hpf⟩ := findDeclared_mem hd
    have hf : NC f := hpf ▸ S.props p hpm
    cases hm : matchingPats env sub.patProps k with
    | nil => exact hf a ha
    | cons g gs =>
      rw [hm] at hp
      refine NC_allOfV (fs := f :: g :: gs) ?_ a ha
      intro x hx
      rcases List.mem_cons.mp hx with e | e
      · rw [e]; exact hf
      · exact hp x e

theorem propsOuts_nc {env : Env} {kw : Kw} {sub : VSub} (S : SubNC sub) (kvs : List (String × JVal))
    (hkvs : ∀ kv ∈ kvs, safeVal kv.2 = true) : ∀ o ∈ propsOuts vAlg env kw sub kvs, o.2 ≠ .crash := by
  intro o ho
  unfold propsOuts at ho
  obtain ⟨k, _, rfl⟩ := List.mem_map.mp ho
  apply NC_resolve S
  unfold argOf
  cases hl : JVal.lookup k kvs with
  | none => rfl
  | some x =>
    simp only [safeArg]
    have : (k, x) ∈ kvs := lookup_some_mem hl
    exact hkvs (k, x) this

theorem createV_nc {env : Env} {c : Cls} {kw : Kw} {sub : VSub} (hk : safeMul kw = true) (S : SubNC sub)
    (v : JVal) (hv : safeVal v = true) : createV env c kw sub v ≠ .crash := by
  unfold createV
  apply V.and_ne_crash
  · unfold validators
    apply V.and_ne_crash (V.ofBool_ne_crash _)
    apply V.and_ne_crash
    · unfold literalChecks
      exact V.and_ne_crash (V.optCheck_ne_crash fun _ => V.ofBool_ne_crash _)
        (V.optCheck_ne_crash fun _ => V.ofBool_ne_crash _)
    · cases v with
      | num x => exact numChecks_safe kw x hk
      | str s =>
        unfold strChecks
        refine V.and_ne_crash (V.optCheck_ne_crash fun _ => V.ofBool_ne_crash _) <|
          V.and_ne_crash (V.optCheck_ne_crash fun _ => V.ofBool_ne_crash _) <|
          V.and_ne_crash (V.optCheck_ne_crash fun _ => V.ofBool_ne_crash _)
            (V.optCheck_ne_crash fun f => ?_)
        cases env.fmt f with
        | none => simp
        | some c => exact V.ofBool_ne_crash _
      | arr xs =>
        have hxs := safeVal_arr hv
        refine V.and_ne_crash ?_ (V.and_ne_crash ?_ ?_)
        · unfold arrChecks
          exact V.and_ne_crash (V.optCheck_ne_crash fun _ => V.ofBool_ne_crash _)
            (V.and_ne_crash (V.optCheck_ne_crash fun _ => V.ofBool_ne_crash _) (V.ofBool_ne_crash _))
        · unfold additionalItemsCheck
          cases kw.itemsKind <;> simp only <;> (try simp)
          split
          · simp
          · cases sub.addItems <;> exact V.ofBool_ne_crash _
        · unfold containsCheck
          cases hc : sub.contains with
          | none => simp [optCheck]
          | some f => exact V.any_ne_crash fun x hx => S.contains f hc _ (hxs x hx)
      | obj kvs =>
        refine V.and_ne_crash ?_ (V.and_ne_crash ?_ ?_)
        · unfold objChecks
          exact V.and_ne_crash (V.ofBool_ne_crash _)
            (V.and_ne_crash (V.optCheck_ne_crash fun _ => V.ofBool_ne_crash _)
              (V.and_ne_crash (V.optCheck_ne_crash fun _ => V.ofBool_ne_crash _) (V.ofBool_ne_crash _)))
        · unfold propNamesCheck
          cases hc : sub.propNames with
          | none => simp [optCheck]
          | some f => exact V.all_ne_crash fun kv _ => S.propNames f hc _ rfl
        · refine V.and_ne_crash ?_ ?_
          · unfold depElemsCheck
            apply V.all_ne_crash
            intro d hd
            split
            · simp
            · exact S.deps d hd _ hv
          · exact additionalPropsCheck_ne_crash env _ kw sub kvs
      | null => simp
      | bool b => simp
  · have hel : ∀ x ∈ sub.elements.map (fun f => f (.val v)), x ≠ .crash := by
      intro x hx
      obtain ⟨f, hf, rfl⟩ := List.mem_map.mp hx
      exact S.elements f hf (.val v) hv
    cases c with
    | not =>
      simp only [constructV]
      cases he : sub.elements with
      | nil => simp
      | cons f fs =>
        cases fs with
        | nil =>
          simp only
          have := S.elements f (by rw [he]; exact List.mem_cons_self ..) (.val v) hv
          cases hfv : f (.val v) <;> simp_all [notV]
        | cons g gs => simp
    | anyOf => simp only [constructV]; exact attemptV_ne_crash hel
    | oneOf => simp only [constructV]; exact attemptV_ne_crash hel
    | allOf => simp only [constructV]; exact attemptV_ne_crash hel
    | number =>
      simp only [constructV]
      cases v with
      | num n =>
        simp only
        cases h : asDouble n with
        | none => exact absurd h (asDouble_safe n hv)
        | some _ => simp
      | _ => simp
    | object name =>
      simp only [constructV]
      cases v with
      | obj kvs => exact V.all_ne_crash fun o ho => propsOuts_nc S kvs (safeVal_obj hv) o ho
      | _ => simp
    | element | nothing | boolean | integer | null | string | array =>
      simp only [constructV]
      cases v with
      | arr xs => exact V.all_ne_crash fun x hx => itemsCallFrom_nc S xs 0 (safeVal_arr hv) x hx
      | obj kvs => exact V.all_ne_crash fun o ho => propsOuts_nc S kvs (safeVal_obj hv) o ho
      | _ => simp

theorem accCore_nc {env : Env} {c : Cls} {kw : Kw} {sub : VSub} (hk : safeKw kw = true) (S : SubNC sub) :
    NC (accCore env c kw sub) := by
  unfold safeKw at hk
  simp only [Bool.and_eq_true] at hk
  intro a ha
  unfold accCore
  cases a with
  | val v => exact createV_nc hk.1 S v ha
  | notPassed =>
    simp only
    cases hd : kw.default with
    | none => simp
    | some d =>
      simp only
      have hds : safeVal d = true := by simpa [optAll, hd] using hk.2
      have := createV_nc (env := env) (c := c) hk.1 S d hds
      cases hc : createV env c kw sub d <;> simp_all

mutual
theorem acc_nc (env : Env) : ∀ (e : Elem), safeElem e = true → NC (e.acc env)
  | .mk c kw items addI cont props pats addP pn deps els, h => by
    rw [safeElem] at h
    simp only [Bool.and_eq_true] at h
    obtain ⟨⟨⟨⟨⟨⟨⟨⟨⟨hkw, h1⟩, h2⟩, h3⟩, h4⟩, h5⟩, h6⟩, h7⟩, h8⟩, h9⟩ := h
    have hf : Elem.acc env (.mk c kw items addI cont props pats addP pn deps els) =
        accCore env c kw
          { items := accList env items, addItems := accAddl env addI, contains := accOpt env cont,
            props := accProps env props, patProps := accKeyed env pats, addProps := accOpt env addP,
            propNames := accOpt env pn, deps := accKeyed env deps, elements := accList env els } := by
      funext a; rw [Elem.acc]
    rw [hf]
    exact accCore_nc hkw
      { items := accList_nc env items h1
        addItems := fun p hp => accAddl_nc env addI h2 p hp
        contains := fun f hf => accOpt_nc env cont h3 f hf
        props := accProps_nc env props h4
        patProps := accKeyed_nc env pats h5
        addProps := fun f hf => accOpt_nc env addP h6 f hf
        propNames := fun f hf => accOpt_nc env pn h7 f hf
        deps := accKeyed_nc env deps h8
        elements := accList_nc env els h9 }
theorem accOpt_nc (env : Env) : ∀ (o : Option Elem), seO o = true → ∀ f, accOpt env o = some f → NC f
  | none, _, f, hf => by rw [accOpt] at hf; cases hf
  | some e, h, f, hf => by
    rw [accOpt] at hf
    rw [seO] at h
    cases hf
    exact acc_nc env e h
theorem accAddl_nc (env : Env) : ∀ (o : Option Elem), seO o = true → ∀ p, accAddl env o = some p → NC p.2
  | none, _, p, hp => by rw [accAddl] at hp; cases hp
  | some e, h, p, hp => by
    rw [accAddl] at hp
    rw [seO] at h
    cases hp
    exact acc_nc env e h
theorem accList_nc (env : Env) : ∀ (l : List Elem), seL l = true → ∀ f ∈ accList env l, NC f
  | [], _, f, hf => by rw [accList] at hf; cases hf
  | e :: es, h, f, hf => by
    rw [accList] at hf
    rw [seL, Bool.and_eq_true] at h
    rcases List.mem_cons.mp hf with e1 | e1
    · rw [e1]; exact acc_nc env e h.1
    · exact accList_nc env es h.2 f e1
theorem accKeyed_nc (env : Env) : ∀ (l : List (Key × Elem)), seK l = true → ∀ p ∈ accKeyed env l, NC p.2
  | [], _, p, hp => by rw [accKeyed] at hp; cases hp
  | (k, e) :: r, h, p, hp => by
    rw [accKeyed] at hp
    rw [seK, Bool.and_eq_true] at h
    rcases List.mem_cons.mp hp with e1 | e1
    · rw [e1]; exact acc_nc env e h.1
    · exact accKeyed_nc env r h.2 p e1
theorem accProps_nc (env : Env) : ∀ (l : List (Key × Elem)), seK l = true → ∀ p ∈ accProps env l, NC p.2.2
  | [], _, p, hp => by rw [accProps] at hp; cases hp
  | (k, e) :: r, h, p, hp => by
    rw [accProps] at hp
    rw [seK, Bool.and_eq_true] at h
    rcases List.mem_cons.mp hp with e1 | e1
    · rw [e1]; exact acc_nc env e h.1
    · exact accProps_nc env r h.2 p e1
end

end Statham
