/-
  Serialization ignores attribute names and, up to `title`, class names: two trees that are the same once attribute
  and class names are forgotten (`anonymize`) serialize to the same schema once titles are blanked (`untitle`).
  This is the serialization half of the C17 congruence clause for pairs equal up to names.
-/
import StathamModel.ToSchema
import StathamModel.Lemmas.SerOk
import StathamModel.Lemmas.AccNames
namespace Statham

mutual
/-- the schema with every `title` removed -/
def untitle : Schema → Schema
  | .bool b => .bool b
  | .mk k items addI cont props pats addP pn deps anyOf oneOf allOf not =>
    .mk { k with title := none } (untitleL items) (untitleO addI) (untitleO cont) (untitleN props) (untitleN pats)
      (untitleO addP) (untitleO pn) (untitleD deps) (untitleL anyOf) (untitleL oneOf) (untitleL allOf) (untitleO not)
def untitleO : Option Schema → Option Schema
  | none => none
  | some s => some (untitle s)
def untitleL : List Schema → List Schema
  | [] => []
  | s :: ss => untitle s :: untitleL ss
def untitleN : List (String × Schema) → List (String × Schema)
  | [] => []
  | (k, s) :: r => (k, untitle s) :: untitleN r
def untitleD : List (Key × Schema) → List (Key × Schema)
  | [] => []
  | (k, s) :: r => (k, untitle s) :: untitleD r
end

theorem mergedRequired_keys (kw : Kw) (a b : List (Key × JVal))
    (h : (a.filter fun p => p.1.required).map (fun p => p.1.src) = (b.filter fun p => p.1.required).map (fun p => p.1.src)) :
    mergedRequired kw a = mergedRequired kw b := by
  unfold mergedRequired
  simp only [h]

theorem flagged_anonP (props : List (Key × Elem)) :
    (((anonP props).map fun p => (p.1, JVal.null)).filter fun p => p.1.required).map (fun p => p.1.src) =
    ((props.map fun p => (p.1, JVal.null)).filter fun p => p.1.required).map (fun p => p.1.src) := by
  induction props with
  | nil => rw [anonP]
  | cons p r ih =>
    obtain ⟨k, e⟩ := p
    rw [anonP]
    simp only [List.map_cons, List.filter_cons, normKey_required]
    by_cases hk : k.required = true
    · simp only [hk, if_true, List.map_cons, normKey_src]
      exact congrArg _ ih
    · simp only [hk, Bool.false_eq_true, if_false]
      exact ih

theorem anonP_isEmpty (props : List (Key × Elem)) : (anonP props).isEmpty = props.isEmpty := by
  cases props with
  | nil => rw [anonP]
  | cons p r => obtain ⟨k, e⟩ := p; rw [anonP]; rfl

theorem emittedRequired_anonP (kw : Kw) (props : List (Key × Elem)) :
    emittedRequired kw (anonP props) = emittedRequired kw props := by
  unfold emittedRequired
  rw [anonP_isEmpty, mergedRequired_keys kw _ _ (flagged_anonP props)]

theorem typeSpecOf_anonCls (c : Cls) : typeSpecOf (anonCls c) = typeSpecOf c := by
  cases c <;> rfl

theorem membersFor_anonCls {α} (c m : Cls) (hm : m = .anyOf ∨ m = .oneOf ∨ m = .allOf) (l : List α) :
    membersFor (anonCls c) m l = membersFor c m l := by
  unfold membersFor
  rcases hm with rfl | rfl | rfl <;> cases c <;> rfl

theorem notFor_anonCls {α} (c : Cls) (l : List α) : notFor (anonCls c) l = notFor c l := by
  unfold notFor
  cases c <;> rfl

theorem nodeSKw_anon (c : Cls) (kw : Kw) (props : List (Key × Elem)) :
    { nodeSKw (anonCls c) kw (anonP props) with title := none } = { nodeSKw c kw props with title := none } := by
  unfold nodeSKw
  simp only [typeSpecOf_anonCls, emittedRequired_anonP, anonP_isEmpty]
  cases c <;> rfl

theorem untitle_false : untitle (.bool false) = .bool false := by rw [untitle]

theorem untitle_addl (o : Option Schema) (b : Bool) : untitleO (addlSchema o b) = addlSchema (untitleO o) b := by
  cases o with
  | none =>
    cases b
    · show untitleO (some (Schema.bool false)) = addlSchema (untitleO none) false
      simp only [untitleO, untitle_false]
      rfl
    · show untitleO none = addlSchema (untitleO none) true
      simp only [untitleO]
      rfl
  | some s => rw [untitleO]; rfl

theorem untitleL_membersFor (c m : Cls) (l : List Schema) : untitleL (membersFor c m l) = membersFor c m (untitleL l) := by
  unfold membersFor
  split
  · rfl
  · rw [untitleL]

theorem untitleO_notFor (c : Cls) (l : List Schema) : untitleO (notFor c l) = notFor c (untitleL l) := by
  unfold notFor
  split
  · cases l with
    | nil => rw [untitleL]; simp only [List.head?_nil]; rw [untitleO]
    | cons x xs => rw [untitleL]; simp only [List.head?_cons]; rw [untitleO]
  · rw [untitleO]

mutual
/-- **Serialization sees names only as titles.** -/
theorem untitle_toSchema_anon : ∀ (e : Elem), untitle (toSchema (anonymize e)) = untitle (toSchema e)
  | .mk c kw items addI cont props pats addP pn deps els => by
    by_cases hc : c = .nothing
    · subst hc
      rw [anonymize, toSchema, toSchema]
      simp only [anonCls, beq_self_eq_true, if_true]
    · have hc' : anonCls c ≠ .nothing := by cases c <;> simp_all [anonCls]
      rw [anonymize, toSchema_mk hc', toSchema_mk hc, untitle, untitle]
      rw [nodeSKw_anon, untitle_addl, untitle_addl, untitle_addl, untitle_addl]
      rw [untitleL_membersFor, untitleL_membersFor, untitleL_membersFor, untitleO_notFor,
        untitleL_membersFor, untitleL_membersFor, untitleL_membersFor, untitleO_notFor]
      rw [membersFor_anonCls c .anyOf (Or.inl rfl), membersFor_anonCls c .oneOf (Or.inr (Or.inl rfl)),
        membersFor_anonCls c .allOf (Or.inr (Or.inr rfl)), notFor_anonCls]
      rw [untitleL_ts items, untitleO_ts addI, untitleO_ts cont, untitleN_props props, untitleN_pats pats, untitleO_ts addP,
        untitleO_ts pn, untitleD_ts deps, untitleL_ts els]
theorem untitleO_ts : ∀ (o : Option Elem), untitleO (tsOpt (anonO o)) = untitleO (tsOpt o)
  | none => by rw [anonO]
  | some e => by rw [anonO, tsOpt, tsOpt, untitleO, untitleO, untitle_toSchema_anon e]
theorem untitleL_ts : ∀ (l : List Elem), untitleL (tsList (anonL l)) = untitleL (tsList l)
  | [] => by rw [anonL]
  | e :: es => by rw [anonL, tsList, tsList, untitleL, untitleL, untitle_toSchema_anon e, untitleL_ts es]
theorem untitleN_props : ∀ (l : List (Key × Elem)), untitleN (tsProps (anonP l)) = untitleN (tsProps l)
  | [] => by rw [anonP]
  | (k, e) :: r => by
    rw [anonP, tsProps, tsProps, untitleN, untitleN, untitle_toSchema_anon e, untitleN_props r, normKey_src]
theorem untitleN_pats : ∀ (l : List (Key × Elem)), untitleN (tsPats (anonK l)) = untitleN (tsPats l)
  | [] => by rw [anonK]
  | (k, e) :: r => by rw [anonK, tsPats, tsPats, untitleN, untitleN, untitle_toSchema_anon e, untitleN_pats r]
theorem untitleD_ts : ∀ (l : List (Key × Elem)), untitleD (tsDeps (anonK l)) = untitleD (tsDeps l)
  | [] => by rw [anonK]
  | (k, e) :: r => by rw [anonK, tsDeps, tsDeps, untitleD, untitleD, untitle_toSchema_anon e, untitleD_ts r]
end

/-- two trees equal up to attribute and class names serialize alike up to titles -/
theorem ser_congr_of_anonymize (a b : Elem) (h : anonymize a = anonymize b) :
    untitle (toSchema a) = untitle (toSchema b) := by
  rw [← untitle_toSchema_anon a, ← untitle_toSchema_anon b, h]

end Statham
