/-
  The class graph of element trees is bounded (duplicate-free edge lists inside the list of class names), so the orderer
  model's search reaches every direct dependency: a class is declared after every object class below it.
-/
import StathamModel.Lemmas.ReachAdequate
import StathamModel.Lemmas.Descendants
namespace Statham

theorem removeDups_nodup : ∀ (l : List String), (removeDups l).Nodup
  | [] => by simp [removeDups]
  | x :: xs => by
    rw [removeDups, List.nodup_cons]
    refine ⟨?_, (removeDups_nodup xs).filter _⟩
    simp [List.mem_filter]

/-- a descendant of something the module is generated from is itself among the things it is generated from -/
theorem mem_pool_of_desc (els : List Elem) (c d : Elem) (hc : c ∈ els ++ (els.map descendants).flatten)
    (hd : d ∈ descendants c) : d ∈ els ++ (els.map descendants).flatten := by
  rcases List.mem_append.mp hc with hc | hc
  · exact List.mem_append_right _ (List.mem_flatten.mpr ⟨descendants c, List.mem_map.mpr ⟨c, hc, rfl⟩, hd⟩)
  · obtain ⟨l, hl, hcl⟩ := List.mem_flatten.mp hc
    obtain ⟨r, hr, rfl⟩ := List.mem_map.mp hl
    exact List.mem_append_right _ (List.mem_flatten.mpr ⟨descendants r, List.mem_map.mpr ⟨r, hr, rfl⟩, desc_trans r c hcl d hd⟩)

theorem objectClasses_desc (els : List Elem) (c d : Elem) (hc : c ∈ objectClasses els) (hd : d ∈ descendants c)
    (ho : isObjectClass d.cls = true) : d ∈ objectClasses els := by
  unfold objectClasses at hc ⊢
  exact List.mem_filter.mpr ⟨mem_pool_of_desc els c d (List.mem_filter.mp hc).1 hd, ho⟩

theorem treeGraph_bounded (els : List Elem) : Bounded (treeGraph els) (treeGraph els).order := by
  constructor
  · intro n
    simp only [treeGraph]
    split
    · exact removeDups_nodup _
    · exact List.nodup_nil
  · intro n x hx
    simp only [treeGraph] at hx ⊢
    split at hx
    · rename_i c hfind
      have hc : c ∈ objectClasses els := List.mem_of_find?_eq_some hfind
      rw [mem_removeDups] at hx
      unfold directClasses at hx
      obtain ⟨d, hd, rfl⟩ := List.mem_map.mp hx
      obtain ⟨hd1, hd2⟩ := List.mem_filter.mp hd
      exact List.mem_map.mpr ⟨d, objectClasses_desc els c d hc hd1 hd2, rfl⟩
    · cases hx

end Statham
