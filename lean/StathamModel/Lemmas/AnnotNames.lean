/-
  Which names an annotation refers to: the typing words `Any`, `List`, `Union` and the names of the model
  classes among the element and its descendants.
-/
import StathamModel.Lemmas.Descendants
namespace Statham

def typingWord (n : String) : Prop := n = "Any" ∨ n = "List" ∨ n = "Union"

/-- every name of the annotation is a typing word or satisfies `S` -/
def NamesIn (S : String → Prop) (t : PyType) : Prop := ∀ n ∈ t.names, typingWord n ∨ S n

theorem namesList_mem {ts : List PyType} {n : String} (h : n ∈ PyType.namesList ts) : ∃ t ∈ ts, n ∈ t.names := by
  induction ts with
  | nil => simp [PyType.namesList] at h
  | cons a r ih =>
    rw [PyType.namesList] at h
    rcases List.mem_append.mp h with h | h
    · exact ⟨a, List.mem_cons_self .., h⟩
    · obtain ⟨t, ht, hn⟩ := ih h
      exact ⟨t, List.mem_cons_of_mem _ ht, hn⟩

theorem dedupe_sub {t : PyType} {ts : List PyType} (h : t ∈ dedupeTypes ts) : t ∈ ts := by
  induction ts with
  | nil => simp [dedupeTypes] at h
  | cons u us ih =>
    rw [dedupeTypes] at h
    rcases List.mem_cons.mp h with rfl | h
    · exact List.mem_cons_self ..
    · exact List.mem_cons_of_mem _ (ih (List.mem_filter.mp h).1)

theorem NamesIn.any {S} : NamesIn S .any := by
  intro n hn; simp only [PyType.names, List.mem_singleton] at hn; exact Or.inl (Or.inl hn)

theorem NamesIn.union {S} {ts : List PyType} (h : ∀ t ∈ ts, NamesIn S t) : NamesIn S (.union ts) := by
  intro n hn
  simp only [PyType.names, List.mem_cons] at hn
  rcases hn with rfl | hn
  · exact Or.inl (Or.inr (Or.inr rfl))
  · obtain ⟨t, ht, hnt⟩ := namesList_mem hn
    exact h t ht n hnt

theorem unionAnnot_names {S} {ts : List PyType} (h : ∀ t ∈ ts, NamesIn S t) : NamesIn S (unionAnnot ts) := by
  unfold unionAnnot
  have hd : ∀ t ∈ dedupeTypes ts, NamesIn S t := fun t ht => h t (dedupe_sub ht)
  match hdd : dedupeTypes ts with
  | [] => simp only; split
          · exact NamesIn.any
          · exact NamesIn.union (fun t ht => by cases ht)
  | [u] => simp only; exact hd u (by rw [hdd]; exact List.mem_cons_self ..)
  | u :: w :: rest =>
    simp only
    split
    · exact NamesIn.any
    · exact NamesIn.union (fun t ht => hd t (by rw [hdd]; exact ht))

theorem allOfAnnot_names {S} {ts : List PyType} (h : ∀ t ∈ ts, NamesIn S t) : NamesIn S (allOfAnnot ts) := by
  unfold allOfAnnot
  cases hf : ts.find? (fun t => !isAnyText t && !t.show.startsWith "Union") with
  | some t => exact h t (List.mem_of_find?_eq_some hf)
  | none =>
    simp only
    cases hg : ts.find? (fun t => !isAnyText t) with
    | some t => exact h t (List.mem_of_find?_eq_some hg)
    | none => exact NamesIn.any

theorem listAnnot_names {S} {ts : List PyType} (h : ∀ t ∈ ts, NamesIn S t) : NamesIn S (listAnnot ts) := by
  unfold listAnnot
  match ts with
  | [] => intro n hn; simp only [PyType.names, List.mem_singleton] at hn; exact Or.inl (Or.inr (Or.inl hn))
  | [t] =>
    intro n hn
    simp only [PyType.names, List.mem_cons] at hn
    rcases hn with rfl | hn
    · exact Or.inl (Or.inr (Or.inl rfl))
    · exact h t (List.mem_cons_self ..) n hn
  | t :: u :: rest =>
    intro n hn
    simp only [PyType.names, List.mem_cons] at hn
    rcases hn with rfl | hn
    · exact Or.inl (Or.inr (Or.inl rfl))
    · exact NamesIn.union h n (by simpa [PyType.names] using hn)

theorem itemAnnots_names {S} (kind : ItemsKind) (b : Bool) {items : List PyType} {add : Option PyType}
    (hi : ∀ t ∈ items, NamesIn S t) (ha : ∀ t, add = some t → NamesIn S t) :
    ∀ t ∈ itemAnnots kind b items add, NamesIn S t := by
  intro t ht
  unfold itemAnnots at ht
  have tuple_case : t ∈ (match add with
      | none => if b then [PyType.any] else (if items.any isAnyText then [PyType.any] else dedupeTypes items)
      | some a => if (items ++ [a]).any isAnyText then [PyType.any] else dedupeTypes (items ++ [a])) → NamesIn S t := by
    intro htl
    cases add with
    | none =>
      simp only at htl
      by_cases hb : b = true
      · simp only [hb, if_true, List.mem_singleton] at htl; rw [htl]; exact NamesIn.any
      · simp only [hb, Bool.false_eq_true, if_false] at htl
        by_cases hany : items.any isAnyText = true
        · simp only [hany, if_true, List.mem_singleton] at htl; rw [htl]; exact NamesIn.any
        · simp only [hany, Bool.false_eq_true, if_false] at htl
          exact hi t (dedupe_sub htl)
    | some a =>
      simp only at htl
      by_cases hany : (items ++ [a]).any isAnyText = true
      · simp only [hany, if_true, List.mem_singleton] at htl; rw [htl]; exact NamesIn.any
      · simp only [hany, Bool.false_eq_true, if_false] at htl
        rcases List.mem_append.mp (dedupe_sub htl) with h | h
        · exact hi t h
        · have : t = a := by simpa using h
          exact ha t (by rw [this])
  cases kind with
  | single => exact hi t (List.mem_of_mem_take ht)
  | none => exact tuple_case ht
  | tuple => exact tuple_case ht

/-- a name is the name of a model class among the given elements -/
def ClassIn (pool : List Elem) (n : String) : Prop := ∃ d ∈ pool, isObjectClass d.cls = true ∧ objName d.cls = n

theorem annotCore_names {pool : List Elem} (c : Cls) (kw : Kw) {items : List PyType} {add : Option PyType} {els : List PyType}
    (hself : ∀ nm, c = .object nm → ClassIn pool nm)
    (hi : ∀ t ∈ items, NamesIn (ClassIn pool) t) (ha : ∀ t, add = some t → NamesIn (ClassIn pool) t)
    (he : ∀ t ∈ els, NamesIn (ClassIn pool) t) : NamesIn (ClassIn pool) (annotCore c kw items add els) := by
  cases c with
  | element | not => exact NamesIn.any
  | nothing | null | boolean | integer | number | string => intro n hn; simp [annotCore, PyType.names] at hn
  | array => exact listAnnot_names (itemAnnots_names _ _ hi ha)
  | object nm =>
    intro n hn
    simp only [annotCore, PyType.names, List.mem_singleton] at hn
    exact Or.inr (hn ▸ hself nm rfl)
  | anyOf | oneOf => exact unionAnnot_names he
  | allOf => exact allOfAnnot_names he

theorem ClassIn.mono {pool pool' : List Elem} {n : String} (h : ClassIn pool n) (hs : ∀ d ∈ pool, d ∈ pool') : ClassIn pool' n := by
  obtain ⟨d, hd, h1, h2⟩ := h
  exact ⟨d, hs d hd, h1, h2⟩

theorem NamesIn.mono {S S' : String → Prop} {t : PyType} (h : NamesIn S t) (hs : ∀ n, S n → S' n) : NamesIn S' t := by
  intro n hn
  rcases h n hn with h | h
  · exact Or.inl h
  · exact Or.inr (hs n h)

mutual
theorem annot_names : ∀ (e : Elem), NamesIn (ClassIn (e :: descendants e)) (annot e)
  | .mk c kw items addI cont props pats addP pn deps els => by
    rw [annot]
    have into : ∀ (pool : List Elem), (∀ d ∈ pool, d ∈ descendants (.mk c kw items addI cont props pats addP pn deps els)) →
        ∀ t, NamesIn (ClassIn pool) t →
          NamesIn (ClassIn ((Elem.mk c kw items addI cont props pats addP pn deps els) ::
            descendants (.mk c kw items addI cont props pats addP pn deps els))) t :=
      fun pool hs t ht => ht.mono fun n hn => hn.mono fun d hd => List.mem_cons_of_mem _ (hs d hd)
    apply annotCore_names
    · intro nm hc
      exact ⟨_, List.mem_cons_self .., by simp [Elem.cls, hc, isObjectClass], by simp [Elem.cls, hc, objName]⟩
    · intro t ht
      exact into (descL items) (fun d hd => by rw [descendants]; simp [List.mem_append, hd]) t (annotList_names items t ht)
    · intro t ht
      cases addI with
      | none => simp [annotOpt] at ht
      | some a =>
        simp only [annotOpt, Option.some.injEq] at ht
        rw [← ht]
        exact into (descO (some a)) (fun d hd => by rw [descendants]; simp [List.mem_append, hd]) _
          (by rw [descO]; exact annot_names a)
    · intro t ht
      exact into (descL els) (fun d hd => by rw [descendants]; simp [List.mem_append, hd]) t (annotList_names els t ht)
theorem annotList_names : ∀ (es : List Elem), ∀ t ∈ annotList es, NamesIn (ClassIn (descL es)) t
  | [], t, ht => by simp [annotList] at ht
  | e :: es, t, ht => by
    rw [annotList] at ht
    rw [descL]
    rcases List.mem_cons.mp ht with rfl | ht
    · exact (annot_names e).mono fun n hn => hn.mono fun d hd => List.mem_append_left _ hd
    · exact (annotList_names es t ht).mono fun n hn => hn.mono fun d hd => List.mem_append_right _ hd
end

end Statham
