/-
  Completeness of the orderer's emission loop on dependency tables that are transitively closed, irreflexive
  and self-contained (what `depTable` produces for an acyclic class graph).
-/
import StathamModel.Orderer
namespace Statham

structure ClosedTable (t : List (String × List String)) : Prop where
  keysNodup : (t.map (·.1)).Nodup
  depsNodup : ∀ e ∈ t, e.2.Nodup
  depsInKeys : ∀ e ∈ t, ∀ d ∈ e.2, d ∈ t.map (·.1)
  irrefl : ∀ e ∈ t, e.1 ∉ e.2
  trans : ∀ e ∈ t, ∀ d ∈ e.2, ∀ e' ∈ t, e'.1 = d → ∀ x ∈ e'.2, x ∈ e.2

theorem exists_min_length {α} (f : α → Nat) : ∀ (l : List α), l ≠ [] → ∃ e ∈ l, ∀ e' ∈ l, f e ≤ f e'
  | [], h => absurd rfl h
  | [a], _ => ⟨a, List.mem_cons_self .., fun e' he' => by simp at he'; rw [he']; exact Nat.le_refl _⟩
  | a :: b :: r, _ => by
    obtain ⟨m, hm, hmin⟩ := exists_min_length f (b :: r) (by simp)
    by_cases hle : f a ≤ f m
    · exact ⟨a, List.mem_cons_self .., fun e' he' => by
        rcases List.mem_cons.mp he' with rfl | he'
        · exact Nat.le_refl _
        · exact Nat.le_trans hle (hmin e' he')⟩
    · exact ⟨m, List.mem_cons_of_mem _ hm, fun e' he' => by
        rcases List.mem_cons.mp he' with rfl | he'
        · omega
        · exact hmin e' he'⟩

theorem filter_ne_length : ∀ (ks : List String) (n : String), n ∈ ks → ks.Nodup →
    (ks.filter (· != n)).length + 1 = ks.length
  | [], _, hn, _ => by cases hn
  | a :: r, n, hn, hnd => by
    have ha := (List.nodup_cons.mp hnd).1
    have hr := (List.nodup_cons.mp hnd).2
    by_cases e : a = n
    · subst e
      have : r.filter (· != a) = r := List.filter_eq_self.mpr fun x hx => by
        simp only [bne_iff_ne, ne_eq]
        exact fun hxa => ha (hxa ▸ hx)
      simp [this]
    · have hn' : n ∈ r := by
        rcases List.mem_cons.mp hn with h' | h'
        · exact absurd h'.symm e
        · exact h'
      have := filter_ne_length r n hn' hr
      have hne : (a != n) = true := by simpa using e
      rw [List.filter_cons, hne]
      simp only [if_true, List.length_cons]
      omega

/-- in a closed, non-empty table some class has no pending dependency -/
theorem ClosedTable.exists_ready {t : List (String × List String)} (h : ClosedTable t) (hne : t ≠ []) :
    ∃ e ∈ t, e.2 = [] := by
  obtain ⟨e, he, hmin⟩ := exists_min_length (fun e : String × List String => e.2.length) t hne
  refine ⟨e, he, ?_⟩
  cases hd : e.2 with
  | nil => rfl
  | cons d ds =>
    exfalso
    have hdm : d ∈ e.2 := by rw [hd]; exact List.mem_cons_self ..
    obtain ⟨e', he', hk⟩ := List.mem_map.mp (h.depsInKeys e he d hdm)
    -- e'.2 ⊆ e.2 without d, hence strictly shorter
    have hsub : e'.2 ⊆ e.2.erase d := by
      intro x hx
      have hxe : x ∈ e.2 := h.trans e he d hdm e' he' hk x hx
      have hxd : x ≠ d := fun hxd => h.irrefl e' he' (by rw [hk, ← hxd]; exact hx)
      exact (List.mem_erase_of_ne hxd).mpr hxe
    have hlen := List.Nodup.length_le_of_subset (h.depsNodup e' he') hsub
    rw [List.length_erase] at hlen
    simp only [hdm, if_true] at hlen
    have := hmin e' he'
    have hpos : 0 < e.2.length := by rw [hd]; simp
    omega

theorem mem_popNext_table {table table' : List (String × List String)} {n : String}
    (h : popNext table = some (n, table')) {x : String × List String} (hx : x ∈ table') :
    ∃ y ∈ table, y.1 ≠ n ∧ x = (y.1, y.2.filter fun d => d != n) := by
  unfold popNext at h
  cases hf : table.find? (fun e => e.2.isEmpty) with
  | none => rw [hf] at h; cases h
  | some e =>
    rw [hf] at h
    simp only [Option.some.injEq, Prod.mk.injEq] at h
    rw [← h.2] at hx
    obtain ⟨y, hy, rfl⟩ := List.mem_map.mp hx
    have := List.mem_filter.mp hy
    exact ⟨y, this.1, by simpa [h.1] using this.2, by rw [h.1]⟩

theorem popNext_keys {table table' : List (String × List String)} {n : String}
    (h : popNext table = some (n, table')) : table'.map (·.1) = (table.map (·.1)).filter (· != n) := by
  unfold popNext at h
  cases hf : table.find? (fun e => e.2.isEmpty) with
  | none => rw [hf] at h; cases h
  | some e =>
    rw [hf] at h
    simp only [Option.some.injEq, Prod.mk.injEq] at h
    rw [← h.2, ← h.1]
    simp only [List.map_map, Function.comp_def, List.filter_map]

/-- striking an emitted class keeps the table closed -/
theorem ClosedTable.popNext {table table' : List (String × List String)} {n : String} (h : ClosedTable table)
    (hp : popNext table = some (n, table')) : ClosedTable table' := by
  have hk := popNext_keys hp
  constructor
  · rw [hk]; exact h.keysNodup.filter _
  · intro x hx
    obtain ⟨y, hy, _, rfl⟩ := mem_popNext_table hp hx
    exact (h.depsNodup y hy).filter _
  · intro x hx d hd
    obtain ⟨y, hy, _, rfl⟩ := mem_popNext_table hp hx
    have hd' := List.mem_filter.mp hd
    rw [hk]
    exact List.mem_filter.mpr ⟨h.depsInKeys y hy d hd'.1, hd'.2⟩
  · intro x hx
    obtain ⟨y, hy, _, rfl⟩ := mem_popNext_table hp hx
    intro hmem
    exact h.irrefl y hy (List.mem_filter.mp hmem).1
  · intro x hx d hd x' hx' hk' z hz
    obtain ⟨y, hy, _, rfl⟩ := mem_popNext_table hp hx
    obtain ⟨y', hy', _, rfl⟩ := mem_popNext_table hp hx'
    have hd' := List.mem_filter.mp hd
    have hz' := List.mem_filter.mp hz
    exact List.mem_filter.mpr ⟨h.trans y hy d hd'.1 y' hy' hk' z hz'.1, hz'.2⟩

theorem popNext_some_of_ready {table : List (String × List String)} (h : ∃ e ∈ table, e.2 = []) :
    ∃ n table', popNext table = some (n, table') := by
  obtain ⟨e, he, hemp⟩ := h
  unfold popNext
  cases hf : table.find? (fun e => e.2.isEmpty) with
  | none =>
    have := List.find?_eq_none.mp hf e he
    simp [hemp] at this
  | some x => exact ⟨_, _, rfl⟩

theorem popNext_length {table table' : List (String × List String)} {n : String} (h : ClosedTable table)
    (hp : popNext table = some (n, table')) : table'.length + 1 = table.length := by
  have hk := congrArg List.length (popNext_keys hp)
  simp only [List.length_map] at hk
  rw [hk]
  -- exactly one key equals n
  have hn : n ∈ table.map (·.1) := by
    unfold Statham.popNext at hp
    cases hf : table.find? (fun e => e.2.isEmpty) with
    | none => rw [hf] at hp; cases hp
    | some e =>
      rw [hf] at hp
      simp only [Option.some.injEq, Prod.mk.injEq] at hp
      rw [← hp.1]
      exact List.mem_map.mpr ⟨e, List.mem_of_find?_eq_some hf, rfl⟩
  have := filter_ne_length _ n hn h.keysNodup
  simpa using this

/-- **Completeness of the emission loop**: on a closed table, with at least as much fuel as entries, every class is
    emitted and nothing is left over. -/
theorem emitAll_complete : ∀ (fuel : Nat) (table : List (String × List String)), ClosedTable table →
    table.length ≤ fuel → (emitAll fuel table).2 = [] ∧ (emitAll fuel table).1.length = table.length
  | 0, table, _, hlen => by
    have : table = [] := List.length_eq_zero_iff.mp (Nat.le_zero.mp hlen)
    subst this; simp [emitAll]
  | fuel + 1, table, h, hlen => by
    by_cases hne : table = []
    · subst hne
      simp [emitAll, popNext]
    · obtain ⟨n, table', hp⟩ := popNext_some_of_ready (h.exists_ready hne)
      have hl := popNext_length h hp
      have ih := emitAll_complete fuel table' (h.popNext hp) (by omega)
      unfold emitAll
      rw [hp]
      simp only [List.length_cons]
      exact ⟨ih.1, by omega⟩

end Statham
